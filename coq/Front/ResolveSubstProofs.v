(* Front/ResolveSubstProofs.v -- substitution of value references lifted to whole definitions / modules (C12).

   Contents
     1. helpers: named versions of the nested list loops of resolve_ty, an induction principle for [ty]
     2. the resolver depends on (scope, model) only through two lookups (value_reference, and the "ENUMERATED view" of
        definition): resolve_*_ext
     3. the abstraction relation abs_ty / abs_asn / abs_model ("t' is t with some literals replaced by references
        that the lookup binds to exactly those literals") and the substitution theorems subst_ty .. subst_all
     4. error lifting: ty_site (a use site whose reference cannot be resolved / has the wrong kind) -> no model
     5. load order: Permutation of the scope under a uniqueness condition on import targets
     6. the substitution as a function (lit_ty / lit_model / lit_scope): always an instance of the relation, and
        complete (no reference is left when the module resolves)                                                *)
From Coq Require Import Permutation ZifyBool ZifyNat ZifyN.
From A1 Require Import Front.Resolve Front.ResolveProofs.
Local Open Scope N_scope.

(* ------------------------------------------------------------------------------------------------------------ *)
(* 1. helpers                                                                                                     *)
(* ------------------------------------------------------------------------------------------------------------ *)

Definition lookup_map {A B} (f : A -> B) (l : lookup A) : lookup B :=
  match l with Found a => Found (f a) | NotFound => NotFound | Diverges => Diverges end.

(* what resolve_default looks at in a definition: is it an ENUMERATED, and which items *)
Definition enum_items {S R C} (a : asn S R C) : option (list (str * option N)) :=
  match a with
  | (_, TEnumerated variants _, _) => Some variants
  | _ => None
  end.

(* the name a type refers to, if it is a reference (same notion for resolved and unresolved types) *)
Definition ref_name {S R C} (t : ty S R C) : option str :=
  match t with TRef referenced _ => Some referenced | _ => None end.

Lemma rbind_ok : forall {A B} (r : rres A) (f : A -> rres B) b,
  rbind r f = ROk b -> exists a, r = ROk a /\ f a = ROk b.
Proof. intros A B r f b H. destruct r as [a| |]; try discriminate. exists a. split; [reflexivity | exact H]. Qed.

Lemma rbind_not_ok : forall {A B} (r : rres A) (f : A -> rres B),
  (forall a, r <> ROk a) -> forall b, rbind r f <> ROk b.
Proof. intros A B r f Hr b H. apply rbind_ok in H. destruct H as [a [Ha _]]. exact (Hr a Ha). Qed.

Section Named.
  Variable scope : list umodel.
  Variable model : umodel.

  (* the loops of resolve_ty over component lists / alternative lists *)
  Definition resolve_fields : list ufield -> rres (list (rfield)) :=
    fix go (l : list ufield) : rres (list rfield) :=
      match l with
      | [] => ROk []
      | (n, (tag, t0, d)) :: r =>
          let^ t0' := resolve_ty scope model t0 in
          let^ d' := resolve_default scope model t0' d in
          let^ r' := go r in
          ROk ((n, (tag, t0', d')) :: r')
      end.

  Definition resolve_variants : list (str * option atag * uty) -> rres (list (str * option atag * rty)) :=
    fix go (l : list (str * option atag * uty)) : rres (list (str * option atag * rty)) :=
      match l with
      | [] => ROk []
      | (n, tag, t0) :: r =>
          let^ t0' := resolve_ty scope model t0 in
          let^ r' := go r in
          ROk ((n, tag, t0') :: r')
      end.

  Lemma resolve_ty_sequence : forall fs e,
    resolve_ty scope model (TSequence fs e) = let^ fs' := resolve_fields fs in ROk (TSequence fs' e).
  Proof. reflexivity. Qed.

  Lemma resolve_ty_set : forall fs e,
    resolve_ty scope model (TSet fs e) = let^ fs' := resolve_fields fs in ROk (TSet fs' e).
  Proof. reflexivity. Qed.

  Lemma resolve_ty_choice : forall vs e,
    resolve_ty scope model (TChoice vs e) = let^ vs' := resolve_variants vs in ROk (TChoice vs' e).
  Proof. reflexivity. Qed.

  Lemma resolve_fields_cons : forall n tag t0 d r,
    resolve_fields ((n, (tag, t0, d)) :: r) =
      let^ t0' := resolve_ty scope model t0 in
      let^ d' := resolve_default scope model t0' d in
      let^ r' := resolve_fields r in
      ROk ((n, (tag, t0', d')) :: r').
  Proof. reflexivity. Qed.

  Lemma resolve_variants_cons : forall n tag t0 r,
    resolve_variants ((n, tag, t0) :: r) =
      let^ t0' := resolve_ty scope model t0 in
      let^ r' := resolve_variants r in
      ROk ((n, tag, t0') :: r').
  Proof. reflexivity. Qed.

  (* resolving keeps the head constructor; all that is needed: a resolved type is a reference iff the type was *)
  Lemma resolve_ty_ref_name : forall t t', resolve_ty scope model t = ROk t' -> ref_name t' = ref_name t.
  Proof.
    intros t t' H.
    destruct t as [ |[[lo hi] e] c|s c|s|s c| |i|i l|fs e|i s|fs e|i s|v e|vs e|n tg].
    all: try rewrite resolve_ty_sequence in H; try rewrite resolve_ty_set in H; try rewrite resolve_ty_choice in H.
    all: cbn [resolve_ty] in H.
    all: repeat (let a := fresh "a" in let Ha := fresh "Ha" in
                 apply rbind_ok in H; destruct H as [a [Ha H]]).
    all: inversion H; reflexivity.
  Qed.

  (* resolve_default, written with the two views *)
  Lemma resolve_default_view : forall t name,
    resolve_default scope model t (Some (Ref name)) =
      let fallback := let^ l := resolve_literal scope model (Ref name) in ROk (Some l) in
      match ref_name t with
      | None => fallback
      | Some referenced =>
          match lookup_map enum_items (definition scope (lookup_fuel scope) model referenced) with
          | Found (Some variants) =>
              match find (fun v => str_eqb name (fst v)) variants with
              | Some v => ROk (Some (LEnumVariant referenced (fst v)))
              | None => fallback
              end
          | Found None => fallback
          | NotFound => fallback
          | Diverges => RDiverge
          end
      end.
  Proof.
    intros t name. destruct t; try reflexivity.
    cbn [resolve_default ref_name].
    destruct (definition scope (lookup_fuel scope) model name0) as [[[tg0 t0] d0]| |]; try reflexivity.
    destruct t0; reflexivity.
  Qed.
End Named.

(* induction over [ty] with the nested lists *)
Section TyInd.
  Variables S R C : Type.
  Variable P : ty S R C -> Prop.
  Hypothesis HBoolean : P TBoolean.
  Hypothesis HInteger : forall r c, P (TInteger r c).
  Hypothesis HString : forall s c, P (TString s c).
  Hypothesis HOctetString : forall s, P (TOctetString s).
  Hypothesis HBitString : forall s c, P (TBitString s c).
  Hypothesis HNull : P TNull.
  Hypothesis HOptional : forall t, P t -> P (TOptional t).
  Hypothesis HDefault : forall t l, P t -> P (TDefault t l).
  Hypothesis HSequence : forall fs e, Forall (fun f => P (snd (fst (snd f)))) fs -> P (TSequence fs e).
  Hypothesis HSequenceOf : forall t s, P t -> P (TSequenceOf t s).
  Hypothesis HSet : forall fs e, Forall (fun f => P (snd (fst (snd f)))) fs -> P (TSet fs e).
  Hypothesis HSetOf : forall t s, P t -> P (TSetOf t s).
  Hypothesis HEnumerated : forall v e, P (TEnumerated v e).
  Hypothesis HChoice : forall vs e, Forall (fun v => P (snd v)) vs -> P (TChoice vs e).
  Hypothesis HRef : forall n tg, P (TRef n tg).

  Fixpoint ty_nested_ind (t : ty S R C) : P t :=
    match t with
    | TBoolean => HBoolean
    | TInteger r c => HInteger r c
    | TString s c => HString s c
    | TOctetString s => HOctetString s
    | TBitString s c => HBitString s c
    | TNull => HNull
    | TOptional i => HOptional i (ty_nested_ind i)
    | TDefault i l => HDefault i l (ty_nested_ind i)
    | TSequence fs e =>
        HSequence fs e
          ((fix go (l : list (str * (option atag * ty S R C * option C))) : Forall (fun f => P (snd (fst (snd f)))) l :=
              match l with
              | [] => Forall_nil _
              | (n, (tag, t0, d)) :: r => Forall_cons (n, (tag, t0, d)) (ty_nested_ind t0) (go r)
              end) fs)
    | TSequenceOf i s => HSequenceOf i s (ty_nested_ind i)
    | TSet fs e =>
        HSet fs e
          ((fix go (l : list (str * (option atag * ty S R C * option C))) : Forall (fun f => P (snd (fst (snd f)))) l :=
              match l with
              | [] => Forall_nil _
              | (n, (tag, t0, d)) :: r => Forall_cons (n, (tag, t0, d)) (ty_nested_ind t0) (go r)
              end) fs)
    | TSetOf i s => HSetOf i s (ty_nested_ind i)
    | TEnumerated v e => HEnumerated v e
    | TChoice vs e =>
        HChoice vs e
          ((fix go (l : list (str * option atag * ty S R C)) : Forall (fun v => P (snd v)) l :=
              match l with
              | [] => Forall_nil _
              | (n, tag, t0) :: r => Forall_cons (n, tag, t0) (ty_nested_ind t0) (go r)
              end) vs)
    | TRef n tg => HRef n tg
    end.
End TyInd.

(* ------------------------------------------------------------------------------------------------------------ *)
(* 2. the resolver sees (scope, model) only through the two lookups                                               *)
(* ------------------------------------------------------------------------------------------------------------ *)

Definition lookups_agree (Ms1 : list umodel) (M1 : umodel) (Ms2 : list umodel) (M2 : umodel) : Prop :=
  (forall name, value_reference Ms1 (lookup_fuel Ms1) M1 name = value_reference Ms2 (lookup_fuel Ms2) M2 name) /\
  (forall name, lookup_map enum_items (definition Ms1 (lookup_fuel Ms1) M1 name)
              = lookup_map enum_items (definition Ms2 (lookup_fuel Ms2) M2 name)).

Section Ext.
  Variables (Ms1 : list umodel) (M1 : umodel) (Ms2 : list umodel) (M2 : umodel).
  Hypothesis Hagree : lookups_agree Ms1 M1 Ms2 M2.

  Lemma resolve_usize_ext : forall l, resolve_usize Ms1 M1 l = resolve_usize Ms2 M2 l.
  Proof. intros [n|name]; [reflexivity|]. unfold resolve_usize. rewrite (proj1 Hagree name). reflexivity. Qed.

  Lemma resolve_i64_ext : forall l, resolve_i64 Ms1 M1 l = resolve_i64 Ms2 M2 l.
  Proof. intros [n|name]; [reflexivity|]. unfold resolve_i64. rewrite (proj1 Hagree name). reflexivity. Qed.

  Lemma resolve_literal_ext : forall l, resolve_literal Ms1 M1 l = resolve_literal Ms2 M2 l.
  Proof. intros [n|name]; [reflexivity|]. unfold resolve_literal. rewrite (proj1 Hagree name). reflexivity. Qed.

  Lemma resolve_opt_i64_ext : forall o, resolve_opt_i64 Ms1 M1 o = resolve_opt_i64 Ms2 M2 o.
  Proof. intros [l|]; [|reflexivity]. unfold resolve_opt_i64. rewrite resolve_i64_ext. reflexivity. Qed.

  Lemma resolve_size_ext : forall s, resolve_size Ms1 M1 s = resolve_size Ms2 M2 s.
  Proof.
    intros [|n e|lo hi e]; unfold resolve_size; [reflexivity| |]; repeat rewrite resolve_usize_ext; reflexivity.
  Qed.

  Lemma resolve_default_ext : forall t d, resolve_default Ms1 M1 t d = resolve_default Ms2 M2 t d.
  Proof.
    intros t [[l|name]|]; try reflexivity.
    rewrite !resolve_default_view. rewrite resolve_literal_ext.
    destruct (ref_name t) as [referenced|]; [|reflexivity].
    rewrite (proj2 Hagree referenced). reflexivity.
  Qed.

  Lemma resolve_ty_ext : forall t, resolve_ty Ms1 M1 t = resolve_ty Ms2 M2 t.
  Proof.
    induction t as [ |[[lo hi] e] c|s c|s|s c| |i IH|i l IH|fs e IH|i s IH|fs e IH|i s IH|v e|vs e IH|n tg]
      using ty_nested_ind.
    all: try rewrite !resolve_ty_sequence; try rewrite !resolve_ty_set; try rewrite !resolve_ty_choice.
    all: try (cbn [resolve_ty]; repeat rewrite resolve_opt_i64_ext; repeat rewrite resolve_size_ext;
              try rewrite IH; reflexivity).
    - assert (E : resolve_fields Ms1 M1 fs = resolve_fields Ms2 M2 fs).
      { induction IH as [|[n [[tag t0] d]] r Hx _ IHr]; [reflexivity|].
        rewrite !resolve_fields_cons. cbn [snd fst] in Hx. rewrite Hx, IHr.
        destruct (resolve_ty Ms2 M2 t0) as [t0'| |]; [|reflexivity|reflexivity].
        cbn [rbind]. rewrite resolve_default_ext. reflexivity. }
      rewrite E. reflexivity.
    - assert (E : resolve_fields Ms1 M1 fs = resolve_fields Ms2 M2 fs).
      { induction IH as [|[n [[tag t0] d]] r Hx _ IHr]; [reflexivity|].
        rewrite !resolve_fields_cons. cbn [snd fst] in Hx. rewrite Hx, IHr.
        destruct (resolve_ty Ms2 M2 t0) as [t0'| |]; [|reflexivity|reflexivity].
        cbn [rbind]. rewrite resolve_default_ext. reflexivity. }
      rewrite E. reflexivity.
    - assert (E : resolve_variants Ms1 M1 vs = resolve_variants Ms2 M2 vs).
      { induction IH as [|[[n tag] t0] r Hx _ IHr]; [reflexivity|].
        rewrite !resolve_variants_cons. cbn [snd] in Hx. rewrite Hx, IHr. reflexivity. }
      rewrite E. reflexivity.
  Qed.

  Lemma resolve_asn_ext : forall a, resolve_asn Ms1 M1 a = resolve_asn Ms2 M2 a.
  Proof.
    intros [[tag t] d]. unfold resolve_asn. rewrite resolve_ty_ext.
    destruct (resolve_ty Ms2 M2 t) as [t'| |]; [|reflexivity|reflexivity].
    cbn [rbind]. rewrite resolve_default_ext. reflexivity.
  Qed.

  Lemma resolve_values_ext : forall l, resolve_values Ms1 M1 l = resolve_values Ms2 M2 l.
  Proof.
    induction l as [|[[n a] v] r IH]; [reflexivity|]. cbn [resolve_values]. rewrite resolve_asn_ext, IH. reflexivity.
  Qed.

  Lemma resolve_definitions_ext : forall l, resolve_definitions Ms1 M1 l = resolve_definitions Ms2 M2 l.
  Proof.
    induction l as [|[n a] r IH]; [reflexivity|]. cbn [resolve_definitions]. rewrite resolve_asn_ext, IH. reflexivity.
  Qed.
End Ext.

(* same module, another scope with the same lookups *)
Lemma resolve_model_ext : forall Ms1 Ms2 M, lookups_agree Ms1 M Ms2 M -> resolve_model Ms1 M = resolve_model Ms2 M.
Proof.
  intros Ms1 Ms2 M H. unfold resolve_model.
  rewrite (resolve_values_ext _ _ _ _ H), (resolve_definitions_ext _ _ _ _ H). reflexivity.
Qed.

(* ------------------------------------------------------------------------------------------------------------ *)
(* 3. abstraction of literals by value references                                                                 *)
(* ------------------------------------------------------------------------------------------------------------ *)

(* [abs_ty Ms M t t']: t' is t where some INTEGER range bounds, SIZE bounds and DEFAULT values that are literals in t
   are references in t', each reference being bound -- by the lookup of the scope (Ms, M): locally or through
   IMPORTS, by OID or by name, whatever [value_reference] does -- to exactly the literal it replaces.  Read from right
   to left: t is t' with (some) references replaced by their literals. *)
Section Abs.
  Variable Ms : list umodel.
  Variable M : umodel.

  Definition vref (name : str) : lookup literal := value_reference Ms (lookup_fuel Ms) M name.

  (* INTEGER (lo..hi) bounds *)
  Inductive abs_i64 : lit_or_ref Z -> lit_or_ref Z -> Prop :=
  | abs_i64_same : forall x, abs_i64 x x
  | abs_i64_ref : forall v name, vref name = Found (LInteger v) -> abs_i64 (Lit v) (Ref name).

  Inductive abs_opt_i64 : option (lit_or_ref Z) -> option (lit_or_ref Z) -> Prop :=
  | abs_opt_none : abs_opt_i64 None None
  | abs_opt_some : forall x y, abs_i64 x y -> abs_opt_i64 (Some x) (Some y).

  (* SIZE bounds: the value has to be a size *)
  Inductive abs_usize : lit_or_ref N -> lit_or_ref N -> Prop :=
  | abs_usize_same : forall x, abs_usize x x
  | abs_usize_ref : forall v name,
      vref name = Found (LInteger v) -> (0 <= v)%Z -> abs_usize (Lit (Z.to_N v)) (Ref name).

  Inductive abs_size : size (lit_or_ref N) -> size (lit_or_ref N) -> Prop :=
  | abs_SAny : abs_size SAny SAny
  | abs_SFix : forall n n' e, abs_usize n n' -> abs_size (SFix n e) (SFix n' e)
  | abs_SRange : forall lo lo' hi hi' e, abs_usize lo lo' -> abs_usize hi hi' -> abs_size (SRange lo hi e) (SRange lo' hi' e).

  (* The one place where a reference is NOT read as a value reference (finding F12): the DEFAULT of a component whose
     type is a reference `referenced` such that the lookup of the *definition* `referenced`
       - finds an ENUMERATED type with an item called like the reference (then the DEFAULT is that item), or
       - does not return (cyclic IMPORTS: then resolving does not return either).                                *)
  Definition default_exception (t : uty) (name : str) : bool :=
    match ref_name t with
    | None => false
    | Some referenced =>
        match definition Ms (lookup_fuel Ms) M referenced with
        | Found a =>
            match enum_items a with
            | Some variants => match find (fun v => str_eqb name (fst v)) variants with Some _ => true | None => false end
            | None => false
            end
        | NotFound => false
        | Diverges => true
        end
    end.

  (* DEFAULT values, of a component / definition of type t *)
  Inductive abs_default (t : uty) : option (lit_or_ref literal) -> option (lit_or_ref literal) -> Prop :=
  | abs_default_same : forall d, abs_default t d d
  | abs_default_ref : forall l name,
      vref name = Found l -> default_exception t name = false -> abs_default t (Some (Lit l)) (Some (Ref name)).

  Inductive abs_ty : uty -> uty -> Prop :=
  | abs_same : forall t, abs_ty t t
  | abs_Integer : forall lo lo' hi hi' e c,
      abs_opt_i64 lo lo' -> abs_opt_i64 hi hi' -> abs_ty (TInteger (lo, hi, e) c) (TInteger (lo', hi', e) c)
  | abs_String : forall s s' c, abs_size s s' -> abs_ty (TString s c) (TString s' c)
  | abs_OctetString : forall s s', abs_size s s' -> abs_ty (TOctetString s) (TOctetString s')
  | abs_BitString : forall s s' c, abs_size s s' -> abs_ty (TBitString s c) (TBitString s' c)
  | abs_Optional : forall i i', abs_ty i i' -> abs_ty (TOptional i) (TOptional i')
  | abs_Default : forall i i' l, abs_ty i i' -> abs_ty (TDefault i l) (TDefault i' l)
  | abs_Sequence : forall fs fs' e, abs_fields fs fs' -> abs_ty (TSequence fs e) (TSequence fs' e)
  | abs_SequenceOf : forall i i' s s', abs_ty i i' -> abs_size s s' -> abs_ty (TSequenceOf i s) (TSequenceOf i' s')
  | abs_Set : forall fs fs' e, abs_fields fs fs' -> abs_ty (TSet fs e) (TSet fs' e)
  | abs_SetOf : forall i i' s s', abs_ty i i' -> abs_size s s' -> abs_ty (TSetOf i s) (TSetOf i' s')
  | abs_Choice : forall vs vs' e, abs_variants vs vs' -> abs_ty (TChoice vs e) (TChoice vs' e)
  with abs_fields : list ufield -> list ufield -> Prop :=
  | abs_fields_nil : abs_fields [] []
  | abs_fields_cons : forall n tag t t' d d' r r',
      abs_ty t t' -> abs_default t d d' -> abs_fields r r' ->
      abs_fields ((n, (tag, t, d)) :: r) ((n, (tag, t', d')) :: r')
  with abs_variants : list (str * option atag * uty) -> list (str * option atag * uty) -> Prop :=
  | abs_variants_nil : abs_variants [] []
  | abs_variants_cons : forall n tag t t' r r',
      abs_ty t t' -> abs_variants r r' -> abs_variants ((n, tag, t) :: r) ((n, tag, t') :: r').

  Scheme abs_ty_mut := Minimality for abs_ty Sort Prop
    with abs_fields_mut := Minimality for abs_fields Sort Prop
    with abs_variants_mut := Minimality for abs_variants Sort Prop.
  Combined Scheme abs_mutind from abs_ty_mut, abs_fields_mut, abs_variants_mut.

  Inductive abs_asn : uasn -> uasn -> Prop :=
  | abs_asn_intro : forall tag t t' d d', abs_ty t t' -> abs_default t d d' -> abs_asn (tag, t, d) (tag, t', d').

  Inductive abs_value : str * uasn * literal -> str * uasn * literal -> Prop :=
  | abs_value_intro : forall n a a' v, abs_asn a a' -> abs_value (n, a, v) (n, a', v).

  Inductive abs_def : str * uasn -> str * uasn -> Prop :=
  | abs_def_intro : forall n a a', abs_asn a a' -> abs_def (n, a) (n, a').

  (* M' is M with some literals of its definitions (and of the types of its value assignments) abstracted; header,
     IMPORTS, the names and the values of the value assignments are the same *)
  Inductive abs_model (M' : umodel) : Prop :=
  | abs_model_intro :
      m_name M' = m_name M -> m_oid M' = m_oid M -> m_imports M' = m_imports M ->
      Forall2 abs_value (m_value_references M) (m_value_references M') ->
      Forall2 abs_def (m_definitions M) (m_definitions M') ->
      abs_model M'.

  (* ---- leaves ---- *)
  Lemma subst_i64' : forall x y, abs_i64 x y -> resolve_i64 Ms M y = resolve_i64 Ms M x.
  Proof. intros x y [z|v name Hv]; [reflexivity|]. apply subst_i64. exact Hv. Qed.

  Lemma subst_opt_i64 : forall x y, abs_opt_i64 x y -> resolve_opt_i64 Ms M y = resolve_opt_i64 Ms M x.
  Proof. intros x y [|a b Hab]; [reflexivity|]. unfold resolve_opt_i64. rewrite (subst_i64' _ _ Hab). reflexivity. Qed.

  Lemma subst_usize' : forall x y, abs_usize x y -> resolve_usize Ms M y = resolve_usize Ms M x.
  Proof. intros x y [z|v name Hv Hpos]; [reflexivity|]. apply subst_usize; assumption. Qed.

  Lemma subst_size : forall s s', abs_size s s' -> resolve_size Ms M s' = resolve_size Ms M s.
  Proof.
    intros s s' [|n n' e Hn|lo lo' hi hi' e Hlo Hhi]; [reflexivity| |]; unfold resolve_size.
    - rewrite (subst_usize' _ _ Hn). reflexivity.
    - rewrite (subst_usize' _ _ Hlo), (subst_usize' _ _ Hhi). reflexivity.
  Qed.

  Lemma subst_default' : forall t t0 d d',
    abs_default t d d' -> resolve_ty Ms M t = ROk t0 ->
    resolve_default Ms M t0 d' = resolve_default Ms M t0 d.
  Proof.
    intros t t0 d d' [d0|l name Hv Hex] Ht; [reflexivity|].
    rewrite resolve_default_view. rewrite (resolve_ty_ref_name _ _ _ _ Ht).
    unfold default_exception in Hex. unfold resolve_literal. fold (vref name). rewrite Hv.
    cbn [resolve_default rbind].
    destruct (ref_name t) as [referenced|]; [|reflexivity].
    destruct (definition Ms (lookup_fuel Ms) M referenced) as [a| |]; cbn [lookup_map]; try reflexivity; try discriminate.
    destruct (enum_items a) as [variants|]; [|reflexivity].
    destruct (find (fun v => str_eqb name (fst v)) variants); [discriminate|reflexivity].
  Qed.

  (* ---- types ---- *)
  Lemma subst_ty_mut :
    (forall t t', abs_ty t t' -> resolve_ty Ms M t' = resolve_ty Ms M t) /\
    (forall fs fs', abs_fields fs fs' -> resolve_fields Ms M fs' = resolve_fields Ms M fs) /\
    (forall vs vs', abs_variants vs vs' -> resolve_variants Ms M vs' = resolve_variants Ms M vs).
  Proof.
    apply abs_mutind.
    - reflexivity.
    - intros lo lo' hi hi' e c Hlo Hhi. cbn [resolve_ty].
      rewrite (subst_opt_i64 _ _ Hlo), (subst_opt_i64 _ _ Hhi). reflexivity.
    - intros s s' c Hs. cbn [resolve_ty]. rewrite (subst_size _ _ Hs). reflexivity.
    - intros s s' Hs. cbn [resolve_ty]. rewrite (subst_size _ _ Hs). reflexivity.
    - intros s s' c Hs. cbn [resolve_ty]. rewrite (subst_size _ _ Hs). reflexivity.
    - intros i i' _ IH. cbn [resolve_ty]. rewrite IH. reflexivity.
    - intros i i' l _ IH. cbn [resolve_ty]. rewrite IH. reflexivity.
    - intros fs fs' e _ IH. rewrite !resolve_ty_sequence, IH. reflexivity.
    - intros i i' s s' _ IH Hs. cbn [resolve_ty]. rewrite IH, (subst_size _ _ Hs). reflexivity.
    - intros fs fs' e _ IH. rewrite !resolve_ty_set, IH. reflexivity.
    - intros i i' s s' _ IH Hs. cbn [resolve_ty]. rewrite IH, (subst_size _ _ Hs). reflexivity.
    - intros vs vs' e _ IH. rewrite !resolve_ty_choice, IH. reflexivity.
    - reflexivity.
    - intros n tag t t' d d' r r' _ IHt Hd _ IHr. rewrite !resolve_fields_cons, IHt, IHr.
      destruct (resolve_ty Ms M t) as [t0| |] eqn:Et; [|reflexivity|reflexivity].
      cbn [rbind]. rewrite (subst_default' _ _ _ _ Hd Et). reflexivity.
    - reflexivity.
    - intros n tag t t' r r' _ IHt _ IHr. rewrite !resolve_variants_cons, IHt, IHr. reflexivity.
  Qed.

  Theorem subst_ty : forall t t', abs_ty t t' -> resolve_ty Ms M t' = resolve_ty Ms M t.
  Proof. exact (proj1 subst_ty_mut). Qed.

  Theorem subst_asn : forall a a', abs_asn a a' -> resolve_asn Ms M a' = resolve_asn Ms M a.
  Proof.
    intros a a' [tag t t' d d' Ht Hd]. unfold resolve_asn. rewrite (subst_ty _ _ Ht).
    destruct (resolve_ty Ms M t) as [t0| |] eqn:Et; [|reflexivity|reflexivity].
    cbn [rbind]. rewrite (subst_default' _ _ _ _ Hd Et). reflexivity.
  Qed.

  Theorem subst_values : forall l l', Forall2 abs_value l l' -> resolve_values Ms M l' = resolve_values Ms M l.
  Proof.
    intros l l' H. induction H as [|x y r r' Hxy _ IH]; [reflexivity|].
    destruct Hxy as [n a a' v Ha]. cbn [resolve_values]. rewrite (subst_asn _ _ Ha), IH. reflexivity.
  Qed.

  Theorem subst_definitions : forall l l',
    Forall2 abs_def l l' -> resolve_definitions Ms M l' = resolve_definitions Ms M l.
  Proof.
    intros l l' H. induction H as [|x y r r' Hxy _ IH]; [reflexivity|].
    destruct Hxy as [n a a' Ha]. cbn [resolve_definitions]. rewrite (subst_asn _ _ Ha), IH. reflexivity.
  Qed.

  (* the abstraction does not touch what the lookups look at *)
  Lemma abs_ty_enum_items : forall tag tag' d d' t t', abs_ty t t' -> enum_items (tag, t, d) = enum_items (tag', t', d').
  Proof. intros tag tag' d d' t t' H. destruct H; reflexivity. Qed.

  Lemma abs_model_refl : abs_model M.
  Proof.
    assert (Hv : forall l, Forall2 abs_value l l).
    { induction l as [|[[n [[tag t] d]] v] r IH]; constructor; [|exact IH].
      constructor. constructor; [apply abs_same | apply abs_default_same]. }
    assert (Hd : forall l, Forall2 abs_def l l).
    { induction l as [|[n [[tag t] d]] r IH]; constructor; [|exact IH].
      constructor. constructor; [apply abs_same | apply abs_default_same]. }
    constructor; auto.
  Qed.
End Abs.

(* ---- whole scope: every module of the scope may be abstracted ---- *)

(* what the lookups inspect of a module: header, IMPORTS, names and values of the value assignments, names and
   "ENUMERATED view" of the definitions *)
Definition sim_value (x y : str * uasn * literal) : Prop := fst (fst x) = fst (fst y) /\ snd x = snd y.
Definition sim_def (x y : str * uasn) : Prop := fst x = fst y /\ enum_items (snd x) = enum_items (snd y).

Record sim_model (A B : umodel) : Prop := {
  sim_name : m_name A = m_name B;
  sim_oid : m_oid A = m_oid B;
  sim_imports : m_imports A = m_imports B;
  sim_values : Forall2 sim_value (m_value_references A) (m_value_references B);
  sim_defs : Forall2 sim_def (m_definitions A) (m_definitions B)
}.

Lemma Forall2_mono : forall {A B} (R1 R2 : A -> B -> Prop),
  (forall a b, R1 a b -> R2 a b) -> forall l l', Forall2 R1 l l' -> Forall2 R2 l l'.
Proof. intros A B R1 R2 H l l' HF. induction HF as [|x y r r' Hxy _ IH]; constructor; auto. Qed.

Lemma Forall2_len : forall {A B} (R : A -> B -> Prop) l l', Forall2 R l l' -> length l = length l'.
Proof. intros A B R l l' HF. induction HF as [|x y r r' _ _ IH]; [reflexivity|]. cbn [length]. rewrite IH. reflexivity. Qed.

Lemma abs_model_sim : forall Ms M M', abs_model Ms M M' -> sim_model M M'.
Proof.
  intros Ms M M' [Hn Ho Hi Hv Hd]. constructor; auto.
  - eapply Forall2_mono; [|exact Hv]. intros a b [n x y v _]. split; reflexivity.
  - eapply Forall2_mono; [|exact Hd]. intros a b [n x y [tag t t' d d' Ht _]]. split; [reflexivity|].
    cbn [snd]. eapply abs_ty_enum_items. exact Ht.
Qed.

Lemma find_Forall2 : forall {A B} (R : A -> B -> Prop) (p : A -> bool) (q : B -> bool) l l',
  Forall2 R l l' -> (forall x y, R x y -> p x = q y) ->
  match find p l, find q l' with
  | Some x, Some y => R x y
  | None, None => True
  | _, _ => False
  end.
Proof.
  intros A B R p q l l' H Hpq. induction H as [|x y r r' Hxy _ IH]; [exact I|].
  cbn [find]. rewrite <- (Hpq x y Hxy). destruct (p x); [exact Hxy | exact IH].
Qed.

Section SimScope.
  Variables Ms Ms' : list umodel.
  Hypothesis HMs : Forall2 sim_model Ms Ms'.

  Lemma sim_imported : forall M M' name, sim_model M M' ->
    match model_with_imported_item Ms M name, model_with_imported_item Ms' M' name with
    | Some a, Some b => sim_model a b
    | None, None => True
    | _, _ => False
    end.
  Proof.
    intros M M' name HM. unfold model_with_imported_item. rewrite <- (sim_imports _ _ HM).
    destruct (find (fun i => existsb (str_eqb name) (i_what i)) (m_imports M)) as [imp|]; [|exact I].
    apply find_Forall2 with (R := sim_model); [exact HMs|].
    intros x y Hxy. rewrite (sim_oid _ _ Hxy), (sim_name _ _ Hxy). reflexivity.
  Qed.

  Lemma sim_value_reference : forall f M M' name, sim_model M M' ->
    value_reference Ms f M name = value_reference Ms' f M' name.
  Proof.
    induction f as [|f IH]; intros M M' name HM; cbn [value_reference].
    all: pose proof (find_Forall2 sim_value (fun vr => str_eqb (fst (fst vr)) name) (fun vr => str_eqb (fst (fst vr)) name)
                       _ _ (sim_values _ _ HM)) as Hf.
    all: pose proof (sim_imported M M' name HM) as Hi.
    all: destruct (find _ (m_value_references M)) as [x|], (find _ (m_value_references M')) as [y|].
    all: try (exfalso; apply Hf; intros a b [Hab _]; rewrite Hab; reflexivity).
    all: try (assert (Hxy : sim_value x y) by (apply Hf; intros a b [Hab _]; rewrite Hab; reflexivity);
              destruct Hxy as [_ Hl]; rewrite Hl; reflexivity).
    all: destruct (model_with_imported_item Ms M name) as [a|], (model_with_imported_item Ms' M' name) as [b|];
      try contradiction; try reflexivity.
    apply IH. exact Hi.
  Qed.

  Lemma sim_definition : forall f M M' name, sim_model M M' ->
    lookup_map enum_items (definition Ms f M name) = lookup_map enum_items (definition Ms' f M' name).
  Proof.
    induction f as [|f IH]; intros M M' name HM; cbn [definition].
    all: pose proof (find_Forall2 sim_def (fun d => str_eqb (fst d) name) (fun d => str_eqb (fst d) name)
                       _ _ (sim_defs _ _ HM)) as Hf.
    all: pose proof (sim_imported M M' name HM) as Hi.
    all: destruct (find _ (m_definitions M)) as [x|], (find _ (m_definitions M')) as [y|].
    all: try (exfalso; apply Hf; intros a b [Hab _]; rewrite Hab; reflexivity).
    all: try (assert (Hxy : sim_def x y) by (apply Hf; intros a b [Hab _]; rewrite Hab; reflexivity);
              destruct Hxy as [_ Hl]; cbn [lookup_map]; rewrite Hl; reflexivity).
    all: destruct (model_with_imported_item Ms M name) as [a|], (model_with_imported_item Ms' M' name) as [b|];
      try contradiction; try reflexivity.
    apply IH. exact Hi.
  Qed.

  Lemma sim_lookups_agree : forall M M', sim_model M M' -> lookups_agree Ms' M' Ms M.
  Proof.
    intros M M' HM. unfold lookups_agree, lookup_fuel. rewrite <- (Forall2_len _ _ _ HMs).
    split; intros name; symmetry; [apply sim_value_reference | apply sim_definition]; exact HM.
  Qed.

  (* the other modules of the scope only have to keep what the lookups inspect *)
  Theorem subst_module_sim : forall M M', abs_model Ms M M' -> resolve_model Ms' M' = resolve_model Ms M.
  Proof.
    intros M M' HM. pose proof (sim_lookups_agree M M' (abs_model_sim _ _ _ HM)) as Hag.
    destruct HM as [Hn Ho Hi Hv Hd]. unfold resolve_model. rewrite Hn, Ho, Hi.
    rewrite (resolve_values_ext _ _ _ _ Hag), (resolve_definitions_ext _ _ _ _ Hag).
    rewrite (subst_values _ _ _ _ Hv), (subst_definitions _ _ _ _ Hd). reflexivity.
  Qed.
End SimScope.

Theorem subst_module : forall Ms Ms' M M',
  Forall2 (abs_model Ms) Ms Ms' -> abs_model Ms M M' -> resolve_model Ms' M' = resolve_model Ms M.
Proof.
  intros Ms Ms' M M' HMs HM. apply subst_module_sim; [|exact HM].
  eapply Forall2_mono; [|exact HMs]. intros a b. apply abs_model_sim.
Qed.

Theorem subst_all : forall Ms Ms', Forall2 (abs_model Ms) Ms Ms' -> resolve_all Ms' = resolve_all Ms.
Proof.
  intros Ms Ms' HMs. unfold resolve_all.
  assert (H : forall l l', Forall2 (abs_model Ms) l l' -> resolve_each Ms' l' = resolve_each Ms l).
  { intros l l' Hl. induction Hl as [|x y r r' Hxy _ IH]; [reflexivity|].
    cbn [resolve_each]. rewrite (subst_module _ _ _ _ HMs Hxy), IH. reflexivity. }
  apply H. exact HMs.
Qed.

(* ------------------------------------------------------------------------------------------------------------ *)
(* 4. error lifting: a bad use site anywhere in a type / definition / module / module set -> no model             *)
(* ------------------------------------------------------------------------------------------------------------ *)

(* [ty_site Pi Pu Pd t]: t contains a reference `name`
     at an INTEGER range bound with Pi name, or at a SIZE bound with Pu name, or as the DEFAULT of a SEQUENCE/SET
     component of (unresolved) type t0 with Pd t0 name *)
Section Sites.
  Variables (Pi Pu : str -> Prop) (Pd : uty -> str -> Prop).

  Inductive size_site : size (lit_or_ref N) -> Prop :=
  | site_SFix : forall name e, Pu name -> size_site (SFix (Ref name) e)
  | site_SRange_lo : forall name hi e, Pu name -> size_site (SRange (Ref name) hi e)
  | site_SRange_hi : forall lo name e, Pu name -> size_site (SRange lo (Ref name) e).

  Inductive ty_site : uty -> Prop :=
  | site_Integer_lo : forall name hi e c, Pi name -> ty_site (TInteger (Some (Ref name), hi, e) c)
  | site_Integer_hi : forall lo name e c, Pi name -> ty_site (TInteger (lo, Some (Ref name), e) c)
  | site_String : forall s c, size_site s -> ty_site (TString s c)
  | site_OctetString : forall s, size_site s -> ty_site (TOctetString s)
  | site_BitString : forall s c, size_site s -> ty_site (TBitString s c)
  | site_Optional : forall i, ty_site i -> ty_site (TOptional i)
  | site_Default : forall i l, ty_site i -> ty_site (TDefault i l)
  | site_Sequence_ty : forall n tag t0 d fs e, In (n, (tag, t0, d)) fs -> ty_site t0 -> ty_site (TSequence fs e)
  | site_Sequence_default : forall n tag t0 name fs e,
      In (n, (tag, t0, Some (Ref name))) fs -> Pd t0 name -> ty_site (TSequence fs e)
  | site_SequenceOf_ty : forall i s, ty_site i -> ty_site (TSequenceOf i s)
  | site_SequenceOf_size : forall i s, size_site s -> ty_site (TSequenceOf i s)
  | site_Set_ty : forall n tag t0 d fs e, In (n, (tag, t0, d)) fs -> ty_site t0 -> ty_site (TSet fs e)
  | site_Set_default : forall n tag t0 name fs e,
      In (n, (tag, t0, Some (Ref name))) fs -> Pd t0 name -> ty_site (TSet fs e)
  | site_SetOf_ty : forall i s, ty_site i -> ty_site (TSetOf i s)
  | site_SetOf_size : forall i s, size_site s -> ty_site (TSetOf i s)
  | site_Choice : forall n tag t0 vs e, In (n, tag, t0) vs -> ty_site t0 -> ty_site (TChoice vs e).

  (* the type and the DEFAULT of a definition / of the type of a value assignment *)
  Inductive asn_site : uasn -> Prop :=
  | site_asn_ty : forall tag t d, ty_site t -> asn_site (tag, t, d)
  | site_asn_default : forall tag t name, Pd t name -> asn_site (tag, t, Some (Ref name)).

  Inductive model_site (M : umodel) : Prop :=
  | site_definition : forall n a, In (n, a) (m_definitions M) -> asn_site a -> model_site M
  | site_value : forall n a v, In (n, a, v) (m_value_references M) -> asn_site a -> model_site M.
End Sites.

Section SiteErrors.
  Variable Ms : list umodel.
  Variable M : umodel.
  Variables (Pi Pu : str -> Prop) (Pd : uty -> str -> Prop).
  Hypothesis HPi : forall name, Pi name -> forall v, resolve_i64 Ms M (Ref name) <> ROk v.
  Hypothesis HPu : forall name, Pu name -> forall v, resolve_usize Ms M (Ref name) <> ROk v.
  Hypothesis HPd : forall t0 t0' name, Pd t0 name -> resolve_ty Ms M t0 = ROk t0' ->
                     forall v, resolve_default Ms M t0' (Some (Ref name)) <> ROk v.

  Lemma size_site_error : forall s, size_site Pu s -> forall r, resolve_size Ms M s <> ROk r.
  Proof.
    intros s [name e Hn|name hi e Hn|lo name e Hn] r H; unfold resolve_size in H.
    - apply rbind_ok in H. destruct H as [a [Ha _]]. exact (HPu _ Hn _ Ha).
    - apply rbind_ok in H. destruct H as [a [Ha _]]. exact (HPu _ Hn _ Ha).
    - apply rbind_ok in H. destruct H as [a [_ H]]. apply rbind_ok in H. destruct H as [b [Hb _]]. exact (HPu _ Hn _ Hb).
  Qed.

  Lemma fields_ty_error : forall n tag t0 d fs,
    In (n, (tag, t0, d)) fs -> (forall r, resolve_ty Ms M t0 <> ROk r) -> forall r, resolve_fields Ms M fs <> ROk r.
  Proof.
    intros n tag t0 d fs Hin Hbad. induction fs as [|[n1 [[tag1 t1] d1]] fs IH]; [destruct Hin|].
    intros r H. rewrite resolve_fields_cons in H.
    apply rbind_ok in H. destruct H as [a [Ha H]]. apply rbind_ok in H. destruct H as [b [Hb H]].
    apply rbind_ok in H. destruct H as [c [Hc _]].
    destruct Hin as [Heq|Hin].
    - inversion Heq; subst. exact (Hbad _ Ha).
    - exact (IH Hin _ Hc).
  Qed.

  Lemma fields_default_error : forall n tag t0 name fs,
    In (n, (tag, t0, Some (Ref name))) fs -> Pd t0 name -> forall r, resolve_fields Ms M fs <> ROk r.
  Proof.
    intros n tag t0 name fs Hin Hbad. induction fs as [|[n1 [[tag1 t1] d1]] fs IH]; [destruct Hin|].
    intros r H. rewrite resolve_fields_cons in H.
    apply rbind_ok in H. destruct H as [a [Ha H]]. apply rbind_ok in H. destruct H as [b [Hb H]].
    apply rbind_ok in H. destruct H as [c [Hc _]].
    destruct Hin as [Heq|Hin].
    - inversion Heq; subst. exact (HPd _ _ _ Hbad Ha _ Hb).
    - exact (IH Hin _ Hc).
  Qed.

  Lemma variants_error : forall n tag t0 vs,
    In (n, tag, t0) vs -> (forall r, resolve_ty Ms M t0 <> ROk r) -> forall r, resolve_variants Ms M vs <> ROk r.
  Proof.
    intros n tag t0 vs Hin Hbad. induction vs as [|[[n1 tag1] t1] vs IH]; [destruct Hin|].
    intros r H. rewrite resolve_variants_cons in H.
    apply rbind_ok in H. destruct H as [a [Ha H]]. apply rbind_ok in H. destruct H as [c [Hc _]].
    destruct Hin as [Heq|Hin].
    - inversion Heq; subst. exact (Hbad _ Ha).
    - exact (IH Hin _ Hc).
  Qed.

  Lemma ty_site_error : forall t, ty_site Pi Pu Pd t -> forall r, resolve_ty Ms M t <> ROk r.
  Proof.
    intros t Hs.
    induction Hs as [name hi e c Hn|lo name e c Hn|s c Hs|s Hs|s c Hs|i _ IH|i l _ IH
                    |n tag t0 d fs e Hin _ IH|n tag t0 name fs e Hin Hn|i s _ IH|i s Hs
                    |n tag t0 d fs e Hin _ IH|n tag t0 name fs e Hin Hn|i s _ IH|i s Hs
                    |n tag t0 vs e Hin _ IH]; intros r H.
    - cbn [resolve_ty] in H. apply rbind_ok in H. destruct H as [a [Ha _]]. unfold resolve_opt_i64 in Ha.
      apply rbind_ok in Ha. destruct Ha as [b [Hb _]]. exact (HPi _ Hn _ Hb).
    - cbn [resolve_ty] in H. apply rbind_ok in H. destruct H as [a [_ H]]. apply rbind_ok in H. destruct H as [b [Hb _]].
      unfold resolve_opt_i64 in Hb. apply rbind_ok in Hb. destruct Hb as [c0 [Hc _]]. exact (HPi _ Hn _ Hc).
    - cbn [resolve_ty] in H. apply rbind_ok in H. destruct H as [a [Ha _]]. exact (size_site_error _ Hs _ Ha).
    - cbn [resolve_ty] in H. apply rbind_ok in H. destruct H as [a [Ha _]]. exact (size_site_error _ Hs _ Ha).
    - cbn [resolve_ty] in H. apply rbind_ok in H. destruct H as [a [Ha _]]. exact (size_site_error _ Hs _ Ha).
    - cbn [resolve_ty] in H. apply rbind_ok in H. destruct H as [a [Ha _]]. exact (IH _ Ha).
    - cbn [resolve_ty] in H. apply rbind_ok in H. destruct H as [a [Ha _]]. exact (IH _ Ha).
    - rewrite resolve_ty_sequence in H. apply rbind_ok in H. destruct H as [a [Ha _]].
      exact (fields_ty_error _ _ _ _ _ Hin IH _ Ha).
    - rewrite resolve_ty_sequence in H. apply rbind_ok in H. destruct H as [a [Ha _]].
      exact (fields_default_error _ _ _ _ _ Hin Hn _ Ha).
    - cbn [resolve_ty] in H. apply rbind_ok in H. destruct H as [a [Ha _]]. exact (IH _ Ha).
    - cbn [resolve_ty] in H. apply rbind_ok in H. destruct H as [a [_ H]]. apply rbind_ok in H. destruct H as [b [Hb _]].
      exact (size_site_error _ Hs _ Hb).
    - rewrite resolve_ty_set in H. apply rbind_ok in H. destruct H as [a [Ha _]].
      exact (fields_ty_error _ _ _ _ _ Hin IH _ Ha).
    - rewrite resolve_ty_set in H. apply rbind_ok in H. destruct H as [a [Ha _]].
      exact (fields_default_error _ _ _ _ _ Hin Hn _ Ha).
    - cbn [resolve_ty] in H. apply rbind_ok in H. destruct H as [a [Ha _]]. exact (IH _ Ha).
    - cbn [resolve_ty] in H. apply rbind_ok in H. destruct H as [a [_ H]]. apply rbind_ok in H. destruct H as [b [Hb _]].
      exact (size_site_error _ Hs _ Hb).
    - rewrite resolve_ty_choice in H. apply rbind_ok in H. destruct H as [a [Ha _]].
      exact (variants_error _ _ _ _ Hin IH _ Ha).
  Qed.

  Lemma asn_site_error : forall a, asn_site Pi Pu Pd a -> forall r, resolve_asn Ms M a <> ROk r.
  Proof.
    intros a [tag t d Ht|tag t name Hn] r H; unfold resolve_asn in H.
    - apply rbind_ok in H. destruct H as [x [Hx _]]. exact (ty_site_error _ Ht _ Hx).
    - apply rbind_ok in H. destruct H as [x [Hx H]]. apply rbind_ok in H. destruct H as [y [Hy _]].
      exact (HPd _ _ _ Hn Hx _ Hy).
  Qed.

  Lemma definitions_error : forall n a l,
    In (n, a) l -> asn_site Pi Pu Pd a -> forall r, resolve_definitions Ms M l <> ROk r.
  Proof.
    intros n a l Hin Ha. induction l as [|[n1 a1] l IH]; [destruct Hin|].
    intros r H. cbn [resolve_definitions] in H.
    apply rbind_ok in H. destruct H as [x [Hx H]]. apply rbind_ok in H. destruct H as [y [Hy _]].
    destruct Hin as [Heq|Hin].
    - inversion Heq; subst. exact (asn_site_error _ Ha _ Hx).
    - exact (IH Hin _ Hy).
  Qed.

  Lemma values_error : forall n a v l,
    In (n, a, v) l -> asn_site Pi Pu Pd a -> forall r, resolve_values Ms M l <> ROk r.
  Proof.
    intros n a v l Hin Ha. induction l as [|[[n1 a1] v1] l IH]; [destruct Hin|].
    intros r H. cbn [resolve_values] in H.
    apply rbind_ok in H. destruct H as [x [Hx H]]. apply rbind_ok in H. destruct H as [y [Hy _]].
    destruct Hin as [Heq|Hin].
    - inversion Heq; subst. exact (asn_site_error _ Ha _ Hx).
    - exact (IH Hin _ Hy).
  Qed.

  Lemma model_site_error : model_site Pi Pu Pd M -> forall r, resolve_model Ms M <> ROk r.
  Proof.
    intros [n a Hin Ha|n a v Hin Ha] r H; unfold resolve_model in H.
    - apply rbind_ok in H. destruct H as [x [_ H]]. apply rbind_ok in H. destruct H as [y [Hy _]].
      exact (definitions_error _ _ _ Hin Ha _ Hy).
    - apply rbind_ok in H. destruct H as [x [Hx _]]. exact (values_error _ _ _ _ Hin Ha _ Hx).
  Qed.
End SiteErrors.

Lemma resolve_each_error : forall Ms M l,
  In M l -> (forall r, resolve_model Ms M <> ROk r) -> forall rs, resolve_each Ms l <> ROk rs.
Proof.
  intros Ms M l Hin Hbad. induction l as [|m l IH]; [destruct Hin|].
  intros rs H. cbn [resolve_each] in H.
  apply rbind_ok in H. destruct H as [x [Hx H]]. apply rbind_ok in H. destruct H as [y [Hy _]].
  destruct Hin as [Heq|Hin].
  - subst. exact (Hbad _ Hx).
  - exact (IH Hin _ Hy).
Qed.

(* ---- the instances ---- *)
Section Instances.
  Variable Ms : list umodel.
  Variable M : umodel.

  (* the ENUMERATED special case of a DEFAULT fires: the component type is a reference whose definition lookup finds an
     ENUMERATED with an item called `name` *)
  Definition enum_default_fires (t : uty) (name : str) : bool :=
    match ref_name t with
    | None => false
    | Some referenced =>
        match definition Ms (lookup_fuel Ms) M referenced with
        | Found a =>
            match enum_items a with
            | Some variants => match find (fun v => str_eqb name (fst v)) variants with Some _ => true | None => false end
            | None => false
            end
        | _ => false
        end
    end.

  (* a reference that no module binds, at an INTEGER bound, a SIZE bound or as a DEFAULT (unless it names an item
     of the referenced ENUMERATED) *)
  Definition ref_unresolved (name : str) : Prop := vref Ms M name = NotFound.
  Definition ref_unresolved_default (t : uty) (name : str) : Prop :=
    vref Ms M name = NotFound /\ enum_default_fires t name = false.

  (* a reference bound to a value that is not an INTEGER, at an INTEGER bound or a SIZE bound; for SIZE also a
     negative INTEGER *)
  Definition ref_non_integer (name : str) : Prop := exists l, vref Ms M name = Found l /\ forall v, l <> LInteger v.
  Definition ref_non_size (name : str) : Prop :=
    exists l, vref Ms M name = Found l /\ forall v, l = LInteger v -> (v < 0)%Z.

  Lemma unresolved_default_error : forall t0 t0' name,
    ref_unresolved_default t0 name -> resolve_ty Ms M t0 = ROk t0' ->
    forall v, resolve_default Ms M t0' (Some (Ref name)) <> ROk v.
  Proof.
    intros t0 t0' name [Hv Hf] Ht v H. rewrite resolve_default_view in H.
    rewrite (resolve_ty_ref_name _ _ _ _ Ht) in H. unfold enum_default_fires in Hf.
    unfold resolve_literal in H. fold (vref Ms M name) in H. rewrite Hv in H. cbn [rbind] in H.
    destruct (ref_name t0) as [referenced|]; [|discriminate].
    destruct (definition Ms (lookup_fuel Ms) M referenced) as [a| |]; cbn [lookup_map] in H; try discriminate.
    destruct (enum_items a) as [variants|]; [|discriminate].
    destruct (find (fun v => str_eqb name (fst v)) variants); discriminate.
  Qed.

  Theorem unresolved_is_error_ty : forall t,
    ty_site ref_unresolved ref_unresolved ref_unresolved_default t -> forall r, resolve_ty Ms M t <> ROk r.
  Proof.
    apply ty_site_error.
    - intros name Hn v H. destruct (unresolved_i64 Ms M name Hn) as [E _]. rewrite E in H. discriminate.
    - intros name Hn v H. destruct (unresolved_i64 Ms M name Hn) as [_ [E _]]. rewrite E in H. discriminate.
    - exact unresolved_default_error.
  Qed.

  Lemma non_size_error : forall name, ref_non_size name -> forall v, resolve_usize Ms M (Ref name) <> ROk v.
  Proof.
    intros name [l [Hl Hneg]] v H. unfold resolve_usize in H. fold (vref Ms M name) in H. rewrite Hl in H.
    destruct l as [b|s|z|bs|t0 v0]; try discriminate.
    specialize (Hneg z eq_refl). destruct (z <? 0)%Z eqn:E; [discriminate|]. apply Z.ltb_ge in E. lia.
  Qed.

  Lemma non_integer_error : forall name, ref_non_integer name -> forall v, resolve_i64 Ms M (Ref name) <> ROk v.
  Proof.
    intros name [l [Hl Hn]] v H. destruct (ResolveProofs.non_integer Ms M name l Hl Hn) as [E _]. rewrite E in H. discriminate.
  Qed.

  Theorem non_integer_is_error_ty : forall t,
    ty_site ref_non_integer ref_non_size (fun _ _ => False) t -> forall r, resolve_ty Ms M t <> ROk r.
  Proof.
    apply ty_site_error.
    - exact non_integer_error.
    - exact non_size_error.
    - intros t0 t0' name [].
  Qed.

  Theorem unresolved_is_error_module :
    model_site ref_unresolved ref_unresolved ref_unresolved_default M -> forall r, resolve_model Ms M <> ROk r.
  Proof.
    apply model_site_error.
    - intros name Hn v H. destruct (unresolved_i64 Ms M name Hn) as [E _]. rewrite E in H. discriminate.
    - intros name Hn v H. destruct (unresolved_i64 Ms M name Hn) as [_ [E _]]. rewrite E in H. discriminate.
    - exact unresolved_default_error.
  Qed.

  Theorem non_integer_is_error_module :
    model_site ref_non_integer ref_non_size (fun _ _ => False) M -> forall r, resolve_model Ms M <> ROk r.
  Proof.
    apply model_site_error.
    - exact non_integer_error.
    - exact non_size_error.
    - intros t0 t0' name [].
  Qed.
End Instances.

Theorem unresolved_is_error_all : forall Ms M,
  In M Ms -> model_site (ref_unresolved Ms M) (ref_unresolved Ms M) (ref_unresolved_default Ms M) M ->
  forall rs, resolve_all Ms <> ROk rs.
Proof.
  intros Ms M Hin Hs. unfold resolve_all. eapply resolve_each_error; [exact Hin|].
  apply unresolved_is_error_module. exact Hs.
Qed.

Theorem non_integer_is_error_all : forall Ms M,
  In M Ms -> model_site (ref_non_integer Ms M) (ref_non_size Ms M) (fun _ _ => False) M ->
  forall rs, resolve_all Ms <> ROk rs.
Proof.
  intros Ms M Hin Hs. unfold resolve_all. eapply resolve_each_error; [exact Hin|].
  apply non_integer_is_error_module. exact Hs.
Qed.

(* ------------------------------------------------------------------------------------------------------------ *)
(* 5. load order                                                                                                  *)
(* ------------------------------------------------------------------------------------------------------------ *)

(* the test by which model_with_imported_item picks the module an import refers to *)
Definition import_target (imp : import) (m : umodel) : bool :=
  oid_matches (m_oid m) (i_from_oid imp) || str_eqb (m_name m) (i_from imp).

(* every import of M is answered by at most one module of the scope (two equal copies count as one) *)
Definition unique_targets (Ms : list umodel) (M : umodel) : Prop :=
  forall imp m1 m2, In imp (m_imports M) -> In m1 Ms -> In m2 Ms ->
    import_target imp m1 = true -> import_target imp m2 = true -> m1 = m2.

Lemma find_perm : forall {A} (p : A -> bool) l l',
  Permutation l l' ->
  (forall x y, In x l -> In y l -> p x = true -> p y = true -> x = y) ->
  find p l = find p l'.
Proof.
  intros A p l l' Hperm Huniq.
  destruct (find p l) as [a|] eqn:E1; destruct (find p l') as [b|] eqn:E2; try reflexivity.
  - apply find_some in E1. apply find_some in E2. destruct E1 as [Ha Hpa]. destruct E2 as [Hb Hpb].
    f_equal. apply Huniq; try assumption. eapply Permutation_in; [apply Permutation_sym; exact Hperm | exact Hb].
  - apply find_some in E1. destruct E1 as [Ha Hpa].
    pose proof (find_none _ _ E2 a (Permutation_in _ Hperm Ha)) as Hn. congruence.
  - apply find_some in E2. destruct E2 as [Hb Hpb].
    pose proof (find_none _ _ E1 b (Permutation_in _ (Permutation_sym Hperm) Hb)) as Hn. congruence.
Qed.

Section Perm.
  Variables Ms Ms' : list umodel.
  Hypothesis Hperm : Permutation Ms Ms'.
  Hypothesis Huniq : forall m, In m Ms -> unique_targets Ms m.

  Lemma perm_imported : forall M name, unique_targets Ms M ->
    model_with_imported_item Ms' M name = model_with_imported_item Ms M name.
  Proof.
    intros M name HM. unfold model_with_imported_item.
    destruct (find (fun i => existsb (str_eqb name) (i_what i)) (m_imports M)) as [imp|] eqn:E; [|reflexivity].
    apply find_some in E. destruct E as [Himp _]. symmetry.
    apply (find_perm (fun m => oid_matches (m_oid m) (i_from_oid imp) || str_eqb (m_name m) (i_from imp)) Ms Ms' Hperm).
    intros x y Hx Hy Hpx Hpy. exact (HM imp x y Himp Hx Hy Hpx Hpy).
  Qed.

  Lemma imported_in : forall M name m', model_with_imported_item Ms M name = Some m' -> In m' Ms.
  Proof.
    intros M name m' H. unfold model_with_imported_item in H.
    destruct (find (fun i => existsb (str_eqb name) (i_what i)) (m_imports M)) as [imp|]; [|discriminate].
    apply find_some in H. exact (proj1 H).
  Qed.

  Lemma perm_value_reference : forall f M name, unique_targets Ms M ->
    value_reference Ms' f M name = value_reference Ms f M name.
  Proof.
    induction f as [|f IH]; intros M name HM; cbn [value_reference]; rewrite (perm_imported M name HM).
    - reflexivity.
    - destruct (find (fun vr => str_eqb (fst (fst vr)) name) (m_value_references M)); [reflexivity|].
      destruct (model_with_imported_item Ms M name) as [m'|] eqn:E; [|reflexivity].
      apply IH. apply Huniq. exact (imported_in _ _ _ E).
  Qed.

  Lemma perm_definition : forall f M name, unique_targets Ms M ->
    definition Ms' f M name = definition Ms f M name.
  Proof.
    induction f as [|f IH]; intros M name HM; cbn [definition]; rewrite (perm_imported M name HM).
    - reflexivity.
    - destruct (find (fun d => str_eqb (fst d) name) (m_definitions M)); [reflexivity|].
      destruct (model_with_imported_item Ms M name) as [m'|] eqn:E; [|reflexivity].
      apply IH. apply Huniq. exact (imported_in _ _ _ E).
  Qed.

  Lemma perm_lookups_agree : forall M, unique_targets Ms M -> lookups_agree Ms' M Ms M.
  Proof.
    intros M HM. unfold lookups_agree, lookup_fuel. rewrite <- (Permutation_length Hperm).
    split; intros name; [apply perm_value_reference | rewrite perm_definition]; auto.
  Qed.

  Theorem order_irrelevant_module : forall M, unique_targets Ms M -> resolve_model Ms' M = resolve_model Ms M.
  Proof. intros M HM. apply resolve_model_ext. apply perm_lookups_agree. exact HM. Qed.
End Perm.

Lemma resolve_each_scope : forall S1 S2 l,
  (forall m, In m l -> resolve_model S1 m = resolve_model S2 m) -> resolve_each S1 l = resolve_each S2 l.
Proof.
  intros S1 S2 l H. induction l as [|m l IH]; [reflexivity|].
  cbn [resolve_each]. rewrite (H m (or_introl eq_refl)), IH; [reflexivity|].
  intros m0 Hm0. apply H. right. exact Hm0.
Qed.

Lemma resolve_each_perm : forall S0 l l', Permutation l l' ->
  forall rs, resolve_each S0 l = ROk rs -> exists rs', resolve_each S0 l' = ROk rs' /\ Permutation rs rs'.
Proof.
  intros S0 l l' Hp. induction Hp as [|x l l' Hp IH|x y l|l l' l'' Hp1 IH1 Hp2 IH2]; intros rs H.
  - exists rs. split; [exact H|apply Permutation_refl].
  - cbn [resolve_each] in H. apply rbind_ok in H. destruct H as [a [Ha H]].
    apply rbind_ok in H. destruct H as [b [Hb H]]. inversion H; subst rs.
    destruct (IH _ Hb) as [b' [Hb' Hpb]]. exists (a :: b'). split.
    + cbn [resolve_each]. rewrite Ha, Hb'. reflexivity.
    + apply perm_skip. exact Hpb.
  - cbn [resolve_each] in H. apply rbind_ok in H. destruct H as [a [Ha H]].
    apply rbind_ok in H. destruct H as [b [Hb H]]. inversion H; subst rs. clear H.
    apply rbind_ok in Hb. destruct Hb as [c [Hc Hb]].
    apply rbind_ok in Hb. destruct Hb as [d [Hd Hb]]. inversion Hb; subst b.
    exists (c :: a :: d). split.
    + cbn [resolve_each]. rewrite Hc, Ha, Hd. reflexivity.
    + apply perm_swap.
  - destruct (IH1 _ H) as [rs1 [H1 P1]]. destruct (IH2 _ H1) as [rs2 [H2 P2]].
    exists rs2. split; [exact H2|]. eapply Permutation_trans; eassumption.
Qed.

(* the set of resolved modules does not depend on the load order *)
Theorem order_irrelevant_all : forall Ms Ms',
  Permutation Ms Ms' -> (forall m, In m Ms -> unique_targets Ms m) ->
  forall rs, resolve_all Ms = ROk rs -> exists rs', resolve_all Ms' = ROk rs' /\ Permutation rs rs'.
Proof.
  intros Ms Ms' Hperm Huniq rs H. unfold resolve_all in *.
  destruct (resolve_each_perm Ms Ms Ms' Hperm rs H) as [rs' [H' P]].
  exists rs'. split; [|exact P]. rewrite <- H'. apply resolve_each_scope.
  intros m Hm. apply (order_irrelevant_module Ms Ms' Hperm Huniq).
  apply Huniq. eapply Permutation_in; [apply Permutation_sym; exact Hperm|exact Hm].
Qed.

Lemma unique_targets_perm : forall Ms Ms', Permutation Ms Ms' ->
  (forall m, In m Ms -> unique_targets Ms m) -> forall m, In m Ms' -> unique_targets Ms' m.
Proof.
  intros Ms Ms' Hperm Huniq m Hm imp m1 m2 Himp H1 H2 Hp1 Hp2.
  pose proof (Permutation_sym Hperm) as Hs.
  apply (Huniq m (Permutation_in _ Hs Hm) imp m1 m2 Himp (Permutation_in _ Hs H1) (Permutation_in _ Hs H2) Hp1 Hp2).
Qed.

(* ... nor does the fact that there is no model (which error is reported does depend on the order) *)
Theorem order_irrelevant_all_error : forall Ms Ms',
  Permutation Ms Ms' -> (forall m, In m Ms -> unique_targets Ms m) ->
  (forall rs, resolve_all Ms <> ROk rs) -> forall rs', resolve_all Ms' <> ROk rs'.
Proof.
  intros Ms Ms' Hperm Huniq Hbad rs' H.
  destruct (order_irrelevant_all Ms' Ms (Permutation_sym Hperm) (unique_targets_perm _ _ Hperm Huniq) rs' H)
    as [rs [Hrs _]].
  exact (Hbad rs Hrs).
Qed.

(* ---- the abstraction relation, too, depends on (scope, model) only through the two lookups ---- *)
Lemma default_exception_view : forall Ms M t name,
  default_exception Ms M t name =
    match ref_name t with
    | None => false
    | Some referenced =>
        match lookup_map enum_items (definition Ms (lookup_fuel Ms) M referenced) with
        | Found (Some variants) => match find (fun v => str_eqb name (fst v)) variants with Some _ => true | None => false end
        | Found None => false
        | NotFound => false
        | Diverges => true
        end
    end.
Proof.
  intros Ms M t name. unfold default_exception. destruct (ref_name t) as [referenced|]; [|reflexivity].
  destruct (definition Ms (lookup_fuel Ms) M referenced) as [a| |]; reflexivity.
Qed.

Section AbsExt.
  Variables (Ms1 : list umodel) (M1 : umodel) (Ms2 : list umodel) (M2 : umodel).
  Hypothesis Hagree : lookups_agree Ms1 M1 Ms2 M2.

  Lemma vref_ext : forall name, vref Ms1 M1 name = vref Ms2 M2 name.
  Proof. intros name. exact (proj1 Hagree name). Qed.

  Lemma default_exception_ext : forall t name, default_exception Ms1 M1 t name = default_exception Ms2 M2 t name.
  Proof.
    intros t name. rewrite !default_exception_view. destruct (ref_name t) as [referenced|]; [|reflexivity].
    rewrite (proj2 Hagree referenced). reflexivity.
  Qed.

  Lemma abs_i64_ext : forall x y, abs_i64 Ms1 M1 x y -> abs_i64 Ms2 M2 x y.
  Proof. intros x y [z|v name Hv]; [apply abs_i64_same|]. apply abs_i64_ref. rewrite <- vref_ext. exact Hv. Qed.

  Lemma abs_opt_i64_ext : forall x y, abs_opt_i64 Ms1 M1 x y -> abs_opt_i64 Ms2 M2 x y.
  Proof. intros x y [|a b Hab]; constructor. apply abs_i64_ext. exact Hab. Qed.

  Lemma abs_usize_ext : forall x y, abs_usize Ms1 M1 x y -> abs_usize Ms2 M2 x y.
  Proof.
    intros x y [z|v name Hv Hpos]; [apply abs_usize_same|]. apply abs_usize_ref; [|exact Hpos].
    rewrite <- vref_ext. exact Hv.
  Qed.

  Lemma abs_size_ext : forall s s', abs_size Ms1 M1 s s' -> abs_size Ms2 M2 s s'.
  Proof. intros s s' [|n n' e Hn|lo lo' hi hi' e Hlo Hhi]; constructor; apply abs_usize_ext; assumption. Qed.

  Lemma abs_default_ext : forall t d d', abs_default Ms1 M1 t d d' -> abs_default Ms2 M2 t d d'.
  Proof.
    intros t d d' [d0|l name Hv Hex]; [apply abs_default_same|]. apply abs_default_ref.
    - rewrite <- vref_ext. exact Hv.
    - rewrite <- default_exception_ext. exact Hex.
  Qed.

  Lemma abs_ty_ext_mut :
    (forall t t', abs_ty Ms1 M1 t t' -> abs_ty Ms2 M2 t t') /\
    (forall fs fs', abs_fields Ms1 M1 fs fs' -> abs_fields Ms2 M2 fs fs') /\
    (forall vs vs', abs_variants Ms1 M1 vs vs' -> abs_variants Ms2 M2 vs vs').
  Proof.
    apply abs_mutind; intros; try (constructor; auto using abs_opt_i64_ext, abs_size_ext, abs_default_ext; fail).
  Qed.

  Lemma abs_asn_ext : forall a a', abs_asn Ms1 M1 a a' -> abs_asn Ms2 M2 a a'.
  Proof.
    intros a a' [tag t t' d d' Ht Hd]. constructor; [exact (proj1 abs_ty_ext_mut _ _ Ht)|exact (abs_default_ext _ _ _ Hd)].
  Qed.
End AbsExt.

(* ------------------------------------------------------------------------------------------------------------ *)
(* 6. the substitution as a function: replace every reference that can be replaced                                *)
(* ------------------------------------------------------------------------------------------------------------ *)

(* [lit_ty Ms M t]: every reference of t at an INTEGER bound that the lookup binds to an INTEGER, at a SIZE bound that it
   binds to a non-negative INTEGER, at a DEFAULT that it binds to any value (unless the F12 exception applies) is
   replaced by the literal found; all other references (the ones that make resolving fail) are kept *)
Section Literalize.
  Variable Ms : list umodel.
  Variable M : umodel.

  Definition lit_i64 (x : lit_or_ref Z) : lit_or_ref Z :=
    match x with
    | Ref name => match vref Ms M name with Found (LInteger v) => Lit v | _ => x end
    | Lit _ => x
    end.

  Definition lit_usize (x : lit_or_ref N) : lit_or_ref N :=
    match x with
    | Ref name => match vref Ms M name with
                  | Found (LInteger v) => if (v <? 0)%Z then x else Lit (Z.to_N v)
                  | _ => x
                  end
    | Lit _ => x
    end.

  Definition lit_size (s : size (lit_or_ref N)) : size (lit_or_ref N) :=
    match s with
    | SAny => SAny
    | SFix n e => SFix (lit_usize n) e
    | SRange lo hi e => SRange (lit_usize lo) (lit_usize hi) e
    end.

  Definition lit_default (t : uty) (d : option (lit_or_ref literal)) : option (lit_or_ref literal) :=
    match d with
    | Some (Ref name) =>
        if default_exception Ms M t name then d
        else match vref Ms M name with Found l => Some (Lit l) | _ => d end
    | _ => d
    end.

  Fixpoint lit_ty (t : uty) : uty :=
    match t with
    | TInteger (lo, hi, e) c => TInteger (option_map lit_i64 lo, option_map lit_i64 hi, e) c
    | TString s c => TString (lit_size s) c
    | TOctetString s => TOctetString (lit_size s)
    | TBitString s c => TBitString (lit_size s) c
    | TOptional i => TOptional (lit_ty i)
    | TDefault i l => TDefault (lit_ty i) l
    | TSequence fs e =>
        TSequence (map (fun f : ufield => match f with (n, (tag, t0, d)) => (n, (tag, lit_ty t0, lit_default t0 d)) end) fs) e
    | TSequenceOf i s => TSequenceOf (lit_ty i) (lit_size s)
    | TSet fs e =>
        TSet (map (fun f : ufield => match f with (n, (tag, t0, d)) => (n, (tag, lit_ty t0, lit_default t0 d)) end) fs) e
    | TSetOf i s => TSetOf (lit_ty i) (lit_size s)
    | TChoice vs e =>
        TChoice (map (fun v : str * option atag * uty => match v with (n, tag, t0) => (n, tag, lit_ty t0) end) vs) e
    | _ => t
    end.

  Definition lit_asn (a : uasn) : uasn := match a with (tag, t, d) => (tag, lit_ty t, lit_default t d) end.

  Definition lit_model : umodel :=
    {| m_name := m_name M; m_oid := m_oid M; m_imports := m_imports M;
       m_definitions := map (fun x : str * uasn => (fst x, lit_asn (snd x))) (m_definitions M);
       m_value_references := map (fun x : str * uasn * literal => (fst (fst x), lit_asn (snd (fst x)), snd x))
                               (m_value_references M) |}.

  Lemma lit_i64_abs : forall x, abs_i64 Ms M (lit_i64 x) x.
  Proof.
    intros [z|name]; [apply abs_i64_same|]. unfold lit_i64.
    destruct (vref Ms M name) as [[b|s|z|bs|t0 v0]| |] eqn:E; try apply abs_i64_same.
    apply abs_i64_ref. exact E.
  Qed.

  Lemma lit_opt_i64_abs : forall o, abs_opt_i64 Ms M (option_map lit_i64 o) o.
  Proof. intros [x|]; constructor. apply lit_i64_abs. Qed.

  Lemma lit_usize_abs : forall x, abs_usize Ms M (lit_usize x) x.
  Proof.
    intros [z|name]; [apply abs_usize_same|]. unfold lit_usize.
    destruct (vref Ms M name) as [[b|s|z|bs|t0 v0]| |] eqn:E; try apply abs_usize_same.
    destruct (z <? 0)%Z eqn:Ez; [apply abs_usize_same|].
    apply abs_usize_ref; [exact E|]. apply Z.ltb_ge in Ez. exact Ez.
  Qed.

  Lemma lit_size_abs : forall s, abs_size Ms M (lit_size s) s.
  Proof. intros [|n e|lo hi e]; constructor; apply lit_usize_abs. Qed.

  Lemma lit_ty_ref_name : forall t, ref_name (lit_ty t) = ref_name t.
  Proof. intros t. destruct t as [ |[[lo hi] e] c|s c|s|s c| |i|i l|fs e|i s|fs e|i s|v e|vs e|n tg]; reflexivity. Qed.

  Lemma lit_default_abs : forall t d, abs_default Ms M (lit_ty t) (lit_default t d) d.
  Proof.
    intros t [[l|name]|]; try apply abs_default_same. unfold lit_default.
    destruct (default_exception Ms M t name) eqn:Ex; [apply abs_default_same|].
    destruct (vref Ms M name) as [l| |] eqn:E; try apply abs_default_same.
    apply abs_default_ref; [exact E|]. unfold default_exception in *. rewrite lit_ty_ref_name. exact Ex.
  Qed.

  Lemma lit_ty_abs : forall t, abs_ty Ms M (lit_ty t) t.
  Proof.
    induction t as [ |[[lo hi] e] c|s c|s|s c| |i IH|i l IH|fs e IH|i s IH|fs e IH|i s IH|v e|vs e IH|n tg]
      using ty_nested_ind; cbn [lit_ty]; try apply abs_same.
    - apply abs_Integer; apply lit_opt_i64_abs.
    - apply abs_String. apply lit_size_abs.
    - apply abs_OctetString. apply lit_size_abs.
    - apply abs_BitString. apply lit_size_abs.
    - apply abs_Optional. exact IH.
    - apply abs_Default. exact IH.
    - apply abs_Sequence. induction IH as [|[n [[tag t0] d]] r Hx _ IHr]; cbn [map]; constructor.
      + exact Hx.
      + apply lit_default_abs.
      + exact IHr.
    - apply abs_SequenceOf; [exact IH|apply lit_size_abs].
    - apply abs_Set. induction IH as [|[n [[tag t0] d]] r Hx _ IHr]; cbn [map]; constructor.
      + exact Hx.
      + apply lit_default_abs.
      + exact IHr.
    - apply abs_SetOf; [exact IH|apply lit_size_abs].
    - apply abs_Choice. induction IH as [|[[n tag] t0] r Hx _ IHr]; cbn [map]; constructor.
      + exact Hx.
      + exact IHr.
  Qed.

  Lemma lit_asn_abs : forall a, abs_asn Ms M (lit_asn a) a.
  Proof. intros [[tag t] d]. constructor; [apply lit_ty_abs|apply lit_default_abs]. Qed.

  Lemma lit_values_abs : forall l,
    Forall2 (abs_value Ms M) (map (fun x : str * uasn * literal => (fst (fst x), lit_asn (snd (fst x)), snd x)) l) l.
  Proof.
    induction l as [|[[n a] v] r IH]; cbn [map]; constructor; [|exact IH]. constructor. apply lit_asn_abs.
  Qed.

  Lemma lit_defs_abs : forall l,
    Forall2 (abs_def Ms M) (map (fun x : str * uasn => (fst x, lit_asn (snd x))) l) l.
  Proof.
    induction l as [|[n a] r IH]; cbn [map]; constructor; [|exact IH]. constructor. apply lit_asn_abs.
  Qed.

  Lemma lit_model_sim : sim_model lit_model M.
  Proof.
    constructor; try reflexivity; cbn [lit_model m_value_references m_definitions].
    - eapply Forall2_mono; [|apply lit_values_abs]. intros a b [n x y v _]. split; reflexivity.
    - eapply Forall2_mono; [|apply lit_defs_abs]. intros a b [n x y [tag t t' d d' Ht _]]. split; [reflexivity|].
      cbn [snd]. eapply abs_ty_enum_items. exact Ht.
  Qed.
End Literalize.

(* every module of the scope literalized (each relative to the original scope) *)
Definition lit_scope (Ms : list umodel) : list umodel := map (lit_model Ms) Ms.

Lemma lit_scope_sim : forall Ms l, Forall2 sim_model (map (lit_model Ms) l) l.
Proof. intros Ms l. induction l as [|m l IH]; cbn [map]; constructor; [apply lit_model_sim|exact IH]. Qed.

Lemma lit_model_abs : forall Ms M, abs_model (lit_scope Ms) (lit_model Ms M) M.
Proof.
  intros Ms M.
  pose proof (sim_lookups_agree (lit_scope Ms) Ms (lit_scope_sim Ms Ms) (lit_model Ms M) M (lit_model_sim Ms M)) as Hag.
  constructor; try reflexivity; cbn [lit_model m_value_references m_definitions].
  - eapply Forall2_mono; [|apply lit_values_abs]. intros a b [n x y v Hxy]. constructor.
    exact (abs_asn_ext _ _ _ _ Hag _ _ Hxy).
  - eapply Forall2_mono; [|apply lit_defs_abs]. intros a b [n x y Hxy]. constructor.
    exact (abs_asn_ext _ _ _ _ Hag _ _ Hxy).
Qed.

Lemma lit_scope_abs : forall Ms, Forall2 (abs_model (lit_scope Ms)) (lit_scope Ms) Ms.
Proof.
  intros Ms.
  assert (H : forall l, Forall2 (abs_model (lit_scope Ms)) (map (lit_model Ms) l) l).
  { induction l as [|m l IH]; cbn [map]; constructor; [apply lit_model_abs|exact IH]. }
  apply H.
Qed.

Theorem literalize_ty : forall Ms M t, resolve_ty Ms M (lit_ty Ms M t) = resolve_ty Ms M t.
Proof. intros Ms M t. symmetry. apply subst_ty. apply lit_ty_abs. Qed.

Theorem literalize_module : forall Ms M, resolve_model (lit_scope Ms) (lit_model Ms M) = resolve_model Ms M.
Proof. intros Ms M. symmetry. apply subst_module; [apply lit_scope_abs|apply lit_model_abs]. Qed.

Theorem literalize_all : forall Ms, resolve_all (lit_scope Ms) = resolve_all Ms.
Proof. intros Ms. symmetry. apply subst_all. apply lit_scope_abs. Qed.

(* ---- completeness of the literalization: when the module resolves, no reference is left (outside F12) ---- *)
Section Complete.
  Variable Ms : list umodel.
  Variable M : umodel.

  Definition any_ref (name : str) : Prop := True.
  (* a DEFAULT reference outside the F12 exception *)
  Definition plain_default (t : uty) (name : str) : Prop := default_exception Ms M t name = false.

  (* the references that literalization keeps *)
  Definition kept_i64 (name : str) : Prop := forall v, vref Ms M name <> Found (LInteger v).
  Definition kept_usize (name : str) : Prop := forall v, vref Ms M name = Found (LInteger v) -> (v < 0)%Z.
  Definition kept_default (t : uty) (name : str) : Prop :=
    default_exception Ms M t name = false /\ forall l, vref Ms M name <> Found l.

  Lemma lit_i64_kept : forall x name, lit_i64 Ms M x = Ref name -> x = Ref name /\ kept_i64 name.
  Proof.
    intros [z|n0] name H; [discriminate|]. unfold lit_i64 in H. unfold kept_i64.
    destruct (vref Ms M n0) as [[b|s|z|bs|t0 v0]| |] eqn:E; try discriminate; inversion H; subst;
      (split; [reflexivity|]); intros v Hv; rewrite E in Hv; discriminate.
  Qed.

  Lemma lit_usize_kept : forall x name, lit_usize Ms M x = Ref name -> x = Ref name /\ kept_usize name.
  Proof.
    intros [z|n0] name H; [discriminate|]. unfold lit_usize in H. unfold kept_usize.
    destruct (vref Ms M n0) as [[b|s|z|bs|t0 v0]| |] eqn:E; try discriminate.
    3: destruct (z <? 0)%Z eqn:Ez; [|discriminate].
    all: inversion H; subst; (split; [reflexivity|]); intros v Hv; rewrite E in Hv; try discriminate.
    inversion Hv; subst. apply Z.ltb_lt in Ez. exact Ez.
  Qed.

  Lemma lit_size_kept : forall s, size_site any_ref (lit_size Ms M s) -> size_site kept_usize s.
  Proof.
    intros [|n e|lo hi e] H; cbn [lit_size] in H; inversion H as [name e0 _ E|name hi0 e0 _ E|lo0 name e0 _ E]; subst.
    - symmetry in E. destruct (lit_usize_kept _ _ E) as [E1 K]. subst. apply site_SFix. exact K.
    - match goal with E : Ref _ = lit_usize _ _ _ |- _ => symmetry in E; destruct (lit_usize_kept _ _ E) as [E1 K] end.
      subst. apply site_SRange_lo. exact K.
    - match goal with E : Ref _ = lit_usize _ _ _ |- _ => symmetry in E; destruct (lit_usize_kept _ _ E) as [E1 K] end.
      subst. apply site_SRange_hi. exact K.
  Qed.

  Lemma lit_default_kept : forall t d name,
    lit_default Ms M t d = Some (Ref name) -> plain_default (lit_ty Ms M t) name -> d = Some (Ref name) /\ kept_default t name.
  Proof.
    intros t [[l|n0]|] name H Hp; try discriminate. unfold lit_default in H.
    unfold plain_default, default_exception in Hp. rewrite lit_ty_ref_name in Hp. fold (default_exception Ms M t name) in Hp.
    destruct (default_exception Ms M t n0) eqn:Ex.
    - inversion H; subst. rewrite Hp in Ex. discriminate.
    - destruct (vref Ms M n0) as [l| |] eqn:E; try discriminate; inversion H; subst;
        (split; [reflexivity|]); (split; [exact Ex|]); intros l Hl; rewrite E in Hl; discriminate.
  Qed.

  Lemma lit_ty_kept : forall t,
    ty_site any_ref any_ref plain_default (lit_ty Ms M t) -> ty_site kept_i64 kept_usize kept_default t.
  Proof.
    induction t as [ |[[lo hi] e] c|s c|s|s c| |i IH|i l IH|fs e IH|i s IH|fs e IH|i s IH|v e|vs e IH|n tg]
      using ty_nested_ind; cbn [lit_ty]; intros H; inversion H; subst.
    - destruct lo as [lo|]; [|discriminate].
      match goal with E : Some (Ref ?name) = option_map _ _ |- _ => cbn [option_map] in E; inversion E as [E']; symmetry in E';
        destruct (lit_i64_kept _ _ E') as [E1 K] end. subst. apply site_Integer_lo. exact K.
    - destruct hi as [hi|]; [|discriminate].
      match goal with E : Some (Ref ?name) = option_map _ _ |- _ => cbn [option_map] in E; inversion E as [E']; symmetry in E';
        destruct (lit_i64_kept _ _ E') as [E1 K] end. subst. apply site_Integer_hi. exact K.
    - apply site_String. apply lit_size_kept. assumption.
    - apply site_OctetString. apply lit_size_kept. assumption.
    - apply site_BitString. apply lit_size_kept. assumption.
    - apply site_Optional. apply IH. assumption.
    - apply site_Default. apply IH. assumption.
    - match goal with Hin : In _ (map _ fs) |- _ => apply in_map_iff in Hin; destruct Hin as [[n1 [[tag1 t1] d1]] [Heq Hmem]] end.
      inversion Heq; subst. eapply site_Sequence_ty; [exact Hmem|].
      rewrite Forall_forall in IH. apply (IH _ Hmem). assumption.
    - match goal with Hin : In _ (map _ fs) |- _ => apply in_map_iff in Hin; destruct Hin as [[n1 [[tag1 t1] d1]] [Heq Hmem]] end.
      inversion Heq; subst.
      match goal with E : lit_default _ _ _ _ = Some (Ref _), P : plain_default _ _ |- _ =>
        destruct (lit_default_kept _ _ _ E P) as [E1 K] end.
      subst. eapply site_Sequence_default; [exact Hmem|exact K].
    - apply site_SequenceOf_ty. apply IH. assumption.
    - apply site_SequenceOf_size. apply lit_size_kept. assumption.
    - match goal with Hin : In _ (map _ fs) |- _ => apply in_map_iff in Hin; destruct Hin as [[n1 [[tag1 t1] d1]] [Heq Hmem]] end.
      inversion Heq; subst. eapply site_Set_ty; [exact Hmem|].
      rewrite Forall_forall in IH. apply (IH _ Hmem). assumption.
    - match goal with Hin : In _ (map _ fs) |- _ => apply in_map_iff in Hin; destruct Hin as [[n1 [[tag1 t1] d1]] [Heq Hmem]] end.
      inversion Heq; subst.
      match goal with E : lit_default _ _ _ _ = Some (Ref _), P : plain_default _ _ |- _ =>
        destruct (lit_default_kept _ _ _ E P) as [E1 K] end.
      subst. eapply site_Set_default; [exact Hmem|exact K].
    - apply site_SetOf_ty. apply IH. assumption.
    - apply site_SetOf_size. apply lit_size_kept. assumption.
    - match goal with Hin : In _ (map _ vs) |- _ => apply in_map_iff in Hin; destruct Hin as [[[n1 tag1] t1] [Heq Hmem]] end.
      inversion Heq; subst. eapply site_Choice; [exact Hmem|].
      rewrite Forall_forall in IH. apply (IH _ Hmem). assumption.
  Qed.

  Lemma lit_asn_kept : forall a,
    asn_site any_ref any_ref plain_default (lit_asn Ms M a) -> asn_site kept_i64 kept_usize kept_default a.
  Proof.
    intros [[tag t] d] H. cbn [lit_asn] in H. inversion H; subst.
    - apply site_asn_ty. apply lit_ty_kept. assumption.
    - match goal with E : Some (Ref _) = lit_default _ _ _ _, P : plain_default _ _ |- _ =>
        symmetry in E; destruct (lit_default_kept _ _ _ E P) as [E1 K] end.
      subst. apply site_asn_default. exact K.
  Qed.

  Lemma lit_model_kept :
    model_site any_ref any_ref plain_default (lit_model Ms M) -> model_site kept_i64 kept_usize kept_default M.
  Proof.
    intros [n a Hin Ha|n a v Hin Ha]; cbn [lit_model m_definitions m_value_references] in Hin;
      apply in_map_iff in Hin.
    - destruct Hin as [[n1 a1] [Heq Hin]]. cbn [fst snd] in Heq. inversion Heq; subst.
      eapply site_definition; [exact Hin|]. apply lit_asn_kept. exact Ha.
    - destruct Hin as [[[n1 a1] v1] [Heq Hin]]. cbn [fst snd] in Heq. inversion Heq; subst.
      eapply site_value; [exact Hin|]. apply lit_asn_kept. exact Ha.
  Qed.

  (* the kept references are exactly the ones that make resolving fail *)
  Lemma kept_i64_error : forall name, kept_i64 name -> forall v, resolve_i64 Ms M (Ref name) <> ROk v.
  Proof.
    intros name K v H. unfold resolve_i64 in H. fold (vref Ms M name) in H. unfold kept_i64 in K.
    destruct (vref Ms M name) as [[b|s|z|bs|t0 v0]| |]; try discriminate. exact (K z eq_refl).
  Qed.

  Lemma kept_usize_error : forall name, kept_usize name -> forall v, resolve_usize Ms M (Ref name) <> ROk v.
  Proof.
    intros name K v H. unfold resolve_usize in H. fold (vref Ms M name) in H. unfold kept_usize in K.
    destruct (vref Ms M name) as [[b|s|z|bs|t0 v0]| |]; try discriminate.
    specialize (K z eq_refl). destruct (z <? 0)%Z eqn:E; [discriminate|]. apply Z.ltb_ge in E. lia.
  Qed.

  Lemma kept_default_error : forall t0 t0' name,
    kept_default t0 name -> resolve_ty Ms M t0 = ROk t0' ->
    forall v, resolve_default Ms M t0' (Some (Ref name)) <> ROk v.
  Proof.
    intros t0 t0' name [Hex K] Ht v H. rewrite resolve_default_view in H.
    rewrite (resolve_ty_ref_name _ _ _ _ Ht) in H. rewrite default_exception_view in Hex.
    assert (F : forall x, (let^ l := resolve_literal Ms M (Ref name) in ROk (Some l)) <> ROk x).
    { intros x Hx. unfold resolve_literal in Hx. fold (vref Ms M name) in Hx.
      destruct (vref Ms M name) as [l| |] eqn:E; try discriminate. exact (K l eq_refl). }
    cbv zeta in H.
    destruct (ref_name t0) as [referenced|]; [|exact (F _ H)].
    destruct (lookup_map enum_items (definition Ms (lookup_fuel Ms) M referenced)) as [[variants|]| |];
      try discriminate; try exact (F _ H).
    destruct (find (fun v1 => str_eqb name (fst v1)) variants); [discriminate|exact (F _ H)].
  Qed.

  Theorem literalize_complete_ty : forall t r,
    resolve_ty Ms M t = ROk r -> ~ ty_site any_ref any_ref plain_default (lit_ty Ms M t).
  Proof.
    intros t r H Hs. apply lit_ty_kept in Hs.
    exact (ty_site_error Ms M _ _ _ kept_i64_error kept_usize_error kept_default_error t Hs r H).
  Qed.

  Theorem literalize_complete_module : forall r,
    resolve_model Ms M = ROk r -> ~ model_site any_ref any_ref plain_default (lit_model Ms M).
  Proof.
    intros r H Hs. apply lit_model_kept in Hs.
    exact (model_site_error Ms M _ _ _ kept_i64_error kept_usize_error kept_default_error Hs r H).
  Qed.
End Complete.

(* ------------------------------------------------------------------------------------------------------------ *)
(* 7. name clashes: DEFAULT <name> where <name> is an item of the component's ENUMERATED and/or a value reference   *)
(* ------------------------------------------------------------------------------------------------------------ *)

(* the item of the referenced ENUMERATED wins, whatever value references of that name exist anywhere *)
Lemma enum_default_precedence : forall Ms M referenced tg name tg0 variants e d0 v,
  definition Ms (lookup_fuel Ms) M referenced = Found (tg0, TEnumerated variants e, d0) ->
  find (fun v => str_eqb name (fst v)) variants = Some v ->
  resolve_default Ms M (TRef referenced tg) (Some (Ref name)) = ROk (Some (LEnumVariant referenced (fst v))).
Proof.
  intros Ms M referenced tg name tg0 variants e d0 v Hd Hf. cbn [resolve_default]. rewrite Hd, Hf. reflexivity.
Qed.

(* an ENUMERATED without such an item (e.g. the name is an item of ANOTHER enumerated type): the value reference *)
Lemma enum_default_other_item : forall Ms M referenced tg name tg0 variants e d0,
  definition Ms (lookup_fuel Ms) M referenced = Found (tg0, TEnumerated variants e, d0) ->
  find (fun v => str_eqb name (fst v)) variants = None ->
  resolve_default Ms M (TRef referenced tg) (Some (Ref name))
  = (let^ l := resolve_literal Ms M (Ref name) in ROk (Some l)).
Proof.
  intros Ms M referenced tg name tg0 variants e d0 Hd Hf. cbn [resolve_default]. rewrite Hd, Hf. reflexivity.
Qed.

(* a component that is not a type reference (INTEGER, OCTET STRING, ...): the value reference *)
Lemma non_reference_default_is_value : forall Ms M t name,
  ref_name t = None ->
  resolve_default Ms M t (Some (Ref name)) = (let^ l := resolve_literal Ms M (Ref name) in ROk (Some l)).
Proof. intros Ms M t name H. destruct t; try reflexivity. discriminate H. Qed.
