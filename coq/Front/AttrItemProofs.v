(* Front/AttrItemProofs.v -- the whole attribute is read back as itself (Props/C08.v), on top of Front/CodegenProofs.v *)
From A1 Require Import Base.Res Gen.Keywords Front.Codegen Front.Attr Front.AttrItem Front.CodegenProofs.
From Coq Require Import ZifyBool ZifyNat ZifyN String.
Local Open Scope N_scope.

(* ------------------------------------------------------------------ well-formed attributes *)
Definition wf_const (c : list N * Z) : Prop := wf_name (fst c) /\ in_i64 (snd c) = true.

Definition wf_primary (c : ctx) (p : primary) : Prop :=
  match c, p with
  | CHeader, PHeader _ => True
  | CTransparent, PType t | CChoiceVariant, PType t => wf_aty t
  | CEnumVariant, PNumber (Some n) => n <= USIZE_MAX
  | CEnumVariant, PNumber None => True
  | _, _ => False
  end.

Definition tag_ok (c : ctx) (tg : option tag) : Prop :=
  match tg with Some g => ctx_taggable c = true /\ tag_number g <= USIZE_MAX | None => True end.
Definition ext_ok (c : ctx) (ex : option (list N)) : Prop :=
  match ex with Some _ => ctx_ext c = true | None => True end.
Definition consts_ok (c : ctx) (cs : list (list N * Z)) : Prop :=
  match cs with [] => True | c0 :: l => ctx_consts c = true /\ Forall wf_const (c0 :: l) end.

(* the parts are those the context admits (the generator never prints another one: header without const, fields without
   extensible_after, variants with neither) and their numbers fit the types of the parser *)
Definition wf_attr (c : ctx) (a : attr) : Prop :=
  wf_primary c (a_primary a) /\
  tag_ok c (a_tag a) /\ ext_ok c (a_ext a) /\ consts_ok c (a_consts a).

(* ------------------------------------------------------------------ small facts *)
Lemma join_cons p ps : join_comma (p :: ps) = p ++ flat_map (fun q => TPunct COMMA :: q) ps.
Proof. reflexivity. Qed.

Lemma eof_or_comma_flat parts : eof_or_comma (flat_map (fun q => TPunct COMMA :: q) parts) = Ok (join_comma parts).
Proof. destruct parts as [|p ps]; reflexivity. Qed.

Lemma rest_ok_flat parts : rest_ok (flat_map (fun q => TPunct COMMA :: q) parts).
Proof. destruct parts as [|p ps]; exact I. Qed.

Lemma lower_S_tag : str_eqb (lower_str S_tag) S_tag = true.                           Proof. reflexivity. Qed.
Lemma lower_S_ext_tag : str_eqb (lower_str S_extensible_after) S_tag = false.         Proof. reflexivity. Qed.
Lemma lower_S_ext : str_eqb (lower_str S_extensible_after) S_extensible_after = true. Proof. reflexivity. Qed.
Lemma lower_S_const_tag : str_eqb (lower_str S_const) S_tag = false.                  Proof. reflexivity. Qed.
Lemma lower_S_const_ext : str_eqb (lower_str S_const) S_extensible_after = false.     Proof. reflexivity. Qed.
Lemma lower_S_const : str_eqb (lower_str S_const) S_const = true.                     Proof. reflexivity. Qed.

(* ------------------------------------------------------------------ const(..) *)
Lemma parse_consts_ok : forall cs c0, Forall wf_const (c0 :: cs) ->
  parse_consts (join_comma (map print_const (c0 :: cs))) = Ok (c0 :: cs).
Proof.
  induction cs as [|c1 cs IH]; intros [n z] Hw; inversion Hw as [|x l [[Hn1 Hn2] Hz] Hrest]; subst; cbn [fst snd] in *.
  - cbn [map join_comma print_const flat_map app fst snd parse_consts].
    rewrite Hn1, Hn2. cbn [negb orb].
    pose proof (take_int_print_z z []) as Ht. rewrite app_nil_r in Ht. rewrite Ht, Hz. reflexivity.
  - change (map print_const ((n, z) :: c1 :: cs)) with (print_const (n, z) :: map print_const (c1 :: cs)).
    rewrite join_cons.
    change (flat_map (fun q => TPunct COMMA :: q) (map print_const (c1 :: cs)))
      with (TPunct COMMA :: join_comma (map print_const (c1 :: cs))).
    cbn [print_const fst snd app parse_consts].
    rewrite Hn1, Hn2. cbn [negb orb].
    pose proof (take_int_print_z z []) as Ht. rewrite app_nil_r in Ht. rewrite Ht, Hz.
    rewrite N.eqb_refl, (IH c1 Hrest). reflexivity.
Qed.

(* ------------------------------------------------------------------ one item of the loop *)
Definition after_item (c : ctx) (a' : attr) (rest : list tok) : res attr :=
  match rest with
  | [] => Ok a'
  | TPunct p :: rest' => if p =? COMMA then parse_items c a' rest' else Err E_SYN
  | _ => Err E_SYN
  end.

Lemma items_tag c a g rest :
  ctx_taggable c = true -> tag_number g <= USIZE_MAX ->
  parse_items c a (print_tag g ++ rest) = after_item c (set_tag a g) rest.
Proof.
  intros Hc Hg. unfold print_tag. cbn [app parse_items]. unfold parse_item.
  rewrite lower_S_tag, Hc. cbn [andb].
  pose proof (parse_tag_ok g [] Hg) as Ht. unfold print_tag in Ht. cbn [tl app] in Ht. rewrite Ht. reflexivity.
Qed.

Lemma items_ext c a name rest :
  ctx_ext c = true ->
  parse_items c a (print_ext name ++ rest) = after_item c (set_ext a name) rest.
Proof.
  intros Hc. unfold print_ext. cbn [app parse_items]. unfold parse_item.
  rewrite lower_S_ext_tag, lower_S_ext, Hc. reflexivity.
Qed.

Lemma items_consts c a c0 cs rest :
  ctx_consts c = true -> Forall wf_const (c0 :: cs) ->
  parse_items c a (print_consts (c0 :: cs) ++ rest) = after_item c (add_consts a (c0 :: cs)) rest.
Proof.
  intros Hc Hw. unfold print_consts. cbn [app parse_items]. unfold parse_item.
  rewrite lower_S_const_tag, lower_S_const_ext, lower_S_const, Hc. cbn [andb].
  rewrite (parse_consts_ok cs c0 Hw). reflexivity.
Qed.

Lemma after_item_flat c a' parts :
  after_item c a' (flat_map (fun q => TPunct COMMA :: q) parts) = parse_items c a' (join_comma parts).
Proof.
  destruct parts as [|p ps]; [reflexivity|].
  cbn [flat_map app after_item]. rewrite N.eqb_refl. reflexivity.
Qed.

(* the parts after the primary one, read by the loop from the empty attribute *)
Lemma items_tail c p tg cs ex :
  tag_ok c tg -> ext_ok c ex -> consts_ok c cs ->
  parse_items c (mk_attr p None [] None) (join_comma (tail_parts (mk_attr p tg cs ex))) = Ok (mk_attr p tg cs ex).
Proof.
  unfold tag_ok, ext_ok, consts_ok. intros Ht He Hc. unfold tail_parts. cbn [a_tag a_ext a_consts].
  destruct tg as [g|]; [destruct Ht as [Ht1 Ht2]|]; (destruct ex as [name|]); (destruct cs as [|c0 cs]; [|destruct Hc as [Hc1 Hc2]]);
    cbn [option_map opt_list app]; rewrite ?join_cons;
    repeat first
      [ rewrite (items_tag c _ g _ Ht1 Ht2)
      | rewrite (items_ext c _ name _ He)
      | rewrite (items_consts c _ c0 cs _ Hc1 Hc2)
      | rewrite after_item_flat
      | rewrite join_cons ];
    reflexivity.
Qed.

(* ------------------------------------------------------------------ the whole attribute *)
Lemma reparse_attribute c a fuel :
  wf_attr c a -> (attr_depth a < fuel)%nat -> parse_attr c fuel (print_attr a) = Ok a.
Proof.
  destruct a as [p tg cs ex]. intros [Hp [Ht [He Hc]]] Hf. cbn [a_primary a_tag a_ext a_consts] in *.
  unfold attr_depth in Hf. cbn [a_primary] in Hf.
  unfold print_attr, attr_parts, parse_attr. cbn [a_primary].
  destruct c, p as [k|t|[n|]]; cbn [wf_primary] in Hp; try contradiction; cbn [print_primary opt_list app].
  - (* header *)
    rewrite join_cons. cbn [app parse_primary bind]. rewrite eof_or_comma_flat. cbn [bind].
    apply items_tail; assumption.
  - (* field of a struct / tuple struct *)
    rewrite join_cons. cbn [parse_primary].
    rewrite (reparse_ty t Hp fuel _ Hf (rest_ok_flat _)). cbn [bind]. rewrite eof_or_comma_flat. cbn [bind].
    apply items_tail; assumption.
  - (* CHOICE variant *)
    rewrite join_cons. cbn [parse_primary].
    rewrite (reparse_ty t Hp fuel _ Hf (rest_ok_flat _)). cbn [bind]. rewrite eof_or_comma_flat. cbn [bind].
    apply items_tail; assumption.
  - (* ENUMERATED variant with a number *)
    rewrite join_cons. cbn [app parse_primary].
    replace (N.leb n USIZE_MAX) with true by (symmetry; apply N.leb_le; exact Hp).
    cbn [bind]. rewrite eof_or_comma_flat. cbn [bind].
    apply items_tail; assumption.
  - (* ENUMERATED variant without attribute content *)
    unfold tag_ok, ext_ok, consts_ok in *.
    destruct tg as [g|]; [destruct Ht as [Ht _]; discriminate Ht|].
    destruct ex as [name|]; [discriminate He|].
    destruct cs as [|c0 cs]; [|destruct Hc as [Hc _]; discriminate Hc].
    reflexivity.
Qed.

(* ------------------------------------------------------------------ the finding classes, as predicates on the type *)
(* F08-1: an OCTET STRING / BIT STRING default literal occurs *)
Fixpoint Known_C08_octet_default (t : aty) : Prop :=
  match t with
  | ADef t' l => match l with LOct _ => True | _ => Known_C08_octet_default t' end
  | AOpt t' | ASeqOf t' _ | ASetOf t' _ => Known_C08_octet_default t'
  | _ => False
  end.
(* F08-3: a reference without tag occurs *)
Fixpoint Known_C08_untagged_complex (t : aty) : Prop :=
  match t with
  | ARef _ None => True
  | AOpt t' | ADef t' _ | ASeqOf t' _ | ASetOf t' _ => Known_C08_untagged_complex t'
  | _ => False
  end.
(* F08-7: an integer range with exactly one bound occurs (only extensible ranges keep a missing bound in the Rust model) *)
Fixpoint Known_C08_half_open_range (t : aty) : Prop :=
  match t with
  | AInt (Some _) None _ | AInt None (Some _) _ => True
  | AOpt t' | ADef t' _ | ASeqOf t' _ | ASetOf t' _ => Known_C08_half_open_range t'
  | _ => False
  end.
Definition Known_C08_type (t : aty) : Prop :=
  Known_C08_octet_default t \/ Known_C08_untagged_complex t \/ Known_C08_half_open_range t.

(* what the parser's number types and identifier grammar demand of the rest (no finding: the Rust model itself holds
   i64 / usize numbers and identifiers; a SIZE range of one value is normalised to a fixed size before printing) *)
Definition lit_in_model (l : lit) : Prop :=
  match l with
  | LBool _ | LStr _ | LOct _ => True
  | LInt z => in_i64 z = true
  | LEnum t v => rust_struct_or_enum_name t = t /\ rust_variant_name v = v /\ wf_name t /\ wf_name v
  end.
Fixpoint aty_in_model (t : aty) : Prop :=
  match t with
  | ABool | ANull => True
  | AInt mn mx _ => match mn with Some a => in_i64 a = true | None => True end /\
                    match mx with Some b => in_i64 b = true | None => True end
  | AStr sz _ | AOct sz | ABits sz => wf_size sz
  | AOpt t' => aty_in_model t'
  | ADef t' l => aty_in_model t' /\ lit_in_model l
  | ASeqOf t' sz | ASetOf t' sz => aty_in_model t' /\ wf_size sz
  | ARef name tg => wf_name name /\ match tg with Some g => tag_number g <= USIZE_MAX | None => True end
  end.

Lemma wf_aty_of_classes t : aty_in_model t -> ~ Known_C08_type t -> wf_aty t.
Proof.
  unfold Known_C08_type.
  induction t as [| |mn mx e|sz cs|sz|sz|t IH|t IH l|t IH sz|t IH sz|name tg]; cbn [aty_in_model wf_aty]; intros Hm Hk;
    try exact I; try exact Hm.
  - destruct mn as [a|], mx as [b|]; cbn in Hk; try tauto.
  - apply IH; [exact Hm|]. cbn in Hk. tauto.
  - destruct Hm as [Hm Hl]. split.
    + apply IH; [exact Hm|]. cbn in Hk. destruct l; tauto.
    + destruct l; cbn [wf_lit lit_in_model] in *; try exact I; try exact Hl. cbn in Hk. tauto.
  - destruct Hm as [Hm Hs]. split; [|exact Hs]. apply IH; [exact Hm|]. cbn in Hk. tauto.
  - destruct Hm as [Hm Hs]. split; [|exact Hs]. apply IH; [exact Hm|]. cbn in Hk. tauto.
  - destruct tg as [g|]; [exact Hm|]. cbn in Hk. tauto.
Qed.

Definition primary_in_model (c : ctx) (p : primary) : Prop :=
  match c, p with
  | CHeader, PHeader _ => True
  | CTransparent, PType t | CChoiceVariant, PType t => aty_in_model t
  | CEnumVariant, PNumber (Some n) => n <= USIZE_MAX
  | CEnumVariant, PNumber None => True
  | _, _ => False
  end.
Definition attr_in_model (c : ctx) (a : attr) : Prop :=
  primary_in_model c (a_primary a) /\
  tag_ok c (a_tag a) /\ ext_ok c (a_ext a) /\ consts_ok c (a_consts a).
Definition Known_C08_attr (a : attr) : Prop :=
  match a_primary a with PType t => Known_C08_type t | _ => False end.

Lemma reparse_attribute_classes c a fuel :
  attr_in_model c a -> ~ Known_C08_attr a -> (attr_depth a < fuel)%nat -> parse_attr c fuel (print_attr a) = Ok a.
Proof.
  intros [Hp Hrest] Hk Hf. apply reparse_attribute; [|exact Hf]. split; [|exact Hrest].
  unfold Known_C08_attr in Hk.
  destruct c, (a_primary a) as [k|t|[n|]]; cbn [primary_in_model wf_primary] in *; try exact Hp;
    apply wf_aty_of_classes; assumption.
Qed.

(* ------------------------------------------------------------------ item level: extensible_after(name) finds its member *)
Lemma index_of_map (f : list N -> list N) name : forall names i,
  nth_error names i = Some name -> f name = name -> NoDup (map f names) -> index_of name (map f names) = Some i.
Proof.
  induction names as [|m ms IH]; intros i Hn Hf Hd; [destruct i; discriminate|].
  cbn [map index_of]. inversion Hd as [|x l Hnotin Hd']; subst.
  destruct i as [|j]; cbn [nth_error] in Hn.
  - inversion Hn; subst. rewrite Hf. replace (str_eqb name name) with true by (symmetry; apply str_eqb_eq; reflexivity). reflexivity.
  - destruct (str_eqb (f m) name) eqn:E.
    + exfalso. apply str_eqb_eq in E. apply Hnotin. rewrite E, <- Hf. apply in_map. eapply nth_error_In. exact Hn.
    + rewrite (IH j Hn Hf Hd'). reflexivity.
Qed.

(* F08-2: the name in extensible_after(..) is the unescaped one, the member is emitted escaped *)
Definition Known_C08_ext_escaped (name : list N) : Prop := mem_str name KEYWORDS = true.
Definition no_hyphen (s : list N) : Prop := Forall (fun c => c <> HYPHEN) s.

Lemma replace_no_hyphen name : no_hyphen name -> map (fun c => if c =? HYPHEN then USCORE else c) name = name.
Proof.
  unfold no_hyphen. induction 1 as [|x l Hx _ IH]; [reflexivity|]. cbn [map]. apply N.eqb_neq in Hx. rewrite Hx, IH. reflexivity.
Qed.

Lemma gen_field_name_id name : no_hyphen name -> ~ Known_C08_ext_escaped name -> gen_field_name name true = name.
Proof.
  intros Hh Hk. unfold gen_field_name. rewrite (replace_no_hyphen name Hh). cbn [andb]. unfold Known_C08_ext_escaped in Hk. destruct (mem_str name KEYWORDS); [exfalso; apply Hk; reflexivity | reflexivity].
Qed.

Lemma ext_index_struct k names i name :
  k = HSequence \/ k = HSet ->
  nth_error names i = Some name -> no_hyphen name -> ~ Known_C08_ext_escaped name ->
  NoDup (emitted_members k names) ->
  find_ext_index (Some name) (emitted_members k names) = Ok (Some i).
Proof.
  intros Hk Hn Hh Hesc Hd. unfold find_ext_index.
  assert (E : emitted_members k names = map (fun n => gen_field_name n true) names) by (destruct Hk; subst; reflexivity).
  rewrite E in *. rewrite (index_of_map (fun n => gen_field_name n true) name names i Hn (gen_field_name_id name Hh Hesc) Hd). reflexivity.
Qed.

Lemma ext_index_enum k names i name :
  k = HChoice \/ k = HEnumerated ->
  nth_error names i = Some name -> gen_variant_name name = name ->
  NoDup (emitted_members k names) ->
  find_ext_index (Some name) (emitted_members k names) = Ok (Some i).
Proof.
  intros Hk Hn Hv Hd. unfold find_ext_index.
  assert (E : emitted_members k names = map gen_variant_name names) by (destruct Hk; subst; reflexivity).
  rewrite E in *. rewrite (index_of_map gen_variant_name name names i Hn Hv Hd). reflexivity.
Qed.

Lemma header_kind_name k : header_kind (hkind_name k) = Some k.
Proof. destruct k; reflexivity. Qed.

(* F08-15 and its integer sibling: into_asn hands the constants to an INTEGER below optional(..) only *)
Definition Known_C08_consts_dropped (a : attr) : Prop :=
  a_consts a <> [] /\ match a_primary a with PType t => is_integer (no_optional t) = false | _ => True end.

Lemma into_asn_keeps t a :
  a_primary a = PType t -> ~ Known_C08_untagged_complex t -> ~ Known_C08_consts_dropped a ->
  (forall n g, t = ARef n g -> a_consts a = []) ->
  into_asn (match t with ARef n _ => n | _ => [] end) a = Some (a_tag a, t, a_consts a).
Proof.
  intros Hp Hu Hd Hr. unfold into_asn. rewrite Hp.
  destruct t as [| |mn mx e|sz cs|sz|sz|t'|t' l|t' sz|t' sz|name tg];
    try (destruct (a_consts a) eqn:Ec; [destruct (is_integer _); reflexivity|];
         destruct (is_integer _) eqn:Ei; [reflexivity|]; exfalso; apply Hd; split; [rewrite Ec; discriminate | rewrite Hp; exact Ei]).
  destruct tg as [g|]; [|exfalso; apply Hu; exact I]. rewrite (Hr name (Some g) eq_refl). reflexivity.
Qed.

(* since /repo e572296: the constants of an INTEGER below optional(..) survive to_rust_keep_names as well *)
Lemma to_rust_constants_keeps t ics : is_integer (no_optional t) = true -> to_rust_constants t ics = ics.
Proof. induction t; cbn [no_optional is_integer to_rust_constants]; intros H; try discriminate; [reflexivity | apply IHt; exact H]. Qed.

Lemma optional_constants_kept a t fuel :
  a_primary a = PType t -> wf_attr CTransparent a -> (attr_depth a < fuel)%nat -> is_integer (no_optional t) = true ->
  exists a', parse_attr CTransparent fuel (print_attr a) = Ok a' /\
             into_asn [] a' = Some (a_tag a, t, a_consts a) /\
             field_rust_constants t (a_consts a) = a_consts a.
Proof.
  intros Hp Hw Hf Hi. exists a. split; [apply reparse_attribute; assumption|]. split.
  - unfold into_asn. rewrite Hp. destruct t; cbn [no_optional is_integer] in Hi; try discriminate; cbn [no_optional is_integer]; try rewrite Hi; reflexivity.
  - apply to_rust_constants_keeps. exact Hi.
Qed.
