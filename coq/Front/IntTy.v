(* Front/IntTy.v -- stub, to be filled *)
