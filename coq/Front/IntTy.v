(* Front/IntTy.v -- C15: which Rust integer type an ASN.1 INTEGER constraint is mapped to.

   Models, function for function,
     asn1rs-model/src/asn/integer.rs   Integer::try_from (range part) and TryResolve
     asn1rs-model/src/rust.rs          asn_fixed_integer_to_rust_type, asn_extensible_integer_to_rust,
                                       RustType::integer_range_str, the dispatch on `range.extensible()`
     asn1rs-model/src/generate/rust.rs add_min_max_fn_if_applicable, format_number_nicely
     asn1rs-model/src/generate/walker.rs write_integer_constraint_type (MIN/MIN_T/MAX/MAX_T/EXTENSIBLE)
   The thresholds I8_MAX .. U32_MAX come from Gen/IntConsts.v (generated from rust.rs). *)
From A1 Require Export Base.Res.
From A1 Require Export Gen.IntConsts.
From Coq Require Import Decimal DecimalZ.
Local Open Scope Z_scope.

(** * Rust integer kinds *)
Inductive ikind := U8 | I8 | U16 | I16 | U32 | I32 | U64 | I64.

Definition width (k : ikind) : Z :=
  match k with U8 | I8 => 8 | U16 | I16 => 16 | U32 | I32 => 32 | U64 | I64 => 64 end.
Definition signed (k : ikind) : bool :=
  match k with I8 | I16 | I32 | I64 => true | _ => false end.
(* literal tables (lia-friendly); [kind_tables_ok] below ties them to 2^width *)
Definition kmin (k : ikind) : Z :=
  match k with I8 => -128 | I16 => -32768 | I32 => -2147483648 | I64 => -9223372036854775808 | _ => 0 end.
Definition kmax (k : ikind) : Z :=
  match k with
  | U8 => 255 | I8 => 127 | U16 => 65535 | I16 => 32767 | U32 => 4294967295 | I32 => 2147483647
  | U64 => 18446744073709551615 | I64 => 9223372036854775807
  end.
Definition modulus (k : ikind) : Z :=
  match k with
  | U8 | I8 => 256 | U16 | I16 => 65536 | U32 | I32 => 4294967296 | U64 | I64 => 18446744073709551616
  end.

Definition i64_min : Z := -9223372036854775808.
Definition i64_max : Z := 9223372036854775807.
Definition u64_max : Z := 18446744073709551615.
Definition in_i64 (z : Z) : bool := (i64_min <=? z) && (z <=? i64_max).

Lemma kind_tables_ok k :
  modulus k = 2 ^ width k /\
  kmin k = (if signed k then - 2 ^ (width k - 1) else 0) /\
  kmax k = (if signed k then 2 ^ (width k - 1) - 1 else 2 ^ width k - 1).
Proof. destruct k; repeat split; reflexivity. Qed.
Lemma i64_tables_ok : i64_min = kmin I64 /\ i64_max = kmax I64 /\ u64_max = kmax U64.
Proof. repeat split; reflexivity. Qed.

(* `x as <kind>` on a two's complement value: reduce modulo 2^width into [kmin, kmax] *)
Definition cast (k : ikind) (z : Z) : Z := (z - kmin k) mod modulus k + kmin k.
Definition wrap_u64 (z : Z) : Z := cast U64 z.
Definition wrap_i64 (z : Z) : Z := cast I64 z.

(* i64 `+` and `.abs()`: overflow panics with overflow checks, wraps without *)
Definition i64_add (m : mode) (a b : Z) : res Z :=
  let r := a + b in
  if in_i64 r then Ok r else if overflow_checks m then Panic P_ARITH else Ok (wrap_i64 r).
Definition i64_abs (m : mode) (a : Z) : res Z :=
  let r := Z.abs a in
  if in_i64 r then Ok r else if overflow_checks m then Panic P_ARITH else Ok (wrap_i64 r).

(** * Source level: what is written in the ASN.1 module *)
Inductive sbound := Lit (z : Z) | Kw.          (* a number, or the keyword MIN (lower) / MAX (upper) *)
Inductive srange := Unconstrained | Constrained (lo hi : sbound) (ext : bool).

(** * integer.rs: the parsed and the resolved range *)
Inductive lor := LLit (z : Z) | LRef (z : Z).  (* LRef: text that `parse::<i64>` rejected, kept as a reference name *)

Definition E_PARSE : N := 1.
Definition E_RESOLVE : N := 2.

(* `.text().filter(!MIN/MAX).map(parse::<i64>)` on the decimal text of z *)
Definition parse_bound (b : sbound) : option lor :=
  match b with
  | Kw => None
  | Lit z => Some (if in_i64 z then LLit z else LRef z)
  end.

Definition parse_range (r : srange) : option lor * option lor * bool :=
  match r with
  | Unconstrained => (None, None, false)
  | Constrained lo hi ext =>
      match parse_bound lo, parse_bound hi with
      | Some (LLit l), None => if l =? 0 then (None, None, ext) else (Some (LLit l), None, ext)
      | None, Some (LLit h) => if h =? i64_max then (None, None, ext) else (None, Some (LLit h), ext)
      | s, e => (s, e, ext)
      end
  end.

(* ResolveScope::resolve in a module without value references *)
Definition resolve_bound (o : option lor) : res (option Z) :=
  match o with
  | None => Ok None
  | Some (LLit z) => Ok (Some z)
  | Some (LRef _) => Err E_RESOLVE
  end.

Definition resolve_range (p : option lor * option lor * bool) : res (option Z * option Z * bool) :=
  let '(lo, hi, ext) := p in
  let! lo := resolve_bound lo in
  let! hi := resolve_bound hi in
  Ok (lo, hi, ext).

Definition front_range (r : srange) : res (option Z * option Z * bool) := resolve_range (parse_range r).

(** * rust.rs: RustType of an integer = kind + Range *)
Record rty := { rk : ikind; rmin : option Z; rmax : option Z; rext : bool }.

Definition unwrap_or (o : option Z) (d : Z) : Z := match o with Some z => z | None => d end.

(* the first match arm shared by both functions *)
Definition is_unconstrained_pair (lo hi : option Z) : bool :=
  match lo, hi with
  | None, None => true
  | Some l, None => l =? 0
  | Some l, Some h => (l =? 0) && (h =? i64_max)
  | None, Some h => h =? i64_max
  end.

Definition fixed_range (k : ikind) (min max : Z) : rty :=
  {| rk := k; rmin := Some (cast k min); rmax := Some (cast k max); rext := false |}.

Definition fixed_int_type (m : mode) (lo hi : option Z) : res rty :=
  if is_unconstrained_pair lo hi then Ok {| rk := U64; rmin := None; rmax := None; rext := false |}
  else
    let min := unwrap_or lo 0 in
    let max := unwrap_or hi i64_max in
    if 0 <=? min then
      let mx := wrap_u64 max in                       (* max as u64 *)
      if mx <=? U8_MAX then Ok (fixed_range U8 min max)
      else if mx <=? U16_MAX then Ok (fixed_range U16 min max)
      else if mx <=? U32_MAX then Ok (fixed_range U32 min max)
      else Ok (fixed_range U64 min max)
    else
      let! m1 := i64_add m min 1 in
      let! a := i64_abs m m1 in
      let amp := Z.max a max in                        (* (min + 1).abs().max(max) *)
      if amp <=? I8_MAX then Ok (fixed_range I8 min max)
      else if amp <=? I16_MAX then Ok (fixed_range I16 min max)
      else if amp <=? I32_MAX then Ok (fixed_range I32 min max)
      else Ok (fixed_range I64 min max).

Definition ext_int_type (lo hi : option Z) : rty :=
  if is_unconstrained_pair lo hi then {| rk := U64; rmin := None; rmax := None; rext := true |}
  else if (0 <=? unwrap_or lo 0) && (0 <=? unwrap_or hi 0) then
    {| rk := U64; rmin := option_map wrap_u64 lo; rmax := option_map wrap_u64 hi; rext := true |}
  else
    {| rk := I64; rmin := Some (unwrap_or lo i64_min); rmax := Some (unwrap_or hi i64_max); rext := true |}.

(* definition_type_to_rust_type, INTEGER arms *)
Definition int_type (m : mode) (lo hi : option Z) (ext : bool) : res rty :=
  if ext then Ok (ext_int_type lo hi) else fixed_int_type m lo hi.

(* the whole chain for `T ::= INTEGER ...` *)
Definition src_int_type (m : mode) (r : srange) : res rty :=
  let! x := front_range r in
  let '(lo, hi, ext) := x in
  int_type m lo hi ext.

(** * Decimal text (Display for the integer types) as char codes *)
Fixpoint uint_codes (d : uint) : list Z :=
  match d with
  | Nil => []
  | D0 d => 48 :: uint_codes d | D1 d => 49 :: uint_codes d | D2 d => 50 :: uint_codes d
  | D3 d => 51 :: uint_codes d | D4 d => 52 :: uint_codes d | D5 d => 53 :: uint_codes d
  | D6 d => 54 :: uint_codes d | D7 d => 55 :: uint_codes d | D8 d => 56 :: uint_codes d
  | D9 d => 57 :: uint_codes d
  end.

Definition to_string (z : Z) : list Z :=
  match Z.to_int z with
  | Pos d => uint_codes d
  | Neg d => 45 :: uint_codes d
  end.

(* integer_range_str *)
Definition integer_range_str (t : rty) : list Z * list Z :=
  match rk t with
  | U64 => (to_string (unwrap_or (rmin t) 0), to_string (unwrap_or (rmax t) (wrap_u64 i64_max)))
  | _ => (to_string (unwrap_or (rmin t) 0), to_string (unwrap_or (rmax t) 0))   (* always Some for these kinds *)
  end.

(** * generate/rust.rs: format_number_nicely *)
Definition is_numeric (c : Z) : bool := (48 <=? c) && (c <=? 57).     (* ASCII only; non-ASCII is out of model *)

Fixpoint nice_loop (pos : Z) (l : list Z) : list Z :=
  match l with
  | [] => []
  | c :: t =>
      let pos' := (pos + 1) mod 3 in
      if (pos' =? 0) && is_numeric c then c :: 95 :: nice_loop pos' t else c :: nice_loop pos' t
  end.

(* `let len = out.len(); out.remove(len - 1);` *)
Definition remove_last (m : mode) (out : list Z) : res (list Z) :=
  match out with
  | [] => if overflow_checks m then Panic P_ARITH else Panic P_OTHER
  | _ => Ok (removelast out)
  end.

Definition format_number_nicely (m : mode) (s : list Z) : res (list Z) :=
  let len := Z.of_nat (length s) in
  remove_last m (nice_loop ((3 - len mod 3) mod 3) s).

(* add_min_max_fn_if_applicable: (return type, body of value_min, body of value_max) *)
Definition min_max_fn_text (m : mode) (t : rty) : res (ikind * list Z * list Z) :=
  let '(smin, smax) := integer_range_str t in
  let! a := format_number_nicely m smin in
  let! b := format_number_nicely m smax in
  Ok (rk t, a, b).

(** * Reading a Rust integer literal back (the inverse used by C15_accessors) *)
Fixpoint codes_uint (l : list Z) : option uint :=
  match l with
  | [] => Some Nil
  | c :: t =>
      if c =? 95 then codes_uint t      (* `_` separators are ignored by the Rust lexer *)
      else match codes_uint t with
           | None => None
           | Some d =>
               match c with
               | 48 => Some (D0 d) | 49 => Some (D1 d) | 50 => Some (D2 d) | 51 => Some (D3 d)
               | 52 => Some (D4 d) | 53 => Some (D5 d) | 54 => Some (D6 d) | 55 => Some (D7 d)
               | 56 => Some (D8 d) | 57 => Some (D9 d) | _ => None
               end
           end
  end.

Definition parse_num (l : list Z) : option Z :=
  match l with
  | [] => None
  | 45 :: t => match codes_uint t with Some Nil | None => None | Some d => Some (Z.of_int (Neg d)) end
  | _ => match codes_uint l with Some Nil | None => None | Some d => Some (Z.of_int (Pos d)) end
  end.

(** * generate/walker.rs: write_integer_constraint_type *)
(* (type, MIN, MIN_T, MAX, MAX_T, EXTENSIBLE): the four constants are emitted only for Some bounds *)
Definition walker_consts (t : rty) : ikind * option Z * option Z * option Z * option Z * bool :=
  (rk t, rmin t, rmin t, rmax t, rmax t, rext t).

(** * The specification side: which values a source range permits, and what a kind can hold *)
Definition fits (k : ikind) (v : Z) : Prop := kmin k <= v <= kmax k.
Definition fitsb (k : ikind) (v : Z) : bool := (kmin k <=? v) && (v <=? kmax k).

Definition permitted (lo hi : sbound) (v : Z) : Prop :=
  match lo with Lit l => l <= v | Kw => True end /\
  match hi with Lit h => v <= h | Kw => True end.

(* "within 64 bits": a lower bound that is negative or absent calls for a signed type (values in i64),
   a non-negative one for an unsigned type (values in u64) *)
Definition needs_signed (lo : sbound) : bool := match lo with Lit l => l <? 0 | Kw => true end.
Definition rep64 (lo : sbound) (v : Z) : Prop :=
  if needs_signed lo then i64_min <= v <= i64_max else 0 <= v <= u64_max.

(* well-formed source range: literal bounds are i64 literals and lo <= hi *)
Definition wf_bound (b : sbound) : Prop := match b with Lit z => i64_min <= z <= i64_max | Kw => True end.
Definition wf_range (lo hi : sbound) : Prop :=
  wf_bound lo /\ wf_bound hi /\ match lo, hi with Lit l, Lit h => l <= h | _, _ => True end.

Definition sr_lo (r : srange) : sbound := match r with Unconstrained => Kw | Constrained lo _ _ => lo end.
Definition sr_hi (r : srange) : sbound := match r with Unconstrained => Kw | Constrained _ hi _ => hi end.
Definition sr_ext (r : srange) : bool := match r with Unconstrained => false | Constrained _ _ e => e end.
Definition wf_srange (r : srange) : Prop := wf_range (sr_lo r) (sr_hi r).

(* the interval [eff_lo, eff_hi] that is permitted and representable in 64 bits *)
Definition eff_lo (lo : sbound) : Z := match lo with Lit l => l | Kw => i64_min end.
Definition eff_hi (lo hi : sbound) : Z :=
  match hi with Lit h => h | Kw => if needs_signed lo then i64_max else u64_max end.

(** * Known findings (classes of checks/C15.py) *)
(* no lower bound (MIN or plain INTEGER) is taken as 0 => unsigned type; the only escape is the
   extensible range with a negative upper bound, which becomes i64 *)
Definition Known_no_lower_bound_unsigned (r : srange) : Prop :=
  sr_lo r = Kw /\ ~ (sr_ext r = true /\ exists h, sr_hi r = Lit h /\ h < 0).
Definition Known_C15 := Known_no_lower_bound_unsigned.

(* no upper bound (MAX or plain INTEGER) on a non-negative lower bound => u64 whose upper bound /
   value_max() is i64::MAX *)
Definition Known_max_keyword_i64max_on_u64 (r : srange) : Prop :=
  sr_hi r = Kw /\ needs_signed (sr_lo r) = false.

(* what the accessors / kept bounds are expected to be *)
Definition declared_lo (r : srange) (k : ikind) : Z := match sr_lo r with Lit l => l | Kw => kmin k end.
Definition declared_hi (r : srange) (k : ikind) : Z := match sr_hi r with Lit h => h | Kw => kmax k end.
