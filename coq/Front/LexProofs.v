(* Front/LexProofs.v -- layout specification (Layout section) and proofs for C13.

   Part 1 (Layout): token-level printer `render`, the side condition `lex_safe` of X.680 clause 12,
                    the expected token list `expect` (contents and positions).
   Part 2: a count-free, text-level view `Rlc` of the line-structured tokenizer and one-step lemmas.
   Part 3: gap items, block-comment bodies, text items; main induction; top-level theorems.
   Part 4: `positions` is intrinsic.  Part 5: every comment text has a structured body (`body_of`).

   Gap grammar (what may stand at a token boundary), with the position rule  LF: line + 1, column := 0;
   every other character (a lone CR included): column + 1  (`adv1`):
     GSpace " " | GTab HT | GCrLf CR LF | GLf LF | GCr (a CR that is not followed by LF; if a LF does follow,
     the two read as CR LF: same text, same result)
     | GLine c (LF | CR LF)   "--" c line-end, c free of CR and LF
     | GLineD c               "--" c "--"  (X.680 12.6.3: a line comment ended by the next pair of hyphens):
                              c free of CR, LF, "--", not ending in '-'.  The crate does NOT end the comment
                              there, it skips the rest of the line, so what follows on the same line must be
                              invisible for both readings: blanks, further line comments, block comments that
                              do not contain a line end -- up to a LF inside the same gap (`gap_ok`).
     | GBlock body            "/*" body "*/", body = list of CChar c | CNl | CCrNl | COpen "/*" | CClose "*/",
                              balanced; every character except LF is content (LF is CNl), including '*', '/',
                              CR; the only condition is the one the left-to-right scan imposes: a content '*'
                              is not directly followed by '/', a content '/' not directly followed by '*'
                              (the next character being the next item's first one, or the '*' of the final
                              "*/"); so "/*/" is an opening followed by '/', "/**/" is empty, "**/" is a '*'
                              and the closing, "/* x /*/" is not closed.                                   *)
From A1 Require Import Front.Lex.
From Coq Require Import ZifyBool ZifyNat ZifyN Lia.
Local Open Scope N_scope.
Local Arguments N.add : simpl never.
Local Arguments N.sub : simpl never.
Local Arguments Z.add : simpl never.
Local Arguments Z.sub : simpl never.

(* ================================================================== *)
(* Part 1: Layout                                                      *)
(* ================================================================== *)

Inductive ptoken : Type := PText (s : list N) | PSep (c : N).

(* content of a block comment: characters, line ends, nested opens / closes *)
Inductive citem : Type := CChar (c : N) | CNl | CCrNl | COpen | CClose.

(* the kinds of gap items: space, tab, CR LF, LF, line comment ended by LF or CR LF,
   block comment, nested block comment (a GBlock whose body has COpen/CClose),
   lone CR, line comment ended by a second "--" *)
Inductive gitem : Type :=
| GSpace | GTab | GCrLf | GLf
| GLine (c : list N) (crlf : bool)
| GBlock (body : list citem)
| GCr
| GLineD (c : list N).
Definition gap : Type := list gitem.

Definition render_citem (i : citem) : list N :=
  match i with
  | CChar c => [c] | CNl => [10] | CCrNl => [13; 10] | COpen => [47; 42] | CClose => [42; 47]
  end.
Definition render_body (b : list citem) : list N := flat_map render_citem b.
Definition render_gitem (i : gitem) : list N :=
  match i with
  | GSpace => [32] | GTab => [9] | GCrLf => [13; 10] | GLf => [10]
  | GLine c crlf => 45 :: 45 :: c ++ (if crlf then [13; 10] else [10])
  | GBlock b => 47 :: 42 :: render_body b ++ [42; 47]
  | GCr => [13]
  | GLineD c => 45 :: 45 :: c ++ [45; 45]
  end.
Definition render_gap (g : gap) : list N := flat_map render_gitem g.
Definition render_tok (t : ptoken) : list N := match t with PText s => s | PSep c => [c] end.

(* gs: the gap after each token *)
Fixpoint render_items (ts : list ptoken) (gs : list gap) : list N :=
  match ts, gs with
  | t :: ts', g :: gs' => render_tok t ++ render_gap g ++ render_items ts' gs'
  | _, _ => []
  end.
(* layout  g0 t1 g1 t2 g2 ... tn gn *)
Definition render (ts : list ptoken) (gs : list gap) : list N :=
  match gs with [] => [] | g0 :: gs' => render_gap g0 ++ render_items ts gs' end.

(* ---- where things are: 0-based (line, column) after reading a string ---- *)
Definition adv1 (lc : N * N) (c : N) : N * N :=
  if c =? 10 then (fst lc + 1, 0) else (fst lc, snd lc + 1).
Definition advance (lc : N * N) (s : list N) : N * N := fold_left adv1 s lc.

Fixpoint positions_items (lc : N * N) (ts : list ptoken) (gs : list gap) : list (N * N) :=
  match ts, gs with
  | t :: ts', g :: gs' =>
      (fst lc + 1, snd lc + 1)
        :: positions_items (advance (advance lc (render_tok t)) (render_gap g)) ts' gs'
  | _, _ => []
  end.
(* 1-based line and column at which each item starts in `render ts gs` *)
Definition positions (ts : list ptoken) (gs : list gap) : list (N * N) :=
  match gs with [] => [] | g0 :: gs' => positions_items (advance (0, 0) (render_gap g0)) ts gs' end.

(* ---- side conditions ---- *)
Definition is_nil {A} (l : list A) : bool := match l with [] => true | _ => false end.

Definition text_char (c : N) : bool :=
  negb (is_control c) && negb (c =? 32) && negb (is_sep_char c).

(* no a immediately followed by b *)
Fixpoint no_pair (a b : N) (s : list N) : bool :=
  match s with
  | [] => true
  | x :: t => negb ((x =? a) && opt_eqb (hd_error t) b) && no_pair a b t
  end.

(* a text item: non-empty, made of characters that are neither white-space/control nor separators,
   contains neither "--" nor "/*", and does not end in '-' (X.680 12.3) *)
Definition text_okb (s : list N) : bool :=
  negb (is_nil s) && forallb text_char s && no_pair 45 45 s && no_pair 47 42 s
  && negb (last s 0 =? 45).

Definition tok_okb (t : ptoken) : bool :=
  match t with PText s => text_okb s | PSep c => is_sep_char c end.

(* the character that follows an item of a comment body: the first one of the next item, or the '*'
   of the "*/" that ends the comment *)
Definition first_char (i : citem) : N :=
  match i with CChar c => c | CNl => 10 | CCrNl => 13 | COpen => 47 | CClose => 42 end.
Definition next_char (b : list citem) : N :=
  match b with [] => 42 | i :: _ => first_char i end.

(* a content character: anything but LF (that is CNl); a '*' must not be directly followed by '/' and a
   '/' not by '*' (they would be the delimiters "*/" and "/*") *)
Definition cchar_ok (c next : N) : bool :=
  negb (c =? 10) && negb ((c =? 42) && (next =? 47)) && negb ((c =? 47) && (next =? 42)).

(* body of a block comment read at nesting depth d (>= 1): balanced, never closes the outer comment,
   nesting below the i32 limit of `nest_lvl` *)
Fixpoint body_ok (d : Z) (b : list citem) : bool :=
  match b with
  | [] => (d =? 1)%Z
  | CChar c :: b' => cchar_ok c (next_char b') && body_ok d b'
  | CNl :: b' => body_ok d b'
  | CCrNl :: b' => body_ok d b'
  | COpen :: b' => (d <? I32_MAX)%Z && body_ok (d + 1)%Z b'
  | CClose :: b' => (2 <=? d)%Z && body_ok (d - 1)%Z b'
  end.

Definition lchar_ok (c : N) : bool := negb (c =? 10) && negb (c =? 13).

(* content of "--" c "--": no line end, no "--" inside, and c ++ "--" has its first "--" at the end *)
Definition dcomment_ok (c : list N) : bool :=
  forallb lchar_ok c && no_pair 45 45 c && negb (last c 0 =? 45).

Definition gitem_okb (i : gitem) : bool :=
  match i with
  | GLine c _ => forallb lchar_ok c
  | GBlock b => body_ok 1 b
  | GLineD c => dcomment_ok c
  | _ => true
  end.

Definition is_cnl (i : citem) : bool := match i with CNl | CCrNl => true | _ => false end.
Definition has_nl (b : list citem) : bool := existsb is_cnl b.

(* a gap, read from left to right; dd = "a `--` c `--` comment stands earlier on the current line": the
   crate skips the rest of that line, X.680 12.6.3 does not, so only items that are invisible for both
   may follow on it (blanks, comments without a line end), and the line must end inside the gap *)
Fixpoint gap_ok (dd : bool) (g : gap) : bool :=
  match g with
  | [] => negb dd
  | i :: g' =>
      gitem_okb i &&
      match i with
      | GCrLf | GLf | GLine _ _ => gap_ok false g'
      | GLineD _ => gap_ok true g'
      | GBlock b => (negb dd || negb (has_nl b)) && gap_ok dd g'
      | GSpace | GTab | GCr => gap_ok dd g'
      end
  end.
Definition gap_okb (g : gap) : bool := gap_ok false g.

(* the X.680-faithful subclass: also a line comment ended by a line end has no "--" inside (with one
   inside, X.680 12.6.3 ends the comment there; the crate skips the whole line, see Props/C13.v) *)
Definition x680_item (i : gitem) : bool :=
  match i with GLine c _ => no_pair 45 45 c | _ => true end.
Definition x680_lines (gs : list gap) : bool := forallb (forallb x680_item) gs.
(* every gap item separates: white-space, line ends, line comments and (since repair 58b7ab0 of the
   tokenizer) block comments all push the pending token *)
Definition iflush (i : gitem) : bool := true.
Definition gflush (g : gap) : bool := existsb iflush g.

Definition is_text (t : ptoken) : bool := match t with PText _ => true | PSep _ => false end.

(* the gaps lying between two text items (gs = gap after each token) *)
Fixpoint tt_gaps (ts : list ptoken) (gs : list gap) : list gap :=
  match ts, gs with
  | t :: ts', g :: gs' =>
      (if is_text t && match ts' with t2 :: _ => is_text t2 | [] => false end then [g] else [])
        ++ tt_gaps ts' gs'
  | _, _ => []
  end.

(* X.680 12.1: one gap per boundary (plus a leading one); items well formed; two adjacent text items
   are separated by at least one white-space or comment *)
Definition lex_safeb (ts : list ptoken) (gs : list gap) : bool :=
  (length gs =? S (length ts))%nat && forallb tok_okb ts && forallb gap_okb gs
  && forallb (fun g => negb (is_nil g)) (tt_gaps ts (tl gs)).
Definition lex_safe (ts : list ptoken) (gs : list gap) : Prop := lex_safeb ts gs = true.

(* ---- expected result ---- *)
Definition mk_tok (lc : N * N) (t : ptoken) : token :=
  match t with
  | PText s => Text (fst lc + 1) (snd lc + 1) s
  | PSep c => Separator (fst lc + 1) (snd lc + 1) c
  end.
Fixpoint expect_items (lc : N * N) (ts : list ptoken) (gs : list gap) : list token :=
  match ts, gs with
  | t :: ts', g :: gs' =>
      mk_tok lc t :: expect_items (advance (advance lc (render_tok t)) (render_gap g)) ts' gs'
  | _, _ => []
  end.
Definition expect (ts : list ptoken) (gs : list gap) : list token :=
  match gs with [] => [] | g0 :: gs' => expect_items (advance (0, 0) (render_gap g0)) ts gs' end.

Definition strip (t : token) : ptoken :=
  match t with Text _ _ s => PText s | Separator _ _ c => PSep c end.
Definition loc (t : token) : N * N := (tok_line t, tok_column t).

Lemma strip_expect_items : forall ts gs lc, length gs = length ts ->
  map strip (expect_items lc ts gs) = ts.
Proof.
  induction ts as [|t ts IH]; intros [|g gs] lc Hl; cbn in *; try discriminate; try reflexivity.
  f_equal; [destruct t; reflexivity | apply IH; congruence].
Qed.

Lemma loc_expect_items : forall ts gs lc,
  map loc (expect_items lc ts gs) = positions_items lc ts gs.
Proof.
  induction ts as [|t ts IH]; intros [|g gs] lc; cbn; try reflexivity.
  f_equal; [destruct t; reflexivity | apply IH].
Qed.

(* ================================================================== *)
(* Part 2: text-level view of the line-structured tokenizer            *)
(* ================================================================== *)

Lemma emit_nil : forall r, emit [] r = r.
Proof. intros [[[p n] o]| |]; reflexivity. Qed.

Lemma emit_emit : forall a b r, emit a (emit b r) = emit (a ++ b) r.
Proof. intros a b [[[p n] o]| |]; cbn; try reflexivity. now rewrite app_assoc. Qed.

(* lines_loop with the last-line test phrased on the remaining lines *)
Fixpoint lines_loop2 (m : mode) (line_0 : N) (previous : option token) (nest_lvl : Z)
         (ls : list (list N)) {struct ls} : res lstate :=
  match ls with
  | [] => Ok (previous, nest_lvl, [])
  | l :: ls' =>
      match line_loop m (is_nil ls') line_0 0 previous nest_lvl l with
      | Ok (p, n, out) => emit (out ++ push_opt p) (lines_loop2 m (line_0 + 1) None n ls')
      | Err e => Err e
      | Panic p => Panic p
      end
  end.

Lemma lines_loop_eq : forall m ls count line_0 p n,
  count = line_0 + N.of_nat (length ls) ->
  lines_loop m count line_0 p n ls = lines_loop2 m line_0 p n ls.
Proof.
  induction ls as [|l ls IH]; intros count line_0 p n Hc; [reflexivity|].
  cbn [lines_loop lines_loop2].
  replace (line_0 =? count - 1) with (is_nil ls).
  2:{ cbn [length] in Hc. destruct ls; cbn [is_nil length] in *; lia. }
  destruct (line_loop m (is_nil ls) line_0 0 p n l) as [[[p' n'] o]| |]; try reflexivity.
  rewrite IH; [reflexivity|]. cbn [length] in Hc. lia.
Qed.

Definition fin (m : mode) (line : N) (r : res lstate) (ls : list (list N)) : res lstate :=
  match r with
  | Ok (p', n', out) => emit (out ++ push_opt p') (lines_loop2 m (line + 1) None n' ls)
  | Err e => Err e
  | Panic q => Panic q
  end.

Lemma fin_emit : forall m line o r ls, fin m line (emit o r) ls = emit o (fin m line r ls).
Proof.
  intros m line o [[[p n] o']| |] ls; cbn; try reflexivity.
  rewrite emit_emit. now rewrite app_assoc.
Qed.

(* the tokenizer positioned at 0-based (line, column) = lc in front of the remaining text s *)
Definition Rlc (m : mode) (lc : N * N) (p : option token) (n : Z) (s : list N) : res lstate :=
  fin m (fst lc)
      (line_loop m (is_nil (snd (split_lines s))) (fst lc) (snd lc) p n (fst (split_lines s)))
      (snd (split_lines s)).

Definition finish (r : res lstate) : res (list token) :=
  match r with
  | Ok (p, _, out) => Ok (out ++ push_opt p)
  | Err e => Err e
  | Panic p => Panic p
  end.

Lemma lines_loop2_Rlc : forall m line n t,
  lines_loop2 m line None n (lines_of t) = Rlc m (line, 0) None n t.
Proof. intros m line n [|c t]; reflexivity. Qed.

Lemma tokenize_Rlc : forall m s, tokenize m s = finish (Rlc m (0, 0) None 0%Z s).
Proof.
  intros m s. unfold tokenize.
  rewrite lines_loop_eq by lia. rewrite lines_loop2_Rlc. reflexivity.
Qed.

(* ---- str::lines, one character at a time ---- *)
Lemma split_cons : forall c t, c <> 10 -> (c = 13 -> hd_error t <> Some 10) ->
  split_lines (c :: t) = (c :: fst (split_lines t), snd (split_lines t)).
Proof.
  intros c t H10 H13. cbn [split_lines].
  replace (c =? 10) with false by lia.
  destruct t as [|c2 t2]; [reflexivity|].
  destruct ((c =? 13) && (c2 =? 10)) eqn:E; [|reflexivity].
  exfalso. apply andb_prop in E as [E1 E2].
  apply N.eqb_eq in E1, E2. subst. now apply H13.
Qed.

Lemma split_cons' : forall c t, c <> 10 -> c <> 13 ->
  split_lines (c :: t) = (c :: fst (split_lines t), snd (split_lines t)).
Proof. intros. apply split_cons; [assumption|contradiction]. Qed.

Lemma split_nl : forall t, split_lines (10 :: t) = ([], lines_of t).
Proof. reflexivity. Qed.
Lemma split_crnl : forall t, split_lines (13 :: 10 :: t) = ([], lines_of t).
Proof. reflexivity. Qed.

Lemma split_app : forall a t, forallb lchar_ok a = true ->
  split_lines (a ++ t) = (a ++ fst (split_lines t), snd (split_lines t)).
Proof.
  induction a as [|c a IH]; intros t H; cbn [app].
  - now destruct (split_lines t).
  - cbn [forallb] in H. apply andb_prop in H as [Hc Ha]. unfold lchar_ok in Hc.
    rewrite split_cons' by lia. rewrite IH by assumption. reflexivity.
Qed.

Definition peek (t : list N) : option N := hd_error (fst (split_lines t)).
Definition is_last (t : list N) : bool := is_nil (snd (split_lines t)).

Lemma peek_cons : forall c t, c <> 10 -> c <> 13 -> peek (c :: t) = Some c.
Proof. intros. unfold peek. now rewrite split_cons'. Qed.

Lemma peek_cases : forall t, peek t = None \/ peek t = hd_error t.
Proof.
  intros [|c t]; [now left|].
  destruct (N.eq_dec c 10) as [->|H10]; [now left|].
  destruct (N.eq_dec c 13) as [->|H13].
  - destruct t as [|c2 t2]; [now right|].
    destruct (N.eq_dec c2 10) as [->|H2]; [now left|].
    right. unfold peek. rewrite split_cons; [reflexivity|lia|]. cbn. congruence.
  - right. now rewrite peek_cons.
Qed.

Lemma peek_sub : forall t x, opt_eqb (peek t) x = true -> opt_eqb (hd_error t) x = true.
Proof. intros t x H. destruct (peek_cases t) as [E|E]; rewrite E in H; [discriminate|assumption]. Qed.

Lemma lines_of_cons_not_nil : forall s, s <> [] -> is_nil (lines_of s) = false.
Proof. intros [|c s] H; [congruence|reflexivity]. Qed.

(* ---- one-step lemmas ---- *)
Lemma line_loop_cons : forall m ll line col p n c rest,
  line_loop m ll line col p n (c :: rest) =
  match step m ll line col p n c (hd_error rest) with
  | Fail q => Panic q
  | Break => Ok (p, n, [])
  | Continue sk p' n' out =>
      emit out
        (if sk then
           match rest with
           | _ :: rest' => line_loop m ll line (col + 2) p' n' rest'
           | [] => Ok (p', n', [])
           end
         else line_loop m ll line (col + 1) p' n' rest)
  end.
Proof. reflexivity. Qed.

Lemma adv1_other : forall lc c, c <> 10 -> adv1 lc c = (fst lc, snd lc + 1).
Proof. intros. unfold adv1. now replace (c =? 10) with false by lia. Qed.

(* one character that stays in its line: anything but LF, and a CR only if no LF follows *)
Lemma Rlc_step1' : forall m lc p n c t p' n' out, c <> 10 -> (c = 13 -> hd_error t <> Some 10) ->
  step m (is_last t) (fst lc) (snd lc) p n c (peek t) = Continue false p' n' out ->
  Rlc m lc p n (c :: t) = emit out (Rlc m (adv1 lc c) p' n' t).
Proof.
  intros m lc p n c t p' n' out H10 H13 Hs. unfold Rlc.
  rewrite split_cons by assumption. cbn [fst snd].
  rewrite line_loop_cons. unfold is_last, peek in Hs. rewrite Hs.
  rewrite fin_emit. rewrite adv1_other by assumption. reflexivity.
Qed.

Lemma Rlc_step1 : forall m lc p n c t p' n' out, c <> 10 -> c <> 13 ->
  step m (is_last t) (fst lc) (snd lc) p n c (peek t) = Continue false p' n' out ->
  Rlc m lc p n (c :: t) = emit out (Rlc m (adv1 lc c) p' n' t).
Proof. intros. apply Rlc_step1'; [assumption|contradiction|assumption]. Qed.

Lemma Rlc_step2 : forall m lc p n c c2 t p' n' out, c <> 10 -> c <> 13 -> c2 <> 10 -> c2 <> 13 ->
  (forall ll, step m ll (fst lc) (snd lc) p n c (Some c2) = Continue true p' n' out) ->
  Rlc m lc p n (c :: c2 :: t) = emit out (Rlc m (adv1 (adv1 lc c) c2) p' n' t).
Proof.
  intros m lc p n c c2 t p' n' out H10 H13 H210 H213 Hs. unfold Rlc.
  rewrite (split_cons' c) by assumption. rewrite (split_cons' c2) by assumption. cbn [fst snd].
  rewrite line_loop_cons. cbn [hd_error]. rewrite Hs.
  rewrite fin_emit. rewrite !adv1_other by assumption. cbn [fst snd].
  replace (snd lc + 1 + 1) with (snd lc + 2) by lia. reflexivity.
Qed.

Lemma Rlc_nl : forall m lc p n t,
  Rlc m lc p n (10 :: t) = emit (push_opt p) (Rlc m (adv1 lc 10) None n t).
Proof.
  intros. unfold Rlc at 1. rewrite split_nl. cbn [fst snd line_loop fin app].
  rewrite lines_loop2_Rlc. reflexivity.
Qed.

Lemma Rlc_crnl : forall m lc p n t,
  Rlc m lc p n (13 :: 10 :: t) = emit (push_opt p) (Rlc m (adv1 (adv1 lc 13) 10) None n t).
Proof.
  intros. unfold Rlc at 1. rewrite split_crnl. cbn [fst snd line_loop fin app].
  rewrite lines_loop2_Rlc. reflexivity.
Qed.

Lemma Rlc_nil : forall m lc p n, Rlc m lc p n [] = Ok (None, n, push_opt p).
Proof. intros. unfold Rlc. cbn. now rewrite app_nil_r. Qed.

(* ---- the rest of a line is skipped after "--" ---- *)
Lemma step_dashdash_early : forall m ll line col p,
  step m ll line col p 0 45 (Some 45) = Break.
Proof. reflexivity. Qed.

Definition nolf (c : N) : bool := negb (c =? 10).

Lemma lchar_nolf : forall a, forallb lchar_ok a = true -> forallb nolf a = true.
Proof.
  induction a as [|c a IH]; intros H; [reflexivity|].
  cbn [forallb] in *. apply andb_prop in H as [Hc Ha]. unfold lchar_ok in Hc. unfold nolf at 1.
  rewrite IH by assumption. apply andb_true_intro; split; [lia|reflexivity].
Qed.

(* str::lines: a text without LF in front of a LF is (the beginning of) one line, whatever CRs it has *)
Lemma split_skip : forall a t, forallb nolf a = true ->
  exists a', split_lines (a ++ 10 :: t) = (a', lines_of t).
Proof.
  induction a as [|c a IH]; intros t H.
  - exists []. apply split_nl.
  - cbn [forallb] in H. apply andb_prop in H as [Hc Ha]. unfold nolf in Hc.
    destruct (IH t Ha) as [a' E]. cbn [app].
    destruct a as [|c2 a2].
    + cbn [app] in *. destruct (N.eq_dec c 13) as [->|H13].
      * exists []. apply split_crnl.
      * exists [c]. rewrite split_cons' by lia. rewrite split_nl. reflexivity.
    + cbn [forallb] in Ha. apply andb_prop in Ha as [Hc2 _]. unfold nolf in Hc2.
      exists (c :: a'). rewrite split_cons; [|lia|].
      * rewrite E. reflexivity.
      * intros _. cbn [app hd_error]. intros [= E2]. lia.
Qed.

Lemma Rlc_skip : forall m lc p a t, forallb nolf a = true ->
  Rlc m lc p 0 (45 :: 45 :: a ++ 10 :: t) = emit (push_opt p) (Rlc m (fst lc + 1, 0) None 0 t).
Proof.
  intros m lc p a t H. destruct (split_skip a t H) as [a' E]. unfold Rlc at 1.
  rewrite (split_cons' 45) by lia. rewrite (split_cons' 45) by lia. rewrite E. cbn [fst snd].
  rewrite line_loop_cons. cbn [hd_error]. rewrite step_dashdash_early. cbn [fin app].
  now rewrite lines_loop2_Rlc.
Qed.

(* ---- a CR that is not the first half of CR LF is one more character of its line ---- *)
Lemma step_cr0 : forall m ll line col p pk,
  step m ll line col p 0 13 pk = Continue false None 0 (push_opt p).
Proof. reflexivity. Qed.

Lemma Rlc_cr0 : forall m lc p t,
  Rlc m lc p 0 (13 :: t) = emit (push_opt p) (Rlc m (adv1 lc 13) None 0 t).
Proof.
  intros m lc p t. destruct t as [|c2 t2].
  - apply Rlc_step1'; [lia|discriminate|apply step_cr0].
  - destruct (N.eq_dec c2 10) as [->|H2].
    + rewrite Rlc_crnl, Rlc_nl. rewrite emit_emit. cbn [push_opt]. now rewrite app_nil_r.
    + apply Rlc_step1'; [lia| |apply step_cr0]. intros _. cbn [hd_error]. intros [= E]. lia.
Qed.

(* ================================================================== *)
(* Part 3a: what one iteration does, per kind of character             *)
(* ================================================================== *)

Lemma step_space : forall m ll line col p pk,
  step m ll line col p 0 32 pk = Continue false None 0 (push_opt p).
Proof. reflexivity. Qed.
Lemma step_tab : forall m ll line col p pk,
  step m ll line col p 0 9 pk = Continue false None 0 (push_opt p).
Proof. reflexivity. Qed.
Lemma step_open0 : forall m ll line col p,
  step m ll line col p 0 47 (Some 42) = Continue true None 1 (push_opt p).
Proof. reflexivity. Qed.
Lemma step_dashdash : forall m ll line col p,
  step m ll line col p 0 45 (Some 45) = Break.
Proof. reflexivity. Qed.

Lemma step_c_close : forall m ll line col p d, (1 <= d)%Z ->
  step m ll line col p d 42 (Some 47) = Continue true p (d - 1)%Z [].
Proof. intros. unfold step. replace (0 <? d)%Z with true by lia. reflexivity. Qed.

Lemma step_c_open : forall m ll line col p d, (1 <= d)%Z -> (d < I32_MAX)%Z ->
  step m ll line col p d 47 (Some 42) = Continue true p (d + 1)%Z [].
Proof.
  intros. unfold step, nest_incr. replace (0 <? d)%Z with true by lia.
  replace (d =? I32_MAX)%Z with false by lia. reflexivity.
Qed.

Lemma step_c_char : forall m ll line col p d c pk, (1 <= d)%Z -> c <> 42 -> c <> 47 ->
  is_none pk && ll = false ->
  step m ll line col p d c pk = Continue false p d [].
Proof.
  intros m ll line col p d c pk Hd H42 H47 Hp. unfold step.
  replace (0 <? d)%Z with true by lia.
  replace (c =? 42) with false by lia. replace (c =? 47) with false by lia.
  now rewrite Hp.
Qed.

(* a character that is comment content: a '*' not in front of '/', a '/' not in front of '*', or any
   other character that is not the last one of an unterminated text *)
Lemma step_c_plain : forall m ll line col p d c pk, (1 <= d)%Z ->
  (c =? 42) && opt_eqb pk 47 = false -> (c =? 47) && opt_eqb pk 42 = false ->
  is_none pk && ll = false ->
  step m ll line col p d c pk = Continue false p d [].
Proof.
  intros m ll line col p d c pk Hd H1 H2 Hp. unfold step.
  replace (0 <? d)%Z with true by lia.
  destruct (c =? 42) eqn:E1.
  - cbn [andb] in H1. rewrite H1. reflexivity.
  - destruct (c =? 47) eqn:E2.
    + cbn [andb] in H2. rewrite H2. reflexivity.
    + rewrite Hp. reflexivity.
Qed.

Lemma sep_char_facts : forall c, is_sep_char c = true ->
  c <> 10 /\ c <> 13 /\ c <> 45 /\ c <> 47 /\ c <> 42.
Proof. intros c H. repeat split; intros ->; discriminate. Qed.

Lemma merge_sep : forall p l c x,
  merge p (Separator l c x) = (Some (Separator l c x), push_opt p).
Proof. intros [[? ? ?|? ? ?]|] l0 c0 x; reflexivity. Qed.

Lemma step_sep : forall m ll line col p c pk, is_sep_char c = true ->
  step m ll line col p 0 c pk
  = Continue false (Some (Separator (line + 1) (col + 1) c)) 0 (push_opt p).
Proof.
  intros m ll line col p c pk H. destruct (sep_char_facts c H) as (_ & _ & H45 & H47 & _).
  unfold step. cbn [Z.ltb Z.compare Z.eqb andb].
  replace (c =? 45) with false by lia. replace (c =? 47) with false by lia. cbn [andb].
  rewrite H. now rewrite merge_sep.
Qed.

Lemma text_char_facts : forall c, text_char c = true ->
  c <> 10 /\ c <> 13 /\ is_sep_char c = false /\ negb (is_control c) && negb (c =? 32) = true.
Proof.
  intros c H. unfold text_char in H.
  apply andb_prop in H as [H H3]. pose proof H as H'. apply andb_prop in H as [H1 H2].
  unfold is_control in H1.
  repeat split; try (intros ->; discriminate); [|assumption].
  now destruct (is_sep_char c).
Qed.

Definition not_text (p : option token) : Prop :=
  match p with Some (Text _ _ _) => False | _ => True end.

Lemma step_text_gen : forall m ll line col p c pk, text_char c = true ->
  (c =? 45) && opt_eqb pk 45 = false -> (c =? 47) && opt_eqb pk 42 = false ->
  step m ll line col p 0 c pk
  = let (p', out) := merge p (Text (line + 1) (col + 1) [c]) in Continue false p' 0 out.
Proof.
  intros m ll line col p c pk H H1 H2. destruct (text_char_facts c H) as (_ & _ & Hs & Hc).
  unfold step. cbn [Z.ltb Z.compare Z.eqb andb].
  rewrite H1, H2, Hs, Hc. reflexivity.
Qed.

Lemma step_text_first : forall m ll line col p c pk, text_char c = true -> not_text p ->
  (c =? 45) && opt_eqb pk 45 = false -> (c =? 47) && opt_eqb pk 42 = false ->
  step m ll line col p 0 c pk
  = Continue false (Some (Text (line + 1) (col + 1) [c])) 0 (push_opt p).
Proof.
  intros m ll line col p c pk H Hp H1 H2. rewrite step_text_gen by assumption.
  destruct p as [[? ? ?|? ? ?]|]; [contradiction|reflexivity|reflexivity].
Qed.

Lemma step_text_more : forall m ll line col l0 c0 acc c pk, text_char c = true ->
  (c =? 45) && opt_eqb pk 45 = false -> (c =? 47) && opt_eqb pk 42 = false ->
  step m ll line col (Some (Text l0 c0 acc)) 0 c pk
  = Continue false (Some (Text l0 c0 (acc ++ [c]))) 0 [].
Proof. intros. now rewrite step_text_gen by assumption. Qed.

(* ================================================================== *)
(* Part 3b: gap items                                                  *)
(* ================================================================== *)

Definition out_if (b : bool) (p : option token) : list token := if b then push_opt p else [].
Definition flush_if (b : bool) (p : option token) : option token := if b then None else p.

Lemma out_if_compose : forall b1 b2 p,
  out_if b1 p ++ out_if b2 (flush_if b1 p) = out_if (b1 || b2) p.
Proof. intros [|] [|] p; cbn; try reflexivity; now rewrite app_nil_r. Qed.
Lemma flush_if_compose : forall b1 b2 p,
  flush_if b2 (flush_if b1 p) = flush_if (b1 || b2) p.
Proof. intros [|] [|] p; reflexivity. Qed.
Lemma out_if_push : forall b p, out_if b p ++ push_opt (flush_if b p) = push_opt p.
Proof. intros [|] p; cbn; [now rewrite app_nil_r|reflexivity]. Qed.

Lemma advance_app : forall lc a b, advance lc (a ++ b) = advance (advance lc a) b.
Proof. intros. unfold advance. apply fold_left_app. Qed.

Lemma advance_line : forall a lc, forallb lchar_ok a = true ->
  advance lc a = (fst lc, snd lc + N.of_nat (length a)).
Proof.
  induction a as [|c a IH]; intros lc H.
  - cbn. destruct lc; cbn. f_equal. lia.
  - cbn [forallb] in H. apply andb_prop in H as [Hc Ha]. unfold lchar_ok in Hc.
    change (advance lc (c :: a)) with (advance (adv1 lc c) a).
    rewrite IH by assumption. rewrite adv1_other by lia. cbn [fst snd length]. f_equal. lia.
Qed.

Lemma advance_nolf : forall a lc, forallb nolf a = true ->
  advance lc a = (fst lc, snd lc + N.of_nat (length a)).
Proof.
  induction a as [|c a IH]; intros lc H.
  - cbn. destruct lc; cbn. f_equal. lia.
  - cbn [forallb] in H. apply andb_prop in H as [Hc Ha]. unfold nolf in Hc.
    change (advance lc (c :: a)) with (advance (adv1 lc c) a).
    rewrite IH by assumption. rewrite adv1_other by lia. cbn [fst snd length]. f_equal. lia.
Qed.

Lemma advance_skip : forall a lc, forallb nolf a = true -> advance lc (a ++ [10]) = (fst lc + 1, 0).
Proof. intros a lc H. rewrite advance_app. rewrite (advance_nolf a) by assumption. reflexivity. Qed.

Lemma out_if_none : forall b, out_if b None = [].
Proof. intros [|]; reflexivity. Qed.
Lemma flush_if_none : forall b, flush_if b None = None.
Proof. intros [|]; reflexivity. Qed.

(* ---- body of a block comment ---- *)

(* the sanctioned panic ("unclosed comment blocks") needs a character that is the last one of the last
   line; a text that goes on is not in that situation *)
Definition cont_ok (s : list N) : bool := negb (is_none (peek s) && is_last s).

Lemma cont_ok_intro : forall s, s <> [] -> s <> [10] -> s <> [13; 10] -> cont_ok s = true.
Proof.
  intros [|c s] H0 H1 H2; [congruence|]. unfold cont_ok, peek, is_last.
  destruct (N.eq_dec c 10) as [->|H10].
  - rewrite split_nl. cbn [fst snd hd_error is_none andb].
    rewrite lines_of_cons_not_nil; [reflexivity|]. intros ->. now apply H1.
  - destruct s as [|c2 s2].
    + cbn [split_lines]. replace (c =? 10) with false by lia. reflexivity.
    + destruct (N.eq_dec c 13) as [->|H13].
      * destruct (N.eq_dec c2 10) as [->|H210].
        -- rewrite split_crnl. cbn [fst snd hd_error is_none andb].
           rewrite lines_of_cons_not_nil; [reflexivity|]. intros ->. now apply H2.
        -- rewrite split_cons; [reflexivity|lia|]. intros _. cbn [hd_error]. intros [= E]. lia.
      * rewrite split_cons' by assumption. reflexivity.
Qed.

Lemma body_cont : forall a t,
  is_none (peek (a ++ 42 :: 47 :: t)) && is_last (a ++ 42 :: 47 :: t) = false.
Proof.
  intros a t. apply negb_true_iff. apply cont_ok_intro.
  - intro E. symmetry in E. now apply app_cons_not_nil in E.
  - intro E. destruct a as [|x [|y [|z a]]]; cbn [app] in E; discriminate E.
  - intro E. destruct a as [|x [|y [|z a]]]; cbn [app] in E; discriminate E.
Qed.

Lemma render_citem_hd : forall i, exists r, render_citem i = first_char i :: r.
Proof. intros [c| | | |]; cbn; eauto. Qed.

Lemma hd_body : forall b t, hd_error (render_body b ++ 42 :: 47 :: t) = Some (next_char b).
Proof.
  intros [|i b] t; [reflexivity|]. cbn [render_body flat_map next_char].
  destruct (render_citem_hd i) as [r ->]. reflexivity.
Qed.

(* a content character of a comment at depth d *)
Lemma Rlc_c_char : forall m lc p d c t, (1 <= d)%Z -> c <> 10 ->
  (c = 42 -> hd_error t <> Some 47) -> (c = 47 -> hd_error t <> Some 42) ->
  is_none (peek t) && is_last t = false ->
  Rlc m lc p d (c :: t) = Rlc m (adv1 lc c) p d t.
Proof.
  intros m lc p d c t Hd H10 Hs1 Hs2 Hc.
  assert (St : step m (is_last t) (fst lc) (snd lc) p d c (peek t) = Continue false p d []).
  { apply step_c_plain; [assumption| | |assumption].
    - destruct (c =? 42) eqn:E; [|reflexivity]. cbn [andb].
      destruct (opt_eqb (peek t) 47) eqn:E2; [|reflexivity].
      apply peek_sub in E2. exfalso. apply Hs1; [lia|].
      destruct (hd_error t) as [x|]; cbn [opt_eqb] in E2; [|discriminate]. f_equal. lia.
    - destruct (c =? 47) eqn:E; [|reflexivity]. cbn [andb].
      destruct (opt_eqb (peek t) 42) eqn:E2; [|reflexivity].
      apply peek_sub in E2. exfalso. apply Hs2; [lia|].
      destruct (hd_error t) as [x|]; cbn [opt_eqb] in E2; [|discriminate]. f_equal. lia. }
  destruct (N.eq_dec c 13) as [->|H13].
  - destruct t as [|c2 t2]; [discriminate Hc|].
    destruct (N.eq_dec c2 10) as [->|H2].
    + rewrite Rlc_crnl, Rlc_nl. reflexivity.
    + rewrite (Rlc_step1' m lc p d 13 _ p d []); [now rewrite emit_nil|lia| |exact St].
      intros _. cbn [hd_error]. intros [= E]. lia.
  - rewrite (Rlc_step1 m lc p d c _ p d []); [now rewrite emit_nil|assumption|assumption|exact St].
Qed.

Lemma scan_body : forall m b d lc p t, (1 <= d)%Z -> body_ok d b = true ->
  Rlc m lc p d (render_body b ++ 42 :: 47 :: t)
  = emit (out_if (has_nl b) p)
         (Rlc m (advance lc (render_body b ++ [42; 47])) (flush_if (has_nl b) p) 0 t).
Proof.
  intros m. induction b as [|i b IH]; intros d lc p t Hd H.
  - cbn [body_ok] in H. assert (d = 1%Z) by lia. subst d.
    cbn [render_body flat_map app has_nl existsb out_if flush_if].
    rewrite (Rlc_step2 m lc p 1%Z 42 47 t p 0%Z []); try lia.
    + reflexivity.
    + intros ll. now rewrite step_c_close.
  - cbn [render_body flat_map]. fold (render_body b). rewrite <- !app_assoc.
    rewrite advance_app.
    destruct i as [c| | | |]; cbn [render_citem app body_ok] in *.
    + apply andb_prop in H as [Hc Hb]. unfold cchar_ok in Hc.
      rewrite Rlc_c_char; try assumption.
      * rewrite (IH d) by assumption. reflexivity.
      * lia.
      * intros ->. rewrite hd_body. intros [= E]. rewrite E in Hc. discriminate Hc.
      * intros ->. rewrite hd_body. intros [= E]. rewrite E in Hc.
        rewrite andb_false_r in Hc. discriminate Hc.
      * apply body_cont.
    + rewrite Rlc_nl. rewrite (IH d) by assumption.
      cbn [has_nl existsb is_cnl orb out_if flush_if].
      destruct (has_nl b); cbn [out_if flush_if push_opt]; now rewrite emit_nil.
    + rewrite Rlc_crnl. rewrite (IH d) by assumption.
      cbn [has_nl existsb is_cnl orb out_if flush_if].
      destruct (has_nl b); cbn [out_if flush_if push_opt]; now rewrite emit_nil.
    + apply andb_prop in H as [Hc Hb].
      rewrite (Rlc_step2 m lc p d 47 42 _ p (d + 1)%Z []); try lia.
      * rewrite emit_nil. rewrite (IH (d + 1)%Z) by (assumption || lia). reflexivity.
      * intros ll. apply step_c_open; lia.
    + apply andb_prop in H as [Hc Hb].
      rewrite (Rlc_step2 m lc p d 42 47 _ p (d - 1)%Z []); try lia.
      * rewrite emit_nil. rewrite (IH (d - 1)%Z) by (assumption || lia). reflexivity.
      * intros ll. apply step_c_close; lia.
Qed.

(* a body without CNl / CCrNl has no LF at all *)
Lemma body_nolf : forall b d, has_nl b = false -> body_ok d b = true ->
  forallb nolf (render_body b) = true.
Proof.
  induction b as [|i b IH]; intros d Hn H; [reflexivity|].
  cbn [has_nl existsb] in Hn. apply orb_false_elim in Hn as [Hi Hn].
  cbn [render_body flat_map]. fold (render_body b). rewrite forallb_app.
  destruct i as [c| | | |]; cbn [is_cnl] in Hi; try discriminate; cbn [body_ok render_citem] in *.
  - apply andb_prop in H as [Hc Hb]. unfold cchar_ok in Hc.
    rewrite (IH d) by assumption. cbn [forallb]. unfold nolf. rewrite !andb_true_r. lia.
  - apply andb_prop in H as [Hc Hb]. rewrite (IH (d + 1)%Z) by assumption. reflexivity.
  - apply andb_prop in H as [Hc Hb]. rewrite (IH (d - 1)%Z) by assumption. reflexivity.
Qed.

Definition is_dd (i : gitem) : bool := match i with GLineD _ => true | _ => false end.

(* every item except "--" c "--" is read by the crate as what it is, whatever follows *)
Lemma scan_gitem : forall m it lc p t, gitem_okb it = true -> is_dd it = false ->
  Rlc m lc p 0 (render_gitem it ++ t)
  = emit (out_if (iflush it) p)
         (Rlc m (advance lc (render_gitem it)) (flush_if (iflush it) p) 0 t).
Proof.
  intros m it lc p t H Hd.
  destruct it as [| | | |c crlf|b| |c]; cbn [render_gitem app iflush out_if flush_if]; [| | | | | | |discriminate Hd].
  - rewrite (Rlc_step1 m lc p 0%Z 32 t None 0%Z (push_opt p)); try lia; [reflexivity|apply step_space].
  - rewrite (Rlc_step1 m lc p 0%Z 9 t None 0%Z (push_opt p)); try lia; [reflexivity|apply step_tab].
  - now rewrite Rlc_crnl.
  - now rewrite Rlc_nl.
  - (* line comment: the rest of the line is skipped *)
    cbn [gitem_okb] in H.
    assert (E : Rlc m lc p 0 (45 :: 45 :: (c ++ (if crlf then [13; 10] else [10])) ++ t)
                = emit (push_opt p) (Rlc m (fst lc + 1, 0) None 0 t)).
    { unfold Rlc at 1.
      replace (45 :: 45 :: (c ++ (if crlf then [13; 10] else [10])) ++ t)
        with ((45 :: 45 :: c) ++ (if crlf then 13 :: 10 :: t else 10 :: t))
        by (destruct crlf; cbn [app]; rewrite <- app_assoc; reflexivity).
      rewrite split_app by (exact H).
      replace (split_lines (if crlf then 13 :: 10 :: t else 10 :: t)) with (@nil N, lines_of t)
        by (destruct crlf; reflexivity).
      cbn [fst snd app]. rewrite app_nil_r. rewrite line_loop_cons. cbn [hd_error].
      rewrite step_dashdash. cbn [fin app]. now rewrite lines_loop2_Rlc. }
    rewrite E. f_equal. f_equal.
    change (45 :: 45 :: c ++ (if crlf then [13; 10] else [10]))
      with ((45 :: 45 :: c) ++ (if crlf then [13; 10] else [10])).
    rewrite advance_app. rewrite (advance_line (45 :: 45 :: c)) by (exact H).
    destruct crlf; reflexivity.
  - (* block comment *)
    cbn [gitem_okb] in H.
    rewrite (Rlc_step2 m lc p 0%Z 47 42 _ None 1%Z (push_opt p)); try lia.
    2:{ intros ll. apply step_open0. }
    rewrite <- app_assoc. cbn [app].
    rewrite (scan_body m b 1%Z) by (assumption || lia).
    rewrite out_if_none, flush_if_none, emit_nil. reflexivity.
  - (* lone CR *)
    apply Rlc_cr0.
Qed.

Lemma gflush_cons : forall it g, gflush (it :: g) = iflush it || gflush g.
Proof. reflexivity. Qed.

(* the characters of an item that neither ends the line nor contains a line end *)
Lemma same_line_nolf : forall it, gitem_okb it = true ->
  match it with
  | GSpace | GTab | GCr | GLineD _ => True
  | GBlock b => has_nl b = false
  | _ => False
  end -> forallb nolf (render_gitem it) = true.
Proof.
  intros [| | | |c crlf|b| |c] H Hk; try contradiction; try reflexivity; cbn [gitem_okb render_gitem] in *.
  - change (47 :: 42 :: render_body b ++ [42; 47]) with ([47; 42] ++ render_body b ++ [42; 47]).
    rewrite !forallb_app. rewrite (body_nolf b 1%Z) by assumption. reflexivity.
  - unfold dcomment_ok in H. apply andb_prop in H as [H _]. apply andb_prop in H as [H _].
    change (45 :: 45 :: c ++ [45; 45]) with ([45; 45] ++ c ++ [45; 45]).
    rewrite !forallb_app. rewrite (lchar_nolf c) by assumption. reflexivity.
Qed.

(* the two readings of a gap at once: from a place where the crate tokenizes (dd = false), and from a
   place behind "--" pre on a line that the crate is skipping (dd = true) *)
Lemma scan_gap_both : forall m g,
  (forall lc p t, gap_ok false g = true ->
     Rlc m lc p 0 (render_gap g ++ t)
     = emit (out_if (gflush g) p)
            (Rlc m (advance lc (render_gap g)) (flush_if (gflush g) p) 0 t))
  /\
  (forall lc p pre t, gap_ok true g = true -> forallb nolf pre = true ->
     Rlc m lc p 0 (45 :: 45 :: pre ++ render_gap g ++ t)
     = emit (push_opt p) (Rlc m (advance lc (45 :: 45 :: pre ++ render_gap g)) None 0 t)).
Proof.
  intros m. induction g as [|it g [IH0 IH1]]; split.
  - intros lc p t _. cbn. now rewrite emit_nil.
  - intros lc p pre t H. discriminate H.
  - (* the crate is tokenizing *)
    intros lc p t H. cbn [gap_ok] in H. apply andb_prop in H as [Hi Hg].
    cbn [render_gap flat_map]. fold (render_gap g). rewrite <- app_assoc. rewrite gflush_cons.
    destruct (is_dd it) eqn:Edd.
    + destruct it as [| | | |c crlf|b| |c]; try discriminate Edd.
      cbn [render_gitem iflush orb out_if flush_if].
      replace ((45 :: 45 :: c ++ [45; 45]) ++ render_gap g ++ t)
        with (45 :: 45 :: (c ++ [45; 45]) ++ render_gap g ++ t)
        by (cbn [app]; rewrite <- !app_assoc; reflexivity).
      rewrite IH1; [|assumption|].
      * cbn [app]. rewrite <- !app_assoc. reflexivity.
      * pose proof (same_line_nolf (GLineD c) Hi I) as Hn. cbn [render_gitem forallb] in Hn.
        exact Hn.
    + rewrite scan_gitem by assumption.
      assert (Hg' : gap_ok false g = true).
      { destruct it as [| | | |c crlf|b| |c]; try discriminate Edd; exact Hg. }
      rewrite IH0 by assumption.
      rewrite emit_emit. rewrite advance_app.
      now rewrite out_if_compose, flush_if_compose.
  - (* the crate is skipping the rest of the line *)
    intros lc p pre t H Hpre. cbn [gap_ok] in H. apply andb_prop in H as [Hi Hg].
    cbn [render_gap flat_map]. fold (render_gap g).
    assert (Same : forall x, forallb nolf x = true -> gap_ok true g = true ->
      Rlc m lc p 0 (45 :: 45 :: pre ++ (x ++ render_gap g) ++ t)
      = emit (push_opt p) (Rlc m (advance lc (45 :: 45 :: pre ++ x ++ render_gap g)) None 0 t)).
    { intros x Hx Hgt. specialize (IH1 lc p (pre ++ x) t Hgt).
      rewrite forallb_app, Hpre, Hx in IH1. specialize (IH1 eq_refl).
      rewrite <- !app_assoc in IH1. rewrite <- !app_assoc. exact IH1. }
    assert (Ends : forall a, forallb nolf a = true -> gap_ok false g = true ->
      Rlc m lc p 0 (45 :: 45 :: pre ++ ((a ++ [10]) ++ render_gap g) ++ t)
      = emit (push_opt p) (Rlc m (advance lc (45 :: 45 :: pre ++ (a ++ [10]) ++ render_gap g)) None 0 t)).
    { intros a Ha Hgf.
      replace (45 :: 45 :: pre ++ ((a ++ [10]) ++ render_gap g) ++ t)
        with (45 :: 45 :: (pre ++ a) ++ 10 :: render_gap g ++ t)
        by (rewrite <- !app_assoc; reflexivity).
      rewrite Rlc_skip by (rewrite forallb_app, Hpre, Ha; reflexivity).
      rewrite (IH0 _ None t Hgf). rewrite out_if_none, flush_if_none, emit_nil.
      replace (45 :: 45 :: pre ++ (a ++ [10]) ++ render_gap g)
        with (((45 :: 45 :: pre ++ a) ++ [10]) ++ render_gap g)
        by (cbn [app]; rewrite <- !app_assoc; reflexivity).
      rewrite (advance_app lc). rewrite advance_skip; [reflexivity|].
      change (45 :: 45 :: pre ++ a) with ([45; 45] ++ pre ++ a).
      rewrite !forallb_app, Hpre, Ha. reflexivity. }
    destruct it as [| | | |c crlf|b| |c]; cbn [render_gitem].
    + apply (Same [32]); [reflexivity|exact Hg].
    + apply (Same [9]); [reflexivity|exact Hg].
    + apply (Ends [13]); [reflexivity|exact Hg].
    + apply (Ends []); [reflexivity|exact Hg].
    + cbn [gitem_okb] in Hi. apply lchar_nolf in Hi. destruct crlf.
      * replace (45 :: 45 :: c ++ [13; 10]) with ((45 :: 45 :: c ++ [13]) ++ [10])
          by (cbn [app]; rewrite <- app_assoc; reflexivity).
        apply Ends; [|exact Hg].
        change (45 :: 45 :: c ++ [13]) with ([45; 45] ++ c ++ [13]).
        rewrite !forallb_app, Hi. reflexivity.
      * change (45 :: 45 :: c ++ [10]) with ((45 :: 45 :: c) ++ [10]).
        apply Ends; [|exact Hg]. cbn [forallb]. rewrite Hi. reflexivity.
    + cbn [negb orb] in Hg. apply andb_prop in Hg as [Hnl Hg]. apply negb_true_iff in Hnl.
      apply Same; [|exact Hg]. apply (same_line_nolf (GBlock b)); assumption.
    + apply (Same [13]); [reflexivity|exact Hg].
    + apply Same; [|exact Hg]. apply (same_line_nolf (GLineD c)); [assumption|exact I].
Qed.

Lemma scan_gap : forall m g lc p t, gap_okb g = true ->
  Rlc m lc p 0 (render_gap g ++ t)
  = emit (out_if (gflush g) p)
         (Rlc m (advance lc (render_gap g)) (flush_if (gflush g) p) 0 t).
Proof. intros m g lc p t H. now apply (proj1 (scan_gap_both m g)). Qed.

(* ================================================================== *)
(* Part 3c: text items                                                 *)
(* ================================================================== *)

(* every '-' of s is followed (in s ++ rest) by something else than '-', every '/' by something else than '*' *)
Fixpoint follow_ok (s rest : list N) : bool :=
  match s with
  | [] => true
  | c :: s' =>
      negb ((c =? 45) && opt_eqb (hd_error (s' ++ rest)) 45)
      && negb ((c =? 47) && opt_eqb (hd_error (s' ++ rest)) 42)
      && follow_ok s' rest
  end.

Lemma follow_from_ok : forall s rest,
  no_pair 45 45 s = true -> no_pair 47 42 s = true -> s <> [] -> last s 0 <> 45 ->
  (last s 0 = 47 -> opt_eqb (hd_error rest) 42 = false) ->
  follow_ok s rest = true.
Proof.
  induction s as [|c s IH]; intros rest H1 H2 Hne Hl Hr; [congruence|].
  cbn [no_pair] in H1, H2. apply andb_prop in H1 as [H1 H1'], H2 as [H2 H2'].
  cbn [follow_ok]. destruct s as [|c2 s].
  - cbn [last app follow_ok] in *. rewrite andb_true_r.
    apply andb_true_intro; split; apply negb_true_iff.
    + replace (c =? 45) with false by lia. reflexivity.
    + destruct (c =? 47) eqn:E; [|reflexivity]. apply N.eqb_eq in E. now rewrite Hr.
  - cbn [hd_error app] in *. rewrite H1, H2. cbn [andb].
    apply IH; try assumption; try discriminate.
Qed.

Lemma text_rest : forall m s acc lc l0 c0 t, forallb text_char s = true -> follow_ok s t = true ->
  Rlc m lc (Some (Text l0 c0 acc)) 0 (s ++ t)
  = Rlc m (advance lc s) (Some (Text l0 c0 (acc ++ s))) 0 t.
Proof.
  intros m. induction s as [|c s IH]; intros acc lc l0 c0 t H Hf.
  - cbn. now rewrite app_nil_r.
  - cbn [forallb] in H. apply andb_prop in H as [Hc Hs].
    cbn [follow_ok] in Hf. apply andb_prop in Hf as [Hf Hf3]. apply andb_prop in Hf as [Hf1 Hf2].
    apply negb_true_iff in Hf1, Hf2.
    destruct (text_char_facts c Hc) as (H10 & H13 & _).
    cbn [app].
    rewrite (Rlc_step1 m lc _ 0%Z c (s ++ t) (Some (Text l0 c0 (acc ++ [c]))) 0%Z []); try assumption.
    + rewrite emit_nil. rewrite IH by assumption. rewrite <- app_assoc. reflexivity.
    + apply step_text_more; [assumption| |].
      * destruct (c =? 45); [|reflexivity]. cbn [andb] in *.
        destruct (opt_eqb (peek (s ++ t)) 45) eqn:E; [|reflexivity].
        apply peek_sub in E. congruence.
      * destruct (c =? 47); [|reflexivity]. cbn [andb] in *.
        destruct (opt_eqb (peek (s ++ t)) 42) eqn:E; [|reflexivity].
        apply peek_sub in E. congruence.
Qed.

Lemma scan_tok : forall m tk lc p t, tok_okb tk = true ->
  (is_text tk = true -> not_text p) ->
  (forall s, tk = PText s -> last s 0 = 47 -> opt_eqb (hd_error t) 42 = false) ->
  Rlc m lc p 0 (render_tok tk ++ t)
  = emit (push_opt p) (Rlc m (advance lc (render_tok tk)) (Some (mk_tok lc tk)) 0 t).
Proof.
  intros m [s|c] lc p t Hok Hp Hr; cbn [render_tok tok_okb mk_tok is_text] in *.
  - unfold text_okb in Hok.
    apply andb_prop in Hok as [Hok H5]. apply andb_prop in Hok as [Hok H4].
    apply andb_prop in Hok as [Hok H3]. apply andb_prop in Hok as [H1 H2].
    apply negb_true_iff in H5.
    destruct s as [|c s]; [discriminate|].
    assert (Hf : follow_ok (c :: s) t = true).
    { apply follow_from_ok; try assumption; try discriminate; [lia|]. apply (Hr _ eq_refl). }
    cbn [forallb] in H2. apply andb_prop in H2 as [Hc Hs].
    cbn [follow_ok] in Hf. apply andb_prop in Hf as [Hf Hf3]. apply andb_prop in Hf as [Hf1 Hf2].
    apply negb_true_iff in Hf1, Hf2.
    destruct (text_char_facts c Hc) as (H10 & H13 & _).
    cbn [app].
    rewrite (Rlc_step1 m lc p 0%Z c (s ++ t) (Some (Text (fst lc + 1) (snd lc + 1) [c])) 0%Z (push_opt p));
      try assumption.
    + rewrite text_rest by assumption. reflexivity.
    + apply step_text_first; [assumption|now apply Hp| |].
      * destruct (c =? 45); [|reflexivity]. cbn [andb] in *.
        destruct (opt_eqb (peek (s ++ t)) 45) eqn:E; [|reflexivity].
        apply peek_sub in E. congruence.
      * destruct (c =? 47); [|reflexivity]. cbn [andb] in *.
        destruct (opt_eqb (peek (s ++ t)) 42) eqn:E; [|reflexivity].
        apply peek_sub in E. congruence.
  - destruct (sep_char_facts c Hok) as (H10 & H13 & _).
    cbn [app].
    rewrite (Rlc_step1 m lc p 0%Z c t (Some (Separator (fst lc + 1) (snd lc + 1) c)) 0%Z (push_opt p));
      try assumption; [reflexivity|]. now apply step_sep.
Qed.

(* ================================================================== *)
(* Part 3d: main induction over the token list                         *)
(* ================================================================== *)

Definition compat (p : option token) (ts : list ptoken) : Prop :=
  match ts with t :: _ => is_text t = true -> not_text p | [] => True end.

Lemma hd_gitem : forall it t, opt_eqb (hd_error (render_gitem it ++ t)) 42 = false.
Proof. intros [| | | |c crlf|b| |c] t; reflexivity. Qed.

Lemma hd_after : forall g ts gs, forallb tok_okb ts = true ->
  (g = [] -> match ts with t2 :: _ => is_text t2 = false | [] => True end) ->
  opt_eqb (hd_error (render_gap g ++ render_items ts gs)) 42 = false.
Proof.
  intros [|it g] ts gs Hok Hg.
  - cbn [render_gap flat_map app]. specialize (Hg eq_refl).
    destruct ts as [|[s|c] ts]; [reflexivity|discriminate|].
    destruct gs as [|g2 gs]; [reflexivity|].
    cbn [forallb tok_okb] in Hok. apply andb_prop in Hok as [Hc _].
    destruct (sep_char_facts c Hc) as (_ & _ & _ & _ & H42).
    cbn. lia.
  - cbn [render_gap flat_map]. rewrite <- app_assoc. apply hd_gitem.
Qed.

Lemma scan_items : forall m ts gs lc p,
  length gs = length ts -> forallb tok_okb ts = true -> forallb gap_okb gs = true ->
  forallb gflush (tt_gaps ts gs) = true -> compat p ts ->
  Rlc m lc p 0 (render_items ts gs) = Ok (None, 0%Z, push_opt p ++ expect_items lc ts gs).
Proof.
  intros m. induction ts as [|t ts IH]; intros gs lc p Hlen Htok Hgap Hfl Hc.
  - destruct gs; cbn [render_items expect_items]; rewrite Rlc_nil; now rewrite app_nil_r.
  - destruct gs as [|g gs]; [discriminate|].
    cbn [length] in Hlen. injection Hlen as Hlen.
    cbn [forallb] in Htok, Hgap.
    apply andb_prop in Htok as [Ht Hts]. apply andb_prop in Hgap as [Hg Hgs].
    cbn [tt_gaps] in Hfl. rewrite forallb_app in Hfl. apply andb_prop in Hfl as [Hfl1 Hfl2].
    cbn [render_items expect_items].
    rewrite scan_tok; [|assumption|exact Hc|].
    2:{ intros s -> _. apply hd_after; [assumption|]. intros ->.
        destruct ts as [|t2 ts]; [exact I|]. cbn [is_text andb] in Hfl1.
        destruct (is_text t2); [discriminate|reflexivity]. }
    rewrite scan_gap by assumption.
    rewrite (IH gs _ (flush_if (gflush g) (Some (mk_tok lc t)))); try assumption.
    + cbn [emit]. rewrite !app_assoc. rewrite <- (app_assoc (push_opt p)).
      rewrite out_if_push. rewrite <- app_assoc. reflexivity.
    + destruct ts as [|t2 ts]; [exact I|]. cbn [compat]. intros Ht2. rewrite Ht2 in Hfl1.
      destruct t as [s|c]; cbn [is_text andb forallb mk_tok] in *.
      * rewrite andb_true_r in Hfl1. rewrite Hfl1. exact I.
      * destruct (gflush g); exact I.
Qed.

Lemma gflush_nonempty : forall g, gflush g = negb (is_nil g).
Proof. intros [|it g]; reflexivity. Qed.

Lemma flush_from_safe : forall l,
  forallb (fun g : gap => negb (is_nil g)) l = true -> forallb gflush l = true.
Proof.
  induction l as [|g l IH]; intros H; [reflexivity|].
  cbn [forallb] in *. apply andb_prop in H as [Hg Hl].
  rewrite gflush_nonempty, Hg. now apply IH.
Qed.

(* the whole tokenizer on a rendered layout *)
Theorem tokenize_render : forall m ts gs, lex_safe ts gs ->
  tokenize m (render ts gs) = Ok (expect ts gs).
Proof.
  intros m ts gs Hs. unfold lex_safe, lex_safeb in Hs.
  apply andb_prop in Hs as [Hs Hne]. apply andb_prop in Hs as [Hs Hgap]. apply andb_prop in Hs as [Hlen Htok].
  apply Nat.eqb_eq in Hlen.
  destruct gs as [|g0 gs]; [discriminate|]. cbn [length tl] in *. injection Hlen as Hlen.
  cbn [forallb] in Hgap. apply andb_prop in Hgap as [Hg0 Hgs].
  rewrite tokenize_Rlc. unfold render, expect.
  rewrite scan_gap by assumption.
  replace (out_if (gflush g0) None) with (@nil token) by (destruct (gflush g0); reflexivity).
  replace (flush_if (gflush g0) None) with (@None token) by (destruct (gflush g0); reflexivity).
  rewrite emit_nil.
  rewrite scan_items; try assumption.
  - cbn. now rewrite app_nil_r.
  - now apply flush_from_safe.
  - destruct ts; cbn; auto.
Qed.

Lemma strip_expect : forall ts g, lex_safe ts g -> map strip (expect ts g) = ts.
Proof.
  intros ts [|g0 g] H; [discriminate|]. unfold lex_safe, lex_safeb in H.
  apply andb_prop in H as [H _]. apply andb_prop in H as [H _]. apply andb_prop in H as [H _].
  apply Nat.eqb_eq in H. cbn [length] in H. apply strip_expect_items. lia.
Qed.

Theorem layout_invariant : forall m ts g1 g2, lex_safe ts g1 -> lex_safe ts g2 ->
  exists o1 o2, tokenize m (render ts g1) = Ok o1 /\ tokenize m (render ts g2) = Ok o2 /\
                map strip o1 = ts /\ map strip o2 = map strip o1.
Proof.
  intros m ts g1 g2 H1 H2.
  exists (expect ts g1), (expect ts g2).
  rewrite !tokenize_render by assumption. repeat split.
  - now apply strip_expect.
  - now rewrite !strip_expect.
Qed.

Theorem locations : forall m ts g, lex_safe ts g ->
  exists o, tokenize m (render ts g) = Ok o /\ map loc o = positions ts g.
Proof.
  intros m ts g H. exists (expect ts g). split; [now apply tokenize_render|].
  destruct g as [|g0 g]; [reflexivity|]. apply loc_expect_items.
Qed.

(* ================================================================== *)
(* Part 4: `positions` is the line/column of the items' offsets in the rendered text *)
(* ================================================================== *)

(* 1-based (line, column) of the character at offset off: line = 1 + number of LF before it,
   column = 1 + number of characters since the last LF *)
Definition pos_at (text : list N) (off : nat) : N * N :=
  let lc := advance (0, 0) (firstn off text) in (fst lc + 1, snd lc + 1).

Fixpoint offsets_items (n : nat) (ts : list ptoken) (gs : list gap) : list nat :=
  match ts, gs with
  | t :: ts', g :: gs' =>
      n :: offsets_items (n + length (render_tok t) + length (render_gap g)) ts' gs'
  | _, _ => []
  end.
Definition offsets (ts : list ptoken) (gs : list gap) : list nat :=
  match gs with [] => [] | g0 :: gs' => offsets_items (length (render_gap g0)) ts gs' end.

Lemma positions_items_at : forall ts gs pre,
  positions_items (advance (0, 0) pre) ts gs
  = map (pos_at (pre ++ render_items ts gs)) (offsets_items (length pre) ts gs).
Proof.
  induction ts as [|t ts IH]; intros [|g gs] pre; try reflexivity.
  cbn [positions_items render_items offsets_items map]. f_equal.
  - unfold pos_at. rewrite firstn_app, Nat.sub_diag, firstn_all, firstn_O, app_nil_r. reflexivity.
  - rewrite <- !advance_app. rewrite (IH gs (pre ++ render_tok t ++ render_gap g)).
    rewrite <- !app_assoc. rewrite !app_length, Nat.add_assoc. reflexivity.
Qed.

Lemma positions_at : forall ts gs,
  positions ts gs = map (pos_at (render ts gs)) (offsets ts gs).
Proof. intros ts [|g0 gs]; [reflexivity|]. apply positions_items_at. Qed.

(* each offset is where the item's characters really are *)
Lemma offsets_items_point : forall ts gs pre, length gs = length ts ->
  Forall2 (fun off t => firstn (length (render_tok t)) (skipn off (pre ++ render_items ts gs)) = render_tok t)
          (offsets_items (length pre) ts gs) ts.
Proof.
  induction ts as [|t ts IH]; intros [|g gs] pre Hl; try discriminate; [constructor|].
  cbn [offsets_items render_items]. constructor.
  - rewrite skipn_app, Nat.sub_diag, skipn_all. cbn [app skipn].
    rewrite firstn_app, Nat.sub_diag, firstn_all, firstn_O, app_nil_r. reflexivity.
  - specialize (IH gs (pre ++ render_tok t ++ render_gap g)).
    rewrite <- !app_assoc in IH. rewrite !app_length, Nat.add_assoc in IH.
    apply IH. cbn [length] in Hl. congruence.
Qed.

(* ================================================================== *)
(* Part 5: the body grammar is no restriction on comment texts         *)
(* ================================================================== *)

(* the structure of a comment text, read from left to right as X.680 12.6.4 / the crate do: "/*" opens,
   "*/" closes, everything else is content *)
Fixpoint body_of (s : list N) : list citem :=
  match s with
  | [] => []
  | c :: t =>
      match t with
      | c2 :: t2 =>
          if (c =? 47) && (c2 =? 42) then COpen :: body_of t2
          else if (c =? 42) && (c2 =? 47) then CClose :: body_of t2
          else if (c =? 13) && (c2 =? 10) then CCrNl :: body_of t2
          else if c =? 10 then CNl :: body_of t
          else CChar c :: body_of t
      | [] => if c =? 10 then [CNl] else [CChar c]
      end
  end.

(* depth conditions only *)
Fixpoint balanced (d : Z) (b : list citem) : bool :=
  match b with
  | [] => (d =? 1)%Z
  | COpen :: b' => (d <? I32_MAX)%Z && balanced (d + 1)%Z b'
  | CClose :: b' => (2 <=? d)%Z && balanced (d - 1)%Z b'
  | _ :: b' => balanced d b'
  end.

Lemma body_of_cons2 : forall c c2 t2,
  body_of (c :: c2 :: t2) =
    if (c =? 47) && (c2 =? 42) then COpen :: body_of t2
    else if (c =? 42) && (c2 =? 47) then CClose :: body_of t2
    else if (c =? 13) && (c2 =? 10) then CCrNl :: body_of t2
    else if c =? 10 then CNl :: body_of (c2 :: t2)
    else CChar c :: body_of (c2 :: t2).
Proof. reflexivity. Qed.

Lemma render_body_of_len : forall n s, (length s <= n)%nat -> render_body (body_of s) = s.
Proof.
  induction n as [|n IH]; intros s Hl.
  - destruct s; [reflexivity|cbn in Hl; lia].
  - destruct s as [|c [|c2 t2]]; [reflexivity| |].
    + cbn [body_of]. destruct (c =? 10) eqn:E; cbn; [f_equal; lia|reflexivity].
    + rewrite body_of_cons2. cbn [length] in Hl.
      destruct ((c =? 47) && (c2 =? 42)) eqn:E1; [|destruct ((c =? 42) && (c2 =? 47)) eqn:E2;
        [|destruct ((c =? 13) && (c2 =? 10)) eqn:E3; [|destruct (c =? 10) eqn:E4]]];
        cbn [render_body flat_map render_citem app]; fold (render_body (body_of t2));
        fold (render_body (body_of (c2 :: t2))); rewrite IH by (cbn [length]; lia).
      * apply andb_prop in E1 as [A B]. f_equal; [lia|f_equal; lia].
      * apply andb_prop in E2 as [A B]. f_equal; [lia|f_equal; lia].
      * apply andb_prop in E3 as [A B]. f_equal; [lia|f_equal; lia].
      * f_equal; lia.
      * reflexivity.
Qed.

(* every text is the rendering of its structure *)
Theorem render_body_of : forall s, render_body (body_of s) = s.
Proof. intros s. now apply (render_body_of_len (length s)). Qed.

Lemma next_body_of : forall c t, next_char (body_of (c :: t)) = c.
Proof.
  intros c [|c2 t2].
  - cbn [body_of]. destruct (c =? 10) eqn:E; cbn; lia.
  - rewrite body_of_cons2.
    destruct ((c =? 47) && (c2 =? 42)) eqn:E1; [|destruct ((c =? 42) && (c2 =? 47)) eqn:E2;
      [|destruct ((c =? 13) && (c2 =? 10)) eqn:E3; [|destruct (c =? 10) eqn:E4]]]; cbn [next_char first_char]; lia.
Qed.

Lemma last_tail : forall (i : citem) l, last (i :: l) CNl <> CChar 47 -> last l CNl <> CChar 47.
Proof. intros i [|j l] H; [discriminate|exact H]. Qed.

Lemma body_of_ok_len : forall n s d, (length s <= n)%nat ->
  balanced d (body_of s) = true -> last (body_of s) CNl <> CChar 47 -> body_ok d (body_of s) = true.
Proof.
  induction n as [|n IH]; intros s d Hl Hb Hlast.
  - destruct s; [exact Hb|cbn in Hl; lia].
  - destruct s as [|c [|c2 t2]]; [exact Hb| |].
    + cbn [body_of] in *. destruct (c =? 10) eqn:E; cbn [body_ok balanced next_char last] in *; [exact Hb|].
      rewrite Hb. unfold cchar_ok.
      assert (c <> 47) by (intros ->; now apply Hlast). lia.
    + rewrite body_of_cons2 in *. cbn [length] in Hl.
      destruct ((c =? 47) && (c2 =? 42)) eqn:E1; [|destruct ((c =? 42) && (c2 =? 47)) eqn:E2;
        [|destruct ((c =? 13) && (c2 =? 10)) eqn:E3; [|destruct (c =? 10) eqn:E4]]];
        apply last_tail in Hlast; cbn [body_ok balanced] in *.
      * apply andb_prop in Hb as [H1 H2]. rewrite H1. apply IH; [lia|assumption|assumption].
      * apply andb_prop in Hb as [H1 H2]. rewrite H1. apply IH; [lia|assumption|assumption].
      * apply IH; [lia|assumption|assumption].
      * apply IH; [cbn [length]; lia|assumption|assumption].
      * rewrite next_body_of. rewrite IH; [|cbn [length]; lia|assumption|assumption].
        unfold cchar_ok. lia.
Qed.

(* a text that is balanced when read from left to right and whose last item is not a content '/' (which
   would pair with the '*' of the closing "*/") is a legal body: the side condition on '*' and '/'
   excludes no comment *)
Theorem body_of_ok : forall s, balanced 1 (body_of s) = true -> last (body_of s) CNl <> CChar 47 ->
  body_ok 1 (body_of s) = true.
Proof. intros s. apply (body_of_ok_len (length s)). lia. Qed.

(* ================================================================== *)
(* Part 6: the class of the first version of these theorems is included *)
(* ================================================================== *)

Definition cchar_old (c : N) : bool :=
  negb (c =? 42) && negb (c =? 47) && negb (c =? 10) && negb (c =? 13).
Fixpoint body_old (d : Z) (b : list citem) : bool :=
  match b with
  | [] => (d =? 1)%Z
  | CChar c :: b' => cchar_old c && body_old d b'
  | CNl :: b' => body_old d b'
  | CCrNl :: b' => body_old d b'
  | COpen :: b' => (d <? I32_MAX)%Z && body_old (d + 1)%Z b'
  | CClose :: b' => (2 <=? d)%Z && body_old (d - 1)%Z b'
  end.
Definition gitem_old (i : gitem) : bool :=
  match i with
  | GLine c _ => forallb lchar_ok c
  | GBlock b => body_old 1 b
  | GCr | GLineD _ => false
  | _ => true
  end.
Definition lex_safeb_old (ts : list ptoken) (gs : list gap) : bool :=
  (length gs =? S (length ts))%nat && forallb tok_okb ts && forallb (forallb gitem_old) gs
  && forallb (fun g => negb (is_nil g)) (tt_gaps ts (tl gs)).

Lemma body_old_ok : forall b d, body_old d b = true -> body_ok d b = true.
Proof.
  induction b as [|i b IH]; intros d H; [exact H|].
  destruct i as [c| | | |]; cbn [body_old body_ok] in *.
  - apply andb_prop in H as [Hc Hb]. rewrite (IH d) by assumption.
    unfold cchar_old in Hc. unfold cchar_ok. lia.
  - now apply IH.
  - now apply IH.
  - apply andb_prop in H as [Hc Hb]. rewrite Hc. now apply IH.
  - apply andb_prop in H as [Hc Hb]. rewrite Hc. now apply IH.
Qed.

Lemma gap_old_ok : forall g, forallb gitem_old g = true -> gap_okb g = true.
Proof.
  unfold gap_okb. induction g as [|i g IH]; intros H; [reflexivity|].
  cbn [forallb] in H. apply andb_prop in H as [Hi Hg]. specialize (IH Hg).
  destruct i as [| | | |c crlf|b| |c]; cbn [gap_ok gitem_okb gitem_old] in *; try discriminate Hi;
    try exact IH.
  - rewrite Hi. exact IH.
  - rewrite (body_old_ok _ _ Hi). exact IH.
Qed.

Theorem lex_safe_old_sub : forall ts gs, lex_safeb_old ts gs = true -> lex_safe ts gs.
Proof.
  intros ts gs H. unfold lex_safeb_old in H. unfold lex_safe, lex_safeb.
  apply andb_prop in H as [H H4]. apply andb_prop in H as [H H3]. apply andb_prop in H as [H1 H2].
  rewrite H1, H2, H4. rewrite andb_true_r. cbn [andb].
  apply forallb_forall. intros g Hin. apply gap_old_ok.
  rewrite forallb_forall in H3. now apply H3.
Qed.
