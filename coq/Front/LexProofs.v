(* Front/LexProofs.v -- stub, to be filled *)
