(* Front/Descr.v -- the descriptor constants the attribute macro expands to (layer F4, property C08).

   Models, on the Rust model of one definition (rust.rs: Rust / RustType / Field / Enumeration),
     asn1rs-model/src/generate/walker.rs  AsnDefWriter::write_constraints and what it calls: assign_implicit_tags,
       write_field_constraints / write_field_constraint (recursion through Vec / Option / Default with the virtual field
       names `..Values` / `..Value`), write_integer_constraint_type, write_size_constraint, write_default_constraint (its
       panics only), write_sequence_or_set_constraint with sort_fields_canonically and
       write_sequence_constraint_insert_consts, write_enumerated_constraint, write_choice_constraint
   restricted to the constants  MIN / MAX / EXTENSIBLE  (numbers and every size constraint),
     STD_VARIANT_COUNT / VARIANT_COUNT / EXTENSIBLE  (enumerated, choice),
     EXTENDED_AFTER_FIELD / FIELD_COUNT / STD_OPTIONAL_FIELDS  (sequence, set; a tuple struct is a sequence of one field `0`).
   TAG, NAME, DEFAULT_VALUE, MIN_T / MAX_T, the associated types and the read / write functions are not modelled (TAG is
   property C16's subject).  Every `panic!` of the walked code is a [Panic P_OTHER]; `v + 1` on usize follows the profile. *)
From A1 Require Export Base.Res.
From A1 Require Import Front.IntTy Front.Codegen Front.Attr.
From Coq Require Import String.
Local Open Scope N_scope.

(* ------------------------------------------------------------------ rust.rs: the Rust model of one definition *)
Inductive rty :=
| RBool | RNull
| RInt (k : ikind) (mn mx : option Z) (ext : bool)      (* I8(Range<i8>) .. I64: both bounds; U64(Range<Option<u64>>) *)
| RString (sz : size) (cs : charset)
| RVecU8 (sz : size)
| RBitVec (sz : size)
| RVec (t : rty) (sz : size) (sorted : bool)             (* EncodingOrdering::Sort = SET OF *)
| ROption (t : rty)
| RDefault (t : rty) (l : lit)
| RComplex (name : list N) (tg : option tag).

Record rfield := mk_rfield {
  rf_name : list N;
  rf_ty : rty;
  rf_tag : option tag;
  rf_consts : list (list N * list N)       (* (name, value text) *)
}.

Inductive rust_def :=
| DStruct (sorted : bool) (fields : list rfield) (tg : option tag) (ext : option N)
| DEnum (variants : list (list N)) (tg : option tag) (ext : option N)
| DDataEnum (variants : list rfield) (tg : option tag) (ext : option N)     (* DataVariant: no constants *)
| DTuple (t : rty) (tg : option tag) (consts : list (list N * list N)).

Definition is_optional (t : rty) : bool := match t with ROption _ | RDefault _ _ => true | _ => false end.
Fixpoint as_no_option (t : rty) : rty := match t with ROption t' => as_no_option t' | _ => t end.

(* RustType::tag *)
Definition charset_tag (cs : charset) : tag :=
  match cs with Utf8 => TUniversal 12 | Numeric => TUniversal 18 | Printable => TUniversal 19 | Ia5 => TUniversal 22 | Visible => TUniversal 26 end.
Fixpoint type_tag (t : rty) : option tag :=
  match t with
  | RBool => Some (TUniversal 1)
  | RInt _ _ _ _ => Some (TUniversal 2)
  | RBitVec _ => Some (TUniversal 3)
  | RVecU8 _ => Some (TUniversal 4)
  | RString _ cs => Some (charset_tag cs)
  | RVec _ _ sorted => Some (TUniversal (if sorted then 17 else 16))
  | RNull => Some (TUniversal 5)
  | ROption t' | RDefault t' _ => type_tag t'
  | RComplex _ tg => tg
  end.

(* ------------------------------------------------------------------ the emitted constants *)
Inductive ctrait :=
| TrNumbers | TrString (cs : charset) | TrOctet | TrBits | TrSeqOf | TrSetOf | TrSequence | TrSet | TrChoice | TrEnumerated.
Inductive cname :=
| CMin | CMax | CExtensible | CStdVariantCount | CVariantCount | CStdOptionalFields | CFieldCount | CExtendedAfterField.
Inductive cval := VZ (z : Z) | VB (b : bool) | VN (n : N) | VON (o : option N).
Record dconst := mk_dconst { dc_owner : list N; dc_trait : ctrait; dc_name : cname; dc_val : cval }.

Definition S_prefix := codes "___asn1rs_".   Definition S_Field := codes "Field".
Definition S_Constraint := codes "Constraint". Definition S_Values := codes "Values".
Definition S_Value := codes "Value".           Definition S_0 := codes "0".

(* constraint_type_name = constraint_impl_name (combined_field_type_name base field + "Constraint") *)
Definition constraint_type_name (base field : list N) : list N :=
  S_prefix ++ gen_variant_name base ++ S_Field ++ gen_variant_name field ++ S_Constraint.

Definition size_min (sz : size) : option N := match sz with SAny => None | SFix n _ => Some n | SRange a _ _ => Some a end.
Definition size_max (sz : size) : option N := match sz with SAny => None | SFix n _ => Some n | SRange _ b _ => Some b end.
Definition size_ext (sz : size) : bool := match sz with SAny => false | SFix _ e => e | SRange _ _ e => e end.

(* write_size_constraint / write_integer_constraint_type: MIN and MAX only when the bound exists *)
Definition bound_consts (owner : list N) (tr : ctrait) (mn mx : option Z) (e : bool) : list dconst :=
  opt_list (option_map (fun z => mk_dconst owner tr CMin (VZ z)) mn) ++
  opt_list (option_map (fun z => mk_dconst owner tr CMax (VZ z)) mx) ++
  [mk_dconst owner tr CExtensible (VB e)].
Definition size_consts (owner : list N) (tr : ctrait) (sz : size) : list dconst :=
  bound_consts owner tr (option_map Z.of_N (size_min sz)) (option_map Z.of_N (size_max sz)) (size_ext sz).

(* the panics of write_default_constraint *)
Definition default_check (inner : rty) (l : lit) : res unit :=
  match as_no_option inner with
  | RDefault _ _ => Panic P_OTHER                                         (* "Nested default detected" *)
  | RBool => match l with LBool _ => Ok tt | _ => Panic P_OTHER end       (* as_rust_const_literal_expect *)
  | RString _ _ => match l with LStr _ => Ok tt | _ => Panic P_OTHER end
  | _ => Ok tt
  end.

(* write_field_constraint *)
Fixpoint field_consts (base fname : list N) (tg : option tag) (t : rty) : res (list dconst) :=
  let owner := constraint_type_name base fname in
  match t with
  | RBool | RNull => Ok []
  | RInt _ mn mx e => Ok (bound_consts owner TrNumbers mn mx e)
  | RString sz cs => Ok (size_consts owner (TrString cs) sz)
  | RVecU8 sz => Ok (size_consts owner TrOctet sz)
  | RBitVec sz => Ok (size_consts owner TrBits sz)
  | RVec inner sz sorted =>
    let! r := field_consts base (fname ++ S_Values) None inner in
    Ok (size_consts owner (if sorted then TrSetOf else TrSeqOf) sz ++ r)
  | ROption inner => field_consts base fname tg inner
  | RDefault inner l =>
    let! _ := default_check inner l in
    field_consts base (fname ++ S_Value) tg inner
  | RComplex _ ctg =>
    match tg, ctg with
    | None, None => Panic P_OTHER                                         (* "Complex type .. requires a tag" *)
    | _, _ => Ok []
    end
  end.

Fixpoint fields_consts (base : list N) (fs : list rfield) : res (list dconst) :=
  match fs with
  | [] => Ok []
  | f :: r =>
    let! a := field_consts base (rf_name f) (rf_tag f) (rf_ty f) in
    let! b := fields_consts base r in
    Ok (a ++ b)
  end.

Definition with_tag (f : rfield) (g : tag) : rfield := mk_rfield (rf_name f) (rf_ty f) (Some g) (rf_consts f).
Definition has_tag (f : rfield) : bool := match rf_tag f with Some _ => true | None => false end.

(* assign_implicit_tags *)
Fixpoint context_tags (i : N) (fs : list rfield) : list rfield :=
  match fs with [] => [] | f :: r => with_tag f (TContext i) :: context_tags (i + 1) r end.
Definition assign_implicit_tags (fs : list rfield) : list rfield :=
  if existsb has_tag fs then fs else context_tags 0 fs.

(* sort_fields_canonically: stable sort by (extension addition?, tag); Tag derives Ord in declaration order *)
Definition key := (bool * (N * N))%type.
Definition tag_key (g : tag) : N * N :=
  match g with TUniversal n => (0, n) | TApplication n => (1, n) | TContext n => (2, n) | TPrivate n => (3, n) end.
Definition key_lt (a b : key) : bool :=
  match fst a, fst b with
  | false, true => true
  | true, false => false
  | _, _ => (fst (snd a) <? fst (snd b)) || ((fst (snd a) =? fst (snd b)) && (snd (snd a) <? snd (snd b)))
  end.
Fixpoint insert (x : key * rfield) (l : list (key * rfield)) : list (key * rfield) :=
  match l with
  | [] => [x]
  | y :: l' => if key_lt (fst y) (fst x) then y :: insert x l' else x :: y :: l'
  end.
Fixpoint isort (l : list (key * rfield)) : list (key * rfield) :=
  match l with [] => [] | x :: l' => insert x (isort l') end.

Definition extended (ext : option N) (i : N) : bool := match ext with Some after => after <? i | None => false end.
Fixpoint key_fields (ext : option N) (i : N) (fs : list rfield) : res (list (key * rfield)) :=
  match fs with
  | [] => Ok []
  | f :: r =>
    match (match rf_tag f with Some g => Some g | None => type_tag (rf_ty f) end) with
    | None => Panic P_OTHER                                               (* "Field .. is missing a tag assignment" *)
    | Some g => let! l := key_fields ext (i + 1) r in Ok ((extended ext i, tag_key g, with_tag f g) :: l)
    end
  end.
Definition sort_fields (fs : list rfield) (ext : option N) : res (list rfield) :=
  let! keyed := key_fields ext 0 fs in Ok (map snd (isort keyed)).

(* write_sequence_constraint_insert_consts:
   fields.iter().enumerate().take_while(|(index, _)| *index <= ext.unwrap_or(usize::MAX)).filter(is_optional).count() *)
Fixpoint opt_count_from (i limit : N) (fs : list rfield) : N :=
  match fs with
  | [] => 0
  | f :: r => if i <=? limit then (if is_optional (rf_ty f) then 1 else 0) + opt_count_from (i + 1) limit r else 0
  end.
Definition ext_limit (ext : option N) : N := match ext with Some e => e | None => USIZE_MAX end.
Definition seq_own_consts (name : list N) (sorted : bool) (fs : list rfield) (ext : option N) : list dconst :=
  let tr := if sorted then TrSet else TrSequence in
  [mk_dconst name tr CExtendedAfterField (VON ext);
   mk_dconst name tr CFieldCount (VN (N.of_nat (List.length fs)));
   mk_dconst name tr CStdOptionalFields (VN (opt_count_from 0 (ext_limit ext) fs))].

(* extension_after_index().map(|v| v + 1).unwrap_or_else(|| len) *)
Definition std_variant_count (m : mode) (len : N) (ext : option N) : res N :=
  match ext with
  | None => Ok len
  | Some v => if v <? USIZE_MAX then Ok (v + 1) else if overflow_checks m then Panic P_ARITH else Ok 0
  end.
Definition enum_own_consts (name : list N) (tr : ctrait) (len std : N) (ext : option N) : list dconst :=
  [mk_dconst name tr CVariantCount (VN len);
   mk_dconst name tr CStdVariantCount (VN std);
   mk_dconst name tr CExtensible (VB (match ext with Some _ => true | None => false end))].

(* write_constraints *)
Definition consts_of (m : mode) (name : list N) (d : rust_def) : res (list dconst) :=
  match d with
  | DStruct sorted fs tg ext =>
    let fs' := assign_implicit_tags fs in
    let! fc := fields_consts name fs' in
    let! ordered := (if sorted then sort_fields fs' ext else Ok fs') in
    Ok (fc ++ seq_own_consts name sorted ordered ext)
  | DEnum vs tg ext =>
    let len := N.of_nat (List.length vs) in
    let! std := std_variant_count m len ext in
    Ok (enum_own_consts name TrEnumerated len std ext)
  | DDataEnum vs tg ext =>
    let! fc := fields_consts name (assign_implicit_tags vs) in
    match tg with
    | None => Panic P_OTHER                                               (* "the Tag is not assigned" *)
    | Some _ =>
      let len := N.of_nat (List.length vs) in
      let! std := std_variant_count m len ext in
      Ok (fc ++ enum_own_consts name TrChoice len std ext)
    end
  | DTuple t tg cs =>
    let f := mk_rfield S_0 t tg cs in
    let! fc := fields_consts name [f] in
    Ok (fc ++ seq_own_consts name false [f] None)
  end.
