(* Front/TagsProofs.v -- proofs about the tag / SET-ordering model (property C16). *)
From A1 Require Import Front.Tags Gen.TagConsts.
From Coq Require Import Sorting.Permutation Sorting.Sorted.
Require Import ZifyBool ZifyNat ZifyN.
Local Open Scope N_scope.

(* ------------------------------------------------------------------------- *)
(** * The derived order of [Tag] is the canonical order of X.680 8.6 *)

(* X.680 8.6: "universal class first, then application, context-specific, private; within a class ascending
   tag number" -- written down without reference to the generated variant order *)
Definition x680_class_index (c : tclass) : nat :=
  match c with Universal => 0 | Application => 1 | ContextSpecific => 2 | Private => 3 end.
Definition x680_lt (a b : tag) : Prop :=
  (x680_class_index (fst a) < x680_class_index (fst b))%nat \/ (fst a = fst b /\ snd a < snd b).
Definition x680_le (a b : tag) : Prop := x680_lt a b \/ a = b.

(* proved by computation against Gen/TagConsts.v: reordering the variants of `enum Tag` breaks it *)
Lemma class_rank_is_x680 c : class_rank c = x680_class_index c.
Proof. destruct c; vm_compute; reflexivity. Qed.

Lemma x680_class_index_inj a b : x680_class_index a = x680_class_index b -> a = b.
Proof. destruct a, b; simpl; intros H; try reflexivity; discriminate. Qed.

Lemma tag_cmp_spec a b :
  match tag_cmp a b with Lt => x680_lt a b | Eq => a = b | Gt => x680_lt b a end.
Proof.
  destruct a as [ca na], b as [cb nb]. unfold tag_cmp, x680_lt. cbn [fst snd].
  rewrite !class_rank_is_x680.
  destruct (Nat.compare_spec (x680_class_index ca) (x680_class_index cb)) as [Hc|Hc|Hc].
  - apply x680_class_index_inj in Hc. subst cb.
    destruct (N.compare_spec na nb) as [Hn|Hn|Hn].
    + subst. reflexivity.
    + right. split; [reflexivity|exact Hn].
    + right. split; [reflexivity|exact Hn].
  - left. exact Hc.
  - left. exact Hc.
Qed.

Lemma x680_lt_asym a b : x680_lt a b -> x680_lt b a -> False.
Proof.
  unfold x680_lt. intros [H1|[H1 H1']] [H2|[H2 H2']]; try lia.
  - rewrite H2 in H1. lia.
  - rewrite H1 in H2. lia.
Qed.
Lemma x680_lt_irrefl a : x680_lt a a -> False.
Proof. intros H. exact (x680_lt_asym a a H H). Qed.

Lemma tag_le_is_x680_le a b : tag_le a b = true <-> x680_le a b.
Proof.
  unfold tag_le, x680_le. pose proof (tag_cmp_spec a b) as H.
  destruct (tag_cmp a b); cbn [not_gt]; split; intros H0; auto; try discriminate.
  exfalso. destruct H0 as [H0|H0].
  - exact (x680_lt_asym _ _ H0 H).
  - subst b. exact (x680_lt_irrefl _ H).
Qed.

Lemma tag_cmp_eq a b : tag_cmp a b = Eq -> a = b.
Proof. intros H. pose proof (tag_cmp_spec a b) as S. rewrite H in S. exact S. Qed.
Lemma tag_cmp_refl a : tag_cmp a a = Eq.
Proof. unfold tag_cmp. rewrite Nat.compare_refl. apply N.compare_refl. Qed.
Lemma tag_cmp_gt_lt a b : tag_cmp a b = Gt -> tag_cmp b a = Lt.
Proof.
  intros H. pose proof (tag_cmp_spec a b) as S. rewrite H in S.
  pose proof (tag_cmp_spec b a) as S'. destruct (tag_cmp b a); auto.
  - subst. exfalso. exact (x680_lt_irrefl _ S).
  - exfalso. exact (x680_lt_asym _ _ S S').
Qed.

Lemma otag_cmp_refl a : otag_cmp a a = Eq.
Proof. destruct a; simpl; auto using tag_cmp_refl. Qed.
Lemma otag_cmp_eq a b : otag_cmp a b = Eq -> a = b.
Proof. destruct a, b; simpl; intros H; try discriminate; auto. f_equal. apply tag_cmp_eq, H. Qed.
Lemma otag_cmp_gt_lt a b : otag_cmp a b = Gt -> otag_cmp b a = Lt.
Proof. destruct a, b; simpl; intros H; try discriminate; auto using tag_cmp_gt_lt. Qed.

Lemma key_cmp_refl k : key_cmp k k = Eq.
Proof. destruct k as [b t]. unfold key_cmp. cbn [fst snd]. destruct b; simpl; apply otag_cmp_refl. Qed.
Lemma key_cmp_eq a b : key_cmp a b = Eq -> a = b.
Proof.
  destruct a as [b1 t1], b as [b2 t2]. unfold key_cmp. cbn [fst snd].
  destruct b1, b2; simpl; intros H; try discriminate; f_equal; apply otag_cmp_eq, H.
Qed.
Lemma key_cmp_gt_lt a b : key_cmp a b = Gt -> key_cmp b a = Lt.
Proof.
  destruct a as [b1 t1], b as [b2 t2]. unfold key_cmp. cbn [fst snd].
  destruct b1, b2; simpl; intros H; try discriminate; auto using otag_cmp_gt_lt.
Qed.

(* ------------------------------------------------------------------------- *)
(** * The stable insertion sort *)

Section SortFacts.
  Context {A : Type} (cmp : A -> A -> comparison).
  Definition cle (a b : A) : Prop := cmp a b <> Gt.

  Lemma insert_perm x l : Permutation (insert cmp x l) (x :: l).
  Proof.
    induction l as [|y l IH]; simpl; [reflexivity|].
    destruct (cmp x y); try reflexivity.
    rewrite IH. apply perm_swap.
  Qed.
  Lemma sort_by_perm l : Permutation (sort_by cmp l) l.
  Proof.
    induction l as [|x l IH]; simpl; [constructor|].
    rewrite insert_perm. constructor. exact IH.
  Qed.
  Lemma sort_by_length l : length (sort_by cmp l) = length l.
  Proof. apply Permutation_length, sort_by_perm. Qed.

  Hypothesis cmp_gt_le : forall a b, cmp a b = Gt -> cmp b a <> Gt.

  Lemma insert_sorted x l : Sorted cle l -> Sorted cle (insert cmp x l).
  Proof.
    induction l as [|y l IH]; simpl; intros Hs.
    - repeat constructor.
    - destruct (cmp x y) eqn:E.
      + constructor; [exact Hs|]. constructor. unfold cle. rewrite E. discriminate.
      + constructor; [exact Hs|]. constructor. unfold cle. rewrite E. discriminate.
      + inversion Hs as [|? ? Hs' Hhd]; subst. constructor; [apply IH, Hs'|].
        destruct l as [|z l]; simpl.
        * constructor. apply cmp_gt_le, E.
        * destruct (cmp x z) eqn:E2.
          -- constructor. apply cmp_gt_le, E.
          -- constructor. apply cmp_gt_le, E.
          -- inversion Hhd; subst. constructor. assumption.
  Qed.
  Lemma sort_by_sorted l : Sorted cle (sort_by cmp l).
  Proof. induction l as [|x l IH]; simpl; [constructor|]. apply insert_sorted, IH. Qed.

  (* a list that is already in order (ties included) is left alone *)
  Lemma sort_by_id l : Sorted cle l -> sort_by cmp l = l.
  Proof.
    induction l as [|x l IH]; simpl; intros Hs; [reflexivity|].
    inversion Hs as [|? ? Hs' Hhd]; subst. rewrite (IH Hs').
    destruct l as [|y l]; simpl; [reflexivity|].
    inversion Hhd as [|? ? Hle]; subst. unfold cle in Hle. destruct (cmp x y); congruence.
  Qed.

  (* stability: elements that compare as equal with each other keep their input order *)
  Lemma insert_stable (p : A -> bool) x l :
    (forall a b, p a = true -> p b = true -> cmp a b <> Gt) ->
    filter p (insert cmp x l) = filter p (x :: l).
  Proof.
    intros Hp. induction l as [|y l IH]; simpl; [reflexivity|].
    destruct (cmp x y) eqn:E; try reflexivity.
    cbn [filter]. rewrite IH. cbn [filter].
    destruct (p x) eqn:Px, (p y) eqn:Py; try reflexivity.
    exfalso. exact (Hp x y Px Py E).
  Qed.
  Lemma sort_by_stable (p : A -> bool) l :
    (forall a b, p a = true -> p b = true -> cmp a b <> Gt) ->
    filter p (sort_by cmp l) = filter p l.
  Proof.
    intros Hp. induction l as [|x l IH]; simpl; [reflexivity|].
    rewrite (insert_stable p x _ Hp). cbn [filter]. rewrite IH. reflexivity.
  Qed.
End SortFacts.

(* sorting a list made of a block of [false]-flagged elements followed by [true]-flagged ones sorts each
   block on its own *)
Section TwoBlocks.
  Context {A : Type} (cmp : A -> A -> comparison) (flag : A -> bool).
  Hypothesis flag_lt : forall a b, flag a = false -> flag b = true -> cmp a b = Lt.
  Hypothesis flag_gt : forall a b, flag a = true -> flag b = false -> cmp a b = Gt.

  Lemma insert_low x l1 l2 :
    flag x = false -> Forall (fun a => flag a = true) l2 ->
    insert cmp x (l1 ++ l2) = insert cmp x l1 ++ l2.
  Proof.
    intros Hx H2. induction l1 as [|y l1 IH]; simpl.
    - destruct l2 as [|z l2]; simpl; [reflexivity|].
      inversion H2; subst. rewrite (flag_lt x z Hx); auto.
    - destruct (cmp x y); try reflexivity. simpl. rewrite IH. reflexivity.
  Qed.
  Lemma insert_high x l1 l2 :
    flag x = true -> Forall (fun a => flag a = false) l1 ->
    insert cmp x (l1 ++ l2) = l1 ++ insert cmp x l2.
  Proof.
    intros Hx H1. induction l1 as [|y l1 IH]; simpl; [reflexivity|].
    inversion H1; subst. rewrite (flag_gt x y Hx); auto. rewrite IH; auto.
  Qed.

  Lemma sort_by_forall (P : A -> Prop) l : Forall P l -> Forall P (sort_by cmp l).
  Proof.
    intros H. rewrite Forall_forall in *. intros a Ha. apply H.
    apply (Permutation_in _ (sort_by_perm cmp l)), Ha.
  Qed.

  Lemma sort_by_two_blocks l1 l2 :
    Forall (fun a => flag a = false) l1 -> Forall (fun a => flag a = true) l2 ->
    sort_by cmp (l1 ++ l2) = sort_by cmp l1 ++ sort_by cmp l2.
  Proof.
    intros H1 H2. induction l1 as [|x l1 IH]; simpl; [reflexivity|].
    inversion H1; subst. rewrite IH by assumption.
    apply insert_low; [assumption|]. apply sort_by_forall, H2.
  Qed.
End TwoBlocks.

(* sorting commutes with an injection that preserves the comparison *)
Lemma insert_map {A B} (cmpA : A -> A -> comparison) (cmpB : B -> B -> comparison) (g : A -> B) x l :
  (forall a b, cmpB (g a) (g b) = cmpA a b) ->
  insert cmpB (g x) (map g l) = map g (insert cmpA x l).
Proof.
  intros H. induction l as [|y l IH]; simpl; [reflexivity|].
  rewrite H. destruct (cmpA x y); try reflexivity. simpl. rewrite IH. reflexivity.
Qed.
Lemma sort_by_map {A B} (cmpA : A -> A -> comparison) (cmpB : B -> B -> comparison) (g : A -> B) l :
  (forall a b, cmpB (g a) (g b) = cmpA a b) ->
  sort_by cmpB (map g l) = map g (sort_by cmpA l).
Proof.
  intros H. induction l as [|x l IH]; simpl; [reflexivity|].
  rewrite IH. apply insert_map, H.
Qed.

(* ------------------------------------------------------------------------- *)
(** * sort_fields_canonically *)

(* what the function stores in a field before sorting *)
Definition fill (f : rfield) : rfield := with_tag f (sort_tag f).
(* comparison of two fields of the same group *)
Definition ftag_cmp (f g : rfield) : comparison := otag_cmp (rf_tag f) (rf_tag g).
Definition ftag_le (f g : rfield) : Prop := ftag_cmp f g <> Gt.

(* number of fields in front of the first extension addition *)
Definition root_count (ext_after : option nat) (n : nat) : nat :=
  match ext_after with None => n | Some after => Nat.min (S after) n end.

Lemma sort_prepare_spec ext l r :
  sort_prepare ext l = Ok r ->
  r = map (fun p => (is_addition ext (fst p), fill (snd p))) l /\
  Forall (fun p => sort_tag (snd p) <> None) l.
Proof.
  revert r. induction l as [|[i f] l IH]; simpl; intros r H.
  - inversion H; subst. split; constructor.
  - destruct (sort_tag f) as [t|] eqn:E; [|discriminate].
    destruct (sort_prepare ext l) as [r'| |] eqn:E2; simpl in H; try discriminate.
    inversion H; subst. destruct (IH r' eq_refl) as [-> HF]. split.
    + unfold fill. rewrite E. reflexivity.
    + constructor; [simpl; congruence|exact HF].
Qed.

Lemma sort_prepare_ok ext l :
  Forall (fun p => sort_tag (snd p) <> None) l -> exists r, sort_prepare ext l = Ok r.
Proof.
  induction l as [|[i f] l IH]; simpl; intros H; [eauto|].
  inversion H as [|? ? Hf Hl]; subst. simpl in Hf.
  destruct (sort_tag f); [|congruence]. destruct (IH Hl) as [r ->]. simpl. eauto.
Qed.

Lemma enumerate_from_app {A} i (l1 l2 : list A) :
  enumerate_from i (l1 ++ l2) = enumerate_from i l1 ++ enumerate_from (i + length l1) l2.
Proof.
  revert i. induction l1 as [|x l1 IH]; intros i; simpl.
  - rewrite Nat.add_0_r. reflexivity.
  - rewrite IH. do 3 f_equal. lia.
Qed.
Lemma enumerate_from_snd {A} i (l : list A) : map snd (enumerate_from i l) = l.
Proof. revert i. induction l; intros; simpl; congruence. Qed.
Lemma enumerate_from_fst {A} i (l : list A) : map fst (enumerate_from i l) = seq i (length l).
Proof. revert i. induction l; intros; simpl; congruence. Qed.
Lemma enumerate_from_bounds {A} i (l : list A) :
  Forall (fun p => (i <= fst p < i + length l)%nat) (enumerate_from i l).
Proof.
  revert i. induction l as [|x l IH]; intros i; simpl; constructor.
  - simpl. lia.
  - eapply Forall_impl; [|apply IH]. simpl. intros. lia.
Qed.

Lemma field_cmp_same_flag b f g : field_cmp (b, f) (b, g) = ftag_cmp f g.
Proof. unfold field_cmp, field_key, key_cmp, ftag_cmp. cbn [fst snd]. destruct b; reflexivity. Qed.

Lemma firstn_skipn_map {A B} (g : A -> B) n l :
  map g l = map g (firstn n l) ++ map g (skipn n l).
Proof. rewrite <- map_app, firstn_skipn. reflexivity. Qed.

(* the shape of the result: the root fields sorted by tag, then the additions sorted by tag *)
Theorem sort_fields_canonically_shape fs ext out :
  sort_fields_canonically fs ext = Ok out ->
  let filled := map fill fs in
  let nroot := root_count ext (length fs) in
  out = sort_by ftag_cmp (firstn nroot filled) ++ sort_by ftag_cmp (skipn nroot filled)
  /\ Forall (fun f => sort_tag f <> None) fs.
Proof.
  unfold sort_fields_canonically. intros H.
  destruct (sort_prepare ext (enumerate fs)) as [r| |] eqn:E; simpl in H; try discriminate.
  inversion H; subst out; clear H.
  destruct (sort_prepare_spec _ _ _ E) as [-> HF]. cbv zeta. split.
  2:{ unfold enumerate in HF. rewrite Forall_forall in *. intros f Hf.
      rewrite <- (enumerate_from_snd O fs) in Hf. apply in_map_iff in Hf.
      destruct Hf as [p [<- Hp]]. apply HF, Hp. }
  set (nroot := root_count ext (length fs)).
  (* split the enumerated list at nroot *)
  unfold enumerate. rewrite <- (firstn_skipn nroot fs) at 1.
  rewrite enumerate_from_app, map_app. cbn [Nat.add].
  set (l1 := firstn nroot fs). set (l2 := skipn nroot fs).
  assert (Hlen1 : length l1 = nroot).
  { unfold l1. rewrite firstn_length. unfold nroot, root_count. destruct ext; lia. }
  assert (H1 : map (fun p => (is_addition ext (fst p), fill (snd p))) (enumerate_from 0 l1)
               = map (pair false) (map fill l1)).
  { rewrite map_map. rewrite <- (enumerate_from_snd 0 l1) at 2. rewrite map_map.
    apply map_ext_in. intros p Hp.
    pose proof (enumerate_from_bounds 0 l1) as HB. rewrite Forall_forall in HB. specialize (HB p Hp).
    f_equal. unfold is_addition. destruct ext as [after|]; [|reflexivity].
    apply Nat.ltb_ge. unfold nroot, root_count in Hlen1. lia. }
  assert (H2 : map (fun p => (is_addition ext (fst p), fill (snd p))) (enumerate_from (length l1) l2)
               = map (pair true) (map fill l2)).
  { rewrite map_map. rewrite <- (enumerate_from_snd (length l1) l2) at 2. rewrite map_map.
    apply map_ext_in. intros p Hp.
    pose proof (enumerate_from_bounds (length l1) l2) as HB. rewrite Forall_forall in HB. specialize (HB p Hp).
    f_equal. unfold is_addition. destruct ext as [after|].
    - apply Nat.ltb_lt. unfold nroot, root_count in Hlen1.
      destruct l2 as [|z l2'] eqn:El2; [destruct Hp|].
      assert (length l1 + length l2 = length fs)%nat.
      { unfold l1, l2. rewrite <- app_length, firstn_skipn. reflexivity. }
      rewrite El2 in H. simpl in H. lia.
    - (* no marker: nroot = length fs, so l2 is empty *)
      exfalso. unfold nroot, root_count in Hlen1.
      assert (length l2 = 0)%nat.
      { unfold l2. rewrite skipn_length. unfold nroot, root_count. lia. }
      destruct l2; [destruct Hp|discriminate]. }
  rewrite H1, H2.
  rewrite (sort_by_two_blocks field_cmp fst).
  - rewrite map_app.
    rewrite (sort_by_map ftag_cmp field_cmp (pair false)) by (intros; apply field_cmp_same_flag).
    rewrite (sort_by_map ftag_cmp field_cmp (pair true)) by (intros; apply field_cmp_same_flag).
    rewrite !map_map. cbn [snd]. rewrite !map_id.
    unfold l1, l2. rewrite firstn_map, skipn_map. reflexivity.
  - intros [b1 f1] [b2 f2]. cbn [fst]. intros -> ->. reflexivity.
  - apply Forall_forall. intros p Hp. apply in_map_iff in Hp. destruct Hp as [? [<- _]]. reflexivity.
  - apply Forall_forall. intros p Hp. apply in_map_iff in Hp. destruct Hp as [? [<- _]]. reflexivity.
Qed.

Lemma ftag_cmp_gt_le f g : ftag_cmp f g = Gt -> ftag_cmp g f <> Gt.
Proof. unfold ftag_cmp. intros H. rewrite (otag_cmp_gt_lt _ _ H). discriminate. Qed.

Theorem sort_fields_canonically_sorted fs ext out :
  sort_fields_canonically fs ext = Ok out ->
  let filled := map fill fs in
  let nroot := root_count ext (length fs) in
  exists roots adds,
    out = roots ++ adds
    /\ Permutation roots (firstn nroot filled) /\ Permutation adds (skipn nroot filled)
    /\ Sorted ftag_le roots /\ Sorted ftag_le adds
    /\ Permutation out filled
    /\ Forall (fun f => exists t, rf_tag f = Some t) out.
Proof.
  intros H. destruct (sort_fields_canonically_shape _ _ _ H) as [Hout HF]. cbv zeta in *.
  eexists _, _. split; [exact Hout|].
  assert (HP : Permutation out (map fill fs)).
  { rewrite Hout. rewrite <- (firstn_skipn (root_count ext (length fs)) (map fill fs)) at 3.
    apply Permutation_app; apply sort_by_perm. }
  repeat split.
  - apply sort_by_perm.
  - apply sort_by_perm.
  - apply (sort_by_sorted ftag_cmp ftag_cmp_gt_le).
  - apply (sort_by_sorted ftag_cmp ftag_cmp_gt_le).
  - exact HP.
  - rewrite Forall_forall in *. intros f Hf.
    apply (Permutation_in _ HP) in Hf. apply in_map_iff in Hf. destruct Hf as [g [<- Hg]].
    specialize (HF g Hg). unfold fill, with_tag. cbn [rf_tag]. destruct (sort_tag g); [eauto|congruence].
Qed.

(* the sort never fails on fields whose tag is known *)
Lemma sort_fields_canonically_ok fs ext :
  Forall (fun f => sort_tag f <> None) fs -> exists out, sort_fields_canonically fs ext = Ok out.
Proof.
  intros H. unfold sort_fields_canonically.
  destruct (sort_prepare_ok ext (enumerate fs)) as [r ->]; [|simpl; eauto].
  unfold enumerate. rewrite Forall_forall in *. intros p Hp. apply H.
  rewrite <- (enumerate_from_snd O fs). apply in_map, Hp.
Qed.

(* stability of the sort on the key the code uses *)
Definition key_eqb (a b : key) : bool := match key_cmp a b with Eq => true | _ => false end.
Theorem field_sort_stable (k : key) l :
  filter (fun a => key_eqb (field_key a) k) (sort_by field_cmp l)
  = filter (fun a => key_eqb (field_key a) k) l.
Proof.
  apply sort_by_stable. intros a b Ha Hb. unfold key_eqb in *.
  destruct (key_cmp (field_key a) k) eqn:Ea; try discriminate.
  destruct (key_cmp (field_key b) k) eqn:Eb; try discriminate.
  apply key_cmp_eq in Ea, Eb. unfold field_cmp. rewrite Ea, Eb, key_cmp_refl. discriminate.
Qed.

(* ------------------------------------------------------------------------- *)
(** * assign_implicit_tags *)

Lemma existsb_false_forall {A} (p : A -> bool) l : existsb p l = false -> Forall (fun a => p a = false) l.
Proof.
  induction l; simpl; intros H; constructor; apply orb_false_iff in H; tauto.
Qed.

Theorem assign_implicit_tags_spec fs :
  (Exists (fun f => rf_tag f <> None) fs -> assign_implicit_tags fs = fs) /\
  (Forall (fun f => rf_tag f = None) fs ->
     map rf_tag (assign_implicit_tags fs)
       = map (fun i => Some (ContextSpecific, N.of_nat i)) (seq 0 (length fs))
     /\ map rf_idx (assign_implicit_tags fs) = map rf_idx fs
     /\ map rf_ty (assign_implicit_tags fs) = map rf_ty fs).
Proof.
  unfold assign_implicit_tags. split.
  - intros HE. apply Exists_exists in HE. destruct HE as [f [Hin Hf]].
    assert (existsb (fun f => is_some (rf_tag f)) fs = true) as ->; [|reflexivity].
    apply existsb_exists. exists f. split; [exact Hin|]. destruct (rf_tag f); [reflexivity|congruence].
  - intros HF.
    assert (existsb (fun f => is_some (rf_tag f)) fs = false) as ->.
    { destruct (existsb _ fs) eqn:E; [|reflexivity]. apply existsb_exists in E.
      destruct E as [f [Hin Hf]]. rewrite Forall_forall in HF. rewrite (HF f Hin) in Hf. discriminate. }
    unfold enumerate. rewrite !map_map. cbn [with_tag rf_tag rf_idx rf_ty].
    repeat split.
    + rewrite <- (enumerate_from_fst 0 fs), map_map. reflexivity.
    + rewrite <- (enumerate_from_snd 0 fs) at 2. rewrite map_map. reflexivity.
    + rewrite <- (enumerate_from_snd 0 fs) at 2. rewrite map_map. reflexivity.
Qed.

Lemma assign_implicit_tags_length fs : length (assign_implicit_tags fs) = length fs.
Proof.
  unfold assign_implicit_tags. destruct (existsb _ fs); [reflexivity|].
  rewrite map_length. unfold enumerate.
  rewrite <- (map_length fst), enumerate_from_fst, seq_length. reflexivity.
Qed.
Lemma assign_implicit_tags_idx fs : map rf_idx (assign_implicit_tags fs) = map rf_idx fs.
Proof.
  unfold assign_implicit_tags. destruct (existsb _ fs); [reflexivity|].
  unfold enumerate. rewrite map_map. cbn [with_tag rf_idx].
  rewrite <- (enumerate_from_snd 0 fs) at 2. rewrite map_map. reflexivity.
Qed.

(* ------------------------------------------------------------------------- *)
(** * effective tags *)

(* the TAG constant differs from the tag the field is sorted by for exactly these untagged types *)
Fixpoint tag_const_deviates (r : rty) : bool :=
  match r with
  | ROption i => tag_const_deviates i
  | RDefault _ => true
  | RBuiltin KSetOf => true
  | _ => false
  end.

Lemma tag_const_tagged ty t : tag_const ty (Some t) = Ok t.
Proof. induction ty; simpl; auto. Qed.

Lemma tag_const_untagged ty t :
  tag_const_deviates ty = false -> rty_tag ty = Some t -> tag_const ty None = Ok t.
Proof.
  induction ty as [k|o|i IH|i IH]; simpl; intros Hd Ht.
  - inversion Ht; subst. destruct k; try reflexivity; discriminate.
  - subst o. reflexivity.
  - auto.
  - discriminate.
Qed.

Theorem tag_const_is_sort_tag f t :
  (rf_tag f <> None \/ tag_const_deviates (rf_ty f) = false) ->
  sort_tag f = Some t -> tag_const (rf_ty f) (rf_tag f) = Ok t.
Proof.
  unfold sort_tag. intros Hk Hs. destruct (rf_tag f) as [t'|] eqn:E; simpl in Hs.
  - inversion Hs; subst. apply tag_const_tagged.
  - destruct Hk as [Hk|Hk]; [congruence|]. apply tag_const_untagged; assumption.
Qed.

(* to_rust: what a component's tag and type become *)
Lemma type_to_rty_tag fuel e ty tg r :
  type_to_rty fuel e ty tg = Ok r ->
  match ty with
  | TBuiltin k => r = RBuiltin k
  | TRef rf => exists t, resolve_tag fuel e rf = Ok t /\ r = RComplex t
  | TConstr _ | TChoice _ _ =>
      match tg with
      | Some _ => r = RComplex tg
      | None => exists t, resolve_type_tag fuel e ty = Ok t /\ r = RComplex t
      end
  end.
Proof.
  destruct ty; simpl; intros H.
  - inversion H. reflexivity.
  - destruct tg; [inversion H; reflexivity|].
    destruct (resolve_type_tag fuel e (TConstr k)) eqn:E; simpl in H; inversion H. eauto.
  - destruct (resolve_tag fuel e r0) eqn:E; simpl in H; inversion H. eauto.
  - destruct tg; [inversion H; reflexivity|].
    destruct (resolve_type_tag fuel e (TChoice ext_after alts)) eqn:E; simpl in H; inversion H. eauto.
Qed.

Lemma type_to_rty_not_optional fuel e ty tg r : type_to_rty fuel e ty tg = Ok r -> is_optional r = false.
Proof.
  intros H. apply type_to_rty_tag in H. destruct ty.
  - subst. reflexivity.
  - destruct tg; [subst; reflexivity|destruct H as [? [_ ->]]; reflexivity].
  - destruct H as [? [_ ->]]. reflexivity.
  - destruct tg; [subst; reflexivity|destruct H as [? [_ ->]]; reflexivity].
Qed.

Lemma wrap_optional (b : bool) role :
  is_optional (if b && negb (is_optional role) then ROption role else role) = b || is_optional role.
Proof. destruct b, (is_optional role) eqn:E; simpl; auto. Qed.

Lemma rty_tag_no_option r : rty_tag (no_option r) = rty_tag r.
Proof. induction r; simpl; auto. Qed.

(* the tag a component is sorted by: its own tag if it has one, else the tag of the referenced type for a
   reference, else the universal tag of the built-in type *)
Theorem comp_effective_tag fuel e ext i c f :
  comp_to_rfield fuel e ext i c = Ok f ->
  rf_idx f = i /\ rf_tag f = c_tag c /\
  is_optional (rf_ty f) = (match c_pres c with Mandatory => is_addition ext i | _ => true end) /\
  match c_tag c with
  | Some t => sort_tag f = Some t
  | None =>
      match c_ty c with
      | TBuiltin k => sort_tag f = Some (builtin_tag k)
      | TRef rf => resolve_tag fuel e rf = Ok (sort_tag f)
      | ty => resolve_type_tag fuel e ty = Ok (sort_tag f)
      end
  end.
Proof.
  unfold comp_to_rfield. intros H.
  set (tg := c_tag c) in *.
  destruct (c_pres c) eqn:EP.
  - (* Mandatory *)
    destruct (type_to_rty fuel e (c_ty c) tg) as [role| |] eqn:ER; simpl in H; try discriminate.
    inversion H; subst f; clear H. cbn [rf_idx rf_tag rf_ty]. unfold sort_tag. cbn [rf_tag rf_ty].
    split; [reflexivity|]. split; [reflexivity|]. split.
    + rewrite wrap_optional, (type_to_rty_not_optional _ _ _ _ _ ER), orb_false_r. reflexivity.
    + destruct tg as [t|] eqn:ET; [reflexivity|]. simpl.
      apply type_to_rty_tag in ER.
      assert (HT : forall r, rty_tag (if match ext with Some x => (x <? i)%nat | None => false end
                                         && negb (is_optional r) then ROption r else r) = rty_tag r).
      { intros r. destruct (_ && _); reflexivity. }
      rewrite HT. destruct (c_ty c).
      * subst. reflexivity.
      * destruct ER as [t [Ht ->]]. exact Ht.
      * destruct ER as [t [Ht ->]]. exact Ht.
      * destruct ER as [t [Ht ->]]. exact Ht.
  - (* Optional *)
    destruct (match tg with Some _ => Ok tg | None => resolve_no_default fuel e (c_ty c) end)
      as [tg'| |] eqn:EN; simpl in H; try discriminate.
    destruct (type_to_rty fuel e (c_ty c) tg') as [role| |] eqn:ER; simpl in H; try discriminate.
    inversion H; subst f; clear H. cbn [rf_idx rf_tag rf_ty]. unfold sort_tag. cbn [rf_tag rf_ty].
    split; [reflexivity|]. split; [reflexivity|]. split.
    + simpl. rewrite andb_false_r. reflexivity.
    + destruct tg as [t|] eqn:ET; [reflexivity|]. simpl. rewrite andb_false_r. simpl.
      apply type_to_rty_tag in ER. destruct (c_ty c) eqn:ECT.
      * subst. reflexivity.
      * (* inline constructed: resolve_no_default gives None or the resolved tag *)
        unfold resolve_no_default, resolve_default in EN.
        destruct (resolve_type_tag fuel [] (TConstr k)) as [d0| |] eqn:E0; simpl in EN; try discriminate.
        destruct (resolve_type_tag fuel e (TConstr k)) as [r0| |] eqn:E1; simpl in EN; try discriminate.
        inversion EN; subst tg'; clear EN.
        destruct r0 as [rt|].
        -- destruct (otag_eqb d0 (Some rt)).
           ++ destruct ER as [t [Ht ->]]. exact Ht.
           ++ subst role. reflexivity.
        -- destruct ER as [t [Ht ->]]. exact Ht.
      * destruct ER as [t [Ht ->]]. exact Ht.
      * unfold resolve_no_default, resolve_default in EN.
        destruct (resolve_type_tag fuel [] (TChoice ext_after alts)) as [d0| |] eqn:E0; simpl in EN; try discriminate.
        destruct (resolve_type_tag fuel e (TChoice ext_after alts)) as [r0| |] eqn:E1; simpl in EN; try discriminate.
        inversion EN; subst tg'; clear EN.
        destruct r0 as [rt|].
        -- destruct (otag_eqb d0 (Some rt)).
           ++ destruct ER as [t [Ht ->]]. exact Ht.
           ++ subst role. reflexivity.
        -- destruct ER as [t [Ht ->]]. exact Ht.
  - (* Default *)
    destruct (type_to_rty fuel e (c_ty c) tg) as [role| |] eqn:ER; simpl in H; try discriminate.
    inversion H; subst f; clear H. cbn [rf_idx rf_tag rf_ty]. unfold sort_tag. cbn [rf_tag rf_ty].
    split; [reflexivity|]. split; [reflexivity|]. split; [reflexivity|].
    destruct tg as [t|] eqn:ET; [reflexivity|]. simpl. rewrite rty_tag_no_option.
    apply type_to_rty_tag in ER. destruct (c_ty c).
    + subst. reflexivity.
    + destruct ER as [t [Ht ->]]. exact Ht.
    + destruct ER as [t [Ht ->]]. exact Ht.
    + destruct ER as [t [Ht ->]]. exact Ht.
Qed.

Lemma comps_to_rfields_idx fuel e ext i cs fs :
  comps_to_rfields fuel e ext i cs = Ok fs -> map rf_idx fs = seq i (length cs).
Proof.
  revert i fs. induction cs as [|c cs IH]; simpl; intros i fs H.
  - inversion H. reflexivity.
  - destruct (comp_to_rfield fuel e ext i c) as [f| |] eqn:E; simpl in H; try discriminate.
    destruct (comps_to_rfields fuel e ext (S i) cs) as [fs'| |] eqn:E2; simpl in H; try discriminate.
    inversion H; subst. simpl. f_equal.
    + apply comp_effective_tag in E. tauto.
    + apply IH, E2.
Qed.

(* CHOICE: the tag an untagged CHOICE is ordered by is the smallest tag among its root alternatives *)
Lemma hd_sort_min (ts : list tag) t :
  hd_error (sort_by tag_cmp ts) = Some t -> In t ts /\ Forall (fun u => tag_le t u = true) ts.
Proof.
  intros H.
  assert (HS : Sorted (cle tag_cmp) (sort_by tag_cmp ts)).
  { apply sort_by_sorted. intros a b Hgt. rewrite (tag_cmp_gt_lt _ _ Hgt). discriminate. }
  assert (HSS : StronglySorted (cle tag_cmp) (sort_by tag_cmp ts)).
  { apply Sorted_StronglySorted; [|exact HS].
    intros a b c. unfold cle. intros Hab Hbc Hac.
    pose proof (tag_cmp_spec a b) as Sab. pose proof (tag_cmp_spec b c) as Sbc.
    pose proof (tag_cmp_spec a c) as Sac. rewrite Hac in Sac.
    assert (Lab : x680_le a b) by (apply tag_le_is_x680_le; unfold tag_le; destruct (tag_cmp a b); auto; congruence).
    assert (Lbc : x680_le b c) by (apply tag_le_is_x680_le; unfold tag_le; destruct (tag_cmp b c); auto; congruence).
    clear Sab Sbc. unfold x680_le, x680_lt in *.
    destruct a as [ca na], b as [cb nb], c as [cc nc]. cbn [fst snd] in *.
    destruct Lab as [[?|[? ?]]|Lab], Lbc as [[?|[? ?]]|Lbc], Sac as [?|[? ?]];
      try (inversion Lab; subst); try (inversion Lbc; subst); subst; try lia. }
  destruct (sort_by tag_cmp ts) as [|t' l] eqn:E; simpl in H; [discriminate|]. inversion H; subst t'.
  pose proof (sort_by_perm tag_cmp ts) as HP. rewrite E in HP. split.
  - apply (Permutation_in _ HP). left. reflexivity.
  - inversion HSS as [|? ? _ Hall]; subst. rewrite Forall_forall in *. intros u Hu.
    apply Permutation_sym in HP. apply (Permutation_in _ HP) in Hu. destruct Hu as [<-|Hu].
    + unfold tag_le. rewrite tag_cmp_refl. reflexivity.
    + specialize (Hall u Hu). unfold cle in Hall. unfold tag_le. destruct (tag_cmp t u); auto; congruence.
Qed.

(* ------------------------------------------------------------------------- *)
(** * write_constraints *)

Theorem write_constraints_keep own fs ext l :
  write_constraints Keep own fs ext = Ok l ->
  l_wire l = assign_implicit_tags fs /\ map rf_idx (l_wire l) = map rf_idx fs.
Proof.
  unfold write_constraints. intros H.
  destruct (tag_consts (assign_implicit_tags fs)) as [cs| |]; simpl in H; try discriminate.
  inversion H; subst l. cbn [l_wire]. split; [reflexivity|apply assign_implicit_tags_idx].
Qed.

Lemma take_while_index_le_firstn bound {l : list rfield} i :
  map snd (take_while_index_le bound (enumerate_from i l))
  = firstn (match bound with Some b => S b - i | None => length l end) l.
Proof.
  revert i. induction l as [|f l IH]; intros i.
  - simpl. rewrite firstn_nil. reflexivity.
  - cbn [enumerate_from take_while_index_le]. destruct bound as [b|].
    + destruct (Nat.leb_spec i b).
      * cbn [map snd]. rewrite IH. replace (S b - i)%nat with (S (S b - S i))%nat by lia. reflexivity.
      * replace (S b - i)%nat with O by lia. reflexivity.
    + cbn [map snd length]. rewrite IH. reflexivity.
Qed.

(* STD_OPTIONAL_FIELDS counts the optional fields among the first root_count fields of the wire order:
   the presence bits are the optional root fields, in wire order *)
Definition presence_fields (wire : list rfield) (ext_after : option nat) : list rfield :=
  filter (fun f => is_optional (rf_ty f)) (firstn (root_count ext_after (length wire)) wire).

Theorem std_optional_fields_spec wire ext :
  std_optional_fields wire ext = length (presence_fields wire ext).
Proof.
  unfold std_optional_fields, presence_fields, enumerate.
  rewrite <- (map_length snd).
  assert (HF : forall l : list (nat * rfield),
             map snd (filter (fun p => is_optional (rf_ty (snd p))) l)
             = filter (fun f => is_optional (rf_ty f)) (map snd l)).
  { induction l as [|p l IH]; simpl; [reflexivity|]. destruct (is_optional _); simpl; congruence. }
  rewrite HF, take_while_index_le_firstn. f_equal. f_equal.
  unfold root_count. destruct ext as [b|]; [|rewrite firstn_all; reflexivity].
  rewrite Nat.sub_0_r. destruct (Nat.le_ge_cases (S b) (length wire)).
  - rewrite Nat.min_l by assumption. reflexivity.
  - rewrite Nat.min_r by assumption. rewrite firstn_all, firstn_all2 by assumption. reflexivity.
Qed.

Lemma write_constraints_consts o own fs ext l :
  write_constraints o own fs ext = Ok l ->
  l_std_optional l = length (presence_fields (l_wire l) ext) /\ l_extended_after l = ext /\
  l_own l = match own with Some t => t | None => tag_of_code DEFAULT_SEQUENCE end /\
  match o with
  | Keep => l_wire l = assign_implicit_tags fs
  | Sort => sort_fields_canonically (assign_implicit_tags fs) ext = Ok (l_wire l)
  end.
Proof.
  unfold write_constraints. intros H.
  destruct (tag_consts (assign_implicit_tags fs)) as [cs| |]; simpl in H; try discriminate.
  destruct o.
  - simpl in H. inversion H; subst l. cbn [l_std_optional l_extended_after l_own l_wire].
    rewrite std_optional_fields_spec. auto.
  - destruct (sort_fields_canonically (assign_implicit_tags fs) ext) as [w| |]; simpl in H; try discriminate.
    inversion H; subst l. cbn [l_std_optional l_extended_after l_own l_wire].
    rewrite std_optional_fields_spec. auto.
Qed.

(* additions whose tags already ascend in textual order stay in textual order *)
Theorem sort_fields_canonically_additions_textual fs ext out :
  sort_fields_canonically fs ext = Ok out ->
  let filled := map fill fs in
  let nroot := root_count ext (length fs) in
  Sorted ftag_le (skipn nroot filled) ->
  out = sort_by ftag_cmp (firstn nroot filled) ++ skipn nroot filled.
Proof.
  intros H filled nroot HS. destruct (sort_fields_canonically_shape _ _ _ H) as [-> _].
  fold filled nroot. f_equal. apply sort_by_id. exact HS.
Qed.

(* the attribute round trip hands the fields back unchanged *)
Lemma reparse_fields fields en r : reparse fields en = Ok r -> fst r = fields.
Proof. unfold reparse. destruct (existsb _ fields); intros H; inversion H. reflexivity. Qed.

Theorem layout_of_sequence_textual d l :
  s_set d = false -> layout_of d = Ok l -> map rf_idx (l_wire l) = seq 0 (length (s_comps d)).
Proof.
  unfold layout_of. intros Hs H. rewrite Hs in H.
  destruct (comps_to_rfields _ _ _ _ _) as [fields| |] eqn:E1; simpl in H; try discriminate.
  destruct (attr_extensible_after fields _) as [en| |] eqn:E2; simpl in H; try discriminate.
  destruct (reparse fields en) as [back| |] eqn:E3; simpl in H; try discriminate.
  apply write_constraints_keep in H. destruct H as [_ H]. rewrite H.
  rewrite (reparse_fields _ _ _ E3). apply (comps_to_rfields_idx _ _ _ _ _ _ E1).
Qed.

(* with at least one component in front of the marker the root fields are exactly those components *)
Lemma root_count_marker p n : p <> O -> root_count (ext_after_of_marker (Some p)) n = Nat.min p n.
Proof. intros Hp. unfold root_count, ext_after_of_marker. destruct p; [congruence|]. reflexivity. Qed.
