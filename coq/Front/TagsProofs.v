(* Front/TagsProofs.v -- stub, to be filled *)
