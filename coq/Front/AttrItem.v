(* Front/AttrItem.v -- the whole `#[asn(...)]` attribute of a definition / field / variant (layer F4, property C08).

   printer : generate/rust.rs  RustCodeGenerator::asn_attribute (kind or type, `tag(..)`, `extensible_after(name)`,
             `const(NAME(value), ..)`) as called from add_definition (header), add_struct / add_tuple_struct (fields),
             add_data_enum (CHOICE variants).  add_enum prints NO attribute on ENUMERATED variants; the hand-written form
             `#[asn(<number>)]` the macro accepts there is modelled on the parser side (and printed as the bare number).
   parser  : proc_macro/attribute.rs  AsnAttribute::<C>::parse, eof_or_comma, the four PrimaryContext / Context impls that
             proc_macro/mod.rs instantiates (DefinitionHeader, Transparent, ChoiceVariant, EnumeratedVariant),
             proc_macro/constants.rs ConstLit::parse,
   item    : proc_macro/mod.rs  the dispatch on the header kind, find_extensible_index, into_asn -- the part of
             parse_asn_definition through which the parsed attribute is observable from outside the crate (op 3413).

   Token trees, the type part and the tag group come from Front/Attr.v.  As there, a parenthesised buffer that is
   dropped with tokens left over makes the whole parse fail (syn records the left-over token and `parse2` / `parse_args`
   report it once the outer parser returned Ok): every such place answers Err at once. *)
From A1 Require Export Base.Res.
From A1 Require Import Gen.Keywords Front.Codegen Front.Attr.
From Coq Require Import String.
Local Open Scope N_scope.

Definition S_sequence := codes "sequence".       Definition S_set := codes "set".
Definition S_choice := codes "choice".           Definition S_enumerated := codes "enumerated".
Definition S_transparent := codes "transparent". Definition S_extensible_after := codes "extensible_after".
Definition S_const := codes "const".

(* the `Context` impls used by proc_macro/mod.rs *)
Inductive ctx := CHeader | CTransparent | CChoiceVariant | CEnumVariant.
Definition ctx_ext (c : ctx) : bool := match c with CHeader => true | _ => false end.            (* EXTENSIBLE_AFTER *)
Definition ctx_taggable (c : ctx) : bool := match c with CEnumVariant => false | _ => true end.  (* TAGGABLE *)
Definition ctx_consts (c : ctx) : bool := match c with CTransparent => true | _ => false end.    (* CONSTS *)

(* C::Primary *)
Inductive primary :=
| PHeader (kind : list N)        (* DefinitionHeader(String): any identifier, judged later by parse_asn_definition *)
| PType (t : aty)                (* Type *)
| PNumber (n : option N).        (* Option<usize> *)

(* AsnAttribute<C> (default_value is never set by the parser) *)
Record attr := mk_attr {
  a_primary : primary;
  a_tag : option tag;
  a_consts : list (list N * Z);          (* ConstLit::I64(name, value) *)
  a_ext : option (list N)                (* extensible_after *)
}.

(* ------------------------------------------------------------------ printer: asn_attribute *)
Definition join_comma (parts : list (list tok)) : list tok :=
  match parts with
  | [] => []
  | p :: ps => p ++ flat_map (fun q => TPunct COMMA :: q) ps
  end.

Definition print_primary (p : primary) : option (list tok) :=
  match p with
  | PHeader k => Some [TIdent k]
  | PType t => Some (print_ty t)
  | PNumber (Some n) => Some [TNum n]
  | PNumber None => None
  end.
Definition print_const (c : list N * Z) : list tok := [TIdent (fst c); TParen (print_z (snd c))].
Definition print_consts (cs : list (list N * Z)) : list tok := [TIdent S_const; TParen (join_comma (map print_const cs))].
Definition print_ext (name : list N) : list tok := [TIdent S_extensible_after; TParen [TIdent name]].

Definition tail_parts (a : attr) : list (list tok) :=
  opt_list (option_map print_tag (a_tag a)) ++ opt_list (option_map print_ext (a_ext a))
  ++ match a_consts a with [] => [] | cs => [print_consts cs] end.
Definition attr_parts (a : attr) : list (list tok) := opt_list (print_primary (a_primary a)) ++ tail_parts a.
Definition print_attr (a : attr) : list tok := join_comma (attr_parts a).

(* ------------------------------------------------------------------ parser: AsnAttribute::parse *)
(* eof_or_comma: end of input, or a comma that is skipped *)
Definition eof_or_comma (ts : list tok) : res (list tok) :=
  match ts with
  | [] => Ok []
  | TPunct c :: r => if c =? COMMA then Ok r else Err E_SYN
  | _ => Err E_SYN
  end.

(* C::Primary::parse *)
Definition parse_primary (c : ctx) (fuel : nat) (ts : list tok) : res (primary * list tok) :=
  match c with
  | CHeader =>                                    (* parse_ident: Cursor::ident, keywords included *)
    match ts with TIdent s :: r => Ok (PHeader s, r) | _ => Err E_SYN end
  | CTransparent | CChoiceVariant =>              (* ident_or_literal_or_punct, then parse_type_pre_stepped: a literal or a
                                                     punct is no type name, so this is Attr.parse_ty *)
    let! (t, r) := parse_ty fuel ts in Ok (PType t, r)
  | CEnumVariant =>                               (* step(..).ok(): nothing is consumed when the next token is a group or
                                                     the input is empty; otherwise the token text has to be a usize *)
    match ts with
    | TNum n :: r => if N.leb n USIZE_MAX then Ok (PNumber (Some n), r) else Err E_SYN
    | TIdent _ :: _ | TPunct _ :: _ | TStr _ :: _ => Err E_SYN
    | _ => Ok (PNumber None, ts)
    end
  end.

(* constants.rs ConstLit::parse, in the loop of the `const` arm: NAME(int) separated by commas, no trailing comma *)
Fixpoint parse_consts (ts : list tok) : res (list (list N * Z)) :=
  match ts with
  | TIdent n :: TParen v :: rest =>
    if negb (is_rust_ident n) || is_keyword n then Err E_SYN else       (* input.parse::<Ident>() *)
    match take_int v with
    | Some (z, []) =>
      if in_i64 z then
        match rest with
        | [] => Ok [(n, z)]
        | TPunct c :: rest' => if c =? COMMA then let! l := parse_consts rest' in Ok ((n, z) :: l) else Err E_SYN
        | _ => Err E_SYN
        end
      else Err E_SYN
    | _ => Err E_SYN
    end
  | _ => Err E_SYN
  end.

Definition set_tag (a : attr) (g : tag) : attr := mk_attr (a_primary a) (Some g) (a_consts a) (a_ext a).
Definition set_ext (a : attr) (n : list N) : attr := mk_attr (a_primary a) (a_tag a) (a_consts a) (Some n).
Definition add_consts (a : attr) (cs : list (list N * Z)) : attr := mk_attr (a_primary a) (a_tag a) (a_consts a ++ cs) (a_ext a).

(* one arm of `match lowercase_ident.as_str()`; every accepted arm reads exactly one parenthesised group *)
Definition parse_item (c : ctx) (a : attr) (lc : list N) (g : list tok) : res attr :=
  if str_eqb lc S_tag && ctx_taggable c then
    let! (t, _) := parse_tag_group [TParen g] in Ok (set_tag a t)
  else if str_eqb lc S_extensible_after && ctx_ext c then
    match g with [TIdent name] => Ok (set_ext a name) | _ => Err E_SYN end     (* Cursor::ident: keywords included *)
  else if str_eqb lc S_const && ctx_consts c then
    let! cs := parse_consts g in Ok (add_consts a cs)
  else Err E_SYN.

(* the `while !input.cursor().eof()` loop; only an identifier can spell an arm (a literal's text keeps its quotes) and
   every arm wants a group next, so anything else is an error; eof_or_comma follows each item (a trailing comma is fine) *)
Fixpoint parse_items (c : ctx) (a : attr) (ts : list tok) : res attr :=
  match ts with
  | [] => Ok a
  | TIdent id :: TParen g :: rest =>
    let! a' := parse_item c a (lower_str id) g in
    match rest with
    | [] => Ok a'
    | TPunct p :: rest' => if p =? COMMA then parse_items c a' rest' else Err E_SYN
    | _ => Err E_SYN
    end
  | _ => Err E_SYN
  end.

Definition parse_attr (c : ctx) (fuel : nat) (ts : list tok) : res attr :=
  let! (p, r) := parse_primary c fuel ts in
  let! r := eof_or_comma r in
  parse_items c (mk_attr p None [] None) r.

Definition attr_depth (a : attr) : nat := match a_primary a with PType t => depth t | _ => O end.

(* ------------------------------------------------------------------ item level: proc_macro/mod.rs *)
Inductive hkind := HSequence | HSet | HChoice | HEnumerated | HTransparent.
Definition hkind_name (k : hkind) : list N :=
  match k with
  | HSequence => S_sequence | HSet => S_set | HChoice => S_choice | HEnumerated => S_enumerated | HTransparent => S_transparent
  end.
(* the guards `asn.primary.eq_ignore_ascii_case(..)` of parse_asn_definition, in their order (the item kind -- struct or
   enum -- is fixed by the generator: sequence / set / transparent on structs, enumerated / choice on enums) *)
Definition header_kind (s : list N) : option hkind :=
  let lc := lower_str s in
  if str_eqb lc S_sequence then Some HSequence
  else if str_eqb lc S_set then Some HSet
  else if str_eqb lc S_transparent then Some HTransparent
  else if str_eqb lc S_enumerated then Some HEnumerated
  else if str_eqb lc S_choice then Some HChoice
  else None.

(* find_extensible_index: position of the first member whose identifier equals the name *)
Fixpoint index_of (name : list N) (members : list (list N)) : option nat :=
  match members with
  | [] => None
  | m :: ms => if str_eqb m name then Some O else option_map S (index_of name ms)
  end.
Definition find_ext_index (ext : option (list N)) (members : list (list N)) : res (option nat) :=
  match ext with
  | None => Ok None
  | Some name => match index_of name members with Some i => Ok (Some i) | None => Err E_SYN end
  end.

(* the identifiers the generator gives the members of an item (what syn reads back as field / variant names) *)
Definition emitted_members (k : hkind) (names : list (list N)) : list (list N) :=
  match k with
  | HSequence | HSet => map (fun n => gen_field_name n true) names
  | HChoice | HEnumerated => map gen_variant_name names
  | HTransparent => []
  end.

(* Type::no_optional_mut *)
Fixpoint no_optional (t : aty) : aty := match t with AOpt t' => no_optional t' | _ => t end.
Definition is_integer (t : aty) : bool := match t with AInt _ _ _ => true | _ => false end.

(* into_asn: `field_ty` is the text of the Rust type of the field (`quote! { #ty }`) *)
Definition into_asn (field_ty : list N) (a : attr) : option (option tag * aty * list (list N * Z)) :=
  match a_primary a with
  | PType (ARef _ empty_tag) =>
    Some (a_tag a, ARef field_ty (match empty_tag with Some g => Some g | None => a_tag a end), [])
  | PType t => Some (a_tag a, t, if is_integer (no_optional t) then a_consts a else [])
  | _ => None
  end.

(* rust.rs Context::to_rust_constants, as to_rust_keep_names applies it to the type into_asn produced: [ics] are the
   constants into_asn put into the Integer it reached through optional(..) (the third component of [into_asn]); a
   BitString never receives any there.  The Optional arm exists since /repo e572296; Default(..) still answers none. *)
Fixpoint to_rust_constants (t : aty) (ics : list (list N * Z)) : list (list N * Z) :=
  match t with
  | AInt _ _ _ => ics
  | AOpt t' => to_rust_constants t' ics
  | _ => []
  end.
(* asn_fields_to_rust_fields: `ctxt.to_rust_constants(&field.role.r#type)` *)
Definition field_rust_constants (t : aty) (ics : list (list N * Z)) : list (list N * Z) := to_rust_constants t ics.
(* definition_to_rust for a transparent definition: only the arm `me @ AsnType::Integer(_)` asks for constants *)
Definition tuple_rust_constants (t : aty) (ics : list (list N * Z)) : list (list N * Z) :=
  match t with AInt _ _ _ => ics | _ => [] end.
