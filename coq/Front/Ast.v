(* Front/Ast.v -- layer F1/F2: the data types of asn1rs-model/src/model.rs and asn/*.rs that the parser
   builds and the resolver maps, for both resolve states.

   Rust                                              model
   -----------------------------------------------   ------------------------------------------------
   String                                            str = list N (code points)
   LitOrRef<T>                                        lit_or_ref T
   Tag::{Universal,Application,ContextSpecific,       atag
        Private}(usize)
   LiteralValue                                       literal
   Size<T>                                            size T
   Range<Option<T>>(min, max, extensible)             option T * option T * bool
   Charset                                            charset
   Type<RS>, Asn<RS>, Field<Asn<RS>>,                 ty S R C / asn S R C / fields as (str * asn) lists
     ComponentTypeList<RS>, Choice<RS>, Enumerated      (S R C = SizeType RangeType ConstType of the state)
   ObjectIdentifier / Import / Definition /           oidc, import, amodel
     ValueReference / Model<Asn<RS>>
   usize, u64                                         N (bounded by the parsers: < 2^64);  i64: Z

   The same file holds the result type of the front end ([pres]: errors carry their kind and the offending
   token, as parse::ErrorKind does; fuel exhaustion is its own constructor). *)
From A1 Require Export Base.Res Front.Lex.
Local Open Scope N_scope.

Definition str := list N.

Inductive lit_or_ref (A : Type) : Type :=
| Lit (a : A)
| Ref (s : str).
Arguments Lit {A} a.
Arguments Ref {A} s.

Inductive atag : Type :=
| TagUniversal (n : N) | TagApplication (n : N) | TagContext (n : N) | TagPrivate (n : N).

Inductive literal : Type :=
| LBool (b : bool)
| LString (s : str)
| LInteger (z : Z)
| LOctets (bs : list N)
| LEnumVariant (t v : str).

Inductive size (A : Type) : Type :=
| SAny
| SFix (n : A) (ext : bool)
| SRange (lo hi : A) (ext : bool).
Arguments SAny {A}.
Arguments SFix {A} n ext.
Arguments SRange {A} lo hi ext.

Inductive charset : Type := Utf8 | Numeric | Printable | Ia5 | Visible.

Definition arange (A : Type) : Type := (option A * option A * bool)%type.

Section Types.
  Variables S R C : Type.

  Inductive ty : Type :=
  | TBoolean
  | TInteger (r : arange R) (consts : list (str * Z))
  | TString (s : size S) (c : charset)
  | TOctetString (s : size S)
  | TBitString (s : size S) (consts : list (str * N))
  | TNull
  | TOptional (t : ty)
  | TDefault (t : ty) (l : literal)
  | TSequence (fields : list (str * (option atag * ty * option C))) (ext : option N)
  | TSequenceOf (t : ty) (s : size S)
  | TSet (fields : list (str * (option atag * ty * option C))) (ext : option N)
  | TSetOf (t : ty) (s : size S)
  | TEnumerated (variants : list (str * option N)) (ext : option N)
  | TChoice (variants : list (str * option atag * ty)) (ext : option N)
  | TRef (name : str) (tag : option atag).

  (* Asn<RS> { tag, r#type, default } *)
  Definition asn : Type := (option atag * ty * option C)%type.
  Definition afield : Type := (str * asn)%type.
End Types.
Arguments TBoolean {S R C}.
Arguments TInteger {S R C} r consts.
Arguments TString {S R C} s c.
Arguments TOctetString {S R C} s.
Arguments TBitString {S R C} s consts.
Arguments TNull {S R C}.
Arguments TOptional {S R C} t.
Arguments TDefault {S R C} t l.
Arguments TSequence {S R C} fields ext.
Arguments TSequenceOf {S R C} t s.
Arguments TSet {S R C} fields ext.
Arguments TSetOf {S R C} t s.
Arguments TEnumerated {S R C} variants ext.
Arguments TChoice {S R C} variants ext.
Arguments TRef {S R C} name tag.

(* the two resolve states *)
Definition uty : Type := ty (lit_or_ref N) (lit_or_ref Z) (lit_or_ref literal).
Definition uasn : Type := asn (lit_or_ref N) (lit_or_ref Z) (lit_or_ref literal).
Definition rty : Type := ty N Z literal.
Definition rasn : Type := asn N Z literal.

Inductive oidc : Type :=
| NameForm (s : str)
| NumberForm (n : N)
| NameAndNumberForm (s : str) (n : N).

Record import : Type := { i_what : list str; i_from : str; i_from_oid : option (list oidc) }.

Record amodel (A : Type) : Type := {
  m_name : str;
  m_oid : option (list oidc);
  m_imports : list import;
  m_definitions : list (str * A);
  m_value_references : list (str * A * literal)
}.
Arguments m_name {A} a.
Arguments m_oid {A} a.
Arguments m_imports {A} a.
Arguments m_definitions {A} a.
Arguments m_value_references {A} a.

(* ---------- results of the front end ---------- *)

(* parse::ErrorKind, numbered as harness/a1h/src/parse.rs does *)
Definition E_EXPECTED_TEXT : N := 0.
Definition E_EXPECTED_TEXT_GOT : N := 1.
Definition E_EXPECTED_SEPARATOR : N := 2.
Definition E_EXPECTED_SEPARATOR_GOT : N := 3.
Definition E_UNEXPECTED_TOKEN : N := 4.
Definition E_MISSING_MODULE_NAME : N := 5.
Definition E_END_OF_STREAM : N := 6.
Definition E_INVALID_RANGE_VALUE : N := 7.
Definition E_INVALID_NUMBER_FOR_ENUM_VARIANT : N := 8.
Definition E_INVALID_VALUE_FOR_CONSTANT : N := 9.
Definition E_INVALID_TAG : N := 10.
Definition E_INVALID_POSITION_FOR_EXTENSION_MARKER : N := 11.
Definition E_INVALID_INT_TEXT : N := 12.
Definition E_UNSUPPORTED_LITERAL : N := 13.
Definition E_INVALID_LITERAL : N := 14.

Inductive pres (A : Type) : Type :=
| POk (a : A)
| PErr (kind : N) (t : option token)
| PPanic (p : N)
| POutOfFuel.
Arguments POk {A} a.
Arguments PErr {A} kind t.
Arguments PPanic {A} p.
Arguments POutOfFuel {A}.

Definition pbind {A B} (r : pres A) (f : A -> pres B) : pres B :=
  match r with
  | POk a => f a
  | PErr k t => PErr k t
  | PPanic p => PPanic p
  | POutOfFuel => POutOfFuel
  end.

Notation "'let?' x ':=' r 'in' k" := (pbind r (fun x => k))
  (at level 200, x pattern, r at level 100, k at level 200, right associativity).

(* resolve::Error *)
Inductive rerr : Type :=
| FailedToResolveType (name : str)
| FailedToResolveReference (name : str)
| FailedToParseLiteral (text : str).

(* RDiverge: the Rust lookup recurses without bound (stack overflow, process abort); see Front/Resolve.v *)
Inductive rres (A : Type) : Type :=
| ROk (a : A)
| RErr (e : rerr)
| RDiverge.
Arguments ROk {A} a.
Arguments RErr {A} e.
Arguments RDiverge {A}.

Definition rbind {A B} (r : rres A) (f : A -> rres B) : rres B :=
  match r with ROk a => f a | RErr e => RErr e | RDiverge => RDiverge end.

Notation "'let^' x ':=' r 'in' k" := (rbind r (fun x => k))
  (at level 200, x pattern, r at level 100, k at level 200, right associativity).

(* ---------- strings ---------- *)

Fixpoint str_eqb (a b : str) : bool :=
  match a, b with
  | [], [] => true
  | x :: a', y :: b' => (x =? y) && str_eqb a' b'
  | _, _ => false
  end.

Lemma str_eqb_eq : forall a b, str_eqb a b = true <-> a = b.
Proof.
  induction a as [|x a IH]; destruct b as [|y b]; simpl; split; intros H; try discriminate; auto.
  - apply andb_true_iff in H. destruct H as [H1 H2]. apply N.eqb_eq in H1. apply IH in H2. subst; reflexivity.
  - inversion H; subst. rewrite N.eqb_refl. simpl. apply IH. reflexivity.
Qed.

Lemma str_eqb_refl : forall a, str_eqb a a = true.
Proof. intros a. apply str_eqb_eq. reflexivity. Qed.

Definition to_ascii_lower (c : N) : N := if (65 <=? c) && (c <=? 90) then c + 32 else c.

(* str::eq_ignore_ascii_case *)
Fixpoint eq_ignore_case (a b : str) : bool :=
  match a, b with
  | [], [] => true
  | x :: a', y :: b' => (to_ascii_lower x =? to_ascii_lower y) && eq_ignore_case a' b'
  | _, _ => false
  end.

Definition is_ascii_digit (c : N) : bool := (48 <=? c) && (c <=? 57).

Fixpoint ends_with (s suffix : str) : bool :=
  if str_eqb s suffix then true
  else match s with
       | [] => false
       | _ :: s' => ends_with s' suffix
       end.
