(* Front/Ast.v -- stub, to be filled *)
