(* Front/ModuleGrammarProofs.v -- the module level of parse-after-print (C07), generic in the way assignments are
   printed: an assignment is a name token followed by a chunk of tokens that read_definition (resp.
   read_value_reference) parses to its value in front of any continuation satisfying the item's follow condition.
   Front/TypeGrammarProofs.v instantiates the chunks with the printers of the type grammar. *)
From Coq Require Import String.
From Coq Require Import ZifyBool ZifyNat ZifyN.
From A1 Require Import Front.Lex Front.Parse Front.Print Front.ParseProofs.
Local Open Scope N_scope.

(* an assignment of the module body: `name chunk` *)
Inductive item : Type :=
| IDef (name : str) (chunk : toks) (val : uasn) (follow : toks -> Prop)
| IVal (name : str) (chunk : toks) (a : uasn) (l : literal) (follow : toks -> Prop).

Definition item_toks (it : item) : toks :=
  match it with
  | IDef n c _ _ => T n :: c
  | IVal n c _ _ _ => T n :: c
  end.

Fixpoint print_items (its : list item) : toks :=
  match its with
  | [] => []
  | it :: r => (item_toks it ++ print_items r)%list
  end.

(* the name of an assignment must not be END or IMPORTS in any case (class assignment_named_end_truncates_module) *)
Definition name_ok (n : str) : Prop :=
  eq_ignore_case n (KW "END") = false /\ eq_ignore_case n (KW "IMPORTS") = false.

Definition item_ok (fuel : nat) (it : item) : Prop :=
  match it with
  | IDef n c v F => name_ok n /\ forall rest, F rest -> read_definition fuel (c ++ rest) = POk (v, rest)
  | IVal n c a l F => name_ok n /\ forall rest, F rest -> read_value_reference fuel (c ++ rest) = POk (a, l, rest)
  end.

(* every item's follow condition holds for what is printed after it *)
Fixpoint follows (its : list item) (rest : toks) : Prop :=
  match its with
  | [] => True
  | it :: r =>
      match it with IDef _ _ _ F => F | IVal _ _ _ _ F => F end (print_items r ++ rest)%list /\ follows r rest
  end.

Definition item_defs (its : list item) : list (str * uasn) :=
  flat_map (fun it => match it with IDef n _ v _ => [(n, v)] | IVal _ _ _ _ _ => [] end) its.

Definition item_vals (its : list item) : list (str * uasn * literal) :=
  flat_map (fun it => match it with IDef _ _ _ _ => [] | IVal n _ a l _ => [(n, a, l)] end) its.

Lemma read_definition_starts_with_colon : forall fuel ts x,
  read_definition fuel ts = POk x -> peek_is_sep C_COLON ts = true.
Proof.
  intros fuel ts x H. unfold read_definition, definition_sep, next_sep_or_err, next_if_sep in H.
  destruct ts as [|t r]; [discriminate H|]. cbn [peek_is_sep].
  destruct (eq_separator t C_COLON); [reflexivity | discriminate H].
Qed.

Lemma read_value_reference_starts_with_text : forall fuel ts x,
  read_value_reference fuel ts = POk x -> peek_is_sep C_COLON ts = false.
Proof.
  intros fuel ts x H. unfold read_value_reference, read_role, next_text_or_err in H.
  destruct ts as [|[l c s | l c ch] r]; [discriminate H | reflexivity | discriminate H].
Qed.

Lemma module_loop_items : forall its fuel tfuel rest name oid imports defs vals,
  Forall (item_ok tfuel) its -> follows its rest -> (length its <= fuel)%nat ->
  module_loop fuel tfuel (print_items its ++ rest) name oid imports defs vals
  = module_loop (fuel - length its) tfuel rest name oid imports
      (rev (item_defs its) ++ defs) (rev (item_vals its) ++ vals).
Proof.
  induction its as [|it its IH]; intros fuel tfuel rest name oid imports defs vals Hok Hfol Hf.
  - cbn [print_items app length item_defs item_vals flat_map rev]. rewrite Nat.sub_0_r. reflexivity.
  - inversion Hok as [|? ? Hit Hrest]; subst. cbn [follows] in Hfol. destruct Hfol as [Hf1 Hf2].
    destruct fuel as [|fuel]; [cbn [length] in Hf; lia|]. cbn [length] in Hf.
    cbn [print_items]. rewrite <- app_assoc.
    destruct it as [n c v F | n c a l F]; cbn [item_ok] in Hit; destruct Hit as [[Hn1 Hn2] Hparse];
      cbn [item_toks app]; specialize (Hparse _ Hf1).
    + cbn [module_loop]. unfold T. cbn [eq_text_ic]. rewrite Hn1, Hn2.
      rewrite (read_definition_starts_with_colon _ _ _ Hparse).
      cbn [into_text_or pbind]. rewrite Hparse. cbn [pbind].
      rewrite IH by (try assumption; lia).
      cbn [length item_defs item_vals flat_map app rev Nat.sub].
      fold (item_defs its). fold (item_vals its).
      rewrite <- app_assoc. reflexivity.
    + cbn [module_loop]. unfold T. cbn [eq_text_ic]. rewrite Hn1, Hn2.
      rewrite (read_value_reference_starts_with_text _ _ _ Hparse).
      cbn [into_text_or pbind]. rewrite Hparse. cbn [pbind].
      rewrite IH by (try assumption; lia).
      cbn [length item_defs item_vals flat_map app rev Nat.sub].
      fold (item_defs its). fold (item_vals its).
      rewrite <- app_assoc. reflexivity.
Qed.

Lemma print_items_length : forall its, (length its <= length (print_items its))%nat.
Proof.
  induction its as [|it its IH]; [cbn; lia|].
  cbn [print_items]. rewrite app_length. destruct it; cbn [item_toks length]; lia.
Qed.

Lemma skip_until_after_header : forall kw hdr t rest,
  Forall (fun x => eq_text_ic x kw = false) hdr -> eq_text_ic t kw = true ->
  skip_until_after kw (hdr ++ t :: rest) = POk rest.
Proof.
  intros kw hdr t rest Hh Ht. induction Hh as [|x hdr Hx Hh IH]; cbn [app skip_until_after].
  - rewrite Ht. reflexivity.
  - rewrite Hx. exact IH.
Qed.

(* the IMPORTS block: absent, or `IMPORTS tokens` that read_imports parses in front of any continuation *)
Definition imports_ok (itoks : toks) (imps : list import) : Prop :=
  (itoks = [] /\ imps = []) \/
  (exists it, itoks = T (KW "IMPORTS") :: it /\ forall rest, read_imports (it ++ rest) = POk (imps, rest)).

Definition nice_import (i : import) : import :=
  {| i_what := i_what i; i_from := make_name_nice (i_from i); i_from_oid := i_from_oid i |}.

(* Model::try_from on
     name [oid] header BEGIN [IMPORTS ...;] assignment ... assignment END trailing
   the header is any token sequence without BEGIN (DEFINITIONS AUTOMATIC TAGS ::=), assignments in any order *)
Theorem parse_module_items : forall fuel name oid_toks oid hdr itoks imps its trailing,
  let body := (itoks ++ print_items its ++ T (KW "END") :: trailing)%list in
  maybe_read_oid (oid_toks ++ hdr ++ T (KW "BEGIN") :: body) = POk (oid, (hdr ++ T (KW "BEGIN") :: body)%list) ->
  Forall (fun x => eq_text_ic x (KW "BEGIN") = false) hdr ->
  imports_ok itoks imps ->
  Forall (item_ok fuel) its ->
  follows its (T (KW "END") :: trailing) ->
  parse_module fuel (T name :: oid_toks ++ hdr ++ T (KW "BEGIN") :: body)
  = POk {| m_name := make_name_nice name; m_oid := oid; m_imports := map nice_import imps;
           m_definitions := item_defs its; m_value_references := item_vals its |}.
Proof.
  intros fuel name oid_toks oid hdr itoks imps its trailing body Hoid Hhdr Himp Hits Hfol.
  unfold parse_module, T at 1. rewrite Hoid. cbn [pbind].
  rewrite skip_until_after_header by (try assumption; reflexivity). cbn [pbind].
  assert (Hend : forall f imports0,
            (length its < f)%nat ->
            module_loop f fuel (print_items its ++ T (KW "END") :: trailing) name oid imports0 [] []
            = POk {| m_name := make_name_nice name; m_oid := oid; m_imports := map nice_import imports0;
                     m_definitions := item_defs its; m_value_references := item_vals its |}).
  { intros f imports0 Hlen.
    rewrite module_loop_items by (try assumption; lia).
    destruct (f - length its)%nat as [|f'] eqn:Ef; [lia|].
    cbn [module_loop]. unfold T at 1.
    replace (eq_text_ic (Text 0 0 (KW "END")) (KW "END")) with true by (vm_compute; reflexivity).
    rewrite !app_nil_r, !rev_involutive. reflexivity. }
  destruct Himp as [[-> ->] | [it [-> Hit]]].
  - subst body. cbn [app map]. apply Hend.
    rewrite app_length. pose proof (print_items_length its). cbn [length]. lia.
  - subst body. cbn [app].
    remember (length (T (KW "IMPORTS") :: it ++ print_items its ++ T (KW "END") :: trailing)) as g eqn:Eg.
    assert (Hlen : (length its < g)%nat).
    { subst g. cbn [length]. rewrite !app_length. pose proof (print_items_length its). cbn [length]. lia. }
    cbn [module_loop]. unfold T at 1.
    replace (eq_text_ic (Text 0 0 (KW "IMPORTS")) (KW "END")) with false by (vm_compute; reflexivity).
    replace (eq_text_ic (Text 0 0 (KW "IMPORTS")) (KW "IMPORTS")) with true by (vm_compute; reflexivity).
    rewrite Hit. cbn [pbind app]. apply Hend. exact Hlen.
Qed.
