(* Front/IdemProofs.v -- the fixed points of rust.rs rust_variant_name (= rust_struct_or_enum_name): when a second mangling changes a name (Props/C09.v) *)
From A1 Require Import Base.Res Gen.Keywords Front.Codegen Front.CodegenProofs.
From Coq Require Import ZifyBool ZifyNat ZifyN.
Local Open Scope N_scope.

(* ------------------------------------------------------------------ when is rust_variant_name a fixed point? *)
Definition peek_lower (rest : list N) : bool := match rest with n :: _ => is_lower n | [] => false end.
(* no separator, and no upper-case letter that follows an upper-case letter unless a lower-case letter comes next *)
Fixpoint stable_go (s : list N) (prev_upper : bool) : bool :=
  match s with
  | [] => true
  | c :: rest => negb (is_sep c) && negb (prev_upper && negb (peek_lower rest) && is_upper c) && stable_go rest (is_upper c)
  end.
Definition variant_stable (s : list N) : bool :=
  match s with
  | [] => true
  | c :: rest => negb (is_sep c) && negb (is_lower c) && stable_go rest true
  end.

Lemma variant_go_length : forall s nu pu, (length (variant_go s nu pu) <= length s)%nat.
Proof.
  induction s as [|c rest IH]; intros nu pu; cbn [variant_go length]; [lia|].
  destruct (is_sep c); [specialize (IH true false); lia|].
  destruct (nu && negb pu); cbn [length]; [specialize (IH false true) | specialize (IH nu (is_upper c))]; lia.
Qed.

Lemma to_lower_fix c : to_lower c = c <-> is_upper c = false.
Proof. unf. destruct ((65 <=? c) && (c <=? 90)) eqn:E; split; intros H; try reflexivity; try discriminate; lia. Qed.
Lemma to_upper_fix c : to_upper c = c <-> is_lower c = false.
Proof. unf. destruct ((97 <=? c) && (c <=? 122)) eqn:E; split; intros H; try reflexivity; try discriminate; lia. Qed.

Lemma stable_go_iff : forall s pu, variant_go s false pu = s <-> stable_go s pu = true.
Proof.
  induction s as [|c rest IH]; intros pu; cbn [variant_go stable_go]; [split; reflexivity|].
  destruct (is_sep c) eqn:Es.
  - cbn [negb andb]. split; [|discriminate]. intros H. exfalso.
    pose proof (variant_go_length rest true false) as Hl. rewrite H in Hl. cbn [length] in Hl. lia.
  - cbn [negb andb]. fold (peek_lower rest). split.
    + intros H. injection H as Hc Hr. apply IH in Hr. rewrite Hr, andb_true_r. apply negb_true_iff.
      destruct (pu && negb (peek_lower rest)) eqn:Ep; [|reflexivity]. cbn [andb]. apply to_lower_fix. exact Hc.
    + intros H. apply andb_true_iff in H. destruct H as [H1 H2]. apply IH in H2. rewrite H2. f_equal.
      apply negb_true_iff in H1. destruct (pu && negb (peek_lower rest)); [|reflexivity]. cbn [andb] in H1. apply to_lower_fix. exact H1.
Qed.

Lemma variant_stable_iff s : rust_variant_name s = s <-> variant_stable s = true.
Proof.
  unfold rust_variant_name. destruct s as [|c rest]; [split; reflexivity|]. cbn [variant_go variant_stable].
  destruct (is_sep c) eqn:Es.
  - cbn [negb andb]. split; [|discriminate]. intros H. exfalso.
    pose proof (variant_go_length rest true false) as Hl. rewrite H in Hl. cbn [length] in Hl. lia.
  - cbn [negb andb]. split.
    + intros H. injection H as Hc Hr. apply stable_go_iff in Hr. rewrite Hr, andb_true_r.
      apply negb_true_iff. apply to_upper_fix. exact Hc.
    + intros H. apply andb_true_iff in H. destruct H as [H1 H2]. apply stable_go_iff in H2. rewrite H2. f_equal.
      apply to_upper_fix. apply negb_true_iff. exact H1.
Qed.
