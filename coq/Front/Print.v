(* Front/Print.v -- printers (abstract syntax -> token list) for the sub-languages covered by Front/ParseProofs /
   Props/C07.  Locations are irrelevant to the parser outside string literals: tokens are printed at (0, 0).
   Numerals are abstracted: the printer is given the digit string and the theorems assume that the decimal parser
   maps it to the number (so every spelling Rust's FromStr accepts is covered, e.g. "007" and "+7"). *)
From Coq Require Import String.
From A1 Require Export Front.Parse.
Local Open Scope N_scope.

Definition T (s : str) : token := Text 0 0 s.
Definition P (c : N) : token := Separator 0 0 c.

Definition tag_number (t : atag) : N :=
  match t with TagUniversal n | TagApplication n | TagContext n | TagPrivate n => n end.

(* "[" is consumed by next_with_opt_tag; this is what Tag::try_from sees *)
Definition print_tag (t : atag) (num : str) : list token :=
  match t with
  | TagUniversal _ => [T (KW "UNIVERSAL"); T num]
  | TagApplication _ => [T (KW "APPLICATION"); T num]
  | TagPrivate _ => [T (KW "PRIVATE"); T num]
  | TagContext _ => [T num]
  end.

(* [ tag ] in front of a type word *)
Definition print_opt_tag (t : option atag) (num : str) : list token :=
  match t with
  | None => []
  | Some tg => P C_LBRACKET :: print_tag tg num ++ [P C_RBRACKET]
  end.
