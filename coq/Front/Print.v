(* Front/Print.v -- stub, to be filled *)
