(* Front/Print.v -- printers (abstract syntax -> token list) for the sub-languages covered by Front/ParseProofs /
   Props/C07.  Locations are irrelevant to the parser outside string literals: tokens are printed at (0, 0).
   Numerals are abstracted: the printer is given the digit string and the theorems assume that the decimal parser
   maps it to the number (so every spelling Rust's FromStr accepts is covered, e.g. "007" and "+7"). *)
From Coq Require Import String.
From A1 Require Export Front.Parse.
Local Open Scope N_scope.

Definition T (s : str) : token := Text 0 0 s.
Definition P (c : N) : token := Separator 0 0 c.

Definition tag_number (t : atag) : N :=
  match t with TagUniversal n | TagApplication n | TagContext n | TagPrivate n => n end.

(* "[" is consumed by next_with_opt_tag; this is what Tag::try_from sees *)
Definition print_tag (t : atag) (num : str) : list token :=
  match t with
  | TagUniversal _ => [T (KW "UNIVERSAL"); T num]
  | TagApplication _ => [T (KW "APPLICATION"); T num]
  | TagPrivate _ => [T (KW "PRIVATE"); T num]
  | TagContext _ => [T num]
  end.

(* [ tag ] in front of a type word *)
Definition print_opt_tag (t : option atag) (num : str) : list token :=
  match t with
  | None => []
  | Some tg => P C_LBRACKET :: print_tag tg num ++ [P C_RBRACKET]
  end.

(* ---------- SIZE and INTEGER ranges ----------
   A bound is printed as the text [s] that `denotes` it: a numeral the decimal parser maps to the number, or the
   name of a value reference (anything that is neither a numeral nor the keyword standing for "no bound"). *)

Definition denotes_n (s : str) (b : lit_or_ref N) : Prop :=
  match b with
  | Lit n => parse_u64 s = Some n
  | Ref r => s = r /\ parse_u64 r = None /\ eq_ignore_case r (KW "MIN") = false /\ eq_ignore_case r (KW "MAX") = false
  end.

Definition ext_toks (e : bool) : list token :=
  if e then [P C_COMMA; P C_DOT; P C_DOT; P C_DOT] else [].

(* SIZE ( a )  |  SIZE ( a , ... )  |  SIZE ( a .. b )  |  SIZE ( a .. b , ... ) *)
Definition print_size (s : size (lit_or_ref N)) (sa sb : str) : list token :=
  match s with
  | SAny => []
  | SFix _ e => [T (KW "SIZE"); P C_LPAREN; T sa] ++ ext_toks e ++ [P C_RPAREN]
  | SRange _ _ e => [T (KW "SIZE"); P C_LPAREN; T sa; P C_DOT; P C_DOT; T sb] ++ ext_toks e ++ [P C_RPAREN]
  end.

(* the forms the parser maps to themselves: SIZE(0..MAX) is folded to SAny and SIZE(a..a) to SIZE(a) *)
Definition size_wf (s : size (lit_or_ref N)) (sa sb : str) : Prop :=
  match s with
  | SAny => False
  | SFix a _ => denotes_n sa a
  | SRange a b _ =>
      denotes_n sa a /\ denotes_n sb b /\ lor_n_eqb a b = false /\
      ~ (a = Lit 0 /\ b = Lit I64_MAX_N)
  end.

Definition denotes_z (kw : str) (s : str) (b : option (lit_or_ref Z)) : Prop :=
  match b with
  | None => s = kw
  | Some (Lit z) => parse_i64 s = Some z
  | Some (Ref r) => s = r /\ parse_i64 r = None /\ eq_ignore_case r kw = false
  end.

(* ( lo .. hi )  |  ( lo .. hi , ... )   with MIN / MAX for an absent bound *)
Definition print_range (r : arange (lit_or_ref Z)) (sa sb : str) : list token :=
  let '(_, _, e) := r in
  [P C_LPAREN; T sa; P C_DOT; P C_DOT; T sb] ++ ext_toks e ++ [P C_RPAREN].

(* (0..MAX) and (MIN..i64::MAX) are folded to "unconstrained" by the parser *)
Definition range_wf (r : arange (lit_or_ref Z)) (sa sb : str) : Prop :=
  let '(lo, hi, _) := r in
  denotes_z (KW "MIN") sa lo /\ denotes_z (KW "MAX") sb hi /\
  ~ (lo = Some (Lit 0%Z) /\ hi = None) /\ ~ (lo = None /\ hi = Some (Lit I64_MAX_Z)).

(* ---------- named numbers / named bits:  { n1 ( v1 ) , n2 ( v2 ) , ... } ----------
   an item is (name, text of the value, value) *)
Definition print_item {V : Type} (it : str * str * V) : list token :=
  [T (fst (fst it)); P C_LPAREN; T (snd (fst it)); P C_RPAREN].

Fixpoint print_items {V : Type} (its : list (str * str * V)) : list token :=
  match its with
  | [] => []
  | [it] => print_item it
  | it :: r => print_item it ++ P C_COMMA :: print_items r
  end.

Definition print_constants {V : Type} (its : list (str * str * V)) : list token :=
  match its with
  | [] => []
  | _ => P C_LBRACE :: print_items its ++ [P C_RBRACE]
  end.

Definition item_value {V : Type} (it : str * str * V) : str * V := (fst (fst it), snd it).
