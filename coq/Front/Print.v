(* Front/Print.v -- printers (abstract syntax -> token list) for the sub-languages covered by Front/ParseProofs /
   Props/C07.  Locations are irrelevant to the parser outside string literals: tokens are printed at (0, 0).
   Numerals are abstracted: the printer is given the digit string and the theorems assume that the decimal parser
   maps it to the number (so every spelling Rust's FromStr accepts is covered, e.g. "007" and "+7"). *)
From Coq Require Import String.
From A1 Require Export Front.Parse.
Local Open Scope N_scope.

Definition T (s : str) : token := Text 0 0 s.
Definition P (c : N) : token := Separator 0 0 c.

Definition tag_number (t : atag) : N :=
  match t with TagUniversal n | TagApplication n | TagContext n | TagPrivate n => n end.

(* "[" is consumed by next_with_opt_tag; this is what Tag::try_from sees *)
Definition print_tag (t : atag) (num : str) : list token :=
  match t with
  | TagUniversal _ => [T (KW "UNIVERSAL"); T num]
  | TagApplication _ => [T (KW "APPLICATION"); T num]
  | TagPrivate _ => [T (KW "PRIVATE"); T num]
  | TagContext _ => [T num]
  end.

(* [ tag ] in front of a type word *)
Definition print_opt_tag (t : option atag) (num : str) : list token :=
  match t with
  | None => []
  | Some tg => P C_LBRACKET :: print_tag tg num ++ [P C_RBRACKET]
  end.

(* ---------- SIZE and INTEGER ranges ----------
   A bound is printed as the text [s] that `denotes` it: a numeral the decimal parser maps to the number, or the
   name of a value reference (anything that is neither a numeral nor the keyword standing for "no bound"). *)

Definition denotes_n (s : str) (b : lit_or_ref N) : Prop :=
  match b with
  | Lit n => parse_u64 s = Some n
  | Ref r => s = r /\ parse_u64 r = None /\ eq_ignore_case r (KW "MIN") = false /\ eq_ignore_case r (KW "MAX") = false
  end.

Definition ext_toks (e : bool) : list token :=
  if e then [P C_COMMA; P C_DOT; P C_DOT; P C_DOT] else [].

(* SIZE ( a )  |  SIZE ( a , ... )  |  SIZE ( a .. b )  |  SIZE ( a .. b , ... ) *)
Definition print_size (s : size (lit_or_ref N)) (sa sb : str) : list token :=
  match s with
  | SAny => []
  | SFix _ e => [T (KW "SIZE"); P C_LPAREN; T sa] ++ ext_toks e ++ [P C_RPAREN]
  | SRange _ _ e => [T (KW "SIZE"); P C_LPAREN; T sa; P C_DOT; P C_DOT; T sb] ++ ext_toks e ++ [P C_RPAREN]
  end.

(* the forms the parser maps to themselves: SIZE(0..MAX) is folded to SAny and SIZE(a..a) to SIZE(a) *)
Definition size_wf (s : size (lit_or_ref N)) (sa sb : str) : Prop :=
  match s with
  | SAny => False
  | SFix a _ => denotes_n sa a
  | SRange a b _ =>
      denotes_n sa a /\ denotes_n sb b /\ lor_n_eqb a b = false /\
      ~ (a = Lit 0 /\ b = Lit I64_MAX_N)
  end.

Definition denotes_z (kw : str) (s : str) (b : option (lit_or_ref Z)) : Prop :=
  match b with
  | None => s = kw
  | Some (Lit z) => parse_i64 s = Some z
  | Some (Ref r) => s = r /\ parse_i64 r = None /\ eq_ignore_case r kw = false
  end.

(* ( lo .. hi )  |  ( lo .. hi , ... )   with MIN / MAX for an absent bound *)
Definition print_range (r : arange (lit_or_ref Z)) (sa sb : str) : list token :=
  let '(_, _, e) := r in
  [P C_LPAREN; T sa; P C_DOT; P C_DOT; T sb] ++ ext_toks e ++ [P C_RPAREN].

(* (0..MAX) and (MIN..i64::MAX) are folded to "unconstrained" by the parser *)
Definition range_wf (r : arange (lit_or_ref Z)) (sa sb : str) : Prop :=
  let '(lo, hi, _) := r in
  denotes_z (KW "MIN") sa lo /\ denotes_z (KW "MAX") sb hi /\
  ~ (lo = Some (Lit 0%Z) /\ hi = None) /\ ~ (lo = None /\ hi = Some (Lit I64_MAX_Z)).

(* ---------- named numbers / named bits:  { n1 ( v1 ) , n2 ( v2 ) , ... } ----------
   an item is (name, text of the value, value) *)
Definition print_item {V : Type} (it : str * str * V) : list token :=
  [T (fst (fst it)); P C_LPAREN; T (snd (fst it)); P C_RPAREN].

Fixpoint print_items {V : Type} (its : list (str * str * V)) : list token :=
  match its with
  | [] => []
  | [it] => print_item it
  | it :: r => print_item it ++ P C_COMMA :: print_items r
  end.

Definition print_constants {V : Type} (its : list (str * str * V)) : list token :=
  match its with
  | [] => []
  | _ => P C_LBRACE :: print_items its ++ [P C_RBRACE]
  end.

Definition item_value {V : Type} (it : str * str * V) : str * V := (fst (fst it), snd it).

(* ====================================================================================================
   Surface syntax for the productions covered by Front/TypeGrammarProofs (C07).
   A surface term carries the spellings the abstract syntax does not have (digit strings of numerals, the case
   of TRUE / FALSE, the columns of the tokens of a character string literal); `denote_*` maps it to what the parser
   must build, `print_*` to the token list, `*_wf` says the spellings are consistent and that the term is not
   in one of the classes the parser is known not to preserve (REFUTED witnesses in Props/C07.v).
   ==================================================================================================== *)

Definition marker_toks : list token := [P C_DOT; P C_DOT; P C_DOT].

(* position of the extension marker relative to the items still to print: Some 0 = after the next item *)
Definition ext_pred (e : option nat) : option nat := match e with Some (S k) => Some k | _ => None end.
Definition ext_here (e : option nat) : list token := match e with Some O => P C_COMMA :: marker_toks | _ => [] end.

(* the marker, when present, follows an existing item (classes marker_before_first_component,
   second_extension_marker_overwrites_first: exactly one marker is printed, after item k+1) *)
Definition ext_pos_ok (ext : option N) (n : nat) : Prop :=
  match ext with Some k => (N.to_nat k < n)%nat | None => True end.

(* ---------- ENUMERATED { a , b ( 2 ) , ... , c } : an item is (name, optional (numeral text, number)) ---------- *)
Definition senum_item : Type := (str * option (str * N))%type.

Definition print_enum_item (it : senum_item) : list token :=
  match snd it with
  | None => [T (fst it)]
  | Some (num, _) => [T (fst it); P C_LPAREN; T num; P C_RPAREN]
  end.

Definition enum_item_value (it : senum_item) : str * option N :=
  (fst it, match snd it with None => None | Some (_, n) => Some n end).

Definition enum_item_ok (it : senum_item) : Prop :=
  match snd it with None => True | Some (num, n) => parse_u64 num = Some n end.

Fixpoint print_enum_items (its : list senum_item) (ext : option nat) : list token :=
  match its with
  | [] => []
  | it :: r =>
      print_enum_item it ++ ext_here ext ++
      match r with [] => [P C_RBRACE] | _ :: _ => P C_COMMA :: print_enum_items r (ext_pred ext) end
  end.

Definition print_enumerated (its : list senum_item) (ext : option N) : list token :=
  P C_LBRACE :: print_enum_items its (option_map N.to_nat ext).

Definition enum_wf (its : list senum_item) (ext : option N) : Prop :=
  its <> [] /\ ext_pos_ok ext (length its) /\ Forall enum_item_ok its.

(* ---------- literals ----------
   Character string literals are rebuilt by the parser from the token COLUMNS, so the printer places the tokens:
   opening quote at (line, col), the first text token right after it, then pieces (a text or a separator character
   other than the quote) each preceded by `gap` blanks, the closing quote right after the last piece. *)
Inductive spiece : Type :=
| PcText (gap : N) (s : str)
| PcSep (gap : N) (c : N).

Definition piece_tok (l col : N) (p : spiece) : token :=
  match p with PcText g s => Text l (col + g) s | PcSep g c => Separator l (col + g) c end.
Definition piece_end (col : N) (p : spiece) : N :=
  match p with PcText g s => col + g + N.of_nat (length s) | PcSep g _ => col + g + 1 end.
Definition piece_text (p : spiece) : str :=
  match p with PcText g s => repeat 32 (N.to_nat g) ++ s | PcSep g c => repeat 32 (N.to_nat g) ++ [c] end.
Definition piece_ok (delim : N) (p : spiece) : Prop :=
  match p with PcText _ _ => True | PcSep _ c => c <> delim end.

Fixpoint print_pieces (delim l col : N) (ps : list spiece) : list token :=
  match ps with
  | [] => [Separator l col delim]
  | p :: r => piece_tok l col p :: print_pieces delim l (piece_end col p) r
  end.

Inductive slit : Type :=
| SLBool (spelling : str) (b : bool)                    (* TRUE, true, True, ... *)
| SLInt (spelling : str) (z : Z)                        (* digits | '-' digits *)
| SLString (line col : N) (first : str) (pieces : list spiece)
| SLHex (line col : N) (hex : str) (suffix : str)       (* 'hex'H *)
| SLBits (line col : N) (bits : str) (suffix : str).    (* 'bits'B *)

Definition print_quoted (delim l col : N) (first : str) (ps : list spiece) : list token :=
  Separator l col delim :: Text l (col + 1) first :: print_pieces delim l (col + 1 + N.of_nat (length first)) ps.

Definition print_slit (v : slit) : list token :=
  match v with
  | SLBool s _ => [T s]
  | SLInt s _ => [T s]
  | SLString l col first ps => print_quoted C_QUOTE l col first ps
  | SLHex l col hex suffix => print_quoted C_APOS l col hex [] ++ [Text l (col + 2 + N.of_nat (length hex)) suffix]
  | SLBits l col bits suffix => print_quoted C_APOS l col bits [] ++ [Text l (col + 2 + N.of_nat (length bits)) suffix]
  end.

Definition denote_slit (v : slit) : literal :=
  match v with
  | SLBool _ b => LBool b
  | SLInt _ z => LInteger z
  | SLString _ _ first ps => LString (first ++ concat (map piece_text ps))
  | SLHex _ _ hex _ => LOctets (hex_pairs hex)
  | SLBits _ _ bits _ => LOctets (chunks8 (S (length bits)) bits)
  end.

(* hstrings of odd length and bstrings whose length is not a multiple of 8 are excluded (the length is lost: class
   bit_literal_right_aligned_length_lost), as are the empty ''H / ''B / "" and strings that begin with a blank or
   a separator character (classes empty_string_literal_swallows_tokens, string_literal_leading_char_lost) *)
Definition slit_wf (v : slit) : Prop :=
  match v with
  | SLBool s b => eq_ignore_case s (if b then KW "true" else KW "false") = true
  | SLInt s z => is_int_text s = true /\ parse_i64 s = Some z
  | SLString _ _ first ps => Forall (piece_ok C_QUOTE) ps
  | SLHex _ _ hex suffix =>
      forallb is_hexdigit hex = true /\ Nat.even (length hex) = true /\ eq_ignore_case suffix (KW "H") = true
  | SLBits _ _ bits suffix =>
      forallb (fun c => (c =? 48) || (c =? 49)) bits = true /\ Nat.modulo (length bits) 8 = O /\
      eq_ignore_case suffix (KW "B") = true
  end.

(* a value reference in the place of a literal: any word that is not itself a literal *)
Definition value_ref_ok (s : str) : Prop :=
  eq_ignore_case s (KW "true") = false /\ eq_ignore_case s (KW "false") = false /\ is_int_text s = false.

(* ---------- OBJECT IDENTIFIER values: a component with the spelling of its number ---------- *)
Definition soidc : Type := (oidc * str)%type.

Definition print_oidc (c : soidc) : list token :=
  match fst c with
  | NameForm s => [T s]
  | NumberForm _ => [T (snd c)]
  | NameAndNumberForm s _ => [T s; P C_LPAREN; T (snd c); P C_RPAREN]
  end.

(* what read_oid sees: the "{" is consumed by maybe_read_oid *)
Definition print_oid_body (cs : list soidc) : list token := flat_map print_oidc cs ++ [P C_RBRACE].

Definition print_opt_oid (o : option (list soidc)) : list token :=
  match o with None => [] | Some cs => P C_LBRACE :: print_oid_body cs end.

Definition denote_opt_oid (o : option (list soidc)) : option (list oidc) := option_map (map fst) o.

(* a name is not all digits; a NumberForm is all digits (so "+7" is not a NumberForm) *)
Definition oidc_ok (c : soidc) : Prop :=
  match fst c with
  | NameForm s => forallb is_numeric s = false
  | NumberForm n => forallb is_numeric (snd c) = true /\ parse_u64 (snd c) = Some n
  | NameAndNumberForm s n => forallb is_numeric s = false /\ parse_u64 (snd c) = Some n
  end.

Definition opt_oid_ok (o : option (list soidc)) : Prop :=
  match o with None => True | Some cs => Forall oidc_ok cs end.

(* ---------- IMPORTS  a , b FROM X { oid } c FROM Y ;  (the keyword IMPORTS is consumed by module_loop) ---------- *)
Record simport : Type := { si_what : list str; si_from : str; si_oid : option (list soidc) }.

Fixpoint print_symbols (ss : list str) : list token :=
  match ss with
  | [] => []
  | [s] => [T s]
  | s :: r => T s :: P C_COMMA :: print_symbols r
  end.

Definition print_import (i : simport) : list token :=
  print_symbols (si_what i) ++ T (KW "FROM") :: T (si_from i) :: print_opt_oid (si_oid i).

Definition print_imports (is : list simport) : list token := flat_map print_import is ++ [P C_SEMI].

Definition denote_import (i : simport) : import :=
  {| i_what := si_what i; i_from := si_from i; i_from_oid := denote_opt_oid (si_oid i) |}.

Definition import_ok (i : simport) : Prop := si_what i <> [] /\ opt_oid_ok (si_oid i).

(* ---------- the type grammar ---------- *)

(* no SIZE | SIZE ( .. ) | ( SIZE ( .. ) ) *)
Inductive ssize : Type :=
| SSNone
| SSBare (s : size (lit_or_ref N)) (sa sb : str)
| SSParen (s : size (lit_or_ref N)) (sa sb : str).

Definition print_ssize (z : ssize) : list token :=
  match z with
  | SSNone => []
  | SSBare s sa sb => print_size s sa sb
  | SSParen s sa sb => P C_LPAREN :: print_size s sa sb ++ [P C_RPAREN]
  end.

Definition denote_ssize (z : ssize) : size (lit_or_ref N) :=
  match z with SSNone => SAny | SSBare s _ _ | SSParen s _ _ => s end.

Definition ssize_wf (z : ssize) : Prop :=
  match z with SSNone => True | SSBare s sa sb | SSParen s sa sb => size_wf s sa sb end.

(* nothing | OPTIONAL | DEFAULT literal | DEFAULT valuereference *)
Inductive sdefault : Type := SDNone | SDOptional | SDLit (l : slit) | SDRef (s : str).

Definition print_sdefault (d : sdefault) : list token :=
  match d with
  | SDNone => []
  | SDOptional => [T (KW "OPTIONAL")]
  | SDLit l => T (KW "DEFAULT") :: print_slit l
  | SDRef s => [T (KW "DEFAULT"); T s]
  end.

Definition sdefault_wf (d : sdefault) : Prop :=
  match d with SDLit l => slit_wf l | SDRef s => value_ref_ok s | _ => True end.

(* an optional tag with the spelling of its number *)
Definition stag : Type := (option atag * str)%type.
Definition stag_ok (t : stag) : Prop := forall tg, fst t = Some tg -> parse_u64 (snd t) = Some (tag_number tg).

Definition const_ok {V : Type} (parser : token -> pres V) (it : str * str * V) : Prop :=
  parser (T (snd (fst it))) = POk (snd it).

Inductive sty : Type :=
| SBoolean
| SNull
| SInteger (consts : list (str * str * Z)) (range : option (arange (lit_or_ref Z) * str * str))
| SString (cs : charset) (sz : ssize)
| SOctetString (sz : ssize)
| SBitString (consts : list (str * str * N)) (sz : ssize)
| SEnumerated (items : list senum_item) (ext : option N)
| SSequence (fs : sfields) (ext : option N)
| SSet (fs : sfields) (ext : option N)
| SSequenceOf (sz : ssize) (t : sty)
| SSetOf (sz : ssize) (t : sty)
| SChoice (vs : svariants) (ext : option N)
| SRef (name : str)
with sfields : Type :=
| SFNil
| SFCons (name : str) (tag : stag) (t : sty) (d : sdefault) (r : sfields)
with svariants : Type :=
| SVNil
| SVCons (name : str) (tag : stag) (t : sty) (r : svariants).

Definition charset_word (c : charset) : str :=
  match c with
  | Utf8 => KW "UTF8String" | Numeric => KW "NumericString" | Printable => KW "PrintableString"
  | Ia5 => KW "IA5String" | Visible => KW "VisibleString"
  end.

(* the type word read_role / next_with_opt_tag hands to read_role_given_text *)
Definition sty_word (s : sty) : str :=
  match s with
  | SBoolean => KW "BOOLEAN"
  | SNull => KW "NULL"
  | SInteger _ _ => KW "INTEGER"
  | SString cs _ => charset_word cs
  | SOctetString _ => KW "OCTET"
  | SBitString _ _ => KW "BIT"
  | SEnumerated _ _ => KW "ENUMERATED"
  | SSequence _ _ | SSequenceOf _ _ => KW "SEQUENCE"
  | SSet _ _ | SSetOf _ _ => KW "SET"
  | SChoice _ _ => KW "CHOICE"
  | SRef name => name
  end.

Definition print_opt_range (rg : option (arange (lit_or_ref Z) * str * str)) : list token :=
  match rg with Some (r, sa, sb) => print_range r sa sb | None => [] end.

(* the tokens after the type word *)
Fixpoint sty_args (s : sty) : list token :=
  match s with
  | SBoolean | SNull | SRef _ => []
  | SInteger cs rg => print_constants cs ++ print_opt_range rg
  | SString _ sz => print_ssize sz
  | SOctetString sz => T (KW "STRING") :: print_ssize sz
  | SBitString cs sz => T (KW "STRING") :: print_constants cs ++ print_ssize sz
  | SEnumerated its ext => print_enumerated its ext
  | SSequence fs ext | SSet fs ext => P C_LBRACE :: print_fields fs (option_map N.to_nat ext)
  | SSequenceOf sz t | SSetOf sz t => print_ssize sz ++ T (KW "OF") :: T (sty_word t) :: sty_args t
  | SChoice vs ext => P C_LBRACE :: print_variants vs (option_map N.to_nat ext)
  end
(* components, each followed by its "," or the closing "}"; SFNil is the empty list "{ }" *)
with print_fields (fs : sfields) (ext : option nat) : list token :=
  match fs with
  | SFNil => [P C_RBRACE]
  | SFCons name tag t d r =>
      T name :: print_opt_tag (fst tag) (snd tag) ++ T (sty_word t) :: sty_args t ++ print_sdefault d ++ ext_here ext ++
      match r with SFNil => [P C_RBRACE] | SFCons _ _ _ _ _ => P C_COMMA :: print_fields r (ext_pred ext) end
  end
with print_variants (vs : svariants) (ext : option nat) : list token :=
  match vs with
  | SVNil => []
  | SVCons name tag t r =>
      T name :: print_opt_tag (fst tag) (snd tag) ++ T (sty_word t) :: sty_args t ++ ext_here ext ++
      match r with SVNil => [P C_RBRACE] | SVCons _ _ _ _ => P C_COMMA :: print_variants r (ext_pred ext) end
  end.

Definition print_sty (s : sty) : list token := T (sty_word s) :: sty_args s.

Definition denote_range (rg : option (arange (lit_or_ref Z) * str * str)) : arange (lit_or_ref Z) :=
  match rg with Some (r, _, _) => r | None => (None, None, false) end.

Definition denote_sdefault (d : sdefault) : option (lit_or_ref literal) :=
  match d with SDLit l => Some (Lit (denote_slit l)) | SDRef s => Some (Ref s) | _ => None end.

(* the parser never builds TDefault: the default goes to the third component of the field *)
Fixpoint denote_sty (s : sty) : uty :=
  match s with
  | SBoolean => TBoolean
  | SNull => TNull
  | SInteger cs rg => TInteger (denote_range rg) (map item_value cs)
  | SString c sz => TString (denote_ssize sz) c
  | SOctetString sz => TOctetString (denote_ssize sz)
  | SBitString cs sz => TBitString (denote_ssize sz) (map item_value cs)
  | SEnumerated its ext => TEnumerated (map enum_item_value its) ext
  | SSequence fs ext => TSequence (denote_fields fs) ext
  | SSet fs ext => TSet (denote_fields fs) ext
  | SSequenceOf sz t => TSequenceOf (denote_sty t) (denote_ssize sz)
  | SSetOf sz t => TSetOf (denote_sty t) (denote_ssize sz)
  | SChoice vs ext => TChoice (denote_variants vs) ext
  | SRef name => TRef name None
  end
with denote_fields (fs : sfields) : list ufield :=
  match fs with
  | SFNil => []
  | SFCons name tag t d r =>
      (name, (fst tag, match d with SDOptional => TOptional (denote_sty t) | _ => denote_sty t end, denote_sdefault d))
      :: denote_fields r
  end
with denote_variants (vs : svariants) : list (str * option atag * uty) :=
  match vs with
  | SVNil => []
  | SVCons name tag t r => (name, fst tag, denote_sty t) :: denote_variants r
  end.

Fixpoint sfields_length (fs : sfields) : nat := match fs with SFNil => O | SFCons _ _ _ _ r => S (sfields_length r) end.
Fixpoint svariants_length (vs : svariants) : nat := match vs with SVNil => O | SVCons _ _ _ r => S (svariants_length r) end.

(* the words read_role_given_text takes for builtin types (after to_ascii_lower): a type reference spelled like
   one of them, in any case, is read as the builtin (class type_reference_read_as_keyword) *)
Definition is_builtin_word (lower : str) : bool :=
  str_eqb lower (KW "integer") || str_eqb lower (KW "boolean") || str_eqb lower (KW "null")
  || str_eqb lower (KW "utf8string") || str_eqb lower (KW "ia5string") || str_eqb lower (KW "numericstring")
  || str_eqb lower (KW "printablestring") || str_eqb lower (KW "visiblestring")
  || str_eqb lower (KW "octet") || str_eqb lower (KW "bit") || str_eqb lower (KW "enumerated")
  || str_eqb lower (KW "choice") || str_eqb lower (KW "sequence") || str_eqb lower (KW "set").

Fixpoint wf_sty (s : sty) : Prop :=
  match s with
  | SBoolean | SNull => True
  | SInteger cs rg =>
      Forall (const_ok constant_i64_parser) cs /\
      match rg with Some (r, sa, sb) => range_wf r sa sb | None => True end
  | SString _ sz | SOctetString sz => ssize_wf sz
  | SBitString cs sz => Forall (const_ok constant_u64_parser) cs /\ ssize_wf sz
  | SEnumerated its ext => enum_wf its ext
  | SSequence fs ext | SSet fs ext => wf_sfields fs /\ ext_pos_ok ext (sfields_length fs)
  | SSequenceOf sz t | SSetOf sz t => ssize_wf sz /\ wf_sty t
  | SChoice vs ext => vs <> SVNil /\ wf_svariants vs /\ ext_pos_ok ext (svariants_length vs)
  | SRef name => is_builtin_word (map to_ascii_lower name) = false
  end
with wf_sfields (fs : sfields) : Prop :=
  match fs with
  | SFNil => True
  | SFCons _ tag t d r => stag_ok tag /\ wf_sty t /\ sdefault_wf d /\ wf_sfields r
  end
with wf_svariants (vs : svariants) : Prop :=
  match vs with
  | SVNil => True
  | SVCons _ tag t r => stag_ok tag /\ wf_sty t /\ wf_svariants r
  end.

(* FOLLOW sets: what the parser would take for a continuation of the type.
   (forbids "{", forbids "(", forbids the word SIZE in any case) *)
Fixpoint follow_req (s : sty) : bool * bool * bool :=
  match s with
  | SInteger [] None => (true, true, false)
  | SInteger (_ :: _) None => (false, true, false)
  | SString _ SSNone | SOctetString SSNone => (false, true, true)
  | SBitString [] SSNone => (true, true, true)
  | SBitString (_ :: _) SSNone => (false, true, true)
  | SRef _ => (false, true, false)
  | SSequenceOf _ t | SSetOf _ t => follow_req t
  | _ => (false, false, false)
  end.

Definition follow_ok (s : sty) (rest : list token) : Prop :=
  let '(b, p, z) := follow_req s in
  (b = true -> peek_is_sep C_LBRACE rest = false) /\
  (p = true -> peek_is_sep C_LPAREN rest = false) /\
  (z = true -> peek_is_text_ic (KW "SIZE") rest = false).

(* ---------- modules ---------- *)
Record smodule : Type := {
  sm_name : str;
  sm_oid : option (list soidc);
  sm_imports : list simport;
  sm_defs : list (str * stag * sty);          (* Name ::= [tag] Type *)
  sm_vals : list (str * sty * slit)           (* name Type ::= literal *)
}.

Definition assign_toks : list token := [P C_COLON; P C_COLON; P C_EQ].

Definition print_def (d : str * stag * sty) : list token :=
  let '(name, tag, t) := d in
  T name :: assign_toks ++ print_opt_tag (fst tag) (snd tag) ++ print_sty t.

Definition print_val (v : str * sty * slit) : list token :=
  let '(name, t, l) := v in T name :: print_sty t ++ assign_toks ++ print_slit l.

Definition print_imports_section (is : list simport) : list token :=
  match is with [] => [] | _ :: _ => T (KW "IMPORTS") :: print_imports is end.

Definition module_header : list token :=
  [T (KW "DEFINITIONS"); T (KW "AUTOMATIC"); T (KW "TAGS"); P C_COLON; P C_COLON; P C_EQ; T (KW "BEGIN")].

(* the canonical projection: all type assignments, then all value assignments (the model keeps two lists) *)
Definition print_module (m : smodule) : list token :=
  T (sm_name m) :: print_opt_oid (sm_oid m) ++ module_header ++ print_imports_section (sm_imports m) ++
  flat_map print_def (sm_defs m) ++ flat_map print_val (sm_vals m) ++ [T (KW "END")].

Definition denote_def (d : str * stag * sty) : str * uasn :=
  let '(name, tag, t) := d in (name, (fst tag, denote_sty t, None)).

Definition denote_val (v : str * sty * slit) : str * uasn * literal :=
  let '(name, t, l) := v in (name, (None, denote_sty t, None), denote_slit l).

Definition denote_module (m : smodule) : umodel :=
  {| m_name := sm_name m; m_oid := denote_opt_oid (sm_oid m); m_imports := map denote_import (sm_imports m);
     m_definitions := map denote_def (sm_defs m); m_value_references := map denote_val (sm_vals m) |}.

(* names of assignments: not END / IMPORTS in any case (class assignment_named_end_truncates_module) *)
Definition assign_name_ok (name : str) : Prop :=
  eq_ignore_case name (KW "END") = false /\ eq_ignore_case name (KW "IMPORTS") = false.

(* each type assignment, with the follow-set condition against the tokens that come after it
   (class assignment_named_size_after_string_type) *)
Fixpoint defs_wf (ds : list (str * stag * sty)) (after : list token) : Prop :=
  match ds with
  | [] => True
  | d :: r =>
      let '(name, tag, t) := d in
      assign_name_ok name /\ stag_ok tag /\ wf_sty t /\ follow_ok t (flat_map print_def r ++ after) /\ defs_wf r after
  end.

Definition val_wf (v : str * sty * slit) : Prop :=
  let '(name, t, l) := v in assign_name_ok name /\ wf_sty t /\ slit_wf l.

(* module and import-from names are kept as written only when make_name_nice leaves them alone (class
   module_name_suffix_stripped) *)
Definition wf_module (m : smodule) : Prop :=
  make_name_nice (sm_name m) = sm_name m /\
  opt_oid_ok (sm_oid m) /\
  Forall (fun i => import_ok i /\ make_name_nice (si_from i) = si_from i) (sm_imports m) /\
  defs_wf (sm_defs m) (flat_map print_val (sm_vals m) ++ [T (KW "END")]) /\
  Forall val_wf (sm_vals m).
