(* Front/Resolve.v -- layer F2: executable model of asn1rs-model/src/asn/resolve_scope.rs (ResolveScope,
   MultiModuleResolver), resolve.rs (Resolver / TryResolve) and the try_resolve methods of asn/mod.rs,
   integer.rs, size.rs, bit_string.rs, components.rs, choice.rs, model.rs.

   Rust                                              model
   -----------------------------------------------   ------------------------------------------------
   ResolveScope { model, scope }                     the pair (model, scope) passed to every function
   model_with_imported_item                          model_with_imported_item
   value_reference / definition (recursive through   value_reference / definition: fuel S (length scope); a chain of
     the imports of the module found)                  imports longer than the scope revisits a module, where the Rust
                                                       recursion never returns (stack overflow): Diverges
   Resolver<usize> / <i64> / <LiteralValue> /        resolve_usize / resolve_i64 / resolve_literal / resolve_type
     <Type<Unresolved>>
   usize::try_from(value) (i64 -> usize; repair       error FailedToParseLiteral for a negative value
     fb434d2 of /repo, was `value as usize`)
   Size::reconsider_constraints                      reconsider_constraints
   Asn::try_resolve (enumerated-default special      resolve_default
     case)
   Type::try_resolve and friends                     resolve_ty
   ResolveScope::try_resolve                         resolve_model
   MultiModuleResolver::try_resolve_all              resolve_all
   Model::try_resolve (scope = the model itself)     resolve_single                                              *)
From A1 Require Export Front.Parse.
Local Open Scope N_scope.

Inductive lookup (A : Type) : Type :=
| Found (a : A)
| NotFound
| Diverges.
Arguments Found {A} a.
Arguments NotFound {A}.
Arguments Diverges {A}.

Definition oidc_eqb (a b : oidc) : bool :=
  match a, b with
  | NameForm s, NameForm t => str_eqb s t
  | NumberForm n, NumberForm m => n =? m
  | NameAndNumberForm s n, NameAndNumberForm t m => str_eqb s t && (n =? m)
  | _, _ => false
  end.

Fixpoint oid_eqb (a b : list oidc) : bool :=
  match a, b with
  | [], [] => true
  | x :: a', y :: b' => oidc_eqb x y && oid_eqb a' b'
  | _, _ => false
  end.

(* m.oid.is_some() && m.oid.eq(&import.from_oid) *)
Definition oid_matches (m_oid0 imp_oid : option (list oidc)) : bool :=
  match m_oid0, imp_oid with
  | Some a, Some b => oid_eqb a b
  | _, _ => false
  end.

Section Scope.
  Variable scope : list umodel.

  Definition model_with_imported_item (model : umodel) (item : str) : option umodel :=
    match find (fun i => existsb (str_eqb item) (i_what i)) (m_imports model) with
    | None => None
    | Some imp =>
        find (fun m => oid_matches (m_oid m) (i_from_oid imp) || str_eqb (m_name m) (i_from imp)) scope
    end.

  Fixpoint value_reference (fuel : nat) (model : umodel) (name : str) : lookup literal :=
    match find (fun vr => str_eqb (fst (fst vr)) name) (m_value_references model) with
    | Some vr => Found (snd vr)
    | None =>
        match model_with_imported_item model name with
        | None => NotFound
        | Some m' => match fuel with O => Diverges | S f => value_reference f m' name end
        end
    end.

  Fixpoint definition (fuel : nat) (model : umodel) (name : str) : lookup uasn :=
    match find (fun d => str_eqb (fst d) name) (m_definitions model) with
    | Some d => Found (snd d)
    | None =>
        match model_with_imported_item model name with
        | None => NotFound
        | Some m' => match fuel with O => Diverges | S f => definition f m' name end
        end
    end.

  Definition lookup_fuel : nat := S (length scope).

  Variable model : umodel.

  Definition name_prefix : str := [110; 97; 109; 101; 58; 32].     (* "name: " *)

  Definition resolve_usize (lor : lit_or_ref N) : rres N :=
    match lor with
    | Lit n => ROk n
    | Ref name =>
        match value_reference lookup_fuel model name with
        | Found (LInteger v) =>
            (* repair fb434d2: usize::try_from(value) -- an i64 is below 2^64, so only the sign can fail *)
            if (v <? 0)%Z then RErr (FailedToParseLiteral (name_prefix ++ name)) else ROk (Z.to_N v)
        | Found _ => RErr (FailedToParseLiteral (name_prefix ++ name))
        | NotFound => RErr (FailedToResolveReference name)
        | Diverges => RDiverge
        end
    end.

  Definition resolve_i64 (lor : lit_or_ref Z) : rres Z :=
    match lor with
    | Lit z => ROk z
    | Ref name =>
        match value_reference lookup_fuel model name with
        | Found (LInteger v) => ROk v
        | Found _ => RErr (FailedToParseLiteral (name_prefix ++ name))
        | NotFound => RErr (FailedToResolveReference name)
        | Diverges => RDiverge
        end
    end.

  Definition resolve_literal (lor : lit_or_ref literal) : rres literal :=
    match lor with
    | Lit l => ROk l
    | Ref name =>
        match value_reference lookup_fuel model name with
        | Found l => ROk l
        | NotFound => RErr (FailedToResolveReference name)
        | Diverges => RDiverge
        end
    end.

  (* Size<usize>::reconsider_constraints *)
  Definition reconsider_constraints (s : size N) : size N :=
    match s with
    | SRange lo hi ext =>
        if (lo =? 0) && (hi =? I64_MAX_N) && negb ext then SAny
        else if lo =? hi then SFix lo ext
        else s
    | _ => s
    end.

  Definition resolve_size (s : size (lit_or_ref N)) : rres (size N) :=
    match s with
    | SAny => ROk SAny
    | SFix n e => let^ n' := resolve_usize n in ROk (reconsider_constraints (SFix n' e))
    | SRange lo hi e =>
        let^ lo' := resolve_usize lo in
        let^ hi' := resolve_usize hi in
        ROk (reconsider_constraints (SRange lo' hi' e))
    end.

  Definition resolve_opt_i64 (o : option (lit_or_ref Z)) : rres (option Z) :=
    match o with
    | None => ROk None
    | Some l => let^ v := resolve_i64 l in ROk (Some v)
    end.

  (* the `default` part of Asn::try_resolve, given the resolved type *)
  Definition resolve_default (t : rty) (d : option (lit_or_ref literal)) : rres (option literal) :=
    match d with
    | None => ROk None
    | Some (Lit l) => ROk (Some l)
    | Some (Ref name) =>
        let fallback := let^ l := resolve_literal (Ref name) in ROk (Some l) in
        match t with
        | TRef referenced _ =>
            match definition lookup_fuel model referenced with
            | Found (_, TEnumerated variants _, _) =>
                match find (fun v => str_eqb name (fst v)) variants with
                | Some v => ROk (Some (LEnumVariant referenced (fst v)))
                | None => fallback
                end
            | Diverges => RDiverge
            | _ => fallback
            end
        | _ => fallback
        end
    end.

  Definition rfield : Type := afield N Z literal.

  Fixpoint resolve_ty (t : uty) : rres rty :=
    match t with
    | TBoolean => ROk TBoolean
    | TInteger (lo, hi, e) c =>
        let^ lo' := resolve_opt_i64 lo in
        let^ hi' := resolve_opt_i64 hi in
        ROk (TInteger (lo', hi', e) c)
    | TString s c => let^ s' := resolve_size s in ROk (TString s' c)
    | TOctetString s => let^ s' := resolve_size s in ROk (TOctetString s')
    | TBitString s c => let^ s' := resolve_size s in ROk (TBitString s' c)
    | TNull => ROk TNull
    | TOptional i => let^ i' := resolve_ty i in ROk (TOptional i')
    | TDefault i l => let^ i' := resolve_ty i in ROk (TDefault i' l)
    | TSequence fs e =>
        let^ fs' := (fix go (l : list ufield) : rres (list rfield) :=
                       match l with
                       | [] => ROk []
                       | (n, (tag, t0, d)) :: r =>
                           let^ t0' := resolve_ty t0 in
                           let^ d' := resolve_default t0' d in
                           let^ r' := go r in
                           ROk ((n, (tag, t0', d')) :: r')
                       end) fs in
        ROk (TSequence fs' e)
    | TSequenceOf i s =>
        let^ i' := resolve_ty i in
        let^ s' := resolve_size s in
        ROk (TSequenceOf i' s')
    | TSet fs e =>
        let^ fs' := (fix go (l : list ufield) : rres (list rfield) :=
                       match l with
                       | [] => ROk []
                       | (n, (tag, t0, d)) :: r =>
                           let^ t0' := resolve_ty t0 in
                           let^ d' := resolve_default t0' d in
                           let^ r' := go r in
                           ROk ((n, (tag, t0', d')) :: r')
                       end) fs in
        ROk (TSet fs' e)
    | TSetOf i s =>
        let^ i' := resolve_ty i in
        let^ s' := resolve_size s in
        ROk (TSetOf i' s')
    | TEnumerated v e => ROk (TEnumerated v e)
    | TChoice vs e =>
        let^ vs' := (fix go (l : list (str * option atag * uty)) : rres (list (str * option atag * rty)) :=
                       match l with
                       | [] => ROk []
                       | (n, tag, t0) :: r =>
                           let^ t0' := resolve_ty t0 in
                           let^ r' := go r in
                           ROk ((n, tag, t0') :: r')
                       end) vs in
        ROk (TChoice vs' e)
    | TRef n tag => ROk (TRef n tag)
    end.

  (* Asn::try_resolve *)
  Definition resolve_asn (a : uasn) : rres rasn :=
    let '(tag, t, d) := a in
    let^ t' := resolve_ty t in
    let^ d' := resolve_default t' d in
    ROk (tag, t', d').

  Fixpoint resolve_values (l : list (str * uasn * literal)) : rres (list (str * rasn * literal)) :=
    match l with
    | [] => ROk []
    | (n, a, v) :: r =>
        let^ a' := resolve_asn a in
        let^ r' := resolve_values r in
        ROk ((n, a', v) :: r')
    end.

  Fixpoint resolve_definitions (l : list (str * uasn)) : rres (list (str * rasn)) :=
    match l with
    | [] => ROk []
    | (n, a) :: r =>
        let^ a' := resolve_asn a in
        let^ r' := resolve_definitions r in
        ROk ((n, a') :: r')
    end.

  (* ResolveScope::try_resolve *)
  Definition resolve_model : rres (amodel rasn) :=
    let^ vals := resolve_values (m_value_references model) in
    let^ defs := resolve_definitions (m_definitions model) in
    ROk {| m_name := m_name model; m_oid := m_oid model; m_imports := m_imports model;
           m_definitions := defs; m_value_references := vals |}.
End Scope.

(* MultiModuleResolver::try_resolve_all *)
Fixpoint resolve_each (scope : list umodel) (ms : list umodel) : rres (list (amodel rasn)) :=
  match ms with
  | [] => ROk []
  | m :: r =>
      let^ m' := resolve_model scope m in
      let^ r' := resolve_each scope r in
      ROk (m' :: r')
  end.

Definition resolve_all (ms : list umodel) : rres (list (amodel rasn)) := resolve_each ms ms.

(* Model::try_resolve: ResolveScope::from(self), scope = the model alone *)
Definition resolve_single (m : umodel) : rres (amodel rasn) := resolve_model [m] m.
