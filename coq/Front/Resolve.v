(* Front/Resolve.v -- stub, to be filled *)
