(* Front/ResolveTotalProofs.v -- totality of the stages after the parser (C14): the resolver (Front/Resolve.v) and the
   tag-resolution recursion of Model::to_rust (Extract/OpsParse.v, Section ToRust).

   1. import chains: the two lookups of ResolveScope (value_reference, definition) are one generic fuelled walk along
      "module A does not define n and its first import listing n is matched by module B of the scope".  The fuel of the
      model, S (length scope), is exact: the lookup answers Diverges iff the walk from the starting module runs into
      a cycle (pigeonhole on the positions of the scope), and then it answers Diverges for EVERY fuel.
   2. lifting: resolve_ty / resolve_asn / resolve_model / resolve_all answer RDiverge only if a use site (INTEGER
      bound, SIZE bound, DEFAULT) of the module being resolved starts such a cyclic walk.
   3. tag resolution: resolve_tag / resolve_type_tag walk the graph "untagged definition n mentions n' in tag
      position"; with the fuel of the model they answer Diverges only if that graph has a cycle (decidable: cyclic_b).
   4. composition of tokenizer, parser, resolver and tag resolution. *)
From Coq Require Import ZifyBool ZifyNat ZifyN.
From A1 Require Import Front.Resolve Front.ResolveProofs Front.ResolveSubstProofs.
Local Open Scope N_scope.

(* ------------------------------------------------------------------------------------------------------------ *)
(* 0. lists                                                                                                       *)
(* ------------------------------------------------------------------------------------------------------------ *)

Lemma dup_split : forall (X : Type) (dec : forall x y : X, {x = y} + {x <> y}) (l : list X),
  ~ NoDup l -> exists a l1 l2 l3, l = (l1 ++ a :: l2 ++ a :: l3)%list.
Proof.
  intros X dec l. induction l as [|a l IH]; intros Hn.
  - exfalso. apply Hn. constructor.
  - destruct (in_dec dec a l) as [Hin | Hnin].
    + apply in_split in Hin. destruct Hin as [l2 [l3 ->]]. exists a, [], l2, l3. reflexivity.
    + destruct IH as [b [l1 [l2 [l3 ->]]]].
      { intros Hnd. apply Hn. constructor; assumption. }
      exists b, (a :: l1), l2, l3. reflexivity.
Qed.

Fixpoint find_idx {X : Type} (p : X -> bool) (l : list X) : option nat :=
  match l with
  | [] => None
  | x :: r => if p x then Some O else option_map S (find_idx p r)
  end.

Lemma find_idx_spec : forall (X : Type) (p : X -> bool) (l : list X),
  find p l = match find_idx p l with Some i => nth_error l i | None => None end.
Proof.
  intros X p l. induction l as [|x r IH]; [reflexivity|].
  cbn [find find_idx]. destruct (p x); [reflexivity|].
  rewrite IH. destruct (find_idx p r); reflexivity.
Qed.

Lemma find_idx_lt : forall (X : Type) (p : X -> bool) (l : list X) i, find_idx p l = Some i -> (i < length l)%nat.
Proof.
  intros X p l. induction l as [|x r IH]; intros i H; [discriminate|].
  cbn [find_idx] in H. destruct (p x).
  - inversion H; subst. cbn [length]. lia.
  - destruct (find_idx p r) as [j|]; [|discriminate]. inversion H; subst.
    specialize (IH j eq_refl). cbn [length]. lia.
Qed.

(* ------------------------------------------------------------------------------------------------------------ *)
(* 1. import chains                                                                                               *)
(* ------------------------------------------------------------------------------------------------------------ *)

Section Chain.
  Variable Ms : list umodel.
  Variable name : str.
  Variable A : Type.
  Variable loc : umodel -> option A.          (* what the module itself binds the name to *)

  Fixpoint glookup (fuel : nat) (m : umodel) : lookup A :=
    match loc m with
    | Some a => Found a
    | None =>
        match model_with_imported_item Ms m name with
        | None => NotFound
        | Some m' => match fuel with O => Diverges | S f => glookup f m' end
        end
    end.

  (* one step of the lookup: a does not bind the name, and b is the module of the scope that the first import of a
     listing the name is matched with (by OID if b has one and it is equal, else by name) *)
  Definition gstep (a b : umodel) : Prop := loc a = None /\ model_with_imported_item Ms a name = Some b.

  Inductive gpath : umodel -> umodel -> Prop :=
  | gp_one : forall a b, gstep a b -> gpath a b
  | gp_cons : forall a b c, gstep a b -> gpath b c -> gpath a c.

  (* the walk from m runs into a cycle *)
  Definition gcycle (m : umodel) : Prop := exists b, (b = m \/ gpath m b) /\ gpath b b.

  Lemma gstep_fun : forall a b c, gstep a b -> gstep a c -> b = c.
  Proof. intros a b c [_ H1] [_ H2]. congruence. Qed.

  Lemma gpath_snoc : forall a b c, gpath a b -> gstep b c -> gpath a c.
  Proof.
    intros a b c H. induction H as [a b H | a b d H _ IH]; intros Hs.
    - eapply gp_cons; [exact H | apply gp_one; exact Hs].
    - eapply gp_cons; [exact H | apply IH; exact Hs].
  Qed.

  Lemma gpath_rot : forall x y, gpath x x -> gstep x y -> gpath y y.
  Proof.
    intros x y H Hs. inversion H as [a b H1 | a b c H1 H2]; subst.
    - rewrite (gstep_fun _ _ _ Hs H1). exact H.
    - rewrite (gstep_fun _ _ _ Hs H1). eapply gpath_snoc; [exact H2 | exact H1].
  Qed.

  Lemma glookup_step : forall fuel a b, gstep a b ->
    glookup fuel a = match fuel with O => Diverges | S f => glookup f b end.
  Proof. intros fuel a b [H1 H2]. destruct fuel; cbn [glookup]; rewrite H1, H2; reflexivity. Qed.

  Lemma on_cycle_diverges : forall fuel x, gpath x x -> glookup fuel x = Diverges.
  Proof.
    induction fuel as [|fuel IH]; intros x H.
    - inversion H as [a b H1 | a b c H1 H2]; subst; rewrite (glookup_step _ _ _ H1); reflexivity.
    - assert (Hs : exists y, gstep x y) by (inversion H; subst; eexists; eassumption).
      destruct Hs as [y Hs]. rewrite (glookup_step _ _ _ Hs). apply IH. eapply gpath_rot; eassumption.
  Qed.

  Lemma path_diverges : forall m b, gpath m b -> (forall fuel, glookup fuel b = Diverges) ->
    forall fuel, glookup fuel m = Diverges.
  Proof.
    intros m b H. induction H as [a b H | a b c H _ IH]; intros Hb fuel.
    - rewrite (glookup_step _ _ _ H). destruct fuel; [reflexivity | apply Hb].
    - rewrite (glookup_step _ _ _ H). destruct fuel; [reflexivity | apply IH; exact Hb].
  Qed.

  (* a cycle is real divergence: no fuel is enough *)
  Theorem gcycle_diverges : forall m, gcycle m -> forall fuel, glookup fuel m = Diverges.
  Proof.
    intros m [b [[-> | Hp] Hc]] fuel.
    - apply on_cycle_diverges. exact Hc.
    - eapply path_diverges; [exact Hp|]. intros f. apply on_cycle_diverges. exact Hc.
  Qed.

  (* the same step, by position in the scope *)
  Definition gidx (m : umodel) : option nat :=
    match loc m with
    | Some _ => None
    | None =>
        match find (fun i => existsb (str_eqb name) (i_what i)) (m_imports m) with
        | None => None
        | Some imp => find_idx (fun m' => oid_matches (m_oid m') (i_from_oid imp) || str_eqb (m_name m') (i_from imp)) Ms
        end
    end.

  Lemma gstep_idx : forall a b, gstep a b <-> exists i, gidx a = Some i /\ nth_error Ms i = Some b.
  Proof.
    intros a b. unfold gstep, gidx, model_with_imported_item. split.
    - intros [H1 H2]. rewrite H1.
      destruct (find (fun i => existsb (str_eqb name) (i_what i)) (m_imports a)) as [imp|]; [|discriminate].
      rewrite find_idx_spec in H2.
      match type of H2 with context [find_idx ?p Ms] => destruct (find_idx p Ms) as [i|] end; [|discriminate].
      exists i. split; [reflexivity | exact H2].
    - intros [i [H1 H2]]. destruct (loc a); [discriminate|]. split; [reflexivity|].
      destruct (find (fun i => existsb (str_eqb name) (i_what i)) (m_imports a)) as [imp|]; [|discriminate].
      rewrite find_idx_spec. rewrite H1. exact H2.
  Qed.

  Lemma gidx_lt : forall a i, gidx a = Some i -> (i < length Ms)%nat.
  Proof.
    intros a i H. unfold gidx in H. destruct (loc a); [discriminate|].
    destruct (find _ (m_imports a)); [|discriminate]. eapply find_idx_lt; exact H.
  Qed.

  Inductive walk : list nat -> umodel -> umodel -> Prop :=
  | w_nil : forall m, walk [] m m
  | w_cons : forall i l a b c, gidx a = Some i -> nth_error Ms i = Some b -> walk l b c -> walk (i :: l) a c.

  Lemma diverges_walk : forall fuel m, glookup fuel m = Diverges -> exists l c, length l = S fuel /\ walk l m c.
  Proof.
    induction fuel as [|fuel IH]; intros m H; cbn [glookup] in H;
      destruct (loc m) eqn:E1; try discriminate;
      destruct (model_with_imported_item Ms m name) as [m'|] eqn:E2; try discriminate;
      assert (Hs : gstep m m') by (split; assumption);
      apply gstep_idx in Hs; destruct Hs as [i [Hi Hn]].
    - exists [i], m'. split; [reflexivity|]. econstructor; [exact Hi | exact Hn | constructor].
    - destruct (IH m' H) as [l [c [Hl Hw]]]. exists (i :: l), c. split; [cbn [length]; lia|].
      econstructor; eassumption.
  Qed.

  Lemma walk_lt : forall l a c, walk l a c -> Forall (fun i => (i < length Ms)%nat) l.
  Proof.
    intros l a c H. induction H as [m | i l a b c Hi Hn _ IH]; constructor; [eapply gidx_lt; exact Hi | exact IH].
  Qed.

  Lemma walk_app : forall l1 l2 a c, walk (l1 ++ l2) a c -> exists b, walk l1 a b /\ walk l2 b c.
  Proof.
    induction l1 as [|i l1 IH]; intros l2 a c H.
    - exists a. split; [constructor | exact H].
    - cbn [app] in H. inversion H as [| i' l' a' b' c' Hi Hn Hw]; subst.
      destruct (IH _ _ _ Hw) as [b [H1 H2]]. exists b. split; [econstructor; eassumption | exact H2].
  Qed.

  Lemma walk_last : forall l i a c, walk (l ++ [i]) a c -> nth_error Ms i = Some c.
  Proof.
    induction l as [|j l IH]; intros i a c H; cbn [app] in H;
      inversion H as [| i' l' a' b' c' Hi Hn Hw]; subst.
    - inversion Hw; subst. exact Hn.
    - eapply IH. exact Hw.
  Qed.

  Lemma walk_path : forall l a c, walk l a c -> l <> [] -> gpath a c.
  Proof.
    intros l a c H. induction H as [m | i l a b c Hi Hn Hw IH]; intros Hne; [congruence|].
    assert (Hs : gstep a b) by (apply gstep_idx; exists i; split; assumption).
    destruct l as [|j l].
    - inversion Hw; subst. apply gp_one. exact Hs.
    - eapply gp_cons; [exact Hs | apply IH; discriminate].
  Qed.

  (* out of fuel with at least `length scope` units means a cycle: the fuel S (length scope) of the model never
     runs out on a walk that would end *)
  Theorem diverges_gcycle : forall fuel m, (length Ms <= fuel)%nat -> glookup fuel m = Diverges -> gcycle m.
  Proof.
    intros fuel m Hf H. destruct (diverges_walk _ _ H) as [l [c [Hl Hw]]].
    assert (Hnd : ~ NoDup l).
    { intros Hnd. pose proof (walk_lt _ _ _ Hw) as Hlt.
      assert (Hincl : incl l (seq 0 (length Ms))).
      { intros i Hi. apply in_seq. rewrite Forall_forall in Hlt. specialize (Hlt i Hi). lia. }
      pose proof (NoDup_incl_length Hnd Hincl) as Hle. rewrite seq_length in Hle. lia. }
    destruct (dup_split nat Nat.eq_dec l Hnd) as [i [l1 [l2 [l3 ->]]]].
    replace (l1 ++ i :: l2 ++ i :: l3)%list with ((l1 ++ [i]) ++ (l2 ++ [i]) ++ l3)%list in Hw
      by (rewrite <- !app_assoc; reflexivity).
    destruct (walk_app _ _ _ _ Hw) as [b1 [H1 H2]]. destruct (walk_app _ _ _ _ H2) as [b2 [H3 _]].
    pose proof (walk_last _ _ _ _ H1) as E1. pose proof (walk_last _ _ _ _ H3) as E2.
    assert (b2 = b1) by congruence. subst b2.
    exists b1. split.
    - right. eapply walk_path; [exact H1 | destruct l1; discriminate].
    - eapply walk_path; [exact H3 | destruct l2; discriminate].
  Qed.
End Chain.

(* the two lookups of ResolveScope are instances *)
Definition vloc (name : str) (m : umodel) : option literal :=
  option_map snd (find (fun vr => str_eqb (fst (fst vr)) name) (m_value_references m)).

Definition dloc (name : str) (m : umodel) : option uasn :=
  option_map snd (find (fun d => str_eqb (fst d) name) (m_definitions m)).

Lemma value_reference_glookup : forall Ms name fuel m,
  value_reference Ms fuel m name = glookup Ms name literal (vloc name) fuel m.
Proof.
  intros Ms name. induction fuel as [|fuel IH]; intros m; cbn [value_reference glookup]; unfold vloc;
    destruct (find (fun vr => str_eqb (fst (fst vr)) name) (m_value_references m)); cbn [option_map]; try reflexivity;
    destruct (model_with_imported_item Ms m name); try reflexivity. apply IH.
Qed.

Lemma definition_glookup : forall Ms name fuel m,
  definition Ms fuel m name = glookup Ms name uasn (dloc name) fuel m.
Proof.
  intros Ms name. induction fuel as [|fuel IH]; intros m; cbn [definition glookup]; unfold dloc;
    destruct (find (fun d => str_eqb (fst d) name) (m_definitions m)); cbn [option_map]; try reflexivity;
    destruct (model_with_imported_item Ms m name); try reflexivity. apply IH.
Qed.

(* module M looks up the value reference `name` (resp. the type `name`) along a cyclic chain of IMPORTS:
   none of the modules on the way defines it, each imports it from the next *)
Definition import_cycle_v (Ms : list umodel) (M : umodel) (name : str) : Prop := gcycle Ms name literal (vloc name) M.
Definition import_cycle_d (Ms : list umodel) (M : umodel) (name : str) : Prop := gcycle Ms name uasn (dloc name) M.

Theorem value_reference_diverges_iff : forall Ms M name,
  value_reference Ms (lookup_fuel Ms) M name = Diverges <-> import_cycle_v Ms M name.
Proof.
  intros Ms M name. rewrite value_reference_glookup. split.
  - apply diverges_gcycle. unfold lookup_fuel. lia.
  - intros H. apply gcycle_diverges. exact H.
Qed.

Theorem definition_diverges_iff : forall Ms M name,
  definition Ms (lookup_fuel Ms) M name = Diverges <-> import_cycle_d Ms M name.
Proof.
  intros Ms M name. rewrite definition_glookup. split.
  - apply diverges_gcycle. unfold lookup_fuel. lia.
  - intros H. apply gcycle_diverges. exact H.
Qed.

Theorem import_cycle_diverges_for_every_fuel : forall Ms M name,
  (import_cycle_v Ms M name -> forall fuel, value_reference Ms fuel M name = Diverges) /\
  (import_cycle_d Ms M name -> forall fuel, definition Ms fuel M name = Diverges).
Proof.
  intros Ms M name. split; intros H fuel.
  - rewrite value_reference_glookup. apply gcycle_diverges. exact H.
  - rewrite definition_glookup. apply gcycle_diverges. exact H.
Qed.

(* ------------------------------------------------------------------------------------------------------------ *)
(* 2. the resolver diverges only at a use site that starts a cyclic import chain                                  *)
(* ------------------------------------------------------------------------------------------------------------ *)

Lemma rbind_div : forall {A B} (r : rres A) (f : A -> rres B),
  rbind r f = RDiverge -> r = RDiverge \/ exists a, r = ROk a /\ f a = RDiverge.
Proof. intros A B [a | e |] f H; cbn [rbind] in H; [right; exists a; auto | discriminate | left; reflexivity]. Qed.

Section Lift.
  Variable Ms : list umodel.
  Variable M : umodel.

  Definition cyc_v (name : str) : Prop := import_cycle_v Ms M name.

  (* a DEFAULT reference `name` of a component of type t0: the type is a reference whose definition lookup is
     cyclic, or the ENUMERATED special case does not fire and the value lookup is cyclic *)
  Definition cyc_default (t0 : uty) (name : str) : Prop :=
    (exists referenced, ref_name t0 = Some referenced /\ import_cycle_d Ms M referenced) \/
    (enum_default_fires Ms M t0 name = false /\ import_cycle_v Ms M name).

  Lemma i64_div : forall l, resolve_i64 Ms M l = RDiverge -> exists name, l = Ref name /\ cyc_v name.
  Proof.
    intros [z | name] H; [discriminate|]. exists name. split; [reflexivity|].
    apply value_reference_diverges_iff. unfold resolve_i64 in H.
    destruct (value_reference Ms (lookup_fuel Ms) M name) as [[b|s|z|bs|t v]| |]; try discriminate. reflexivity.
  Qed.

  Lemma usize_div : forall l, resolve_usize Ms M l = RDiverge -> exists name, l = Ref name /\ cyc_v name.
  Proof.
    intros [z | name] H; [discriminate|]. exists name. split; [reflexivity|].
    apply value_reference_diverges_iff. unfold resolve_usize in H.
    destruct (value_reference Ms (lookup_fuel Ms) M name) as [[b|s|z|bs|t v]| |]; try discriminate; [|reflexivity].
    destruct (z <? 0)%Z; discriminate.
  Qed.

  Lemma literal_div : forall name, resolve_literal Ms M (Ref name) = RDiverge -> cyc_v name.
  Proof.
    intros name H. apply value_reference_diverges_iff. unfold resolve_literal in H.
    destruct (value_reference Ms (lookup_fuel Ms) M name); try discriminate. reflexivity.
  Qed.

  Lemma size_div : forall s, resolve_size Ms M s = RDiverge -> size_site cyc_v s.
  Proof.
    intros [|n e|lo hi e] H; unfold resolve_size in H; [discriminate | |].
    - apply rbind_div in H. destruct H as [H | [a [_ H]]]; [|discriminate].
      destruct (usize_div _ H) as [name [-> Hc]]. constructor. exact Hc.
    - apply rbind_div in H. destruct H as [H | [a [_ H]]].
      + destruct (usize_div _ H) as [name [-> Hc]]. apply site_SRange_lo. exact Hc.
      + apply rbind_div in H. destruct H as [H | [b [_ H]]]; [|discriminate].
        destruct (usize_div _ H) as [name [-> Hc]]. apply site_SRange_hi. exact Hc.
  Qed.

  Lemma opt_i64_div : forall o, resolve_opt_i64 Ms M o = RDiverge -> exists name, o = Some (Ref name) /\ cyc_v name.
  Proof.
    intros [l|] H; [|discriminate]. unfold resolve_opt_i64 in H.
    apply rbind_div in H. destruct H as [H | [a [_ H]]]; [|discriminate].
    destruct (i64_div _ H) as [name [-> Hc]]. exists name. split; [reflexivity | exact Hc].
  Qed.

  Lemma default_div : forall t0 t0' d, resolve_ty Ms M t0 = ROk t0' -> resolve_default Ms M t0' d = RDiverge ->
    exists name, d = Some (Ref name) /\ cyc_default t0 name.
  Proof.
    intros t0 t0' d Ht H. destruct d as [[l | name]|]; [discriminate | | discriminate].
    exists name. split; [reflexivity|].
    rewrite resolve_default_view in H. rewrite (resolve_ty_ref_name _ _ _ _ Ht) in H.
    unfold cyc_default, enum_default_fires.
    destruct (ref_name t0) as [referenced|].
    - destruct (definition Ms (lookup_fuel Ms) M referenced) as [a| |] eqn:Ed; cbn [lookup_map] in H.
      + right. destruct (enum_items a) as [variants|].
        * destruct (find (fun v => str_eqb name (fst v)) variants); [discriminate|].
          split; [reflexivity|]. apply rbind_div in H. destruct H as [H | [x [_ H]]]; [|discriminate].
          apply literal_div. exact H.
        * split; [reflexivity|]. apply rbind_div in H. destruct H as [H | [x [_ H]]]; [|discriminate].
          apply literal_div. exact H.
      + right. split; [reflexivity|]. apply rbind_div in H. destruct H as [H | [x [_ H]]]; [|discriminate].
        apply literal_div. exact H.
      + left. exists referenced. split; [reflexivity|]. apply definition_diverges_iff. exact Ed.
    - right. split; [reflexivity|]. apply rbind_div in H. destruct H as [H | [x [_ H]]]; [|discriminate].
      apply literal_div. exact H.
  Qed.

  Notation tsite := (ty_site cyc_v cyc_v cyc_default).

  Lemma fields_div : forall fs,
    Forall (fun f => resolve_ty Ms M (snd (fst (snd f))) = RDiverge -> tsite (snd (fst (snd f)))) fs ->
    resolve_fields Ms M fs = RDiverge ->
    (exists n tag t0 d, In (n, (tag, t0, d)) fs /\ tsite t0) \/
    (exists n tag t0 name, In (n, (tag, t0, Some (Ref name))) fs /\ cyc_default t0 name).
  Proof.
    intros fs HF. induction HF as [|[n [[tag t0] d]] fs Hx _ IH]; intros H; [discriminate|].
    cbn [fst snd] in Hx. rewrite resolve_fields_cons in H.
    apply rbind_div in H. destruct H as [H | [t0' [Ht H]]].
    { left. exists n, tag, t0, d. split; [left; reflexivity | apply Hx; exact H]. }
    apply rbind_div in H. destruct H as [H | [d' [_ H]]].
    { right. destruct (default_div _ _ _ Ht H) as [name [-> Hc]]. exists n, tag, t0, name.
      split; [left; reflexivity | exact Hc]. }
    apply rbind_div in H. destruct H as [H | [r' [_ H]]]; [|discriminate].
    destruct (IH H) as [[n1 [tag1 [t1 [d1 [Hin Hs]]]]] | [n1 [tag1 [t1 [name [Hin Hs]]]]]].
    - left. exists n1, tag1, t1, d1. split; [right; exact Hin | exact Hs].
    - right. exists n1, tag1, t1, name. split; [right; exact Hin | exact Hs].
  Qed.

  Lemma variants_div : forall vs,
    Forall (fun v => resolve_ty Ms M (snd v) = RDiverge -> tsite (snd v)) vs ->
    resolve_variants Ms M vs = RDiverge -> exists n tag t0, In (n, tag, t0) vs /\ tsite t0.
  Proof.
    intros vs HF. induction HF as [|[[n tag] t0] vs Hx _ IH]; intros H; [discriminate|].
    cbn [snd] in Hx. rewrite resolve_variants_cons in H.
    apply rbind_div in H. destruct H as [H | [t0' [_ H]]].
    { exists n, tag, t0. split; [left; reflexivity | apply Hx; exact H]. }
    apply rbind_div in H. destruct H as [H | [r' [_ H]]]; [|discriminate].
    destruct (IH H) as [n1 [tag1 [t1 [Hin Hs]]]]. exists n1, tag1, t1. split; [right; exact Hin | exact Hs].
  Qed.

  Lemma ty_div : forall t, resolve_ty Ms M t = RDiverge -> tsite t.
  Proof.
    apply (ty_nested_ind _ _ _ (fun t => resolve_ty Ms M t = RDiverge -> tsite t)).
    - discriminate.
    - intros [[lo hi] e] c H. cbn [resolve_ty] in H.
      apply rbind_div in H. destruct H as [H | [a [_ H]]].
      + destruct (opt_i64_div _ H) as [name [-> Hc]]. apply site_Integer_lo. exact Hc.
      + apply rbind_div in H. destruct H as [H | [b [_ H]]]; [|discriminate].
        destruct (opt_i64_div _ H) as [name [-> Hc]]. apply site_Integer_hi. exact Hc.
    - intros s c H. cbn [resolve_ty] in H. apply rbind_div in H. destruct H as [H | [a [_ H]]]; [|discriminate].
      apply site_String. apply size_div. exact H.
    - intros s H. cbn [resolve_ty] in H. apply rbind_div in H. destruct H as [H | [a [_ H]]]; [|discriminate].
      apply site_OctetString. apply size_div. exact H.
    - intros s c H. cbn [resolve_ty] in H. apply rbind_div in H. destruct H as [H | [a [_ H]]]; [|discriminate].
      apply site_BitString. apply size_div. exact H.
    - discriminate.
    - intros t IH H. cbn [resolve_ty] in H. apply rbind_div in H. destruct H as [H | [a [_ H]]]; [|discriminate].
      apply site_Optional. apply IH. exact H.
    - intros t l IH H. cbn [resolve_ty] in H. apply rbind_div in H. destruct H as [H | [a [_ H]]]; [|discriminate].
      apply site_Default. apply IH. exact H.
    - intros fs e HF H. rewrite resolve_ty_sequence in H.
      apply rbind_div in H. destruct H as [H | [a [_ H]]]; [|discriminate].
      destruct (fields_div _ HF H) as [[n [tag [t0 [d [Hin Hs]]]]] | [n [tag [t0 [name [Hin Hs]]]]]].
      + eapply site_Sequence_ty; eassumption.
      + eapply site_Sequence_default; eassumption.
    - intros t s IH H. cbn [resolve_ty] in H. apply rbind_div in H. destruct H as [H | [a [_ H]]].
      + apply site_SequenceOf_ty. apply IH. exact H.
      + apply rbind_div in H. destruct H as [H | [b [_ H]]]; [|discriminate].
        apply site_SequenceOf_size. apply size_div. exact H.
    - intros fs e HF H. rewrite resolve_ty_set in H.
      apply rbind_div in H. destruct H as [H | [a [_ H]]]; [|discriminate].
      destruct (fields_div _ HF H) as [[n [tag [t0 [d [Hin Hs]]]]] | [n [tag [t0 [name [Hin Hs]]]]]].
      + eapply site_Set_ty; eassumption.
      + eapply site_Set_default; eassumption.
    - intros t s IH H. cbn [resolve_ty] in H. apply rbind_div in H. destruct H as [H | [a [_ H]]].
      + apply site_SetOf_ty. apply IH. exact H.
      + apply rbind_div in H. destruct H as [H | [b [_ H]]]; [|discriminate].
        apply site_SetOf_size. apply size_div. exact H.
    - discriminate.
    - intros vs e HF H. rewrite resolve_ty_choice in H.
      apply rbind_div in H. destruct H as [H | [a [_ H]]]; [|discriminate].
      destruct (variants_div _ HF H) as [n [tag [t0 [Hin Hs]]]]. eapply site_Choice; eassumption.
    - discriminate.
  Qed.

  Lemma asn_div : forall a, resolve_asn Ms M a = RDiverge -> asn_site cyc_v cyc_v cyc_default a.
  Proof.
    intros [[tag t] d] H. unfold resolve_asn in H.
    apply rbind_div in H. destruct H as [H | [t' [Ht H]]].
    - apply site_asn_ty. apply ty_div. exact H.
    - apply rbind_div in H. destruct H as [H | [d' [_ H]]]; [|discriminate].
      destruct (default_div _ _ _ Ht H) as [name [-> Hc]]. apply site_asn_default. exact Hc.
  Qed.

  Lemma definitions_div : forall l, resolve_definitions Ms M l = RDiverge ->
    exists n a, In (n, a) l /\ asn_site cyc_v cyc_v cyc_default a.
  Proof.
    induction l as [|[n a] l IH]; intros H; [discriminate|]. cbn [resolve_definitions] in H.
    apply rbind_div in H. destruct H as [H | [a' [_ H]]].
    - exists n, a. split; [left; reflexivity | apply asn_div; exact H].
    - apply rbind_div in H. destruct H as [H | [r' [_ H]]]; [|discriminate].
      destruct (IH H) as [n1 [a1 [Hin Hs]]]. exists n1, a1. split; [right; exact Hin | exact Hs].
  Qed.

  Lemma values_div : forall l, resolve_values Ms M l = RDiverge ->
    exists n a v, In (n, a, v) l /\ asn_site cyc_v cyc_v cyc_default a.
  Proof.
    induction l as [|[[n a] v] l IH]; intros H; [discriminate|]. cbn [resolve_values] in H.
    apply rbind_div in H. destruct H as [H | [a' [_ H]]].
    - exists n, a, v. split; [left; reflexivity | apply asn_div; exact H].
    - apply rbind_div in H. destruct H as [H | [r' [_ H]]]; [|discriminate].
      destruct (IH H) as [n1 [a1 [v1 [Hin Hs]]]]. exists n1, a1, v1. split; [right; exact Hin | exact Hs].
  Qed.

  (* the module has a use site that starts a cyclic import chain *)
  Definition cyclic_use_site : Prop := model_site cyc_v cyc_v cyc_default M.

  Theorem model_div : resolve_model Ms M = RDiverge -> cyclic_use_site.
  Proof.
    intros H. unfold resolve_model in H.
    apply rbind_div in H. destruct H as [H | [vals [_ H]]].
    - destruct (values_div _ H) as [n [a [v [Hin Hs]]]]. eapply site_value; eassumption.
    - apply rbind_div in H. destruct H as [H | [defs [_ H]]]; [|discriminate].
      destruct (definitions_div _ H) as [n [a [Hin Hs]]]. eapply site_definition; eassumption.
  Qed.

  (* conversely such a module never resolves *)
  Theorem cyclic_use_site_no_model : cyclic_use_site -> forall r, resolve_model Ms M <> ROk r.
  Proof.
    apply model_site_error.
    - intros name Hc v H. apply value_reference_diverges_iff in Hc. unfold resolve_i64 in H. rewrite Hc in H. discriminate.
    - intros name Hc v H. apply value_reference_diverges_iff in Hc. unfold resolve_usize in H. rewrite Hc in H.
      discriminate.
    - intros t0 t0' name Hc Ht v H. rewrite resolve_default_view in H.
      rewrite (resolve_ty_ref_name _ _ _ _ Ht) in H.
      destruct Hc as [[referenced [Er Hd]] | [Hf Hv]].
      + rewrite Er in H. apply definition_diverges_iff in Hd. rewrite Hd in H. discriminate.
      + apply value_reference_diverges_iff in Hv. unfold resolve_literal in H. rewrite Hv in H. cbn [rbind] in H.
        unfold enum_default_fires in Hf.
        destruct (ref_name t0) as [referenced|]; [|discriminate].
        destruct (definition Ms (lookup_fuel Ms) M referenced) as [a| |]; cbn [lookup_map] in H; try discriminate.
        destruct (enum_items a) as [variants|]; [|discriminate].
        destruct (find (fun v0 => str_eqb name (fst v0)) variants); discriminate.
  Qed.
End Lift.

(* F12-3 / F14-2: some loaded module has a use site (INTEGER bound, SIZE bound, DEFAULT) whose lookup walks a
   cycle of IMPORTS none of whose modules defines the name *)
Definition Known_C14_cyclic_import (Ms : list umodel) : Prop :=
  exists M, In M Ms /\ cyclic_use_site Ms M.

Lemma each_div : forall Ms l, resolve_each Ms l = RDiverge -> exists M, In M l /\ cyclic_use_site Ms M.
Proof.
  intros Ms. induction l as [|m l IH]; intros H; [discriminate|]. cbn [resolve_each] in H.
  apply rbind_div in H. destruct H as [H | [m' [_ H]]].
  - exists m. split; [left; reflexivity | apply model_div; exact H].
  - apply rbind_div in H. destruct H as [H | [r' [_ H]]]; [|discriminate].
    destruct (IH H) as [M [Hin Hs]]. exists M. split; [right; exact Hin | exact Hs].
Qed.

(* rres has three constructors: a model, an error value, divergence -- there is no panic outcome in the resolver
   (its only arithmetic is usize::try_from, modelled as an error); divergence only in the class *)
Theorem resolve_all_total : forall Ms,
  match resolve_all Ms with
  | ROk _ | RErr _ => True
  | RDiverge => Known_C14_cyclic_import Ms
  end.
Proof.
  intros Ms. destruct (resolve_all Ms) eqn:E; try exact I. unfold resolve_all in E. apply each_div. exact E.
Qed.

Theorem resolve_all_total' : forall Ms, ~ Known_C14_cyclic_import Ms ->
  (exists rs, resolve_all Ms = ROk rs) \/ (exists e, resolve_all Ms = RErr e).
Proof.
  intros Ms Hn. pose proof (resolve_all_total Ms) as H.
  destruct (resolve_all Ms) as [rs | e |]; [left; eauto | right; eauto | contradiction].
Qed.

Theorem cyclic_import_never_resolves : forall Ms, Known_C14_cyclic_import Ms -> forall rs, resolve_all Ms <> ROk rs.
Proof.
  intros Ms [M [Hin Hs]]. unfold resolve_all. eapply resolve_each_error; [exact Hin|].
  apply cyclic_use_site_no_model. exact Hs.
Qed.

Theorem resolve_single_total : forall u,
  match resolve_single u with
  | ROk _ | RErr _ => True
  | RDiverge => Known_C14_cyclic_import [u]
  end.
Proof.
  intros u. destruct (resolve_single u) eqn:E; try exact I. unfold resolve_single in E.
  exists u. split; [left; reflexivity | apply model_div; exact E].
Qed.

(* ------------------------------------------------------------------------------------------------------------ *)
(* 3. tag resolution (Model::to_rust -> TagResolver::resolve_tag / resolve_type_tag, Extract/OpsParse.v)          *)
(* ------------------------------------------------------------------------------------------------------------ *)
From A1 Require Import Extract.OpsParse.

Section TagGraph.
  Variables SS RR CC : Type.

  (* the alternatives of a CHOICE that resolve_type_tag scans: untagged ones among the root alternatives *)
  Definition choice_refs (refs : ty SS RR CC -> list str) :
    list (str * option atag * ty SS RR CC) -> nat -> list str :=
    fix go (l : list (str * option atag * ty SS RR CC)) (n : nat) {struct l} : list str :=
      match l with
      | [] => []
      | (_, tag, t0) :: r =>
          match n with
          | O => []
          | S n' => (match tag with Some _ => [] | None => refs t0 end ++ go r n')%list
          end
      end.

  (* the type names whose tag the tag of t is computed from: through OPTIONAL / DEFAULT, through the untagged
     alternatives of a CHOICE among those resolve_type_tag scans (the root alternatives: the first ext + 1, or all
     without an extension marker), an untagged type reference itself *)
  Fixpoint tag_refs (t : ty SS RR CC) : list str :=
    match t with
    | TOptional i | TDefault i _ => tag_refs i
    | TChoice vs e =>
        choice_refs tag_refs vs (match e with Some k => S (N.to_nat k) | None => length vs end)
    | TRef name None => [name]
    | _ => []
    end.

  Variable defs : list (str * asn SS RR CC).

  (* the names an UNTAGGED definition n hands the question on to (the first definition called n counts) *)
  Definition tag_succ (n : str) : list str :=
    match find (fun d => str_eqb (fst d) n) defs with
    | Some (_, (None, t, _)) => tag_refs t
    | _ => []
    end.

  Inductive tpath : str -> str -> Prop :=
  | tp_one : forall a b, In b (tag_succ a) -> tpath a b
  | tp_cons : forall a b c, In b (tag_succ a) -> tpath b c -> tpath a c.

  (* F14-1 / F09-18: untagged definitions (type references, CHOICEs through their untagged root alternatives,
     OPTIONAL / DEFAULT wrappers) whose tags are defined in terms of each other *)
  Definition Known_C14_untagged_choice_cycle : Prop := exists n, tpath n n.

  (* decidable version: is there a walk of k edges from n? a walk of S (length defs) edges visits
     S (length defs) defined names, so it repeats one *)
  Fixpoint walk_b (k : nat) (n : str) : bool :=
    match k with
    | O => true
    | S k' => existsb (walk_b k') (tag_succ n)
    end.

  Definition cyclic_b : bool := existsb (walk_b (S (length defs))) (map fst defs).

  Lemma tpath_snoc : forall a b c, tpath a b -> In c (tag_succ b) -> tpath a c.
  Proof.
    intros a b c H. induction H as [a b H | a b d H _ IH]; intros Hc.
    - eapply tp_cons; [exact H | apply tp_one; exact Hc].
    - eapply tp_cons; [exact H | apply IH; exact Hc].
  Qed.

  Lemma tag_succ_defined : forall a b, In b (tag_succ a) -> In a (map fst defs).
  Proof.
    intros a b H. unfold tag_succ in H.
    destruct (find (fun d => str_eqb (fst d) a) defs) as [d|] eqn:E; [|destruct H].
    apply find_some in E. destruct E as [Hin He]. apply str_eqb_eq in He. subst a. apply in_map. exact Hin.
  Qed.

  Lemma on_cycle_walks : forall k n, tpath n n -> walk_b k n = true.
  Proof.
    induction k as [|k IH]; intros n H; [reflexivity|]. cbn [walk_b]. apply existsb_exists.
    inversion H as [a b H1 | a b c H1 H2]; subst.
    - exists n. split; [exact H1 | apply IH; exact H].
    - exists b. split; [exact H1 | apply IH]. eapply tpath_snoc; eassumption.
  Qed.

  Lemma cycle_cyclic_b : Known_C14_untagged_choice_cycle -> cyclic_b = true.
  Proof.
    intros [n H]. unfold cyclic_b. apply existsb_exists. exists n. split; [|apply on_cycle_walks; exact H].
    inversion H; subst; eapply tag_succ_defined; eassumption.
  Qed.

  (* walks as lists of names *)
  Inductive twalk : str -> list str -> Prop :=
  | tw_one : forall n, twalk n [n]
  | tw_cons : forall n n' w, In n' (tag_succ n) -> twalk n' w -> twalk n (n :: w).

  Lemma twalk_hd : forall n w, twalk n w -> exists r, w = n :: r.
  Proof. intros n w H. destruct H; eexists; reflexivity. Qed.

  Lemma twalk_suffix : forall l1 n a l2, twalk n (l1 ++ a :: l2) -> twalk a (a :: l2).
  Proof.
    induction l1 as [|x l1 IH]; intros n a l2 H; cbn [app] in H.
    - destruct (twalk_hd _ _ H) as [r E]. inversion E; subst. exact H.
    - inversion H as [|n0 n' w Hs Hw]; subst.
      + destruct l1; discriminate.
      + eapply IH. exact Hw.
  Qed.

  Lemma twalk_path : forall l2 a b l3, twalk a (a :: l2 ++ b :: l3) -> tpath a b.
  Proof.
    induction l2 as [|x l2 IH]; intros a b l3 H; cbn [app] in H; inversion H as [|n0 n' w Hs Hw]; subst.
    - destruct (twalk_hd _ _ Hw) as [r E]. inversion E; subst. apply tp_one. exact Hs.
    - destruct (twalk_hd _ _ Hw) as [r E]. inversion E; subst. eapply tp_cons; [exact Hs | eapply IH; exact Hw].
  Qed.

  Lemma str_dec : forall x y : str, {x = y} + {x <> y}.
  Proof. apply list_eq_dec. apply N.eq_dec. Qed.

  Lemma dup_walk_cycle : forall n w, twalk n w -> ~ NoDup w -> Known_C14_untagged_choice_cycle.
  Proof.
    intros n w H Hnd. destruct (dup_split str str_dec w Hnd) as [a [l1 [l2 [l3 ->]]]].
    apply twalk_suffix in H. exists a. eapply twalk_path. exact H.
  Qed.

  Lemma walk_b_twalk : forall k n, walk_b k n = true -> exists w, twalk n w /\ length w = S k.
  Proof.
    induction k as [|k IH]; intros n H.
    - exists [n]. split; [constructor | reflexivity].
    - cbn [walk_b] in H. apply existsb_exists in H. destruct H as [n' [Hin Hw]].
      destruct (IH n' Hw) as [w [Hw' Hl]]. exists (n :: w). split; [econstructor; eassumption | cbn [length]; lia].
  Qed.

  Lemma twalk_defined : forall n w, twalk n w -> incl (removelast w) (map fst defs).
  Proof.
    intros n w H. induction H as [n | n n' w Hs Hw IH]; [intros x []|].
    destruct (twalk_hd _ _ Hw) as [r ->]. cbn [removelast]. intros x [<- | Hx].
    - eapply tag_succ_defined. exact Hs.
    - apply IH. exact Hx.
  Qed.

  Lemma NoDup_removelast : forall (X : Type) (l : list X), NoDup l -> NoDup (removelast l).
  Proof.
    intros X l H. induction H as [|x l Hx H IH]; [constructor|].
    destruct l as [|y l]; [constructor|]. cbn [removelast].
    change (NoDup (x :: removelast (y :: l))). constructor; [|exact IH].
    intros Hin. apply Hx. clear -Hin. revert Hin. generalize (y :: l). intros l0.
    induction l0 as [|z l0 IH0]; [intros []|]. destruct l0 as [|z' l0]; [intros []|].
    cbn [removelast]. intros [-> | Hin]; [left; reflexivity | right; apply IH0; exact Hin].
  Qed.

  Lemma removelast_cons_length : forall (X : Type) (r : list X) x, length (removelast (x :: r)) = length r.
  Proof.
    intros X r. induction r as [|y r IH]; intros x; [reflexivity|].
    change (length (x :: removelast (y :: r)) = length (y :: r)). cbn [length]. rewrite IH. reflexivity.
  Qed.

  Lemma cyclic_b_cycle : cyclic_b = true -> Known_C14_untagged_choice_cycle.
  Proof.
    unfold cyclic_b. intros H. apply existsb_exists in H. destruct H as [n [_ Hw]].
    destruct (walk_b_twalk _ _ Hw) as [w [Hw' Hl]].
    eapply dup_walk_cycle; [exact Hw'|]. intros Hnd.
    pose proof (NoDup_incl_length (NoDup_removelast _ _ Hnd) (twalk_defined _ _ Hw')) as Hle.
    rewrite map_length in Hle.
    assert (length (removelast w) = S (length defs)).
    { destruct (twalk_hd _ _ Hw') as [r ->]. rewrite removelast_cons_length. cbn [length] in Hl. lia. }
    lia.
  Qed.

  Theorem cyclic_b_iff : cyclic_b = true <-> Known_C14_untagged_choice_cycle.
  Proof. split; [apply cyclic_b_cycle | apply cycle_cyclic_b]. Qed.
End TagGraph.

Arguments tag_refs {SS RR CC} t.
Arguments choice_refs {SS RR CC} refs l n.

Section TagTotal.
  Variable defs : list (str * rasn).

  Notation tsucc := (tag_succ N Z literal defs).
  Notation twalk' := (twalk N Z literal defs).

  (* fuel spent at a definition: one unit in resolve_tag, at most ty_nodes in resolve_type_tag *)
  Definition tcost (n : str) : nat :=
    match find (fun d => str_eqb (fst d) n) defs with
    | Some (_, (None, t, _)) => S (ty_nodes t)
    | _ => 1%nat
    end.

  Definition wsum (w : list str) : nat := fold_right (fun n acc => (tcost n + acc)%nat) O w.

  Definition choice_nodes : list (str * option atag * rty) -> nat :=
    fix go (l : list (str * option atag * rty)) : nat :=
      match l with [] => O | (_, _, t0) :: r => (ty_nodes t0 + go r)%nat end.

  Definition fields_nodes : list rfield -> nat :=
    fix go (l : list rfield) : nat :=
      match l with [] => O | (_, (_, t0, _)) :: r => (ty_nodes t0 + go r)%nat end.

  Lemma ty_nodes_choice : forall vs e, ty_nodes (TChoice vs e) = S (choice_nodes vs).
  Proof. reflexivity. Qed.
  Lemma ty_nodes_sequence : forall fs e, ty_nodes (TSequence fs e) = S (fields_nodes fs).
  Proof. reflexivity. Qed.
  Lemma ty_nodes_set : forall fs e, ty_nodes (TSet fs e) = S (fields_nodes fs).
  Proof. reflexivity. Qed.

  Lemma ty_nodes_pos : forall t : rty, (1 <= ty_nodes t)%nat.
  Proof. intros t. destruct t; cbn [ty_nodes]; lia. Qed.

  Lemma choice_nodes_in : forall vs nm tg t0, In (nm, tg, t0) vs -> (ty_nodes t0 <= choice_nodes vs)%nat.
  Proof.
    induction vs as [|[[nm1 tg1] t1] vs IH]; intros nm tg t0 H; [destruct H|].
    cbn [choice_nodes]. fold choice_nodes. destruct H as [H | H].
    - inversion H; subst. lia.
    - specialize (IH _ _ _ H). lia.
  Qed.

  Lemma fields_nodes_in : forall fs nm tg t0 d, In (nm, (tg, t0, d)) fs -> (ty_nodes t0 <= fields_nodes fs)%nat.
  Proof.
    induction fs as [|[nm1 [[tg1 t1] d1]] fs IH]; intros nm tg t0 d H; [destruct H|].
    cbn [fields_nodes]. fold fields_nodes. destruct H as [H | H].
    - inversion H; subst. lia.
    - specialize (IH _ _ _ _ H). lia.
  Qed.

  Lemma in_firstn : forall (X : Type) (n : nat) (l : list X) x, In x (firstn n l) -> In x l.
  Proof.
    intros X. induction n as [|n IH]; intros l x H; [destruct H|].
    destruct l as [|y l]; [destruct H|]. cbn [firstn] in H. destruct H as [H | H]; [left; exact H | right; apply IH; exact H].
  Qed.

  Lemma choice_refs_in : forall (vs : list (str * option atag * rty)) n nm t0,
    In (nm, None, t0) (firstn n vs) -> incl (tag_refs t0) (choice_refs tag_refs vs n).
  Proof.
    induction vs as [|[[nm1 tg1] t1] vs IH]; intros n nm t0 H; [destruct n; destruct H|].
    destruct n as [|n]; [destruct H|]. cbn [firstn] in H. cbn [choice_refs]. fold (@choice_refs N Z literal).
    destruct H as [H | H].
    - inversion H; subst. apply incl_appl. apply incl_refl.
    - apply incl_appr. eapply IH. exact H.
  Qed.

  (* the scan of the root alternatives in resolve_type_tag *)
  Definition choice_scan (f : nat) : list (str * option atag * rty) -> option atag -> lookup (option atag) :=
    fix go (l : list (str * option atag * rty)) (best : option atag) : lookup (option atag) :=
      match l with
      | [] => Found best
      | (_, Some tg, _) :: r => go r (Some tg)
      | (_, None, t0) :: r =>
          match resolve_type_tag defs f t0 with
          | Found (Some tg) => go r (Some tg)
          | Found None => Found None
          | NotFound => Found None
          | Diverges => Diverges
          end
      end.

  Lemma resolve_type_tag_choice : forall f vs e,
    resolve_type_tag defs (S f) (TChoice vs e)
    = choice_scan f (firstn (match e with Some k => S (N.to_nat k) | None => length vs end) vs) None.
  Proof. reflexivity. Qed.

  Lemma choice_scan_nodiv : forall f l best,
    (forall nm t0, In (nm, None, t0) l -> resolve_type_tag defs f t0 <> Diverges) ->
    choice_scan f l best <> Diverges.
  Proof.
    intros f. induction l as [|[[nm tg] t0] l IH]; intros best H; [discriminate|].
    cbn [choice_scan]. fold (choice_scan f). destruct tg as [tg|].
    - apply IH. intros nm' t' Hin. eapply H. right. exact Hin.
    - specialize (H nm t0 (or_introl eq_refl)) as H0.
      destruct (resolve_type_tag defs f t0) as [[tg|]| |]; try discriminate; [|congruence].
      apply IH. intros nm' t' Hin. eapply H. right. exact Hin.
  Qed.

  Definition IHA (f : nat) : Prop :=
    forall f' n, (f' < f)%nat -> (forall w, twalk' n w -> (wsum w <= f')%nat) -> resolve_tag defs f' n <> Diverges.

  Lemma IHA_le : forall f g, (g <= f)%nat -> IHA f -> IHA g.
  Proof. intros f g Hle H f' n Hlt Hw. apply H; [lia | exact Hw]. Qed.

  Lemma type_nodiv : forall t f, IHA f -> (ty_nodes t <= f)%nat ->
    (forall n' w, In n' (tag_refs t) -> twalk' n' w -> (ty_nodes t + wsum w <= f)%nat) ->
    resolve_type_tag defs f t <> Diverges.
  Proof.
    apply (ty_nested_ind _ _ _ (fun t => forall f, IHA f -> (ty_nodes t <= f)%nat ->
      (forall n' w, In n' (tag_refs t) -> twalk' n' w -> (ty_nodes t + wsum w <= f)%nat) ->
      resolve_type_tag defs f t <> Diverges)).
    all: try (intros; match goal with Hn : (ty_nodes ?t <= ?f)%nat |- _ =>
                pose proof (ty_nodes_pos t); destruct f as [|f0]; [lia|] end;
              cbn [resolve_type_tag]; discriminate).
    - (* TString *)
      intros s c f HA Hn Hw. pose proof (ty_nodes_pos (TString s c)). destruct f as [|f0]; [lia|].
      cbn [resolve_type_tag]. destruct c; discriminate.
    - (* TOptional *)
      intros t IH f HA Hn Hw. cbn [ty_nodes] in Hn. destruct f as [|f0]; [lia|]. cbn [resolve_type_tag].
      apply IH; [eapply IHA_le; [|exact HA]; lia | lia |].
      intros n' w Hin Hwk. specialize (Hw n' w Hin Hwk). cbn [ty_nodes] in Hw. lia.
    - (* TDefault *)
      intros t l IH f HA Hn Hw. cbn [ty_nodes] in Hn. destruct f as [|f0]; [lia|]. cbn [resolve_type_tag].
      apply IH; [eapply IHA_le; [|exact HA]; lia | lia |].
      intros n' w Hin Hwk. specialize (Hw n' w Hin Hwk). cbn [ty_nodes] in Hw. lia.
    - (* TChoice *)
      intros vs e HF f HA Hn Hw. rewrite ty_nodes_choice in Hn. destruct f as [|f0]; [lia|].
      rewrite resolve_type_tag_choice. apply choice_scan_nodiv. intros nm t0 Hin.
      pose proof (in_firstn _ _ _ _ Hin) as Hin'.
      rewrite Forall_forall in HF. specialize (HF _ Hin'). cbn [snd] in HF.
      pose proof (choice_nodes_in _ _ _ _ Hin') as Hle.
      apply HF; [eapply IHA_le; [|exact HA]; lia | lia |].
      intros n' w Hr Hwk. assert (Hr' : In n' (tag_refs (TChoice vs e))).
      { cbn [tag_refs]. eapply choice_refs_in; eassumption. }
      specialize (Hw n' w Hr' Hwk). rewrite ty_nodes_choice in Hw. lia.
    - (* TRef *)
      intros n tg f HA Hn Hw. cbn [ty_nodes] in Hn. destruct f as [|f0]; [lia|]. cbn [resolve_type_tag].
      destruct tg as [tg|]; [discriminate|]. apply HA; [lia|].
      intros w Hwk. specialize (Hw n w (or_introl eq_refl) Hwk). cbn [ty_nodes] in Hw. lia.
  Qed.

  (* enough fuel for every walk from n: no divergence *)
  Theorem tag_nodiv : forall F n, (forall w, twalk' n w -> (wsum w <= F)%nat) -> resolve_tag defs F n <> Diverges.
  Proof.
    induction F as [F IH] using lt_wf_ind. intros n Hw.
    assert (Hc : (tcost n <= F)%nat).
    { specialize (Hw [n] (tw_one _ _ _ _ n)). cbn [wsum fold_right] in Hw. lia. }
    destruct F as [|f]; [unfold tcost in Hc; destruct (find _ defs) as [[nm [[[tg|] t] d]]|]; lia|].
    cbn [resolve_tag]. unfold tcost in Hc.
    destruct (find (fun d => str_eqb (fst d) n) defs) as [[nm [[[tg|] t] d]]|] eqn:E; try discriminate.
    apply type_nodiv.
    - intros f' n' Hlt Hw'. apply IH; [lia | exact Hw'].
    - lia.
    - intros n' w Hin Hwk.
      assert (Hs : In n' (tsucc n)).
      { unfold tag_succ. unfold rasn in E. rewrite E. exact Hin. }
      specialize (Hw (n :: w) (tw_cons _ _ _ _ _ _ _ Hs Hwk)).
      cbn [wsum fold_right] in Hw. fold (wsum w) in Hw. unfold tcost in Hw. rewrite E in Hw. lia.
  Qed.

  Theorem type_tag_nodiv : forall t f, (ty_nodes t <= f)%nat ->
    (forall n' w, In n' (tag_refs t) -> twalk' n' w -> (ty_nodes t + wsum w <= f)%nat) ->
    resolve_type_tag defs f t <> Diverges.
  Proof.
    intros t f Hn Hw. apply type_nodiv; [|exact Hn | exact Hw].
    intros f' n Hlt Hw'. apply tag_nodiv. exact Hw'.
  Qed.
End TagTotal.

(* ---- without a cycle every walk is short: the fuel of the model, S (length defs) * S nodes, is enough ---- *)
Ltac tlia := unfold str, rasn, rty, asn in *; lia.
Ltac tnia := unfold str, rasn, rty, asn in *; nia.

Section TagSums.
  Definition lsum {X : Type} (f : X -> nat) (l : list X) : nat := fold_right (fun x acc => (f x + acc)%nat) O l.

  Lemma lsum_app : forall (X : Type) (f : X -> nat) l1 l2, lsum f (l1 ++ l2) = (lsum f l1 + lsum f l2)%nat.
  Proof. intros X f l1 l2. induction l1 as [|x l1 IH]; cbn [lsum fold_right app]; [reflexivity|]. fold (lsum f (l1 ++ l2)). fold (lsum f l1). tlia. Qed.

  (* what a definition costs beyond the one unit of resolve_tag *)
  Definition extra (ds : list (str * rasn)) (n : str) : nat :=
    match find (fun d => str_eqb (fst d) n) ds with
    | Some (_, (None, t, _)) => ty_nodes t
    | _ => O
    end.

  Definition total_nodes (ds : list (str * rasn)) : nat := lsum (fun d => ty_nodes (snd (fst (snd d)))) ds.

  Lemma lsum_cons : forall (X : Type) (f : X -> nat) x l, lsum f (x :: l) = (f x + lsum f l)%nat.
  Proof. reflexivity. Qed.

  Lemma total_nodes_cons : forall d ds, total_nodes (d :: ds) = (ty_nodes (snd (fst (snd d))) + total_nodes ds)%nat.
  Proof. reflexivity. Qed.

  Lemma extra_nil : forall n, extra [] n = O.
  Proof. reflexivity. Qed.

  Lemma extra_cons : forall nm tg t d ds n,
    extra ((nm, (tg, t, d)) :: ds) n =
    if str_eqb nm n then match tg with None => ty_nodes t | Some _ => O end else extra ds n.
  Proof. intros nm tg t d ds n. unfold extra. cbn [find fst]. destruct (str_eqb nm n); [destruct tg|]; reflexivity. Qed.

  Lemma extra_sum : forall ds ks, NoDup ks -> (lsum (extra ds) ks <= total_nodes ds)%nat.
  Proof.
    induction ds as [|[nm [[tg t] d]] ds IH]; intros ks Hnd.
    - clear Hnd. induction ks as [|k ks IHk]; [cbn; tlia|]. rewrite lsum_cons, extra_nil. exact IHk.
    - assert (Hother : forall l, ~ In nm l -> lsum (extra ((nm, (tg, t, d)) :: ds)) l = lsum (extra ds) l).
      { induction l as [|k l IHl]; intros Hn; [reflexivity|]. rewrite !lsum_cons.
        rewrite IHl by (intros Hx; apply Hn; right; exact Hx). rewrite extra_cons.
        destruct (str_eqb nm k) eqn:E; [apply str_eqb_eq in E; subst; exfalso; apply Hn; left; reflexivity | reflexivity]. }
      rewrite total_nodes_cons. cbn [fst snd].
      destruct (in_dec (str_dec) nm ks) as [Hin | Hnin].
      + apply in_split in Hin. destruct Hin as [l1 [l2 ->]].
        apply NoDup_remove in Hnd. destruct Hnd as [Hnd Hnin].
        rewrite lsum_app, lsum_cons.
        rewrite !Hother by (intros Hx; apply Hnin; apply in_or_app; auto).
        specialize (IH (l1 ++ l2)%list Hnd). rewrite lsum_app in IH.
        match goal with |- context [extra ?l nm] => assert (extra l nm <= ty_nodes t)%nat end.
        { rewrite extra_cons, str_eqb_refl. destruct tg; tlia. }
        tlia.
      + rewrite Hother by exact Hnin. specialize (IH ks Hnd). tlia.
  Qed.

  Lemma model_nodes : forall ds : list (str * rasn),
    fold_right (fun d acc => (ty_nodes (snd (fst (snd d))) + acc)%nat) 1%nat ds = S (total_nodes ds).
  Proof.
    induction ds as [|d ds IH]; [reflexivity|]. cbn [fold_right]. rewrite IH. rewrite total_nodes_cons. tlia.
  Qed.

  Lemma total_nodes_in : forall (ds : list (str * rasn)) d, In d ds -> (ty_nodes (snd (fst (snd d))) <= total_nodes ds)%nat.
  Proof.
    induction ds as [|x ds IH]; intros d H; [destruct H|]. rewrite total_nodes_cons.
    destruct H as [-> | H]; [tlia | specialize (IH _ H); tlia].
  Qed.
End TagSums.

Section TagAcyclic.
  Variable defs : list (str * rasn).
  Hypothesis Hacyc : cyclic_b N Z literal defs = false.

  Notation twalk' := (twalk N Z literal defs).

  Lemma wsum_extra : forall w, wsum defs w = (length w + lsum (extra defs) w)%nat.
  Proof.
    induction w as [|n w IH]; [reflexivity|]. rewrite lsum_cons. change (wsum defs (n :: w)) with (tcost defs n + wsum defs w)%nat.
    cbn [length]. rewrite IH. unfold tcost, extra. destruct (find _ defs) as [[nm [[[tg|] t] d]]|]; tlia.
  Qed.

  Lemma walk_nodup : forall n w, twalk' n w -> NoDup w.
  Proof.
    intros n w H. destruct (ListDec.NoDup_dec str_dec w) as [Hnd | Hnd]; [exact Hnd|].
    exfalso. pose proof (dup_walk_cycle _ _ _ _ _ _ H Hnd) as Hc. apply cyclic_b_iff in Hc. congruence.
  Qed.

  Lemma walk_bound : forall n w, twalk' n w -> (wsum defs w <= length defs + S (total_nodes defs))%nat.
  Proof.
    intros n w H. pose proof (walk_nodup _ _ H) as Hnd. rewrite wsum_extra.
    pose proof (extra_sum defs w Hnd) as He.
    pose proof (NoDup_incl_length (NoDup_removelast _ _ Hnd) (twalk_defined _ _ _ _ _ _ H)) as Hl.
    rewrite map_length in Hl. destruct (twalk_hd _ _ _ _ _ _ H) as [r ->].
    rewrite removelast_cons_length in Hl. cbn [length]. tlia.
  Qed.

  Definition model_fuel : nat := (S (length defs) * S (S (total_nodes defs)))%nat.

  Lemma tag_ok : forall f n, (length defs + S (total_nodes defs) <= f)%nat -> resolve_tag defs f n <> Diverges.
  Proof.
    intros f n Hf. apply tag_nodiv. intros w Hw. pose proof (walk_bound _ _ Hw). tlia.
  Qed.

  Lemma type_tag_ok : forall f t, (ty_nodes t + length defs + S (total_nodes defs) <= f)%nat ->
    resolve_type_tag defs f t <> Diverges.
  Proof.
    intros f t Hf. apply type_tag_nodiv; [tlia|]. intros n' w _ Hw. pose proof (walk_bound _ _ Hw). tlia.
  Qed.

  Lemma diverges_false : forall l, l <> Diverges -> diverges l = false.
  Proof. intros [a| |] H; [reflexivity | reflexivity | congruence]. Qed.

  Hypothesis Hne : (1 <= length defs)%nat.

  Lemma fuel_ok : forall t : rty, (ty_nodes t <= total_nodes defs)%nat ->
    (ty_nodes t + length defs + S (total_nodes defs) <= model_fuel)%nat.
  Proof. intros t H. unfold model_fuel. tnia. Qed.

  Definition fields_div_b (fuel : nat) : list rfield -> bool :=
    fix go (l : list rfield) : bool :=
      match l with
      | [] => false
      | (_, (tag, t0, _)) :: r =>
          dtype_diverges defs fuel t0 (match tag with Some _ => true | None => false end) || go r
      end.

  Definition variants_div_b (fuel : nat) : list (str * option atag * rty) -> bool :=
    fix go (l : list (str * option atag * rty)) : bool :=
      match l with
      | [] => false
      | (_, tag, t0) :: r =>
          dtype_diverges defs fuel t0 (match tag with Some _ => true | None => false end) || go r
      end.

  Lemma fields_div_b_false : forall fuel fs,
    Forall (fun f => forall tagged, dtype_diverges defs fuel (snd (fst (snd f))) tagged = false) fs ->
    fields_div_b fuel fs = false.
  Proof.
    intros fuel fs H. induction H as [|[nm [[tg t0] d]] fs Hx _ IH]; [reflexivity|].
    cbn [fields_div_b]. fold (fields_div_b fuel). cbn [fst snd] in Hx. rewrite Hx, IH. reflexivity.
  Qed.

  Lemma variants_div_b_false : forall fuel vs,
    Forall (fun v => forall tagged, dtype_diverges defs fuel (snd v) tagged = false) vs ->
    variants_div_b fuel vs = false.
  Proof.
    intros fuel vs H. induction H as [|[[nm tg] t0] vs Hx _ IH]; [reflexivity|].
    cbn [variants_div_b]. fold (variants_div_b fuel). cbn [snd] in Hx. rewrite Hx, IH. reflexivity.
  Qed.

  Lemma Forall_sub : forall (X : Type) (P Q : X -> Prop) l, Forall P l -> (forall x, In x l -> P x -> Q x) -> Forall Q l.
  Proof.
    intros X P Q l H. induction H as [|x l Hx _ IH]; intros Hpq; constructor.
    - apply Hpq; [left; reflexivity | exact Hx].
    - apply IH. intros y Hy. apply Hpq. right. exact Hy.
  Qed.

  Lemma dtype_ok : forall t tagged, (ty_nodes t <= total_nodes defs)%nat ->
    dtype_diverges defs model_fuel t tagged = false.
  Proof.
    apply (ty_nested_ind _ _ _ (fun t => forall tagged, (ty_nodes t <= total_nodes defs)%nat ->
             dtype_diverges defs model_fuel t tagged = false)); try reflexivity.
    - intros t IH tagged Hn. cbn [dtype_diverges]. cbn [ty_nodes] in Hn.
      rewrite IH by tlia. rewrite orb_false_r. destruct tagged; [reflexivity|].
      apply diverges_false. apply type_tag_ok. apply fuel_ok. tlia.
    - intros t l IH tagged Hn. cbn [dtype_diverges]. cbn [ty_nodes] in Hn.
      rewrite IH by tlia. rewrite orb_false_r. destruct tagged; [reflexivity|].
      apply diverges_false. apply type_tag_ok. apply fuel_ok. tlia.
    - intros fs e HF tagged Hn. rewrite ty_nodes_sequence in Hn.
      change (dtype_diverges defs model_fuel (TSequence fs e) tagged)
        with (fields_div_b model_fuel fs
              || (if tagged then false else diverges (resolve_type_tag defs model_fuel (TSequence fs e)))).
      rewrite fields_div_b_false.
      + destruct tagged; [reflexivity|]. apply diverges_false. apply type_tag_ok. apply fuel_ok.
        rewrite ty_nodes_sequence. exact Hn.
      + eapply Forall_sub; [exact HF|]. intros [nm [[tg t0] d]] Hin Hp tagged'. cbn [fst snd] in *.
        apply Hp. pose proof (fields_nodes_in _ _ _ _ _ Hin). tlia.
    - intros t s IH tagged Hn. cbn [dtype_diverges]. cbn [ty_nodes] in Hn.
      rewrite IH by tlia. rewrite orb_false_r. destruct tagged; [reflexivity|].
      apply diverges_false. apply type_tag_ok. apply fuel_ok. tlia.
    - intros fs e HF tagged Hn. rewrite ty_nodes_set in Hn.
      change (dtype_diverges defs model_fuel (TSet fs e) tagged)
        with (fields_div_b model_fuel fs
              || (if tagged then false else diverges (resolve_type_tag defs model_fuel (TSet fs e)))).
      rewrite fields_div_b_false.
      + destruct tagged; [reflexivity|]. apply diverges_false. apply type_tag_ok. apply fuel_ok.
        rewrite ty_nodes_set. exact Hn.
      + eapply Forall_sub; [exact HF|]. intros [nm [[tg t0] d]] Hin Hp tagged'. cbn [fst snd] in *.
        apply Hp. pose proof (fields_nodes_in _ _ _ _ _ Hin). tlia.
    - intros t s IH tagged Hn. cbn [dtype_diverges]. cbn [ty_nodes] in Hn.
      rewrite IH by tlia. rewrite orb_false_r. destruct tagged; [reflexivity|].
      apply diverges_false. apply type_tag_ok. apply fuel_ok. tlia.
    - intros vs e HF tagged Hn. rewrite ty_nodes_choice in Hn.
      change (dtype_diverges defs model_fuel (TChoice vs e) tagged)
        with (variants_div_b model_fuel vs
              || (if tagged then false else diverges (resolve_type_tag defs model_fuel (TChoice vs e)))).
      rewrite variants_div_b_false.
      + destruct tagged; [reflexivity|]. apply diverges_false. apply type_tag_ok. apply fuel_ok.
        rewrite ty_nodes_choice. exact Hn.
      + eapply Forall_sub; [exact HF|]. intros [[nm tg] t0] Hin Hp tagged'. cbn [snd] in *.
        apply Hp. pose proof (choice_nodes_in _ _ _ _ Hin). tlia.
    - intros n tg tagged Hn. cbn [dtype_diverges]. apply diverges_false. apply tag_ok.
      pose proof (fuel_ok TBoolean) as Hf. cbn [ty_nodes] in Hf. unfold model_fuel in *. tnia.
  Qed.

  Lemma def_ok : forall a : rasn, (ty_nodes (snd (fst a)) <= total_nodes defs)%nat ->
    def_diverges defs model_fuel a = false.
  Proof.
    intros [[tag t] d] Hn. cbn [fst snd] in Hn. unfold def_diverges.
    destruct t as [ |r c|s c|s|s c| |i|i l|fs e|i s|fs e|i s|v e|vs e|n tg]; try reflexivity.
    - cbn [ty_nodes] in Hn. apply dtype_ok. tlia.
    - cbn [ty_nodes] in Hn. apply dtype_ok. tlia.
    - rewrite ty_nodes_sequence in Hn. change (fields_div_b model_fuel fs = false).
      apply fields_div_b_false. apply Forall_forall. intros [nm [[tg t0] d0]] Hin tagged. cbn [fst snd].
      apply dtype_ok. pose proof (fields_nodes_in _ _ _ _ _ Hin). tlia.
    - cbn [ty_nodes] in Hn. apply dtype_ok. tlia.
    - rewrite ty_nodes_set in Hn. change (fields_div_b model_fuel fs = false).
      apply fields_div_b_false. apply Forall_forall. intros [nm [[tg t0] d0]] Hin tagged. cbn [fst snd].
      apply dtype_ok. pose proof (fields_nodes_in _ _ _ _ _ Hin). tlia.
    - cbn [ty_nodes] in Hn. apply dtype_ok. tlia.
    - rewrite ty_nodes_choice in Hn. change (variants_div_b model_fuel vs = false).
      apply variants_div_b_false. apply Forall_forall. intros [[nm tg] t0] Hin tagged. cbn [snd].
      apply dtype_ok. pose proof (choice_nodes_in _ _ _ _ Hin). tlia.
    - apply diverges_false. apply tag_ok. pose proof (fuel_ok TBoolean) as Hf. cbn [ty_nodes] in Hf.
      unfold model_fuel in *. tnia.
  Qed.

End TagAcyclic.

(* no cycle: Model::to_rust's tag resolution returns (with the fuel of the executable model) *)
Theorem acyclic_to_rust_terminates : forall m : amodel rasn,
  cyclic_b N Z literal (m_definitions m) = false -> to_rust_diverges m = false.
Proof.
  intros m Hc. unfold to_rust_diverges. rewrite model_nodes.
  destruct (m_definitions m) as [|d0 ds] eqn:E; [reflexivity|]. rewrite <- E in *.
  assert (Hne : (1 <= length (m_definitions m))%nat) by (rewrite E; cbn [length]; tlia).
  apply not_true_is_false. intros H. apply existsb_exists in H. destruct H as [d [Hin Hd]].
  change (S (length (m_definitions m)) * S (S (total_nodes (m_definitions m))))%nat
    with (model_fuel (m_definitions m)) in Hd.
  rewrite def_ok in Hd; [discriminate | exact Hc | exact Hne |].
  apply total_nodes_in. exact Hin.
Qed.

Theorem to_rust_total : forall m : amodel rasn,
  to_rust_diverges m = true -> Known_C14_untagged_choice_cycle N Z literal (m_definitions m).
Proof.
  intros m H. apply cyclic_b_iff. destruct (cyclic_b N Z literal (m_definitions m)) eqn:E; [reflexivity|].
  rewrite (acyclic_to_rust_terminates m E) in H. discriminate.
Qed.

(* ---- the tag graph of the resolved model is the tag graph of the parsed model ---- *)
Section TagTransfer.
  Variable Ms : list umodel.
  Variable M : umodel.

  Lemma variants_refs : forall vs,
    Forall (fun v => forall t', resolve_ty Ms M (snd v) = ROk t' -> tag_refs t' = tag_refs (snd v)) vs ->
    forall vs', resolve_variants Ms M vs = ROk vs' ->
    length vs' = length vs /\ forall n, choice_refs tag_refs vs' n = choice_refs tag_refs vs n.
  Proof.
    intros vs HF. induction HF as [|[[nm tg] t0] vs Hx _ IH]; intros vs' H.
    - inversion H; subst. split; [reflexivity | intros n; reflexivity].
    - rewrite resolve_variants_cons in H. apply rbind_ok in H. destruct H as [t0' [Ht H]].
      apply rbind_ok in H. destruct H as [r' [Hr H]]. inversion H; subst. cbn [snd] in Hx.
      destruct (IH _ Hr) as [Hl Hc]. split; [cbn [length]; rewrite Hl; reflexivity|].
      intros [|n]; [reflexivity|]. cbn [choice_refs]. fold (@choice_refs N Z literal) (@choice_refs (lit_or_ref N) (lit_or_ref Z) (lit_or_ref literal)).
      rewrite Hc. rewrite (Hx _ Ht). reflexivity.
  Qed.

  Lemma resolve_ty_tag_refs : forall t t', resolve_ty Ms M t = ROk t' -> tag_refs t' = tag_refs t.
  Proof.
    apply (ty_nested_ind _ _ _ (fun t => forall t', resolve_ty Ms M t = ROk t' -> tag_refs t' = tag_refs t)).
    - intros t' H. inversion H; reflexivity.
    - intros [[lo hi] e] c t' H. cbn [resolve_ty] in H.
      apply rbind_ok in H. destruct H as [a [_ H]]. apply rbind_ok in H. destruct H as [b [_ H]]. inversion H; reflexivity.
    - intros s c t' H. cbn [resolve_ty] in H. apply rbind_ok in H. destruct H as [a [_ H]]. inversion H; reflexivity.
    - intros s t' H. cbn [resolve_ty] in H. apply rbind_ok in H. destruct H as [a [_ H]]. inversion H; reflexivity.
    - intros s c t' H. cbn [resolve_ty] in H. apply rbind_ok in H. destruct H as [a [_ H]]. inversion H; reflexivity.
    - intros t' H. inversion H; reflexivity.
    - intros t IH t' H. cbn [resolve_ty] in H. apply rbind_ok in H. destruct H as [a [Ha H]]. inversion H; subst.
      cbn [tag_refs]. apply IH. exact Ha.
    - intros t l IH t' H. cbn [resolve_ty] in H. apply rbind_ok in H. destruct H as [a [Ha H]]. inversion H; subst.
      cbn [tag_refs]. apply IH. exact Ha.
    - intros fs e _ t' H. rewrite resolve_ty_sequence in H. apply rbind_ok in H. destruct H as [a [_ H]].
      inversion H; reflexivity.
    - intros t s _ t' H. cbn [resolve_ty] in H. apply rbind_ok in H. destruct H as [a [_ H]].
      apply rbind_ok in H. destruct H as [b [_ H]]. inversion H; reflexivity.
    - intros fs e _ t' H. rewrite resolve_ty_set in H. apply rbind_ok in H. destruct H as [a [_ H]].
      inversion H; reflexivity.
    - intros t s _ t' H. cbn [resolve_ty] in H. apply rbind_ok in H. destruct H as [a [_ H]].
      apply rbind_ok in H. destruct H as [b [_ H]]. inversion H; reflexivity.
    - intros v e t' H. inversion H; reflexivity.
    - intros vs e HF t' H. rewrite resolve_ty_choice in H. apply rbind_ok in H. destruct H as [vs' [Hv H]].
      inversion H; subst. destruct (variants_refs _ HF _ Hv) as [Hl Hc]. cbn [tag_refs]. rewrite Hc. destruct e; [reflexivity|]. f_equal. exact Hl.
    - intros n tg t' H. inversion H; reflexivity.
  Qed.

  Lemma resolve_definitions_tag_succ : forall l l', resolve_definitions Ms M l = ROk l' ->
    forall n, tag_succ N Z literal l' n = tag_succ _ _ _ l n.
  Proof.
    induction l as [|[nm [[tg t] d]] l IH]; intros l' H n.
    - inversion H; reflexivity.
    - cbn [resolve_definitions] in H. apply rbind_ok in H. destruct H as [a' [Ha H]].
      apply rbind_ok in H. destruct H as [r' [Hr H]]. inversion H; subst.
      unfold resolve_asn in Ha. apply rbind_ok in Ha. destruct Ha as [t' [Ht Ha]].
      apply rbind_ok in Ha. destruct Ha as [d' [_ Ha]]. inversion Ha; subst.
      specialize (IH _ Hr n). unfold tag_succ in *. cbn [find fst].
      destruct (str_eqb nm n); [|exact IH].
      destruct tg; [reflexivity|]. apply resolve_ty_tag_refs. exact Ht.
  Qed.
End TagTransfer.

Lemma tpath_ext : forall (S1 R1 C1 S2 R2 C2 : Type) (d1 : list (str * asn S1 R1 C1)) (d2 : list (str * asn S2 R2 C2)),
  (forall n, tag_succ _ _ _ d1 n = tag_succ _ _ _ d2 n) ->
  forall a b, tpath _ _ _ d1 a b -> tpath _ _ _ d2 a b.
Proof.
  intros S1 R1 C1 S2 R2 C2 d1 d2 He a b H. induction H as [a b H | a b c H _ IH].
  - apply tp_one. rewrite <- He. exact H.
  - eapply tp_cons; [rewrite <- He; exact H | exact IH].
Qed.

(* the class can be read off the PARSED module *)
Theorem untagged_cycle_of_parsed : forall u r, resolve_single u = ROk r ->
  (Known_C14_untagged_choice_cycle N Z literal (m_definitions r) <->
   Known_C14_untagged_choice_cycle _ _ _ (m_definitions u)).
Proof.
  intros u r H. unfold resolve_single, resolve_model in H.
  apply rbind_ok in H. destruct H as [vals [_ H]]. apply rbind_ok in H. destruct H as [defs' [Hd H]].
  inversion H; subst. cbn [m_definitions].
  pose proof (resolve_definitions_tag_succ _ _ _ _ Hd) as He.
  split; intros [n Hn]; exists n.
  - eapply tpath_ext; [|exact Hn]. exact He.
  - eapply tpath_ext; [|exact Hn]. intros x. symmetry. apply He.
Qed.

(* ------------------------------------------------------------------------------------------------------------ *)
(* 4. the front end: tokenizer, parser, resolver, tag resolution of to_rust                                       *)
(* ------------------------------------------------------------------------------------------------------------ *)
From A1 Require Import Front.ParseProofs Front.ParseTotalProofs.

Inductive fe_outcome : Type :=
| FeModel (r : amodel rasn)                       (* every stage returned *)
| FeParseError (k : N) (t : option token)
| FeResolveError (e : rerr)
| FeLexPanic (p : N)
| FeLexError (e : N)
| FeParsePanic (p : N)
| FeParseOutOfFuel
| FeResolveDiverges
| FeTagDiverges.

Definition front_end (m : mode) (s : list N) : fe_outcome :=
  match tokenize m s with
  | Panic p => FeLexPanic p
  | Err e => FeLexError e
  | Ok ts =>
      match parse ts with
      | PErr k t => FeParseError k t
      | PPanic p => FeParsePanic p
      | POutOfFuel => FeParseOutOfFuel
      | POk u =>
          match resolve_single u with
          | RErr e => FeResolveError e
          | RDiverge => FeResolveDiverges
          | ROk r => if to_rust_diverges r then FeTagDiverges else FeModel r
          end
      end
  end.

Theorem front_end_total : forall m s,
  match front_end m s with
  | FeModel _ | FeParseError _ _ | FeResolveError _ => True
  | FeLexPanic p => p = P_OTHER \/ (p = P_ARITH /\ overflow_checks m = true)
  | FeLexError _ | FeParsePanic _ | FeParseOutOfFuel => False
  | FeResolveDiverges =>
      exists ts u, tokenize m s = Ok ts /\ parse ts = POk u /\ Known_C14_cyclic_import [u]
  | FeTagDiverges =>
      exists ts u, tokenize m s = Ok ts /\ parse ts = POk u /\
                   Known_C14_untagged_choice_cycle _ _ _ (m_definitions u)
  end.
Proof.
  intros m s. unfold front_end. destruct (tokenize_outcomes m s) as [HP HE].
  destruct (tokenize m s) as [ts | e | p] eqn:Et.
  - pose proof (parse_total ts) as Hs. destruct (parse ts) as [u | k t | p |] eqn:Ep; cbn [safe] in Hs; try contradiction; [|exact I].
    pose proof (resolve_single_total u) as Hr. destruct (resolve_single u) as [r | e |] eqn:Er; [|exact I|].
    + destruct (to_rust_diverges r) eqn:Ed; [|exact I].
      exists ts, u. split; [reflexivity|]. split; [exact Ep|].
      apply (untagged_cycle_of_parsed u r Er). apply to_rust_total. exact Ed.
    + exists ts, u. split; [reflexivity|]. split; [exact Ep | exact Hr].
  - exact (HE e eq_refl).
  - exact (HP p eq_refl).
Qed.

(* outside the two classes: a model or an error value, or one of the two tokenizer panics *)
Theorem front_end_total' : forall m s,
  (forall ts u, tokenize m s = Ok ts -> parse ts = POk u ->
     ~ Known_C14_cyclic_import [u] /\ ~ Known_C14_untagged_choice_cycle _ _ _ (m_definitions u)) ->
  (exists r, front_end m s = FeModel r) \/ (exists k t, front_end m s = FeParseError k t) \/
  (exists e, front_end m s = FeResolveError e) \/
  (exists p, front_end m s = FeLexPanic p /\ (p = P_OTHER \/ (p = P_ARITH /\ overflow_checks m = true))).
Proof.
  intros m s Hk. pose proof (front_end_total m s) as H.
  destruct (front_end m s) as [r | k t | e | p | e | p | | |]; try contradiction.
  - left. eauto.
  - right. left. eauto.
  - right. right. left. eauto.
  - right. right. right. eauto.
  - destruct H as [ts [u [Ht [Hp Hc]]]]. destruct (Hk ts u Ht Hp) as [Hn _]. contradiction.
  - destruct H as [ts [u [Ht [Hp Hc]]]]. destruct (Hk ts u Ht Hp) as [_ Hn]. contradiction.
Qed.

(* op 3303 of the executable model (what checks/C14.py compares with the crate) answers CRASH exactly when the
   front end diverges in the resolver or in tag resolution *)
Theorem op_3303_crash : forall m flags text, forallb is_scalar text = true ->
  (op_3303 m (flags :: text) = CRASH <->
   front_end m (map Z.to_N text) = FeResolveDiverges \/ front_end m (map Z.to_N text) = FeTagDiverges).
Proof.
  intros m flags text Hs. unfold op_3303, front_end, CRASH. rewrite Hs. cbn [negb].
  destruct (tokenize m (map Z.to_N text)) as [ts | e | p].
  - destruct (parse ts) as [u | k t | p |].
    + destruct (resolve_single u) as [r | e |].
      * destruct (to_rust_diverges r).
        -- split; [intros _; right; reflexivity | intros _; reflexivity].
        -- split; [intros H; discriminate | intros [H | H]; discriminate].
      * split; [intros H; discriminate | intros [H | H]; discriminate].
      * split; [intros _; left; reflexivity | intros _; reflexivity].
    + split; [intros H; discriminate | intros [H | H]; discriminate].
    + split; [intros H; discriminate | intros [H | H]; discriminate].
    + split; [intros H; discriminate | intros [H | H]; discriminate].
  - split; [intros H; discriminate | intros [H | H]; discriminate].
  - split; [intros H; discriminate | intros [H | H]; discriminate].
Qed.
