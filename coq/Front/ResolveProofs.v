(* Front/ResolveProofs.v -- lookup-level facts about the resolver model (Front/Resolve.v). *)
From A1 Require Import Front.Resolve.
Local Open Scope N_scope.

Section Facts.
  Variable scope : list umodel.
  Variable model : umodel.

  (* a reference bound (locally or through IMPORTS, whatever the lookup finds) to the INTEGER literal v resolves
     exactly like the literal v: INTEGER range bounds *)
  Lemma subst_i64 : forall name v,
    value_reference scope (lookup_fuel scope) model name = Found (LInteger v) ->
    resolve_i64 scope model (Ref name) = resolve_i64 scope model (Lit v).
  Proof. intros name v H. unfold resolve_i64. rewrite H. reflexivity. Qed.

  (* SIZE bounds: like the literal, for values that are sizes (0 <= v) *)
  Lemma subst_usize : forall name v,
    (0 <= v)%Z ->
    value_reference scope (lookup_fuel scope) model name = Found (LInteger v) ->
    resolve_usize scope model (Ref name) = resolve_usize scope model (Lit (Z.to_N v)).
  Proof.
    intros name v Hv H. unfold resolve_usize. rewrite H.
    destruct (v <? 0)%Z eqn:E; [apply Z.ltb_lt in E; lia | reflexivity].
  Qed.

  (* a negative value is not a size: resolve error, never a wrapped bound (repair fb434d2) *)
  Lemma negative_usize : forall name v,
    (v < 0)%Z ->
    value_reference scope (lookup_fuel scope) model name = Found (LInteger v) ->
    resolve_usize scope model (Ref name) = RErr (FailedToParseLiteral (name_prefix ++ name)).
  Proof.
    intros name v Hv H. unfold resolve_usize. rewrite H.
    destruct (v <? 0)%Z eqn:E; [reflexivity | apply Z.ltb_ge in E; lia].
  Qed.

  (* DEFAULT values whose component type is not a reference to an ENUMERATED with an item of that name *)
  Lemma subst_default : forall name l t,
    value_reference scope (lookup_fuel scope) model name = Found l ->
    (forall r tg, t <> TRef r tg) ->
    resolve_default scope model t (Some (Ref name)) = resolve_default scope model t (Some (Lit l)).
  Proof.
    intros name l t H Hn. unfold resolve_default, resolve_literal. rewrite H.
    destruct t; try reflexivity. exfalso. eapply Hn. reflexivity.
  Qed.

  Lemma unresolved_i64 : forall name,
    value_reference scope (lookup_fuel scope) model name = NotFound ->
    resolve_i64 scope model (Ref name) = RErr (FailedToResolveReference name) /\
    resolve_usize scope model (Ref name) = RErr (FailedToResolveReference name) /\
    resolve_literal scope model (Ref name) = RErr (FailedToResolveReference name).
  Proof. intros name H. unfold resolve_i64, resolve_usize, resolve_literal. rewrite H. repeat split. Qed.

  Lemma non_integer : forall name l,
    value_reference scope (lookup_fuel scope) model name = Found l ->
    (forall v, l <> LInteger v) ->
    resolve_i64 scope model (Ref name) = RErr (FailedToParseLiteral (name_prefix ++ name)) /\
    resolve_usize scope model (Ref name) = RErr (FailedToParseLiteral (name_prefix ++ name)).
  Proof.
    intros name l H Hn. unfold resolve_i64, resolve_usize. rewrite H.
    destruct l; try (split; reflexivity). exfalso. eapply Hn. reflexivity.
  Qed.

  (* an error of a bound is an error of the SIZE / of the INTEGER type that contains it: never a substituted bound *)
  Lemma size_error_propagates : forall lo hi e err,
    resolve_usize scope model lo = RErr err ->
    resolve_size scope model (SRange lo hi e) = RErr err /\ resolve_size scope model (SFix lo e) = RErr err.
  Proof. intros lo hi e err H. unfold resolve_size. rewrite H. split; reflexivity. Qed.

  Lemma integer_error_propagates : forall lo hi e c err,
    resolve_i64 scope model lo = RErr err ->
    resolve_ty scope model (TInteger (Some lo, hi, e) c) = RErr err.
  Proof. intros lo hi e c err H. cbn [resolve_ty]. unfold resolve_opt_i64. rewrite H. reflexivity. Qed.
End Facts.
