(* Front/ResolveProofs.v -- stub, to be filled *)
