(* Front/ParseProofs.v -- facts about the tokenizer model's failure modes (for C14) and parse-after-print lemmas
   for expression sub-languages of the parser model (for C07). *)
From Coq Require Import String.
From A1 Require Import Front.Lex Front.Parse.
Local Open Scope N_scope.

(* ---------- tokenizer: which panics exist ---------- *)

Definition lex_panic_class (m : mode) (p : N) : Prop :=
  p = P_OTHER \/ (p = P_ARITH /\ overflow_checks m = true).

Lemma nest_incr_cases : forall m n,
  (exists z, nest_incr m n = Ok z) \/ (nest_incr m n = Panic P_ARITH /\ overflow_checks m = true).
Proof.
  intros m n. unfold nest_incr. destruct (n =? I32_MAX)%Z.
  - destruct (overflow_checks m) eqn:E; [right; split; reflexivity | left; eexists; reflexivity].
  - left; eexists; reflexivity.
Qed.

Lemma step_fail : forall m last l c prev n ch pk p,
  step m last l c prev n ch pk = Fail p -> lex_panic_class m p.
Proof.
  intros m last l c prev n ch pk p. unfold step, lex_panic_class.
  destruct (nest_incr_cases m n) as [[z Hz] | [Hz Ho]]; rewrite Hz;
    repeat match goal with
           | |- context [if ?b then _ else _] => destruct b
           | |- context [let (_, _) := ?x in _] => destruct x
           end; intros H; inversion H; subst; auto.
Qed.

Lemma emit_panic : forall out r p, emit out r = Panic p -> r = Panic p.
Proof. intros out [[[a b] c] | e | q] p H; simpl in H; congruence. Qed.

Lemma emit_err : forall out r e, emit out r = Err e -> r = Err e.
Proof. intros out [[[a b] c] | e' | q] e H; simpl in H; congruence. Qed.

Lemma line_loop_outcomes : forall m last l n cs c prev nest,
  (length cs <= n)%nat ->
  (forall p, line_loop m last l c prev nest cs = Panic p -> lex_panic_class m p) /\
  (forall e, line_loop m last l c prev nest cs <> Err e).
Proof.
  intros m last l n. induction n as [|n IH]; intros cs c prev nest Hlen.
  - destruct cs; [|simpl in Hlen; lia]. simpl. split; [intros p H; discriminate | intros e H; discriminate].
  - destruct cs as [|ch rest]; [simpl; split; [intros p H; discriminate | intros e H; discriminate]|].
    simpl in Hlen. cbn [line_loop].
    destruct (step m last l c prev nest ch (hd_error rest)) as [sk pv nl out | | q] eqn:Hs.
    + destruct sk.
      * destruct rest as [|x rest'].
        { split; [intros p H; apply emit_panic in H; discriminate | intros e H; apply emit_err in H; discriminate]. }
        assert (Hl : (length rest' <= n)%nat) by (simpl in Hlen; lia).
        destruct (IH rest' (c + 2) pv nl Hl) as [IP IE].
        split; [intros p H; apply emit_panic in H; eauto | intros e H; apply emit_err in H; eapply IE; eauto].
      * assert (Hl : (length rest <= n)%nat) by lia.
        destruct (IH rest (c + 1) pv nl Hl) as [IP IE].
        split; [intros p H; apply emit_panic in H; eauto | intros e H; apply emit_err in H; eapply IE; eauto].
    + split; [intros p H; discriminate | intros e H; discriminate].
    + split; [intros p H; inversion H; subst; eapply step_fail; eauto | intros e H; discriminate].
Qed.

Lemma lines_loop_outcomes : forall m count ls l prev nest,
  (forall p, lines_loop m count l prev nest ls = Panic p -> lex_panic_class m p) /\
  (forall e, lines_loop m count l prev nest ls <> Err e).
Proof.
  intros m count ls. induction ls as [|ln ls IH]; intros l prev nest.
  - simpl. split; [intros p H; discriminate | intros e H; discriminate].
  - cbn [lines_loop].
    destruct (line_loop_outcomes m (l =? count - 1) l (length ln) ln 0 prev nest (le_n _)) as [LP LE].
    destruct (line_loop m (l =? count - 1) l 0 prev nest ln) as [[[pv nl] out] | e | q] eqn:Hl.
    + destruct (IH (l + 1) None nl) as [IP IE].
      split; [intros p H; apply emit_panic in H; eauto | intros e H; apply emit_err in H; eapply IE; eauto].
    + exfalso. eapply LE. reflexivity.
    + split; [intros p H; inversion H; subst; eauto | intros e H; discriminate].
Qed.

(* Tokenizer::parse never returns an error value, and panics only with the explicit panic! of the unclosed
   comment block (P_OTHER) or, in a build with overflow checks, the i32 overflow of nest_lvl after 2^31 - 1
   unclosed "/*" (P_ARITH) *)
Theorem tokenize_outcomes : forall m s,
  (forall p, tokenize m s = Panic p -> lex_panic_class m p) /\ (forall e, tokenize m s <> Err e).
Proof.
  intros m s. unfold tokenize.
  destruct (lines_loop_outcomes m (N.of_nat (length (lines_of s))) (lines_of s) 0 None 0%Z) as [LP LE].
  destruct (lines_loop m (N.of_nat (length (lines_of s))) 0 None 0%Z (lines_of s)) as [[[pv nl] out] | e | q] eqn:H.
  - split; [intros p Hp; discriminate | intros e He; discriminate].
  - exfalso. eapply LE. reflexivity.
  - split; [intros p Hp; inversion Hp; subst; eauto | intros e He; discriminate].
Qed.


(* ---------- parse-after-print: tags ---------- *)
From A1 Require Import Front.Print.

Lemma numeral_head : forall s n, parse_u64 s = Some n -> exists c r, s = c :: r /\ c <= 57.
Proof.
  intros s n H. destruct s as [|c r]; [discriminate|]. exists c, r. split; [reflexivity|].
  unfold parse_u64, strip_plus in H.
  destruct (c =? 43) eqn:Hc; [apply N.eqb_eq in Hc; lia|].
  cbn [digits_val] in H.
  destruct (is_ascii_digit c) eqn:Hd; [|discriminate].
  unfold is_ascii_digit in Hd. apply andb_true_iff in Hd. destruct Hd as [_ Hd]. apply N.leb_le in Hd. exact Hd.
Qed.

Lemma numeral_not_keyword : forall s n k kw, parse_u64 s = Some n -> 65 <= k ->
  eq_ignore_case s (k :: kw) = false.
Proof.
  intros s n k kw H Hk. destruct (numeral_head s n H) as [c [r [-> Hc]]].
  cbn [eq_ignore_case]. apply andb_false_iff. left. apply N.eqb_neq.
  unfold to_ascii_lower.
  assert (E1 : (65 <=? c) = false) by (apply N.leb_gt; lia). rewrite E1. cbn [andb].
  destruct ((65 <=? k) && (k <=? 90)); lia.
Qed.

Theorem read_tag_print : forall t num rest,
  parse_u64 num = Some (tag_number t) ->
  read_tag (print_tag t num ++ rest) = POk (t, rest).
Proof.
  intros t num rest H. destruct t as [n|n|n|n]; cbn [tag_number] in H.
  - cbn [print_tag app]. unfold read_tag. cbn [next_or_err pbind].
    replace (eq_text_ic (T (KW "UNIVERSAL")) (KW "UNIVERSAL")) with true by (vm_compute; reflexivity).
    cbn [next_or_err pbind]. unfold parse_tag_number, T. cbn [tok_text]. rewrite H. reflexivity.
  - cbn [print_tag app]. unfold read_tag. cbn [next_or_err pbind].
    replace (eq_text_ic (T (KW "APPLICATION")) (KW "UNIVERSAL")) with false by (vm_compute; reflexivity).
    replace (eq_text_ic (T (KW "APPLICATION")) (KW "APPLICATION")) with true by (vm_compute; reflexivity).
    cbn [next_or_err pbind]. unfold parse_tag_number, T. cbn [tok_text]. rewrite H. reflexivity.
  - cbn [print_tag app]. unfold read_tag. cbn [next_or_err pbind].
    assert (E : forall k kw, 65 <= k -> eq_text_ic (T num) (k :: kw) = false).
    { intros k kw Hk. unfold eq_text_ic, T. eapply numeral_not_keyword; eauto. }
    replace (KW "UNIVERSAL") with (85 :: s2n "NIVERSAL") by (vm_compute; reflexivity).
    replace (KW "APPLICATION") with (65 :: s2n "PPLICATION") by (vm_compute; reflexivity).
    replace (KW "PRIVATE") with (80 :: s2n "RIVATE") by (vm_compute; reflexivity).
    rewrite !E by lia. unfold T at 1. cbn [is_text]. unfold parse_tag_number, T. cbn [tok_text]. rewrite H. reflexivity.
  - cbn [print_tag app]. unfold read_tag. cbn [next_or_err pbind].
    replace (eq_text_ic (T (KW "PRIVATE")) (KW "UNIVERSAL")) with false by (vm_compute; reflexivity).
    replace (eq_text_ic (T (KW "PRIVATE")) (KW "APPLICATION")) with false by (vm_compute; reflexivity).
    replace (eq_text_ic (T (KW "PRIVATE")) (KW "PRIVATE")) with true by (vm_compute; reflexivity).
    cbn [next_or_err pbind]. unfold parse_tag_number, T. cbn [tok_text]. rewrite H. reflexivity.
Qed.

(* [ tag ] word  in front of any continuation: next_with_opt_tag returns the word, the tag and the rest *)
Theorem next_with_opt_tag_print : forall t num w rest,
  (forall tg, t = Some tg -> parse_u64 num = Some (tag_number tg)) ->
  next_with_opt_tag (print_opt_tag t num ++ T w :: rest) = POk (T w, t, rest).
Proof.
  intros t num w rest H. destruct t as [tg|].
  - cbn [print_opt_tag app]. unfold next_with_opt_tag. cbn [next_or_err pbind].
    replace (eq_separator (P C_LBRACKET) C_LBRACKET) with true by (vm_compute; reflexivity).
    rewrite <- app_assoc. rewrite read_tag_print by (apply H; reflexivity).
    cbn [pbind app]. unfold next_sep_or_err, next_if_sep.
    replace (eq_separator (P C_RBRACKET) C_RBRACKET) with true by (vm_compute; reflexivity).
    cbn [pbind next_or_err]. reflexivity.
  - cbn [print_opt_tag app]. unfold next_with_opt_tag. cbn [next_or_err pbind].
    unfold T at 1. cbn [eq_separator]. reflexivity.
Qed.

(* ---------- parse-after-print: SIZE ---------- *)

Lemma lit_eqb_spec : forall a b : N, lor_n_eqb (Lit a) (Lit b) = (a =? b).
Proof. reflexivity. Qed.

Lemma size_bound_denotes : forall kw0 kw skip s b,
  65 <= kw0 ->
  (forall r, b = Ref r -> eq_ignore_case r (kw0 :: kw) = false) ->
  denotes_n s b ->
  size_bound (kw0 :: kw) skip (T s) = if lor_n_eqb (Lit skip) b then None else Some b.
Proof.
  intros kw0 kw skip s b Hk Hr H. unfold size_bound, T. cbn [tok_text]. destruct b as [n | r]; cbn [denotes_n] in H.
  - rewrite (numeral_not_keyword s n kw0 kw H Hk). rewrite H. reflexivity.
  - destruct H as [-> [Hp _]]. rewrite (Hr r eq_refl). rewrite Hp. reflexivity.
Qed.

Lemma opt_default_bound : forall skip b,
  opt_default (if lor_n_eqb (Lit skip) b then None else Some b) (Lit skip) = b.
Proof.
  intros skip [n | r]; cbn [lor_n_eqb].
  - destruct (skip =? n) eqn:E; cbn [opt_default]; [apply N.eqb_eq in E; subst; reflexivity | reflexivity].
  - reflexivity.
Qed.

Lemma kw_min : KW "MIN" = 77 :: s2n "IN". Proof. reflexivity. Qed.
Lemma kw_max : KW "MAX" = 77 :: s2n "AX". Proof. reflexivity. Qed.

Lemma denotes_min : forall s b, denotes_n s b ->
  size_bound (KW "MIN") 0 (T s) = if lor_n_eqb (Lit 0) b then None else Some b.
Proof.
  intros s b H. rewrite kw_min. apply size_bound_denotes; [lia | | exact H].
  intros r ->. cbn [denotes_n] in H. rewrite <- kw_min. tauto.
Qed.

Lemma denotes_max : forall s b, denotes_n s b ->
  size_bound (KW "MAX") I64_MAX_N (T s) = if lor_n_eqb (Lit I64_MAX_N) b then None else Some b.
Proof.
  intros s b H. rewrite kw_max. apply size_bound_denotes; [lia | | exact H].
  intros r ->. cbn [denotes_n] in H. rewrite <- kw_max. tauto.
Qed.

Lemma three_dots_ok : forall rest, three_dots (P C_DOT :: P C_DOT :: P C_DOT :: rest) = POk rest.
Proof. reflexivity. Qed.

Theorem read_size_print : forall s sa sb rest,
  size_wf s sa sb ->
  read_size (print_size s sa sb ++ rest) = POk (s, rest).
Proof.
  intros s sa sb rest Hwf. destruct s as [| a e | a b e]; cbn [size_wf] in Hwf; [contradiction | |].
  - (* SIZE(a) / SIZE(a, ...) *)
    unfold read_size. cbn [print_size app].
    replace (next_text_eq_ic_or_err (KW "SIZE") (T (KW "SIZE") :: P C_LPAREN :: T sa :: (ext_toks e ++ [P C_RPAREN]) ++ rest))
      with (POk (T (KW "SIZE"), P C_LPAREN :: T sa :: (ext_toks e ++ [P C_RPAREN]) ++ rest))
      by (unfold next_text_eq_ic_or_err; replace (eq_text_ic (T (KW "SIZE")) (KW "SIZE")) with true by (vm_compute; reflexivity); reflexivity).
    cbn [pbind]. unfold next_sep_or_err at 1. unfold next_if_sep at 1.
    replace (eq_separator (P C_LPAREN) C_LPAREN) with true by reflexivity. cbn [pbind next_or_err].
    rewrite (denotes_min sa a Hwf). rewrite opt_default_bound.
    destruct e; cbn [ext_toks app].
    + replace (peek_is_sep C_DOT (P C_COMMA :: P C_DOT :: P C_DOT :: P C_DOT :: P C_RPAREN :: rest)) with false by reflexivity.
      cbn [negb next_or_err pbind].
      replace (eq_separator (P C_COMMA) C_RPAREN) with false by reflexivity.
      replace (eq_separator (P C_COMMA) C_COMMA) with true by reflexivity.
      rewrite three_dots_ok. cbn [pbind]. reflexivity.
    + replace (peek_is_sep C_DOT (P C_RPAREN :: rest)) with false by reflexivity.
      cbn [negb next_or_err pbind].
      replace (eq_separator (P C_RPAREN) C_RPAREN) with true by reflexivity. reflexivity.
  - (* SIZE(a..b) / SIZE(a..b, ...) *)
    destruct Hwf as [Ha [Hb [Hne Hq]]].
    unfold read_size. cbn [print_size app].
    replace (next_text_eq_ic_or_err (KW "SIZE")
               (T (KW "SIZE") :: P C_LPAREN :: T sa :: P C_DOT :: P C_DOT :: T sb :: (ext_toks e ++ [P C_RPAREN]) ++ rest))
      with (POk (T (KW "SIZE"), P C_LPAREN :: T sa :: P C_DOT :: P C_DOT :: T sb :: (ext_toks e ++ [P C_RPAREN]) ++ rest))
      by (unfold next_text_eq_ic_or_err; replace (eq_text_ic (T (KW "SIZE")) (KW "SIZE")) with true by (vm_compute; reflexivity); reflexivity).
    cbn [pbind]. unfold next_sep_or_err at 1. unfold next_if_sep at 1.
    replace (eq_separator (P C_LPAREN) C_LPAREN) with true by reflexivity. cbn [pbind next_or_err].
    rewrite (denotes_min sa a Ha).
    replace (peek_is_sep C_DOT (P C_DOT :: P C_DOT :: T sb :: (ext_toks e ++ [P C_RPAREN]) ++ rest)) with true by reflexivity.
    cbn [negb]. unfold next_sep_or_err at 1. unfold next_if_sep at 1.
    replace (eq_separator (P C_DOT) C_DOT) with true by reflexivity. cbn [pbind].
    unfold next_sep_or_err at 1. unfold next_if_sep at 1.
    replace (eq_separator (P C_DOT) C_DOT) with true by reflexivity. cbn [pbind next_or_err].
    rewrite (denotes_max sb b Hb).
    assert (Hnot : (if lor_n_eqb (Lit 0) a then None else Some a) = None ->
                   (if lor_n_eqb (Lit I64_MAX_N) b then None else Some b) = None -> False).
    { intros H1 H2. apply Hq. split.
      - destruct a as [n | r]; cbn [lor_n_eqb] in H1; [|discriminate].
        destruct (0 =? n) eqn:E; [apply N.eqb_eq in E; subst; reflexivity | discriminate].
      - destruct b as [n | r]; cbn [lor_n_eqb] in H2; [|discriminate].
        destruct (I64_MAX_N =? n) eqn:E; [apply N.eqb_eq in E; subst; reflexivity | discriminate]. }
    pose proof (opt_default_bound 0 a) as Da. pose proof (opt_default_bound I64_MAX_N b) as Db.
    destruct (if lor_n_eqb (Lit 0) a then None else Some a) as [sa'|] eqn:Ea;
      destruct (if lor_n_eqb (Lit I64_MAX_N) b then None else Some b) as [sb'|] eqn:Eb;
      try (exfalso; apply Hnot; reflexivity);
      rewrite Da, Db;
      (destruct e; cbn [ext_toks app];
       [ replace (next_is_sep C_COMMA (P C_COMMA :: P C_DOT :: P C_DOT :: P C_DOT :: P C_RPAREN :: rest))
           with (true, P C_DOT :: P C_DOT :: P C_DOT :: P C_RPAREN :: rest) by reflexivity;
         rewrite three_dots_ok; cbn [pbind]
       | replace (next_is_sep C_COMMA (P C_RPAREN :: rest)) with (false, P C_RPAREN :: rest) by reflexivity;
         cbn [pbind] ];
       unfold next_sep_or_err, next_if_sep;
       replace (eq_separator (P C_RPAREN) C_RPAREN) with true by reflexivity; cbn [pbind];
       rewrite Hne; reflexivity).
Qed.

(* ---------- parse-after-print: INTEGER ranges ---------- *)

Lemma i64_numeral_head : forall s z, parse_i64 s = Some z -> exists c r, s = c :: r /\ c <= 57.
Proof.
  intros s z H. destruct s as [|c r]; [discriminate|]. exists c, r. split; [reflexivity|].
  unfold parse_i64, strip_plus in H.
  destruct (c =? 45) eqn:Hm; [apply N.eqb_eq in Hm; lia|].
  destruct (c =? 43) eqn:Hp; [apply N.eqb_eq in Hp; lia|].
  cbn [digits_val] in H.
  destruct (is_ascii_digit c) eqn:Hd; [|discriminate].
  unfold is_ascii_digit in Hd. apply andb_true_iff in Hd. destruct Hd as [_ Hd]. apply N.leb_le in Hd. exact Hd.
Qed.

Lemma i64_numeral_not_keyword : forall s z k kw, parse_i64 s = Some z -> 65 <= k ->
  eq_ignore_case s (k :: kw) = false.
Proof.
  intros s z k kw H Hk. destruct (i64_numeral_head s z H) as [c [r [-> Hc]]].
  cbn [eq_ignore_case]. apply andb_false_iff. left. apply N.eqb_neq.
  unfold to_ascii_lower.
  assert (E1 : (65 <=? c) = false) by (apply N.leb_gt; lia). rewrite E1. cbn [andb].
  destruct ((65 <=? k) && (k <=? 90)); lia.
Qed.

Lemma range_bound_denotes : forall kw0 kw s b,
  65 <= kw0 -> denotes_z (kw0 :: kw) s b -> range_bound (kw0 :: kw) (T s) = b.
Proof.
  intros kw0 kw s b Hk H. unfold range_bound, T. cbn [tok_text].
  destruct b as [[z | r]|]; cbn [denotes_z] in H.
  - rewrite (i64_numeral_not_keyword s z kw0 kw H Hk). rewrite H. reflexivity.
  - destruct H as [-> [Hp Hn]]. rewrite Hn, Hp. reflexivity.
  - subst s. replace (eq_ignore_case (kw0 :: kw) (kw0 :: kw)) with true; [reflexivity|].
    symmetry. generalize (kw0 :: kw). intros l. induction l as [|x l IH]; [reflexivity|].
    cbn [eq_ignore_case]. rewrite N.eqb_refl. exact IH.
Qed.

Theorem read_integer_print_range : forall r sa sb rest,
  range_wf r sa sb ->
  read_integer (print_range r sa sb ++ rest) = POk (r, [], rest).
Proof.
  intros [[lo hi] e] sa sb rest Hwf. cbn [range_wf] in Hwf. destruct Hwf as [Ha [Hb [Hq1 Hq2]]].
  unfold read_integer, maybe_read_constants. cbn [print_range app].
  replace (next_is_sep C_LBRACE (P C_LPAREN :: T sa :: P C_DOT :: P C_DOT :: T sb :: (ext_toks e ++ [P C_RPAREN]) ++ rest))
    with (false, P C_LPAREN :: T sa :: P C_DOT :: P C_DOT :: T sb :: (ext_toks e ++ [P C_RPAREN]) ++ rest) by reflexivity.
  cbn [pbind].
  replace (next_is_sep C_LPAREN (P C_LPAREN :: T sa :: P C_DOT :: P C_DOT :: T sb :: (ext_toks e ++ [P C_RPAREN]) ++ rest))
    with (true, T sa :: P C_DOT :: P C_DOT :: T sb :: (ext_toks e ++ [P C_RPAREN]) ++ rest) by reflexivity.
  cbn [next_or_err pbind]. unfold next_sep_or_err at 1. unfold next_if_sep at 1.
  replace (eq_separator (P C_DOT) C_DOT) with true by reflexivity. cbn [pbind].
  unfold next_sep_or_err at 1. unfold next_if_sep at 1.
  replace (eq_separator (P C_DOT) C_DOT) with true by reflexivity. cbn [pbind next_or_err].
  rewrite kw_min in Ha. rewrite kw_max in Hb.
  rewrite kw_min, kw_max.
  rewrite (range_bound_denotes 77 (s2n "IN") sa lo) by (try lia; exact Ha).
  rewrite (range_bound_denotes 77 (s2n "AX") sb hi) by (try lia; exact Hb).
  assert (Hres : forall r8 : toks,
            match lo, hi with
            | Some (Lit 0%Z), None => POk ((None, None, e), @nil (str * Z), r8)
            | None, Some (Lit v) =>
                if (v =? I64_MAX_Z)%Z then POk ((None, None, e), [], r8) else POk ((lo, hi, e), [], r8)
            | _, _ => POk ((lo, hi, e), [], r8)
            end = POk ((lo, hi, e), @nil (str * Z), r8)).
  { intros r8. destruct lo as [[[|p|p] | r]|]; destruct hi as [[z' | r']|]; try reflexivity.
    - exfalso. apply Hq1. split; reflexivity.
    - destruct (z' =? I64_MAX_Z)%Z eqn:E; [|reflexivity]. apply Z.eqb_eq in E. subst z'.
      exfalso. apply Hq2. split; reflexivity. }
  destruct e; cbn [ext_toks app].
  - replace (next_is_sep C_COMMA (P C_COMMA :: P C_DOT :: P C_DOT :: P C_DOT :: P C_RPAREN :: rest))
      with (true, P C_DOT :: P C_DOT :: P C_DOT :: P C_RPAREN :: rest) by reflexivity.
    rewrite three_dots_ok. cbn [pbind]. unfold next_sep_or_err, next_if_sep.
    replace (eq_separator (P C_RPAREN) C_RPAREN) with true by reflexivity. cbn [pbind]. apply Hres.
  - replace (next_is_sep C_COMMA (P C_RPAREN :: rest)) with (false, P C_RPAREN :: rest) by reflexivity.
    cbn [pbind]. unfold next_sep_or_err, next_if_sep.
    replace (eq_separator (P C_RPAREN) C_RPAREN) with true by reflexivity. cbn [pbind]. apply Hres.
Qed.

(* an unconstrained INTEGER consumes nothing when no "{" or "(" follows *)
Theorem read_integer_unconstrained : forall rest,
  peek_is_sep C_LBRACE rest = false -> peek_is_sep C_LPAREN rest = false ->
  read_integer rest = POk ((None, None, false), [], rest).
Proof.
  intros rest H1 H2. unfold read_integer, maybe_read_constants, next_is_sep.
  destruct rest as [|t r]; [reflexivity|].
  cbn [peek_is_sep] in H1, H2. rewrite H1. cbn [pbind]. rewrite H2. reflexivity.
Qed.

(* ---------- parse-after-print: named numbers ---------- *)

Section ConstantsProofs.
  Variable V : Type.
  Variable parser : token -> pres V.

  Definition item_ok (it : str * str * V) : Prop := parser (T (snd (fst it))) = POk (snd it).

  Lemma read_constant_item : forall it rest, item_ok it ->
    read_constant V parser (print_item it ++ rest) = POk (fst (fst it), snd it, rest).
  Proof.
    intros [[name text] v] rest H. unfold item_ok in H. cbn [fst snd] in H.
    unfold read_constant, print_item. cbn [fst snd app next_text_or_err T pbind].
    unfold next_sep_or_err, next_if_sep.
    replace (eq_separator (P C_LPAREN) C_LPAREN) with true by reflexivity. cbn [pbind next_or_err].
    replace (eq_separator (P C_RPAREN) C_RPAREN) with true by reflexivity. cbn [pbind].
    unfold T in *. rewrite H. reflexivity.
  Qed.

  Lemma read_constants_loop_print : forall its fuel acc rest,
    its <> [] -> Forall item_ok its -> (length its <= fuel)%nat ->
    read_constants_loop V parser fuel (print_items its ++ P C_RBRACE :: rest) acc
    = POk ((rev acc ++ map item_value its)%list, rest).
  Proof.
    induction its as [|it its IH]; intros fuel acc rest Hne Hok Hf; [congruence|].
    inversion Hok as [|? ? Hit Hrest]; subst.
    destruct fuel as [|fuel]; [simpl in Hf; lia|].
    destruct its as [|it2 its'].
    - cbn [print_items read_constants_loop]. rewrite read_constant_item by exact Hit.
      cbn [pbind app next_or_err].
      replace (loop_ctrl (P C_RBRACE)) with (@POk bool false) by reflexivity. cbn [pbind].
      cbn [rev map]. reflexivity.
    - change (print_items (it :: it2 :: its')) with (print_item it ++ P C_COMMA :: print_items (it2 :: its')).
      cbn [read_constants_loop]. rewrite <- app_assoc. rewrite read_constant_item by exact Hit.
      cbn [pbind app next_or_err].
      replace (loop_ctrl (P C_COMMA)) with (@POk bool true) by reflexivity. cbn [pbind].
      rewrite IH; [| discriminate | exact Hrest | simpl in Hf |- *; lia].
      cbn [rev map]. rewrite <- app_assoc. reflexivity.
  Qed.

  Lemma print_items_length : forall its : list (str * str * V), (length its <= length (print_items its))%nat.
  Proof.
    induction its as [|it its IH]; [simpl; lia|].
    destruct its as [|it2 its']; [simpl; lia|].
    change (print_items (it :: it2 :: its')) with (print_item it ++ P C_COMMA :: print_items (it2 :: its')).
    rewrite app_length. cbn [length print_item] in *. lia.
  Qed.

  Theorem maybe_read_constants_print : forall its rest,
    Forall item_ok its ->
    (its = [] -> peek_is_sep C_LBRACE rest = false) ->
    maybe_read_constants V parser (print_constants its ++ rest) = POk (map item_value its, rest).
  Proof.
    intros its rest Hok Hfollow. destruct its as [|it its'].
    - cbn [print_constants app map]. unfold maybe_read_constants, next_is_sep.
      specialize (Hfollow eq_refl). destruct rest as [|t r]; [reflexivity|].
      cbn [peek_is_sep] in Hfollow. rewrite Hfollow. reflexivity.
    - unfold print_constants, maybe_read_constants. cbn [app].
      replace (next_is_sep C_LBRACE (P C_LBRACE :: (print_items (it :: its') ++ [P C_RBRACE]) ++ rest))
        with (true, (print_items (it :: its') ++ [P C_RBRACE]) ++ rest) by reflexivity.
      rewrite <- app_assoc. cbn [app].
      rewrite read_constants_loop_print; [reflexivity | discriminate | exact Hok |].
      rewrite app_length. pose proof (print_items_length (it :: its')). cbn [length] in *. lia.
  Qed.
End ConstantsProofs.

(* INTEGER { named numbers } ( range ): named numbers and range together *)
Theorem read_integer_print : forall (its : list (str * str * Z)) r sa sb rest,
  Forall (item_ok Z constant_i64_parser) its ->
  range_wf r sa sb ->
  read_integer (print_constants its ++ print_range r sa sb ++ rest) = POk (r, map item_value its, rest).
Proof.
  intros its r sa sb rest Hok Hwf.
  pose proof (read_integer_print_range r sa sb rest Hwf) as Hr.
  unfold read_integer in *.
  rewrite maybe_read_constants_print; [| exact Hok | intros _; destruct r as [[lo hi] e]; reflexivity].
  cbn [pbind].
  (* the rest of read_integer does not look at the constants: reuse the range theorem *)
  unfold maybe_read_constants in Hr.
  replace (next_is_sep C_LBRACE (print_range r sa sb ++ rest)) with (false, print_range r sa sb ++ rest) in Hr
    by (destruct r as [[lo hi] e]; reflexivity).
  cbn [pbind] in Hr.
  destruct (next_is_sep C_LPAREN (print_range r sa sb ++ rest)) as [b r1].
  destruct b.
  - revert Hr.
    repeat match goal with
           | |- context [pbind ?x _] => destruct x as [? | ? ? | ? |]; cbn [pbind]; try discriminate
           | |- context [let (_, _) := ?x in _] => destruct x
           end; try discriminate; intros Hr.
    all: try (inversion Hr; subst; reflexivity).
    all: repeat match goal with
                | H : match ?x with _ => _ end = _ |- _ => destruct x; try discriminate
                end; try (inversion Hr; subst; reflexivity).
  - inversion Hr; subst. reflexivity.
Qed.

(* ---------- totality of the loop-free productions and of the token-consuming loops (C14) ---------- *)

Definition safe {A : Type} (r : pres A) : Prop :=
  match r with POk _ | PErr _ _ => True | PPanic _ | POutOfFuel => False end.

Lemma safe_bind : forall (A B : Type) (r : pres A) (f : A -> pres B),
  safe r -> (forall a, r = POk a -> safe (f a)) -> safe (pbind r f).
Proof. intros A B [a | k t | p |] f H Hf; cbn [pbind safe] in *; auto. Qed.

Lemma safe_next_or_err : forall ts, safe (next_or_err ts).
Proof. destruct ts; exact I. Qed.
Lemma safe_next_text_or_err : forall ts, safe (next_text_or_err ts).
Proof. destruct ts as [|[|] ?]; exact I. Qed.
Lemma safe_next_text_eq : forall kw ts, safe (next_text_eq_ic_or_err kw ts).
Proof. intros kw [|t r]; cbn; [exact I | destruct (eq_text_ic t kw); exact I]. Qed.
Lemma safe_next_if_sep : forall c ts, safe (next_if_sep c ts).
Proof. intros c [|t r]; cbn; [exact I | destruct (eq_separator t c); exact I]. Qed.
Lemma safe_next_sep_or_err : forall c ts, safe (next_sep_or_err c ts).
Proof.
  intros c ts. unfold next_sep_or_err. apply safe_bind; [apply safe_next_if_sep | intros [? ?] _; exact I].
Qed.
Lemma safe_three_dots : forall ts, safe (three_dots ts).
Proof.
  intros ts. unfold three_dots. repeat (apply safe_bind; [apply safe_next_sep_or_err | intros ? _]).
  apply safe_next_sep_or_err.
Qed.
Lemma safe_parse_tag_number : forall t, safe (parse_tag_number t).
Proof. intros t. unfold parse_tag_number. destruct (tok_text t) as [s|]; [destruct (parse_u64 s)|]; exact I. Qed.

Ltac safe_step :=
  first
    [ exact I
    | apply safe_next_or_err | apply safe_next_text_or_err | apply safe_next_text_eq | apply safe_next_if_sep
    | apply safe_next_sep_or_err | apply safe_three_dots | apply safe_parse_tag_number
    | apply safe_bind; [| let a := fresh "a" in intros a _]
    | match goal with
      | |- safe (if ?b then _ else _) => destruct b
      | |- safe (let (_, _) := ?x in _) => destruct x
      | |- safe (match ?x with _ => _ end) => destruct x
      end ].

Lemma safe_read_tag : forall ts, safe (read_tag ts).
Proof. intros ts. unfold read_tag. repeat safe_step. Qed.

Lemma safe_next_with_opt_tag : forall ts, safe (next_with_opt_tag ts).
Proof.
  intros ts. unfold next_with_opt_tag.
  apply safe_bind; [apply safe_next_or_err | intros [t r] _].
  destruct (eq_separator t C_LBRACKET); [|exact I].
  apply safe_bind; [apply safe_read_tag | intros [tag r1] _].
  repeat safe_step.
Qed.

Lemma safe_read_size : forall ts, safe (read_size ts).
Proof. intros ts. unfold read_size. repeat safe_step. Qed.

Lemma safe_maybe_read_size : forall ts, safe (maybe_read_size ts).
Proof.
  intros ts. unfold maybe_read_size. destruct (next_is_sep C_LPAREN ts) as [b r]. destruct b.
  - apply safe_bind; [apply safe_read_size | intros [s r1] _]. repeat safe_step.
  - destruct (peek_is_text_ic (KW "SIZE") ts); [apply safe_read_size | exact I].
Qed.

(* the helpers consume tokens: lengths of what is left *)
Lemma next_or_err_len : forall ts t r, next_or_err ts = POk (t, r) -> (length r < length ts)%nat.
Proof. intros [|x l] t r H; inversion H; subst; simpl; lia. Qed.
Lemma next_text_or_err_len : forall ts s r, next_text_or_err ts = POk (s, r) -> (length r < length ts)%nat.
Proof. intros [|[? ? s0|? ? ?] l] s r H; inversion H; subst; simpl; lia. Qed.
Lemma next_sep_or_err_len : forall c ts r, next_sep_or_err c ts = POk r -> (length r < length ts)%nat.
Proof.
  intros c [|t l] r H; [discriminate|]. unfold next_sep_or_err, next_if_sep in H.
  destruct (eq_separator t c); inversion H; subst; simpl; lia.
Qed.
Lemma next_is_sep_len : forall c ts b r, next_is_sep c ts = (b, r) -> (length r <= length ts)%nat.
Proof.
  intros c [|t l] b r H; unfold next_is_sep in H; [inversion H; subst; simpl; lia|].
  destruct (eq_separator t c); inversion H; subst; simpl; lia.
Qed.

Lemma safe_read_oid_loop : forall fuel ts acc, (length ts < fuel)%nat -> safe (read_oid_loop fuel ts acc).
Proof.
  induction fuel as [|fuel IH]; intros ts acc Hl; [lia|].
  cbn [read_oid_loop]. destruct ts as [|t r]; [exact I|]. cbn [length] in Hl.
  destruct (eq_separator t C_RBRACE); [exact I|].
  destruct t as [l c ident | l c ch]; [|exact I].
  destruct (forallb is_numeric ident).
  - destruct (parse_u64 ident); [apply IH; lia | exact I].
  - destruct (next_is_sep C_LPAREN r) as [b r1] eqn:E1. apply next_is_sep_len in E1. destruct b.
    + apply safe_bind; [apply safe_next_text_or_err | intros [txt r2] E2]. apply next_text_or_err_len in E2.
      destruct (parse_u64 txt); [|exact I].
      apply safe_bind; [apply safe_next_sep_or_err | intros r3 E3]. apply next_sep_or_err_len in E3.
      apply IH. lia.
    + apply IH. lia.
Qed.

Lemma safe_read_oid : forall ts, safe (read_oid ts).
Proof. intros ts. unfold read_oid. apply safe_read_oid_loop. lia. Qed.

Lemma read_oid_loop_len : forall fuel ts acc o r, read_oid_loop fuel ts acc = POk (o, r) -> (length r <= length ts)%nat.
Proof.
  induction fuel as [|fuel IH]; intros ts acc o r H; [discriminate|].
  cbn [read_oid_loop] in H. destruct ts as [|t l]; [inversion H; subst; simpl; lia|].
  destruct (eq_separator t C_RBRACE); [inversion H; subst; simpl; lia|].
  destruct t as [ln c ident | ln c ch]; [|discriminate].
  destruct (forallb is_numeric ident).
  - destruct (parse_u64 ident); [|discriminate]. apply IH in H. simpl; lia.
  - destruct (next_is_sep C_LPAREN l) as [b r1] eqn:E1. apply next_is_sep_len in E1. destruct b.
    + destruct (next_text_or_err r1) as [[txt r2] | | |] eqn:E2; cbn [pbind] in H; try discriminate.
      apply next_text_or_err_len in E2. destruct (parse_u64 txt); [|discriminate].
      destruct (next_sep_or_err C_RPAREN r2) as [r3 | | |] eqn:E3; cbn [pbind] in H; try discriminate.
      apply next_sep_or_err_len in E3. apply IH in H. simpl; lia.
    + apply IH in H. simpl; lia.
Qed.

Lemma safe_maybe_read_oid : forall ts, safe (maybe_read_oid ts).
Proof.
  intros ts. unfold maybe_read_oid. destruct (next_is_sep C_LBRACE ts) as [b r]. destruct b; [|exact I].
  apply safe_bind; [apply safe_read_oid | intros [o r'] _; exact I].
Qed.

Lemma maybe_read_oid_len : forall ts o r, maybe_read_oid ts = POk (o, r) -> (length r <= length ts)%nat.
Proof.
  intros ts o r H. unfold maybe_read_oid in H. destruct (next_is_sep C_LBRACE ts) as [b r0] eqn:E.
  apply next_is_sep_len in E. destruct b; [|inversion H; subst; lia].
  destruct (read_oid r0) as [[o' r'] | | |] eqn:E2; cbn [pbind] in H; try discriminate.
  inversion H; subst. unfold read_oid in E2. apply read_oid_loop_len in E2. lia.
Qed.

Lemma safe_read_imports_loop : forall fuel ts what acc,
  (length ts < fuel)%nat -> safe (read_imports_loop fuel ts what acc).
Proof.
  induction fuel as [|fuel IH]; intros ts what acc Hl; [lia|].
  cbn [read_imports_loop]. destruct ts as [|t r]; [exact I|]. cbn [length] in Hl.
  destruct (eq_separator t C_SEMI); [exact I|].
  destruct t as [l c text | l c ch]; [|exact I].
  apply safe_bind; [apply safe_next_or_err | intros [t2 r2] E2]. apply next_or_err_len in E2.
  destruct (eq_separator t2 C_COMMA); [apply IH; lia|].
  destruct (eq_text_ic t2 (KW "FROM")); [|apply IH; lia].
  apply safe_bind; [apply safe_next_text_or_err | intros [from r3] E3]. apply next_text_or_err_len in E3.
  apply safe_bind; [apply safe_maybe_read_oid | intros [oid r4] E4]. apply maybe_read_oid_len in E4.
  apply IH. lia.
Qed.

Lemma safe_read_imports : forall ts, safe (read_imports ts).
Proof. intros ts. unfold read_imports. apply safe_read_imports_loop. lia. Qed.

Lemma safe_loop_ctrl : forall t, safe (loop_ctrl t).
Proof. intros t. unfold loop_ctrl. repeat safe_step. Qed.

Lemma safe_read_enumerated_loop : forall fuel ts acc ext,
  (length ts < fuel)%nat -> safe (read_enumerated_loop fuel ts acc ext).
Proof.
  induction fuel as [|fuel IH]; intros ts acc ext Hl; [lia|].
  cbn [read_enumerated_loop].
  destruct (next_if_sep C_DOT ts) as [[marker r] | k tk | p |] eqn:Em.
  - assert (Hr : (length r < length ts)%nat).
    { destruct ts as [|t l]; [discriminate|]. unfold next_if_sep in Em.
      destruct (eq_separator t C_DOT); inversion Em; subst; simpl; lia. }
    destruct acc as [|a acc']; [exact I|]. destruct (negb (is_none_N ext)); [exact I|].
    apply safe_bind; [apply safe_next_sep_or_err | intros r1 E1]. apply next_sep_or_err_len in E1.
    apply safe_bind; [apply safe_next_sep_or_err | intros r2 E2]. apply next_sep_or_err_len in E2.
    apply safe_bind; [apply safe_next_or_err | intros [t r3] E3]. apply next_or_err_len in E3.
    apply safe_bind; [apply safe_loop_ctrl | intros cont _].
    destruct cont; [apply IH; lia | exact I].
  - apply safe_bind; [apply safe_next_text_or_err | intros [name r] E0]. apply next_text_or_err_len in E0.
    apply safe_bind; [apply safe_next_or_err | intros [t r1] E1]. apply next_or_err_len in E1.
    destruct (eq_separator t C_COMMA || eq_separator t C_RBRACE).
    + apply safe_bind; [apply safe_loop_ctrl | intros cont _]. destruct cont; [apply IH; lia | exact I].
    + destruct (eq_separator t C_LPAREN).
      * apply safe_bind; [apply safe_next_or_err | intros [nt r2] E2]. apply next_or_err_len in E2.
        destruct (match tok_text nt with Some s => parse_u64 s | None => None end); [|exact I].
        apply safe_bind; [apply safe_next_sep_or_err | intros r3 E3]. apply next_sep_or_err_len in E3.
        apply safe_bind; [apply safe_next_or_err | intros [t' r4] E4]. apply next_or_err_len in E4.
        apply safe_bind; [apply safe_loop_ctrl | intros cont _]. destruct cont; [apply IH; lia | exact I].
      * apply safe_bind; [apply safe_loop_ctrl | intros cont _]. destruct cont; [apply IH; lia | exact I].
  - exfalso. pose proof (safe_next_if_sep C_DOT ts) as S. rewrite Em in S. exact S.
  - exfalso. pose proof (safe_next_if_sep C_DOT ts) as S. rewrite Em in S. exact S.
Qed.

Lemma safe_read_enumerated : forall ts, safe (read_enumerated ts).
Proof.
  intros ts. unfold read_enumerated.
  apply safe_bind; [apply safe_next_sep_or_err | intros r _]. apply safe_read_enumerated_loop. lia.
Qed.
