(* Front/ParseProofs.v -- stub, to be filled *)
