(* Front/ParseProofs.v -- facts about the tokenizer model's failure modes (for C14) and parse-after-print lemmas
   for expression sub-languages of the parser model (for C07). *)
From Coq Require Import String.
From A1 Require Import Front.Lex Front.Parse.
Local Open Scope N_scope.

(* ---------- tokenizer: which panics exist ---------- *)

Definition lex_panic_class (m : mode) (p : N) : Prop :=
  p = P_OTHER \/ (p = P_ARITH /\ overflow_checks m = true).

Lemma nest_incr_cases : forall m n,
  (exists z, nest_incr m n = Ok z) \/ (nest_incr m n = Panic P_ARITH /\ overflow_checks m = true).
Proof.
  intros m n. unfold nest_incr. destruct (n =? I32_MAX)%Z.
  - destruct (overflow_checks m) eqn:E; [right; split; reflexivity | left; eexists; reflexivity].
  - left; eexists; reflexivity.
Qed.

Lemma step_fail : forall m last l c prev n ch pk p,
  step m last l c prev n ch pk = Fail p -> lex_panic_class m p.
Proof.
  intros m last l c prev n ch pk p. unfold step, lex_panic_class.
  destruct (nest_incr_cases m n) as [[z Hz] | [Hz Ho]]; rewrite Hz;
    repeat match goal with
           | |- context [if ?b then _ else _] => destruct b
           | |- context [let (_, _) := ?x in _] => destruct x
           end; intros H; inversion H; subst; auto.
Qed.

Lemma emit_panic : forall out r p, emit out r = Panic p -> r = Panic p.
Proof. intros out [[[a b] c] | e | q] p H; simpl in H; congruence. Qed.

Lemma emit_err : forall out r e, emit out r = Err e -> r = Err e.
Proof. intros out [[[a b] c] | e' | q] e H; simpl in H; congruence. Qed.

Lemma line_loop_outcomes : forall m last l n cs c prev nest,
  (length cs <= n)%nat ->
  (forall p, line_loop m last l c prev nest cs = Panic p -> lex_panic_class m p) /\
  (forall e, line_loop m last l c prev nest cs <> Err e).
Proof.
  intros m last l n. induction n as [|n IH]; intros cs c prev nest Hlen.
  - destruct cs; [|simpl in Hlen; lia]. simpl. split; [intros p H; discriminate | intros e H; discriminate].
  - destruct cs as [|ch rest]; [simpl; split; [intros p H; discriminate | intros e H; discriminate]|].
    simpl in Hlen. cbn [line_loop].
    destruct (step m last l c prev nest ch (hd_error rest)) as [sk pv nl out | | q] eqn:Hs.
    + destruct sk.
      * destruct rest as [|x rest'].
        { split; [intros p H; apply emit_panic in H; discriminate | intros e H; apply emit_err in H; discriminate]. }
        assert (Hl : (length rest' <= n)%nat) by (simpl in Hlen; lia).
        destruct (IH rest' (c + 2) pv nl Hl) as [IP IE].
        split; [intros p H; apply emit_panic in H; eauto | intros e H; apply emit_err in H; eapply IE; eauto].
      * assert (Hl : (length rest <= n)%nat) by lia.
        destruct (IH rest (c + 1) pv nl Hl) as [IP IE].
        split; [intros p H; apply emit_panic in H; eauto | intros e H; apply emit_err in H; eapply IE; eauto].
    + split; [intros p H; discriminate | intros e H; discriminate].
    + split; [intros p H; inversion H; subst; eapply step_fail; eauto | intros e H; discriminate].
Qed.

Lemma lines_loop_outcomes : forall m count ls l prev nest,
  (forall p, lines_loop m count l prev nest ls = Panic p -> lex_panic_class m p) /\
  (forall e, lines_loop m count l prev nest ls <> Err e).
Proof.
  intros m count ls. induction ls as [|ln ls IH]; intros l prev nest.
  - simpl. split; [intros p H; discriminate | intros e H; discriminate].
  - cbn [lines_loop].
    destruct (line_loop_outcomes m (l =? count - 1) l (length ln) ln 0 prev nest (le_n _)) as [LP LE].
    destruct (line_loop m (l =? count - 1) l 0 prev nest ln) as [[[pv nl] out] | e | q] eqn:Hl.
    + destruct (IH (l + 1) None nl) as [IP IE].
      split; [intros p H; apply emit_panic in H; eauto | intros e H; apply emit_err in H; eapply IE; eauto].
    + exfalso. eapply LE. reflexivity.
    + split; [intros p H; inversion H; subst; eauto | intros e H; discriminate].
Qed.

(* Tokenizer::parse never returns an error value, and panics only with the explicit panic! of the unclosed
   comment block (P_OTHER) or, in a build with overflow checks, the i32 overflow of nest_lvl after 2^31 - 1
   unclosed "/*" (P_ARITH) *)
Theorem tokenize_outcomes : forall m s,
  (forall p, tokenize m s = Panic p -> lex_panic_class m p) /\ (forall e, tokenize m s <> Err e).
Proof.
  intros m s. unfold tokenize.
  destruct (lines_loop_outcomes m (N.of_nat (length (lines_of s))) (lines_of s) 0 None 0%Z) as [LP LE].
  destruct (lines_loop m (N.of_nat (length (lines_of s))) 0 None 0%Z (lines_of s)) as [[[pv nl] out] | e | q] eqn:H.
  - split; [intros p Hp; discriminate | intros e He; discriminate].
  - exfalso. eapply LE. reflexivity.
  - split; [intros p Hp; inversion Hp; subst; eauto | intros e He; discriminate].
Qed.


(* ---------- parse-after-print: tags ---------- *)
From A1 Require Import Front.Print.

Lemma numeral_head : forall s n, parse_u64 s = Some n -> exists c r, s = c :: r /\ c <= 57.
Proof.
  intros s n H. destruct s as [|c r]; [discriminate|]. exists c, r. split; [reflexivity|].
  unfold parse_u64, strip_plus in H.
  destruct (c =? 43) eqn:Hc; [apply N.eqb_eq in Hc; lia|].
  cbn [digits_val] in H.
  destruct (is_ascii_digit c) eqn:Hd; [|discriminate].
  unfold is_ascii_digit in Hd. apply andb_true_iff in Hd. destruct Hd as [_ Hd]. apply N.leb_le in Hd. exact Hd.
Qed.

Lemma numeral_not_keyword : forall s n k kw, parse_u64 s = Some n -> 65 <= k ->
  eq_ignore_case s (k :: kw) = false.
Proof.
  intros s n k kw H Hk. destruct (numeral_head s n H) as [c [r [-> Hc]]].
  cbn [eq_ignore_case]. apply andb_false_iff. left. apply N.eqb_neq.
  unfold to_ascii_lower.
  assert (E1 : (65 <=? c) = false) by (apply N.leb_gt; lia). rewrite E1. cbn [andb].
  destruct ((65 <=? k) && (k <=? 90)); lia.
Qed.

Theorem read_tag_print : forall t num rest,
  parse_u64 num = Some (tag_number t) ->
  read_tag (print_tag t num ++ rest) = POk (t, rest).
Proof.
  intros t num rest H. destruct t as [n|n|n|n]; cbn [tag_number] in H.
  - cbn [print_tag app]. unfold read_tag. cbn [next_or_err pbind].
    replace (eq_text_ic (T (KW "UNIVERSAL")) (KW "UNIVERSAL")) with true by (vm_compute; reflexivity).
    cbn [next_or_err pbind]. unfold parse_tag_number, T. cbn [tok_text]. rewrite H. reflexivity.
  - cbn [print_tag app]. unfold read_tag. cbn [next_or_err pbind].
    replace (eq_text_ic (T (KW "APPLICATION")) (KW "UNIVERSAL")) with false by (vm_compute; reflexivity).
    replace (eq_text_ic (T (KW "APPLICATION")) (KW "APPLICATION")) with true by (vm_compute; reflexivity).
    cbn [next_or_err pbind]. unfold parse_tag_number, T. cbn [tok_text]. rewrite H. reflexivity.
  - cbn [print_tag app]. unfold read_tag. cbn [next_or_err pbind].
    assert (E : forall k kw, 65 <= k -> eq_text_ic (T num) (k :: kw) = false).
    { intros k kw Hk. unfold eq_text_ic, T. eapply numeral_not_keyword; eauto. }
    replace (KW "UNIVERSAL") with (85 :: s2n "NIVERSAL") by (vm_compute; reflexivity).
    replace (KW "APPLICATION") with (65 :: s2n "PPLICATION") by (vm_compute; reflexivity).
    replace (KW "PRIVATE") with (80 :: s2n "RIVATE") by (vm_compute; reflexivity).
    rewrite !E by lia. unfold T at 1. cbn [is_text]. unfold parse_tag_number, T. cbn [tok_text]. rewrite H. reflexivity.
  - cbn [print_tag app]. unfold read_tag. cbn [next_or_err pbind].
    replace (eq_text_ic (T (KW "PRIVATE")) (KW "UNIVERSAL")) with false by (vm_compute; reflexivity).
    replace (eq_text_ic (T (KW "PRIVATE")) (KW "APPLICATION")) with false by (vm_compute; reflexivity).
    replace (eq_text_ic (T (KW "PRIVATE")) (KW "PRIVATE")) with true by (vm_compute; reflexivity).
    cbn [next_or_err pbind]. unfold parse_tag_number, T. cbn [tok_text]. rewrite H. reflexivity.
Qed.

(* [ tag ] word  in front of any continuation: next_with_opt_tag returns the word, the tag and the rest *)
Theorem next_with_opt_tag_print : forall t num w rest,
  (forall tg, t = Some tg -> parse_u64 num = Some (tag_number tg)) ->
  next_with_opt_tag (print_opt_tag t num ++ T w :: rest) = POk (T w, t, rest).
Proof.
  intros t num w rest H. destruct t as [tg|].
  - cbn [print_opt_tag app]. unfold next_with_opt_tag. cbn [next_or_err pbind].
    replace (eq_separator (P C_LBRACKET) C_LBRACKET) with true by (vm_compute; reflexivity).
    rewrite <- app_assoc. rewrite read_tag_print by (apply H; reflexivity).
    cbn [pbind app]. unfold next_sep_or_err, next_if_sep.
    replace (eq_separator (P C_RBRACKET) C_RBRACKET) with true by (vm_compute; reflexivity).
    cbn [pbind next_or_err]. reflexivity.
  - cbn [print_opt_tag app]. unfold next_with_opt_tag. cbn [next_or_err pbind].
    unfold T at 1. cbn [eq_separator]. reflexivity.
Qed.
