(* Front/EmitProofs.v -- emitted names do not collide beyond the mangling, integer constants fit their declared type
   (Props/C09.v), on top of Front/CodegenProofs.v and Front/Descr.v *)
From A1 Require Import Base.Res Gen.Keywords Front.IntTy Front.Codegen Front.CodegenProofs Front.Attr Front.Descr.
From Coq Require Import ZifyBool ZifyNat ZifyN String.
Local Open Scope N_scope.

(* ------------------------------------------------------------------ the last character of a mangled component name *)
Lemma module_go_last pad : forall s o pl pa,
  s <> [] -> is_sep (last s 0) = false ->
  exists t x, module_go pad s o pl pa = t ++ [x] /\ x <> USCORE.
Proof.
  induction s as [|c rest IH]; intros o pl pa Hne Hlast; [contradiction|].
  destruct rest as [|c' rest'].
  - cbn [last] in Hlast. cbn [module_go].
    destruct (is_upper c) eqn:Eu.
    + cbn [module_go rev]. eexists; eexists; split; [reflexivity|]. revert Eu. unf. intros H. rewrite H. lia.
    + rewrite Hlast. cbn [module_go rev]. eexists; eexists; split; [reflexivity|]. revert Hlast. unf. lia.
  - assert (Hl : is_sep (last (c' :: rest') 0) = false) by exact Hlast.
    assert (Hn : c' :: rest' <> []) by discriminate.
    cbn [module_go]. destruct (is_upper c); [|destruct (is_sep c)]; apply IH; assumption.
Qed.

Lemma hyphens_ok_last : forall s, s <> [] -> hyphens_ok s = true -> last s 0 <> HYPHEN.
Proof.
  induction s as [|c rest IH]; intros Hne H; [contradiction|]. cbn [hyphens_ok] in H. apply andb_true_iff in H. destruct H as [H1 H2].
  destruct rest as [|c' rest'].
  - cbn [last]. destruct (c =? HYPHEN) eqn:E; [discriminate|]. apply N.eqb_neq. exact E.
  - change (last (c :: c' :: rest') 0) with (last (c' :: rest') 0). apply IH; [discriminate | exact H2].
Qed.

Lemma forallb_last (f : N -> bool) : forall s, s <> [] -> forallb f s = true -> f (last s 0) = true.
Proof.
  induction s as [|c rest IH]; intros Hne H; [contradiction|]. cbn [forallb] in H. apply andb_true_iff in H. destruct H as [H1 H2].
  destruct rest as [|c' rest']; [exact H1|]. change (last (c :: c' :: rest') 0) with (last (c' :: rest') 0). apply IH; [discriminate | exact H2].
Qed.

Lemma identifier_last_not_sep s : asn_identifier s = true -> s <> [] /\ is_sep (last s 0) = false.
Proof.
  destruct s as [|c rest]; [discriminate|]. unfold asn_identifier. intros H.
  apply andb_true_iff in H. destruct H as [H Hh]. apply andb_true_iff in H. destruct H as [Hc Hrest].
  split; [discriminate|].
  assert (Hall : forallb asn_char (c :: rest) = true).
  { cbn [forallb]. rewrite Hrest, andb_true_r. revert Hc. unf. lia. }
  pose proof (forallb_last asn_char (c :: rest) ltac:(discriminate) Hall) as Ha.
  pose proof (hyphens_ok_last (c :: rest) ltac:(discriminate) Hh) as Hl.
  revert Ha Hl. generalize (last (c :: rest) 0). intros x. unf. lia.
Qed.

Lemma field_name_no_trailing_uscore s :
  asn_identifier s = true -> exists t x, rust_field_name s = t ++ [x] /\ x <> USCORE.
Proof.
  intros H. destruct (identifier_last_not_sep s H) as [Hne Hl].
  unfold rust_field_name, rust_module_name. apply module_go_last; assumption.
Qed.

(* ------------------------------------------------------------------ the keyword escape is injective on mangled names *)
Lemma field_name_okc s : asn_identifier s = true -> Forall (fun x => okc x = true) (rust_field_name s).
Proof.
  intros H. destruct (field_name_shape s H) as [c [t [E [Hc Ht]]]]. rewrite E. constructor; [revert Hc; unf; lia | exact Ht].
Qed.

Lemma emit_field_cases s : asn_identifier s = true ->
  emit_field s = rust_field_name s \/ emit_field s = rust_field_name s ++ [USCORE].
Proof.
  intros H. unfold emit_field, gen_field_name. rewrite (replace_hyphen_id _ (field_name_okc s H)). cbn [andb].
  destruct (mem_str (rust_field_name s) KEYWORDS); [right | left]; reflexivity.
Qed.

Lemma emit_field_inj a b :
  asn_identifier a = true -> asn_identifier b = true -> emit_field a = emit_field b -> rust_field_name a = rust_field_name b.
Proof.
  intros Ha Hb E.
  destruct (field_name_no_trailing_uscore a Ha) as [ta [xa [Ea Hxa]]].
  destruct (field_name_no_trailing_uscore b Hb) as [tb [xb [Eb Hxb]]].
  destruct (emit_field_cases a Ha) as [Ca|Ca], (emit_field_cases b Hb) as [Cb|Cb]; rewrite Ca, Cb in E.
  - exact E.
  - exfalso. rewrite Ea in E. apply app_inj_tail in E. destruct E as [_ E]. apply Hxa. exact E.
  - exfalso. rewrite Eb in E. symmetry in E. apply app_inj_tail in E. destruct E as [_ E]. apply Hxb. exact E.
  - apply app_inj_tail in E. destruct E as [E _]. exact E.
Qed.

Lemma NoDup_map_compose {A B C : Type} (f : A -> B) (g : A -> C) : forall l,
  (forall x y, In x l -> In y l -> g x = g y -> f x = f y) -> NoDup (map f l) -> NoDup (map g l).
Proof.
  induction l as [|a l IH]; intros Hinj Hd; [constructor|]. cbn [map] in *. inversion Hd as [|? ? Hnotin Hd']; subst.
  constructor.
  - intros Hin. apply in_map_iff in Hin. destruct Hin as [y [Ey Hy]]. apply Hnotin.
    rewrite <- (Hinj y a (or_intror Hy) (or_introl eq_refl) Ey). apply in_map. exact Hy.
  - apply IH; [|exact Hd']. intros x y Hx Hy. apply Hinj; right; assumption.
Qed.

Definition distinct_after_mangling (mangle : list N -> list N) (names : list (list N)) : Prop := NoDup (map mangle names).

Lemma no_collision_fields names :
  Forall (fun s => asn_identifier s = true) names ->
  distinct_after_mangling rust_field_name names -> NoDup (map emit_field names).
Proof.
  intros Hall Hd. apply (NoDup_map_compose rust_field_name emit_field names); [|exact Hd].
  rewrite Forall_forall in Hall. intros x y Hx Hy. apply emit_field_inj; apply Hall; assumption.
Qed.

Lemma emit_variant_is_mangled s :
  (asn_identifier s = true \/ asn_typereference s = true) -> emit_variant s = rust_variant_name s.
Proof. intros H. destruct (variant_name_shape s H) as [u [t [E [_ [_ Ee]]]]]. rewrite Ee, E. reflexivity. Qed.

Lemma no_collision_variants names :
  Forall (fun s => asn_identifier s = true \/ asn_typereference s = true) names ->
  distinct_after_mangling rust_variant_name names -> NoDup (map emit_variant names).
Proof.
  intros Hall Hd. apply (NoDup_map_compose rust_variant_name emit_variant names); [|exact Hd].
  rewrite Forall_forall in Hall. intros x y Hx Hy E. rewrite <- !emit_variant_is_mangled; [exact E | apply Hall; exact Hy | apply Hall; exact Hx].
Qed.

Lemma no_collision_types names :
  distinct_after_mangling rust_struct_or_enum_name names -> NoDup (map emit_type names).
Proof. intros Hd. exact Hd. Qed.

(* ------------------------------------------------------------------ integer constants: fmt_const *)
Local Open Scope Z_scope.

(* RustType::to_const_lit_string, as far as integer constants are concerned *)
Inductive const_ty := CTInt (k : ikind) | CTOption (t : const_ty) | CTOther.
Fixpoint const_lit_type (t : rty) : const_ty :=
  match t with
  | RInt k _ _ _ => CTInt k
  | ROption t' => CTOption (const_lit_type t')
  | RDefault t' _ => const_lit_type t'
  | _ => CTOther
  end.

(* impl_consts (generate/rust.rs, since /repo fd1f3f1): an associated constant is declared with
   `r#type.as_no_option().to_const_lit_string()` -- Option wrappers (extension additions) are stripped, Default is looked
   through by to_const_lit_string itself.  (Value references go through fmt_const with their own type, no Option there.) *)
Definition assoc_const_type (t : rty) : const_ty := const_lit_type (as_no_option t).

Lemma assoc_const_type_option t : assoc_const_type (ROption t) = assoc_const_type t.
Proof. reflexivity. Qed.

(* what C15 establishes for the integer types to_rust chooses: the bounds are values of the kind; only u64 lacks bounds *)
Definition int_wf (k : ikind) (mn mx : option Z) : Prop :=
  (forall a, mn = Some a -> kmin k <= a) /\ (forall b, mx = Some b -> b <= kmax k) /\ ((mn = None \/ mx = None) -> k = U64).

(* F09-9 / F09-10 *)
Definition Known_C09_const_negative_on_unsigned (k : ikind) (z : Z) : Prop := signed k = false /\ z < 0.
Definition Known_C09_const_out_of_constraint (mn mx : option Z) (z : Z) : Prop :=
  (exists a, mn = Some a /\ z < a) \/ (exists b, mx = Some b /\ b < z).

Lemma consts_typed k mn mx z :
  int_wf k mn mx -> i64_min <= z <= i64_max ->
  ~ Known_C09_const_negative_on_unsigned k z -> ~ Known_C09_const_out_of_constraint mn mx z ->
  fits k z.
Proof.
  intros [Hmn [Hmx Hu]] Hz Hneg Hout. unfold fits.
  unfold Known_C09_const_negative_on_unsigned, Known_C09_const_out_of_constraint in *.
  split.
  - destruct mn as [a|].
    + specialize (Hmn a eq_refl). assert (~ z < a) by (intros H; apply Hout; left; exists a; split; [reflexivity | exact H]). lia.
    + rewrite (Hu (or_introl eq_refl)) in *. cbn [kmin]. cbn [signed] in Hneg. destruct (Z.ltb_spec z 0); [exfalso; apply Hneg; split; [reflexivity | assumption] | assumption].
  - destruct mx as [b|].
    + specialize (Hmx b eq_refl). assert (~ b < z) by (intros H; apply Hout; right; exists b; split; [reflexivity | exact H]). lia.
    + rewrite (Hu (or_intror eq_refl)). cbn [kmax]. unfold i64_max in Hz. lia.
Qed.
