(* Front/Tags.v -- tags and SET ordering (property C16).

   Models, function for function, the path a SEQUENCE/SET definition takes through asn1rs:

     asn/tag.rs            Tag (derived Ord), Tag::DEFAULT_*
     asn/components.rs     ComponentTypeList::try_from       (position of `...` -> extension_after)
     asn/tag_resolver.rs   TagResolver::{resolve_tag, resolve_type_tag, resolve_no_default}
     rust.rs               asn_fields_to_rust_fields, definition_type_to_rust_type, RustType::tag,
                           RustType::{no_option, is_optional}
     generate/rust.rs      add_definition (the `extensible_after(<name of fields[index]>)` attribute),
                           asn_attribute_type (`complex(Name[, tag(..)])`)
     proc_macro/attribute.rs  `complex(Name, tag(..))` -- the tag is mandatory when the attribute is read back
     proc_macro/mod.rs     into_asn, expand
     generate/walker.rs    write_constraints, assign_implicit_tags, write_field_constraint (the TAG constant),
                           sort_fields_canonically, write_sequence_or_set_constraint (own TAG, read_seq/write_seq
                           order), write_sequence_constraint_insert_consts (STD_OPTIONAL_FIELDS, EXTENDED_AFTER_FIELD)

   Names are not modelled: a component is identified by its textual index, a referenced definition by its
   index in the module (or `RUndef` for a name the module does not define).  The module header's tag default
   (`AUTOMATIC TAGS` ...) is skipped by the parser (Model::try_from: skip_until_after_text_ignore_ascii_case
   "BEGIN") and therefore is not an input of any function below. *)
From A1 Require Export Base.Res.
From A1 Require Import Gen.TagConsts.
Local Open Scope N_scope.

(* ------------------------------------------------------------------------- *)
(** * asn/tag.rs *)

Inductive tclass := Universal | Application | ContextSpecific | Private.
Definition tag : Type := tclass * N.

(* the class codes used by gen/consts.py *)
Definition class_code (c : tclass) : N :=
  match c with Universal => 0 | Application => 1 | ContextSpecific => 2 | Private => 3 end.
Definition class_of_code (n : N) : tclass :=
  match n with 0 => Universal | 1 => Application | 2 => ContextSpecific | _ => Private end.
Definition tag_of_code (p : N * N) : tag := (class_of_code (fst p), snd p).

(* #[derive(PartialOrd, Ord)] on `enum Tag`: variants compare by their position in the declaration,
   equal variants by their payload.  The declaration order comes from the generated file. *)
Fixpoint index_of (x : N) (l : list N) : nat :=
  match l with
  | [] => O
  | y :: l' => if x =? y then O else S (index_of x l')
  end.
Definition class_rank (c : tclass) : nat := index_of (class_code c) TAG_VARIANT_ORDER.
Definition tag_cmp (a b : tag) : comparison :=
  match Nat.compare (class_rank (fst a)) (class_rank (fst b)) with
  | Eq => N.compare (snd a) (snd b)
  | c => c
  end.
(* derived Ord of Option<T>: None < Some *)
Definition otag_cmp (a b : option tag) : comparison :=
  match a, b with
  | None, None => Eq
  | None, Some _ => Lt
  | Some _, None => Gt
  | Some x, Some y => tag_cmp x y
  end.
(* Ord of bool: false < true *)
Definition bool_cmp (a b : bool) : comparison :=
  match a, b with
  | false, true => Lt
  | true, false => Gt
  | _, _ => Eq
  end.
(* Ord of the tuple (bool, &Option<Tag>) used as sort key: lexicographic *)
Definition key : Type := bool * option tag.
Definition key_cmp (a b : key) : comparison :=
  match bool_cmp (fst a) (fst b) with
  | Eq => otag_cmp (snd a) (snd b)
  | c => c
  end.

Definition not_gt (c : comparison) : bool := match c with Gt => false | _ => true end.
Definition tag_le (a b : tag) : bool := not_gt (tag_cmp a b).
Definition key_le (a b : key) : bool := not_gt (key_cmp a b).

(* slice::sort / slice::sort_by are stable; modelled as insertion sort (an element is placed in front of the
   first element of the already sorted tail that is not smaller, i.e. in front of its equals that follow it
   in the input). *)
Section StableSort.
  Context {A : Type} (cmp : A -> A -> comparison).
  Fixpoint insert (x : A) (l : list A) : list A :=
    match l with
    | [] => [x]
    | y :: l' => match cmp x y with Gt => y :: insert x l' | _ => x :: l end
    end.
  Fixpoint sort_by (l : list A) : list A :=
    match l with
    | [] => []
    | x :: l' => insert x (sort_by l')
    end.
End StableSort.

(* ------------------------------------------------------------------------- *)
(** * types as far as tags are concerned *)

(* built-in types that stay a plain RustType (Bool, integers, String(charset), VecU8, BitVec, Null, Vec) *)
Inductive bkind := KBool | KInt | KOctets | KUtf8 | KNull | KBits | KIa5 | KNumeric | KPrintable | KVisible
                 | KSeqOf | KSetOf.
(* constructed types written inline: they are moved into a definition of their own and referenced
   through RustType::Complex *)
Inductive ckind := KEnum | KSeq | KSet.

Definition builtin_tag (k : bkind) : tag :=
  tag_of_code match k with
  | KBool => DEFAULT_BOOLEAN | KInt => DEFAULT_INTEGER | KOctets => DEFAULT_OCTET_STRING
  | KUtf8 => DEFAULT_UTF8_STRING | KNull => DEFAULT_NULL | KBits => DEFAULT_BIT_STRING
  | KIa5 => DEFAULT_IA5_STRING | KNumeric => DEFAULT_NUMERIC_STRING
  | KPrintable => DEFAULT_PRINTABLE_STRING | KVisible => DEFAULT_VISIBLE_STRING
  | KSeqOf => DEFAULT_SEQUENCE_OF | KSetOf => DEFAULT_SET_OF
  end.
Definition constr_tag (k : ckind) : tag :=
  tag_of_code match k with KEnum => DEFAULT_ENUMERATED | KSeq => DEFAULT_SEQUENCE | KSet => DEFAULT_SET end.

Inductive refname := RUndef | RIdx (j : nat).

(* asn::Type as produced by the parser (TypeReference always carries `None`: read_role_given_text) *)
Inductive aty :=
| TBuiltin (k : bkind)
| TConstr (k : ckind)
| TRef (r : refname)
| TChoice (ext_after : option nat) (alts : list (option tag * aty)).

(* a definition of the module: `Name ::= [tag] type` *)
Record def := { d_tag : option tag; d_ty : aty }.
Definition env := list def.

(* ------------------------------------------------------------------------- *)
(** * asn/tag_resolver.rs *)

Definition or_else {A} (a : option A) (b : option A) : option A :=
  match a with Some _ => a | None => b end.

(* `.map(f).collect::<Option<Vec<_>>>()` -- stops at the first None *)
Fixpoint collect_opt {A B} (f : A -> res (option B)) (l : list A) : res (option (list B)) :=
  match l with
  | [] => Ok (Some [])
  | x :: l' =>
      let! o := f x in
      match o with
      | None => Ok None
      | Some b => let! r := collect_opt f l' in Ok (option_map (cons b) r)
      end
  end.

(* resolve_type_tag and resolve_tag (no imports: scope = []) in one fuelled function.  Both recurse through
   type references without any cycle check; running out of fuel stands for that unbounded recursion. *)
Fixpoint resolve_type_tag (fuel : nat) (e : env) (ty : aty) : res (option tag) :=
  match fuel with
  | O => Panic P_UNBOUNDED
  | S f =>
      match ty with
      | TBuiltin k => Ok (Some (builtin_tag k))
      | TConstr k => Ok (Some (constr_tag k))
      | TRef r =>
          (* Type::TypeReference(inner, None): None.or_else(|| self.resolve_tag(inner)) *)
          match r with
          | RUndef => Ok None
          | RIdx j =>
              match nth_error e j with
              | None => Ok None
              | Some d =>
                  match d_tag d with
                  | Some t => Ok (Some t)
                  | None => resolve_type_tag f e (d_ty d)
                  end
              end
          end
      | TChoice ext alts =>
          let root := firstn (match ext with Some x => x + 1 | None => length alts end)%nat alts in
          let! tags := collect_opt (fun a : option tag * aty =>
                                      match fst a with
                                      | Some t => Ok (Some t)
                                      | None => resolve_type_tag f e (snd a)
                                      end) root in
          match tags with
          | None => Ok None
          | Some ts => Ok (hd_error (sort_by tag_cmp ts))
          end
      end
  end.

Definition resolve_tag (fuel : nat) (e : env) (r : refname) : res (option tag) :=
  resolve_type_tag fuel e (TRef r).

(* enough for every module whose references point to later definitions only *)
Definition fuel_for (e : env) : nat := (2 * length e + 4)%nat.

(* resolve_default: the resolver over an empty module *)
Definition resolve_default (fuel : nat) (ty : aty) : res (option tag) := resolve_type_tag fuel [] ty.
(* resolve_no_default: resolved.filter(|r| default != Some(r)) *)
Definition otag_eqb (a b : option tag) : bool := match otag_cmp a b with Eq => true | _ => false end.
Definition resolve_no_default (fuel : nat) (e : env) (ty : aty) : res (option tag) :=
  let! d := resolve_default fuel ty in
  let! r := resolve_type_tag fuel e ty in
  Ok (match r with Some _ => if otag_eqb d r then None else r | None => None end).

(* ------------------------------------------------------------------------- *)
(** * rust.rs *)

Inductive rty :=
| RBuiltin (k : bkind)
| RComplex (t : option tag)
| ROption (r : rty)
| RDefault (r : rty).

(* rust::Field: the name is the textual index of the component *)
Record rfield := { rf_idx : nat; rf_ty : rty; rf_tag : option tag }.

Definition is_optional (r : rty) : bool :=
  match r with ROption _ | RDefault _ => true | _ => false end.
Fixpoint no_option (r : rty) : rty :=
  match r with
  | ROption i => i            (* only one layer *)
  | RDefault i => no_option i
  | x => x
  end.

(* RustType::tag *)
Fixpoint rty_tag (r : rty) : option tag :=
  match r with
  | RBuiltin k => Some (builtin_tag k)
  | RComplex t => t
  | ROption i => rty_tag i
  | RDefault i => rty_tag i
  end.

Inductive presence := Mandatory | Optional | Default.
(* model::Field<Asn>: role.tag, role.type (OPTIONAL wraps it in Type::Optional), role.default *)
Record comp := { c_tag : option tag; c_ty : aty; c_pres : presence }.

(* definition_type_to_rust_type for a type that is not Optional/Default.  The `tag` argument only reaches
   the inline constructed types. *)
Definition type_to_rty (fuel : nat) (e : env) (ty : aty) (tg : option tag) : res rty :=
  match ty with
  | TBuiltin k => Ok (RBuiltin k)
  | TConstr _ | TChoice _ _ =>
      match tg with
      | Some _ => Ok (RComplex tg)
      | None => let! t := resolve_type_tag fuel e ty in Ok (RComplex t)
      end
  | TRef r => let! t := resolve_tag fuel e r in Ok (RComplex t)
  end.

(* asn_fields_to_rust_fields, one field *)
Definition comp_to_rfield (fuel : nat) (e : env) (ext_after : option nat) (index : nat) (c : comp) : res rfield :=
  let tg := c_tag c in
  let! role :=
    match c_pres c with
    | Optional =>
        (* Type::Optional(inner): tag.or_else(|| resolve_no_default(inner)) is evaluated eagerly *)
        let! tg' := match tg with Some _ => Ok tg | None => resolve_no_default fuel e (c_ty c) end in
        let! r := type_to_rty fuel e (c_ty c) tg' in Ok (ROption r)
    | _ => type_to_rty fuel e (c_ty c) tg
    end in
  let role :=
    match c_pres c with
    | Default => RDefault (no_option role)
    | _ =>
        if match ext_after with Some x => Nat.ltb x index | None => false end && negb (is_optional role)
        then ROption role else role
    end in
  Ok {| rf_idx := index; rf_ty := role; rf_tag := tg |}.

Fixpoint comps_to_rfields (fuel : nat) (e : env) (ext_after : option nat) (index : nat) (cs : list comp)
  : res (list rfield) :=
  match cs with
  | [] => Ok []
  | c :: cs' =>
      let! f := comp_to_rfield fuel e ext_after index c in
      let! fs := comps_to_rfields fuel e ext_after (S index) cs' in
      Ok (f :: fs)
  end.

(* ------------------------------------------------------------------------- *)
(** * the generated file and its way back through the attribute macro *)

(* generate/rust.rs add_definition: `extension_after.map(|index| fields[index].name().to_string())` *)
Definition attr_extensible_after (fields : list rfield) (ext_after : option nat) : res (option nat) :=
  match ext_after with
  | None => Ok None
  | Some x => match nth_error fields x with
              | Some f => Ok (Some (rf_idx f))
              | None => Panic P_INDEX_OOB
              end
  end.

Fixpoint complex_untagged (r : rty) : bool :=
  match r with
  | RBuiltin _ => false
  | RComplex t => match t with None => true | Some _ => false end
  | ROption i => complex_untagged i
  | RDefault i => complex_untagged i
  end.

Definition E_ATTRIBUTE : N := 6.

(* asn_attribute_type prints `complex(Name)` when the reference has no tag; proc_macro/attribute.rs insists on
   `complex(Name, tag(..))`: parse_asn_definition fails (a compile_error! in the user's build).  Otherwise
   into_asn + convert_asn_to_rust over the one-definition module rebuild the same field
   (TypeReference(name, Some t) -> Complex(name, Some t)).  find_extensible_index finds the field again by
   name. *)
Definition reparse (fields : list rfield) (ext_name : option nat) : res (list rfield * option nat) :=
  if existsb (fun f => complex_untagged (rf_ty f)) fields then Err E_ATTRIBUTE
  else
    Ok (fields,
        match ext_name with
        | None => None
        | Some nm =>
            (fix find (i : nat) (l : list rfield) : option nat :=
               match l with
               | [] => None    (* unreachable: the name was taken from this list *)
               | f :: l' => if Nat.eqb (rf_idx f) nm then Some i else find (S i) l'
               end) O fields
        end).

(* ------------------------------------------------------------------------- *)
(** * generate/walker.rs *)

Fixpoint enumerate_from {A} (i : nat) (l : list A) : list (nat * A) :=
  match l with
  | [] => []
  | x :: l' => (i, x) :: enumerate_from (S i) l'
  end.
Definition enumerate {A} (l : list A) := enumerate_from O l.

Definition is_some {A} (o : option A) : bool := match o with Some _ => true | None => false end.

Definition with_tag (f : rfield) (t : option tag) : rfield :=
  {| rf_idx := rf_idx f; rf_ty := rf_ty f; rf_tag := t |}.

(* assign_implicit_tags: context tags 0..n-1 exactly when no field carries a tag *)
Definition assign_implicit_tags (fields : list rfield) : list rfield :=
  if existsb (fun f => is_some (rf_tag f)) fields then fields
  else map (fun p => with_tag (snd p) (Some (ContextSpecific, N.of_nat (fst p)))) (enumerate fields).

(* write_field_constraint: the TAG constant of the field's own constraint type *)
Fixpoint tag_const (ty : rty) (ftag : option tag) : res tag :=
  match ty with
  | RBuiltin k =>
      Ok match ftag with
         | Some t => t
         | None => match k with
                   | KSeqOf | KSetOf => tag_of_code DEFAULT_SEQUENCE_OF   (* one arm for RustType::Vec *)
                   | _ => builtin_tag k
                   end
         end
  | ROption i => tag_const i ftag
  | RDefault _ => Ok match ftag with Some t => t | None => tag_of_code DEFAULT_SEQUENCE_OF end
  | RComplex t =>
      match or_else ftag t with
      | Some t => Ok t
      | None => Panic P_OTHER    (* panic!("Complex type {}::{} requires a tag for {}") *)
      end
  end.

Fixpoint tag_consts (fields : list rfield) : res (list tag) :=
  match fields with
  | [] => Ok []
  | f :: fs => let! t := tag_const (rf_ty f) (rf_tag f) in let! ts := tag_consts fs in Ok (t :: ts)
  end.

(* the tag sort_fields_canonically stores into the field *)
Definition sort_tag (f : rfield) : option tag := or_else (rf_tag f) (rty_tag (rf_ty f)).

Definition is_addition (ext_after : option nat) (index : nat) : bool :=
  match ext_after with Some after => Nat.ltb after index | None => false end.

Fixpoint sort_prepare (ext_after : option nat) (l : list (nat * rfield)) : res (list (bool * rfield)) :=
  match l with
  | [] => Ok []
  | (index, f) :: l' =>
      match sort_tag f with
      | None => Panic P_OTHER   (* panic!("Field {} is missing a tag assignment") *)
      | Some t =>
          let! r := sort_prepare ext_after l' in
          Ok ((is_addition ext_after index, with_tag f (Some t)) :: r)
      end
  end.

Definition field_key (p : bool * rfield) : key := (fst p, rf_tag (snd p)).
Definition field_cmp (a b : bool * rfield) : comparison := key_cmp (field_key a) (field_key b).

Definition sort_fields_canonically (fields : list rfield) (ext_after : option nat) : res (list rfield) :=
  let! l := sort_prepare ext_after (enumerate fields) in
  Ok (map snd (sort_by field_cmp l)).

Inductive ordering := Keep | Sort.

(* write_sequence_constraint_insert_consts *)
Fixpoint take_while_index_le (bound : option nat) (l : list (nat * rfield)) : list (nat * rfield) :=
  match l with
  | [] => []
  | (i, f) :: l' =>
      if match bound with Some b => Nat.leb i b | None => true end   (* unwrap_or(usize::MAX) *)
      then (i, f) :: take_while_index_le bound l' else []
  end.
Definition std_optional_fields (wire : list rfield) (ext_after : option nat) : nat :=
  length (filter (fun p => is_optional (rf_ty (snd p))) (take_while_index_le ext_after (enumerate wire))).
Definition extended_after_field (ext_after : option nat) : option nat := ext_after.

Record layout := {
  l_wire : list rfield;      (* the order of read_seq and of write_seq *)
  l_tags : list tag;         (* TAG constants of the field constraints, in wire order *)
  l_std_optional : nat;
  l_extended_after : option nat;
  l_own : tag                (* TAG constant of the type itself *)
}.

Fixpoint lookup_tag (idxs : list nat) (tags : list tag) (i : nat) : option tag :=
  match idxs, tags with
  | j :: idxs', t :: tags' => if Nat.eqb i j then Some t else lookup_tag idxs' tags' i
  | _, _ => None
  end.

(* write_constraints, arm Rust::Struct + write_sequence_or_set_constraint *)
Definition write_constraints (o : ordering) (own : option tag) (fields : list rfield) (ext_after : option nat)
  : res layout :=
  let fields := assign_implicit_tags fields in
  let! consts := tag_consts fields in                 (* write_field_constraints *)
  let! wire := match o with
               | Keep => Ok fields
               | Sort => sort_fields_canonically fields ext_after
               end in
  let idxs := map rf_idx fields in
  Ok {| l_wire := wire;
        l_tags := map (fun f => match lookup_tag idxs consts (rf_idx f) with
                                | Some t => t
                                | None => (Universal, 0)   (* unreachable: wire is a rearrangement of fields *)
                                end) wire;
        l_std_optional := std_optional_fields wire ext_after;
        l_extended_after := extended_after_field ext_after;
        l_own := match own with Some t => t | None => tag_of_code DEFAULT_SEQUENCE end |}.

(* ------------------------------------------------------------------------- *)
(** * the whole path *)

(* ComponentTypeList::try_from: a marker met after [p] components sets
   extension_after = Some(p.saturating_sub(1)) *)
Definition ext_after_of_marker (marker : option nat) : option nat :=
  match marker with None => None | Some p => Some (Nat.pred p) end.

Record sdef := {
  s_set : bool;
  s_marker : option nat;      (* number of components in front of `...` *)
  s_auto : bool;              (* module header says AUTOMATIC TAGS -- not read by anything *)
  s_own : option tag;
  s_comps : list comp;
  s_env : env
}.

Definition layout_of (d : sdef) : res layout :=
  let fuel := fuel_for (s_env d) in
  let ext := ext_after_of_marker (s_marker d) in
  let! fields := comps_to_rfields fuel (s_env d) ext O (s_comps d) in   (* Model::to_rust *)
  let! ext_name := attr_extensible_after fields ext in                  (* RustCodeGenerator *)
  let! back := reparse fields ext_name in                               (* #[asn(..)] read back *)
  write_constraints (if s_set d then Sort else Keep) (s_own d) (fst back) (snd back).

Definition wire_order (d : sdef) : res (list nat) :=
  let! l := layout_of d in Ok (map rf_idx (l_wire l)).
