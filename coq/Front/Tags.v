(* Front/Tags.v -- stub, to be filled *)
