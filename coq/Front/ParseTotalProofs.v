(* Front/ParseTotalProofs.v -- totality of the whole parser model (C14).

   One invariant, [stp root cur d rest P r], is proved for every function of Front/Parse.v:
     * r is a value or an error value: never a panic, never fuel exhaustion;
     * a value leaves a suffix of the root token list that is at least d tokens shorter than the list [cur] the
       function was started on  (this is the termination argument: every loop iteration consumes a token, so the
       fuel `S (length tokens)` of the token loops and `2 * length tokens + 4` of the type grammar suffice);
     * an error value without a token is UnexpectedEndOfStream (or MissingModuleName at the very beginning), an
       error value with a token carries a token of the root list -- except InvalidLiteral, whose token is
       synthesised by read_literal from the location of the literal's first token and the collected text. *)
From Coq Require Import String.
From Coq Require Import ZifyBool ZifyNat ZifyN.
From A1 Require Import Front.Lex Front.Parse Front.ParseProofs.
Local Open Scope N_scope.

(* ---------- suffixes ---------- *)

Definition sub (r ts : toks) : Prop := exists pre, ts = (pre ++ r)%list.

Lemma sub_refl : forall ts, sub ts ts.
Proof. intros ts. exists []. reflexivity. Qed.

Lemma sub_trans : forall a b c, sub a b -> sub b c -> sub a c.
Proof. intros a b c [p1 H1] [p2 H2]. exists (p2 ++ p1)%list. subst. rewrite app_assoc. reflexivity. Qed.

Lemma sub_cons : forall t r, sub r (t :: r).
Proof. intros t r. exists [t]. reflexivity. Qed.

Lemma sub_tail : forall t r root, sub (t :: r) root -> sub r root.
Proof. intros t r root H. eapply sub_trans; [apply sub_cons | exact H]. Qed.

Lemma sub_len : forall r ts, sub r ts -> (length r <= length ts)%nat.
Proof. intros r ts [p H]. subst. rewrite app_length. lia. Qed.

Lemma sub_in : forall r ts t, sub r ts -> In t r -> In t ts.
Proof. intros r ts t [p H] Hin. subst. apply in_or_app. right. exact Hin. Qed.

Lemma sub_head : forall t r root, sub (t :: r) root -> In t root.
Proof. intros t r root H. eapply sub_in; [exact H | left; reflexivity]. Qed.

(* ---------- outcomes ---------- *)

(* the token of an error value: a token of the input, or (InvalidLiteral) a text token synthesised at the location
   of a token of the input *)
Definition tok_from (root : toks) (k : N) (t : token) : Prop :=
  In t root \/
  (k = E_INVALID_LITERAL /\ exists p, In p root /\ tok_line t = tok_line p /\ tok_column t = tok_column p).

Definition errok (root : toks) (k : N) (o : option token) : Prop :=
  match o with
  | None => k = E_END_OF_STREAM \/ k = E_MISSING_MODULE_NAME
  | Some t => tok_from root k t
  end.

Definition outcome {A : Type} (root : toks) (Q : A -> Prop) (r : pres A) : Prop :=
  match r with
  | POk a => Q a
  | PErr k o => errok root k o
  | PPanic _ | POutOfFuel => False
  end.

Lemma out_bind : forall (A B : Type) root (Q : A -> Prop) (Q' : B -> Prop) (r : pres A) (f : A -> pres B),
  outcome root Q r -> (forall a, Q a -> outcome root Q' (f a)) -> outcome root Q' (pbind r f).
Proof. intros A B root Q Q' [a | k o | p |] f H Hf; cbn [pbind outcome] in *; auto. Qed.

Lemma out_weaken : forall (A : Type) root (Q Q' : A -> Prop) (r : pres A),
  outcome root Q r -> (forall a, Q a -> Q' a) -> outcome root Q' r.
Proof. intros A root Q Q' [a | k o | p |] H Hq; cbn [outcome] in *; auto. Qed.

Lemma outcome_safe : forall (A : Type) root (Q : A -> Prop) (r : pres A), outcome root Q r -> safe r.
Proof. intros A root Q [a | k o | p |] H; cbn [outcome safe] in *; auto. Qed.

(* [stp root cur d rest P r]: r was computed from the suffix [cur] of [root]; a value leaves a suffix of root at
   least d tokens shorter than cur and satisfies P *)
Definition stp {A : Type} (root cur : toks) (d : nat) (rest : A -> toks) (P : A -> Prop) (r : pres A) : Prop :=
  outcome root (fun a => sub (rest a) root /\ (length (rest a) + d <= length cur)%nat /\ P a) r.

Definition idt (r : toks) : toks := r.
Definition tt1 {A : Type} (_ : A) : Prop := True.

Lemma eos_ok : forall root, errok root E_END_OF_STREAM None.
Proof. intros root. left. reflexivity. Qed.

Lemma tok_ok : forall root k t, In t root -> errok root k (Some t).
Proof. intros root k t H. left. exact H. Qed.

Lemma mmn_ok : forall root, errok root E_MISSING_MODULE_NAME None.
Proof. intros root. right. reflexivity. Qed.

#[local] Hint Resolve sub_refl sub_tail sub_head eos_ok mmn_ok tok_ok : ptot.

(* ---------- PeekableTokens ---------- *)

Ltac fin := unfold idt, tt1 in *; cbn [outcome fst snd]; repeat split; eauto with ptot; try (cbn [length] in *; lia).

Lemma stp_next_or_err : forall root cur, sub cur root ->
  stp root cur 1 snd (fun a => In (fst a) root) (next_or_err cur).
Proof. intros root [|t r] Hs; unfold stp; cbn [next_or_err]; fin. Qed.

Lemma stp_next_text_or_err : forall root cur, sub cur root ->
  stp root cur 1 snd tt1 (next_text_or_err cur).
Proof. intros root [|[l c s | l c ch] r] Hs; unfold stp; cbn [next_text_or_err]; fin. Qed.

Lemma stp_next_text_eq : forall kw root cur, sub cur root ->
  stp root cur 1 snd (fun a => In (fst a) root) (next_text_eq_ic_or_err kw cur).
Proof.
  intros kw root [|t r] Hs; unfold stp; cbn [next_text_eq_ic_or_err]; [fin|].
  destruct (eq_text_ic t kw); fin.
Qed.

Lemma stp_next_text_eq_any : forall kws root cur, sub cur root ->
  stp root cur 1 snd (fun a => In (fst a) root /\ existsb (eq_text_ic (fst a)) kws = true)
      (next_text_eq_any_ic_or_err kws cur).
Proof.
  intros kws root [|t r] Hs; unfold stp; cbn [next_text_eq_any_ic_or_err]; [fin|].
  destruct (existsb (eq_text_ic t) kws) eqn:E; fin.
Qed.

Lemma stp_next_if_sep : forall c root cur, sub cur root ->
  stp root cur 1 snd (fun a => In (fst a) root) (next_if_sep c cur).
Proof.
  intros c root [|t r] Hs; unfold stp; cbn [next_if_sep]; [fin|].
  destruct (eq_separator t c); fin.
Qed.

Lemma stp_next_sep_or_err : forall c root cur, sub cur root ->
  stp root cur 1 idt tt1 (next_sep_or_err c cur).
Proof.
  intros c root [|t r] Hs; unfold stp, next_sep_or_err; cbn [next_if_sep pbind]; [fin|].
  destruct (eq_separator t c); cbn [pbind]; fin.
Qed.

(* the two conditional consumers *)
Lemma next_is_sep_sub : forall c root cur, sub cur root ->
  sub (snd (next_is_sep c cur)) root /\ (length (snd (next_is_sep c cur)) <= length cur)%nat.
Proof.
  intros c root [|t r] Hs; cbn [next_is_sep snd]; [fin|].
  destruct (eq_separator t c); fin.
Qed.

Lemma next_is_text_ic_sub : forall kw root cur, sub cur root ->
  sub (snd (next_is_text_ic kw cur)) root /\ (length (snd (next_is_text_ic kw cur)) <= length cur)%nat.
Proof.
  intros kw root [|t r] Hs; cbn [next_is_text_ic snd]; [fin|].
  destruct (eq_text_ic t kw); fin.
Qed.

(* bind with a lemma whose premises are in the context *)
Ltac ob L := eapply out_bind; [ apply L; eauto with ptot | ].
(* split `let (b, r) := next_is_sep c cur in ...` *)
Ltac split_is_sep b r Hs Hl :=
  match goal with
  | |- outcome ?root _ ?e =>
    match e with context [next_is_sep ?c ?cur] =>
      let E := fresh "E" in
      let H := fresh "H" in
      assert (H : sub (snd (next_is_sep c cur)) root /\ (length (snd (next_is_sep c cur)) <= length cur)%nat)
        by (apply next_is_sep_sub; eauto with ptot);
      destruct (next_is_sep c cur) as [b r] eqn:E; cbn [snd] in H; destruct H as [Hs Hl]
    end
  end.
Ltac split_is_text b r Hs Hl :=
  match goal with
  | |- outcome ?root _ ?e =>
    match e with context [next_is_text_ic ?c ?cur] =>
      let E := fresh "E" in
      let H := fresh "H" in
      assert (H : sub (snd (next_is_text_ic c cur)) root /\ (length (snd (next_is_text_ic c cur)) <= length cur)%nat)
        by (apply next_is_text_ic_sub; eauto with ptot);
      destruct (next_is_text_ic c cur) as [b r] eqn:E; cbn [snd] in H; destruct H as [Hs Hl]
    end
  end.

Lemma stp_three_dots : forall root cur, sub cur root -> stp root cur 1 idt tt1 (three_dots cur).
Proof.
  intros root cur Hs. unfold stp, three_dots.
  ob stp_next_sep_or_err. intros r1 (Hs1 & Hl1 & _). unfold idt in *.
  ob stp_next_sep_or_err. intros r2 (Hs2 & Hl2 & _). unfold idt in *.
  eapply out_weaken; [apply stp_next_sep_or_err; eauto|].
  intros r3 (Hs3 & Hl3 & _). unfold idt in *. fin.
Qed.

(* ---------- value parsers of one token ---------- *)

Lemma out_loop_ctrl : forall root t, In t root -> outcome root tt1 (loop_ctrl t).
Proof.
  intros root t H. unfold loop_ctrl.
  destruct (eq_separator t C_COMMA); [fin|]. destruct (eq_separator t C_RBRACE); fin.
Qed.

Lemma out_parse_tag_number : forall root t, In t root -> outcome root tt1 (parse_tag_number t).
Proof.
  intros root t H. unfold parse_tag_number. destruct (tok_text t) as [s|]; [destruct (parse_u64 s)|]; fin.
Qed.

Lemma out_constant_i64 : forall root t, In t root -> outcome root tt1 (constant_i64_parser t).
Proof.
  intros root t H. unfold constant_i64_parser. destruct (tok_text t) as [s|]; [destruct (parse_i64 s)|]; fin.
Qed.

Lemma out_constant_u64 : forall root t, In t root -> outcome root tt1 (constant_u64_parser t).
Proof.
  intros root t H. unfold constant_u64_parser. destruct (tok_text t) as [s|]; [destruct (parse_u64 s)|]; fin.
Qed.

Lemma out_into_text_or : forall root k t, In t root -> outcome root tt1 (into_text_or k t).
Proof. intros root k [l c s | l c ch] H; cbn [into_text_or]; fin. Qed.

(* ---------- automation ---------- *)

Lemma pbind_assoc : forall (A B C : Type) (r : pres A) (f : A -> pres B) (g : B -> pres C),
  pbind (pbind r f) g = pbind r (fun a => pbind (f a) g).
Proof. intros A B C [a | k o | p |] f g; reflexivity. Qed.

Ltac prem := solve [eauto with ptot | cbn [length] in *; lia].
Ltac obs L := eapply out_bind; [ apply L; prem | ].
(* lemmas about composite functions are added to ob_more as they are proved *)
Ltac use_more := fail.
Ltac use_lemma :=
  first [ apply stp_next_or_err; prem | apply stp_next_text_or_err; prem | apply stp_next_text_eq; prem
        | apply stp_next_text_eq_any; prem | apply stp_next_if_sep; prem | apply stp_next_sep_or_err; prem
        | apply stp_three_dots; prem | apply out_loop_ctrl; prem | apply out_parse_tag_number; prem
        | apply out_constant_i64; prem | apply out_constant_u64; prem | apply out_into_text_or; prem
        | use_more ].
Ltac ob_any := eapply out_bind; [ use_lemma | ].
Ltac intro_res :=
  let a := fresh "a" in
  let Ha := fresh "Ha" in
  intros a Ha;
  repeat match goal with x : (_ * _)%type |- _ => destruct x end;
  unfold idt, tt1 in Ha; cbn [fst snd] in Ha;
  repeat match goal with H : _ /\ _ |- _ => destruct H end;
  cbv beta iota.
Ltac tail_any := eapply out_weaken; [ use_lemma | intro_res; fin ].
Ltac stp_step :=
  match goal with
  | |- outcome _ _ (POk _) => fin
  | |- outcome _ _ (PErr _ _) => fin
  | |- outcome _ _ (pbind (POk _) _) => cbn [pbind]
  | |- outcome _ _ (pbind (PErr _ _) _) => cbn [pbind]
  | |- outcome _ _ (pbind (pbind _ _) _) => rewrite pbind_assoc
  | |- outcome _ _ (pbind (if ?b then _ else _) _) => destruct b
  | |- outcome _ _ (pbind (match ?x with _ => _ end) _) => destruct x
  | |- outcome _ _ (pbind _ _) => ob_any; intro_res
  | |- outcome _ _ (if ?b then _ else _) => destruct b
  | |- outcome _ _ (let (_, _) := next_is_sep _ _ in _) =>
      let b := fresh "b" in let r := fresh "r" in let Hs := fresh "Hs" in let Hl := fresh "Hl" in
      split_is_sep b r Hs Hl
  | |- outcome _ _ (let (_, _) := next_is_text_ic _ _ in _) =>
      let b := fresh "b" in let r := fresh "r" in let Hs := fresh "Hs" in let Hl := fresh "Hl" in
      split_is_text b r Hs Hl
  | |- outcome _ _ (match ?x with _ => _ end) => destruct x
  | |- outcome _ _ _ => tail_any
  end.
(* finish with a call whose result is returned unchanged *)
Ltac tail L := eapply out_weaken; [ apply L; prem | intro_res; fin ].

(* ---------- object identifiers, imports ---------- *)

Lemma stp_read_oid_loop : forall fuel root cur acc, sub cur root -> (length cur < fuel)%nat ->
  stp root cur 0 snd tt1 (read_oid_loop fuel cur acc).
Proof.
  induction fuel as [|fuel IH]; intros root cur acc Hs Hf; [lia|].
  unfold stp. cbn [read_oid_loop]. destruct cur as [|t r]; [fin|]. cbn [length] in Hf.
  destruct (eq_separator t C_RBRACE); [fin|].
  destruct t as [l c ident | l c ch]; [|fin].
  destruct (forallb is_numeric ident).
  - destruct (parse_u64 ident); [|fin]. tail IH.
  - stp_step. destruct b.
    + stp_step. destruct (parse_u64 s); [|fin]. stp_step. tail IH.
    + tail IH.
Qed.

Lemma stp_read_oid : forall root cur, sub cur root -> stp root cur 0 snd tt1 (read_oid cur).
Proof. intros root cur Hs. unfold read_oid. apply stp_read_oid_loop; [exact Hs | lia]. Qed.

Lemma stp_maybe_read_oid : forall root cur, sub cur root -> stp root cur 0 snd tt1 (maybe_read_oid cur).
Proof.
  intros root cur Hs. unfold stp, maybe_read_oid. stp_step. destruct b; [|fin].
  obs stp_read_oid. intro_res. fin.
Qed.

Lemma stp_read_imports_loop : forall fuel root cur what acc, sub cur root -> (length cur < fuel)%nat ->
  stp root cur 0 snd tt1 (read_imports_loop fuel cur what acc).
Proof.
  induction fuel as [|fuel IH]; intros root cur what acc Hs Hf; [lia|].
  unfold stp. cbn [read_imports_loop]. destruct cur as [|t r]; [fin|]. cbn [length] in Hf.
  destruct (eq_separator t C_SEMI); [fin|].
  destruct t as [l c text | l c ch]; [|fin].
  stp_step. destruct (eq_separator t C_COMMA); [tail IH|].
  destruct (eq_text_ic t (KW "FROM")); [|tail IH].
  stp_step. obs stp_maybe_read_oid. intro_res. tail IH.
Qed.

Lemma stp_read_imports : forall root cur, sub cur root -> stp root cur 0 snd tt1 (read_imports cur).
Proof. intros root cur Hs. unfold read_imports. apply stp_read_imports_loop; [exact Hs | lia]. Qed.

(* ---------- tags, SIZE ---------- *)

Lemma stp_read_tag : forall root cur, sub cur root -> stp root cur 1 snd tt1 (read_tag cur).
Proof. intros root cur Hs. unfold stp, read_tag. repeat stp_step. Qed.

Ltac use_more ::= first [ apply stp_read_tag; prem | apply stp_read_oid; prem | apply stp_maybe_read_oid; prem | apply stp_read_imports; prem ].

Lemma stp_next_with_opt_tag : forall root cur, sub cur root ->
  stp root cur 1 snd (fun a => In (fst (fst a)) root) (next_with_opt_tag cur).
Proof. intros root cur Hs. unfold stp, next_with_opt_tag. repeat stp_step. Qed.

Lemma stp_read_size : forall root cur, sub cur root -> stp root cur 1 snd tt1 (read_size cur).
Proof. intros root cur Hs. unfold stp, read_size. repeat stp_step. Qed.

Ltac use_more ::= first [ apply stp_read_tag; prem | apply stp_read_oid; prem | apply stp_maybe_read_oid; prem | apply stp_read_imports; prem | apply stp_next_with_opt_tag; prem | apply stp_read_size; prem ].

Lemma stp_maybe_read_size : forall root cur, sub cur root -> stp root cur 0 snd tt1 (maybe_read_size cur).
Proof.
  intros root cur Hs. unfold stp, maybe_read_size. stp_step. destruct b.
  - repeat stp_step.
  - destruct (peek_is_text_ic (KW "SIZE") cur); [|fin]. tail stp_read_size.
Qed.

Ltac use_more ::= first [ apply stp_read_tag; prem | apply stp_read_oid; prem | apply stp_maybe_read_oid; prem | apply stp_read_imports; prem | apply stp_next_with_opt_tag; prem | apply stp_read_size; prem | apply stp_maybe_read_size; prem ].

(* ---------- named numbers, INTEGER, ENUMERATED ---------- *)

Section ConstTotal.
  Variable V : Type.
  Variable parser : token -> pres V.
  Hypothesis Hp : forall root t, In t root -> outcome root tt1 (parser t).

  Lemma stp_read_constant : forall root cur, sub cur root ->
    stp root cur 1 snd tt1 (read_constant V parser cur).
  Proof. intros root cur Hs. unfold stp, read_constant. repeat stp_step. obs Hp. intro_res. fin. Qed.

  Lemma stp_read_constants_loop : forall fuel root cur acc, sub cur root -> (length cur < fuel)%nat ->
    stp root cur 0 snd tt1 (read_constants_loop V parser fuel cur acc).
  Proof.
    induction fuel as [|fuel IH]; intros root cur acc Hs Hf; [lia|].
    unfold stp. cbn [read_constants_loop]. obs stp_read_constant. intro_res.
    repeat stp_step. tail IH.
  Qed.

  Lemma stp_maybe_read_constants : forall root cur, sub cur root ->
    stp root cur 0 snd tt1 (maybe_read_constants V parser cur).
  Proof.
    intros root cur Hs. unfold stp, maybe_read_constants. stp_step. destruct b; [|fin].
    tail stp_read_constants_loop.
  Qed.
End ConstTotal.

Lemma stp_read_integer : forall root cur, sub cur root -> stp root cur 0 snd tt1 (read_integer cur).
Proof.
  intros root cur Hs. unfold stp, read_integer.
  obs (stp_maybe_read_constants Z constant_i64_parser out_constant_i64). intro_res.
  repeat stp_step.
Qed.

Lemma stp_read_enumerated_loop : forall fuel root cur acc ext, sub cur root -> (length cur < fuel)%nat ->
  stp root cur 0 snd tt1 (read_enumerated_loop fuel cur acc ext).
Proof.
  induction fuel as [|fuel IH]; intros root cur acc ext Hs Hf; [lia|].
  unfold stp. cbn [read_enumerated_loop].
  pose proof (stp_next_if_sep C_DOT root cur Hs) as Hm. unfold stp in Hm.
  destruct (next_if_sep C_DOT cur) as [[marker r] | k tk | p |]; cbn [outcome fst snd] in Hm;
    [destruct Hm as (Hs1 & Hl1 & Hin1) | | contradiction | contradiction];
    repeat stp_step; tail IH.
Qed.

Lemma stp_read_enumerated : forall root cur, sub cur root -> stp root cur 1 snd tt1 (read_enumerated cur).
Proof.
  intros root cur Hs. unfold stp, read_enumerated. stp_step. tail stp_read_enumerated_loop.
Qed.

(* ---------- WITH COMPONENTS ---------- *)

Lemma stp_read_value_constraint : forall fuel root cur level, sub cur root -> (length cur < fuel)%nat ->
  stp root cur 0 idt tt1 (read_value_constraint fuel level cur).
Proof.
  induction fuel as [|fuel IH]; intros root cur level Hs Hf; [lia|].
  unfold stp. cbn [read_value_constraint]. repeat stp_step; tail IH.
Qed.

Lemma stp_read_presence_constraint : forall root cur, sub cur root ->
  stp root cur 1 idt tt1 (read_presence_constraint cur).
Proof. intros root cur Hs. unfold stp, read_presence_constraint. repeat stp_step. Qed.

Ltac use_more ::= first [ apply stp_read_tag; prem | apply stp_read_oid; prem | apply stp_maybe_read_oid; prem | apply stp_read_imports; prem | apply stp_next_with_opt_tag; prem | apply stp_read_size; prem | apply stp_maybe_read_size; prem | apply stp_read_integer; prem | apply stp_read_enumerated; prem | apply stp_read_value_constraint; prem | apply stp_read_presence_constraint; prem ].

Lemma stp_read_itc_entries : forall fuel root cur, sub cur root -> (length cur < fuel)%nat ->
  stp root cur 0 idt tt1 (read_itc_entries fuel cur).
Proof.
  induction fuel as [|fuel IH]; intros root cur Hs Hf; [lia|].
  unfold stp. cbn [read_itc_entries]. repeat stp_step; tail IH.
Qed.

Lemma stp_read_inner_type_constraints : forall root cur, sub cur root ->
  stp root cur 1 idt tt1 (read_inner_type_constraints cur).
Proof.
  intros root cur Hs. unfold stp, read_inner_type_constraints.
  repeat first [ stp_step | obs stp_read_itc_entries; intro_res ].
Qed.

Lemma stp_maybe_read_with_components : forall root cur, sub cur root ->
  stp root cur 0 idt tt1 (maybe_read_with_components cur).
Proof.
  intros root cur Hs. unfold stp, maybe_read_with_components.
  repeat first [ stp_step | obs stp_read_inner_type_constraints; intro_res ].
Qed.

(* ---------- literals ---------- *)

(* LiteralValue::try_from_asn_str panics (slice range) exactly on the one-character string consisting of a
   quotation mark and on the two-character strings apostrophe + h / H / b / B; everything else is a value *)
Definition lit_shape (s : str) : Prop :=
  match s with
  | [c] => c <> 34
  | [a; _] => a <> 39
  | _ => True
  end.

Lemma starts_with_34 : forall (a : N),
  match a with 34 => true | _ => false end = true -> a = 34.
Proof.
  intros a H. destruct a as [|p]; [discriminate|].
  repeat (destruct p as [p|p|]; try discriminate). reflexivity.
Qed.

Lemma starts_with_39 : forall (a : N),
  match a with 39 => true | _ => false end = true -> a = 39.
Proof.
  intros a H. destruct a as [|p]; [discriminate|].
  repeat (destruct p as [p|p|]; try discriminate). reflexivity.
Qed.

Lemma ends_with_short : forall s suf, (length s < length suf)%nat -> ends_with s suf = false.
Proof.
  induction s as [|x s IH]; intros suf Hl.
  - destruct suf; [simpl in Hl; lia | reflexivity].
  - cbn [ends_with]. destruct (str_eqb (x :: s) suf) eqn:E.
    + apply str_eqb_eq in E. subst. lia.
    + apply IH. cbn [length] in Hl. lia.
Qed.

Lemma literal_total : forall s, lit_shape s -> exists o, literal_of_asn_str s = POk o.
Proof.
  intros s H. unfold literal_of_asn_str.
  destruct (eq_ignore_case s (KW "true")); [eexists; reflexivity|].
  destruct (eq_ignore_case s (KW "false")); [eexists; reflexivity|].
  destruct (match s with 34 :: _ => true | _ => false end && ends_with s [34]) eqn:E1.
  { destruct s as [|a [|b r]]; [discriminate E1 | | eexists; reflexivity].
    apply andb_true_iff in E1. destruct E1 as [E1 _]. apply starts_with_34 in E1.
    cbn [lit_shape] in H. contradiction. }
  destruct (is_int_text s); [eexists; reflexivity|].
  destruct (match s with 39 :: _ => true | _ => false end && (ends_with s [39; 104] || ends_with s [39; 72])) eqn:E2.
  { destruct s as [|a [|b [|c r]]]; [discriminate E2 | | |].
    - rewrite !ends_with_short in E2 by (cbn [length]; lia). rewrite andb_false_r in E2. discriminate.
    - apply andb_true_iff in E2. destruct E2 as [E2 _]. apply starts_with_39 in E2.
      cbn [lit_shape] in H. contradiction.
    - destruct (forallb is_hexdigit (removelast (removelast (b :: c :: r)))); eexists; reflexivity. }
  destruct (match s with 39 :: _ => true | _ => false end && (ends_with s [39; 98] || ends_with s [39; 66])) eqn:E3.
  { destruct s as [|a [|b [|c r]]]; [discriminate E3 | | |].
    - rewrite !ends_with_short in E3 by (cbn [length]; lia). rewrite andb_false_r in E3. discriminate.
    - apply andb_true_iff in E3. destruct E3 as [E3 _]. apply starts_with_39 in E3.
      cbn [lit_shape] in H. contradiction.
    - destruct (forallb (fun c0 => (c0 =? 48) || (c0 =? 49)) (removelast (removelast (b :: c :: r))));
        eexists; reflexivity. }
  eexists; reflexivity.
Qed.

(* the panics of try_from_asn_str exist (direct calls), but read_literal never passes such a string *)
Example literal_of_asn_str_panics :
  literal_of_asn_str [34] = PPanic P_SLICE_RANGE /\ literal_of_asn_str [39; 72] = PPanic P_SLICE_RANGE /\
  literal_of_asn_str [39; 98] = PPanic P_SLICE_RANGE.
Proof. repeat split; vm_compute; reflexivity. Qed.

Lemma stp_read_string_loop : forall fuel root cur delim acc pc, sub cur root -> (length cur < fuel)%nat ->
  stp root cur 1 snd (fun a => exists mid, fst a = (acc ++ mid ++ [delim])%list)
      (read_string_loop fuel delim cur acc pc).
Proof.
  induction fuel as [|fuel IH]; intros root cur delim acc pc Hs Hf; [lia|].
  unfold stp. cbn [read_string_loop]. stp_step.
  destruct (eq_separator t delim).
  - fin. exists []. reflexivity.
  - destruct t as [l c s | l c ch].
    + eapply out_weaken; [apply IH; prem|]. intros [s' r'] (Hs' & Hl' & [mid Hm]). cbn [fst snd] in *.
      fin. exists ((spaces pc c ++ s) ++ mid)%list. rewrite Hm. rewrite <- !app_assoc. reflexivity.
    + eapply out_weaken; [apply IH; prem|]. intros [s' r'] (Hs' & Hl' & [mid Hm]). cbn [fst snd] in *.
      fin. exists ((spaces pc c ++ [ch]) ++ mid)%list. rewrite Hm. rewrite <- !app_assoc. reflexivity.
Qed.

Lemma stp_read_string_literal : forall root cur delim, sub cur root ->
  stp root cur 1 snd (fun a => exists mid, fst a = delim :: (mid ++ [delim])%list) (read_string_literal delim cur).
Proof.
  intros root cur delim Hs. unfold stp, read_string_literal. stp_step. stp_step.
  eapply out_weaken; [apply stp_read_string_loop; prem|].
  intros [s' r'] (Hs' & Hl' & [mid Hm]). cbn [fst snd] in *. fin.
  rewrite Hm. cbn [app]. eexists. rewrite app_assoc. reflexivity.
Qed.

Lemma eq_ignore_case_nonempty : forall s k kw, eq_ignore_case s (k :: kw) = true -> s <> [].
Proof. intros [|x s] k kw H; [discriminate | discriminate]. Qed.

Lemma stp_read_hex_or_bit : forall root cur, sub cur root ->
  stp root cur 1 snd (fun a => (3 <= length (fst a))%nat) (read_hex_or_bit_string_literal cur).
Proof.
  intros root cur Hs. unfold stp, read_hex_or_bit_string_literal.
  obs stp_read_string_literal. intros [s r] (Hs1 & Hl1 & [mid Hm]). cbn [fst snd] in *.
  stp_step. destruct t as [l c suffix | l c ch]; [|fin].
  fin. subst s.
  assert (Hne : suffix <> []).
  { cbn [existsb eq_text_ic] in H2. rewrite orb_false_r in H2. apply orb_true_iff in H2.
    destruct H2 as [H2 | H2]; eapply eq_ignore_case_nonempty; exact H2. }
  destruct suffix as [|x suffix]; [congruence|].
  rewrite !app_length. cbn [length]. rewrite !app_length. cbn [length]. lia.
Qed.

Lemma lit_shape_of_text : forall s,
  eq_ignore_case s (KW "true") || eq_ignore_case s (KW "false") || is_int_text s = true -> lit_shape s.
Proof.
  intros s H. destruct s as [|a [|b [|c r]]]; cbn [lit_shape]; try exact I.
  - intros ->. vm_compute in H. discriminate.
  - intros ->. vm_compute in H. discriminate.
Qed.

Lemma stp_read_literal : forall root cur, sub cur root -> stp root cur 1 snd tt1 (read_literal cur).
Proof.
  intros root cur Hs. unfold stp, read_literal. destruct cur as [|p cur']; [fin|].
  eapply out_bind with (Q := fun a => sub (snd a) root /\ (length (snd a) + 1 <= length (p :: cur'))%nat
                                      /\ lit_shape (fst a)).
  - destruct (peek_is_text_ic (KW "true") (p :: cur') || peek_is_text_ic (KW "false") (p :: cur')
              || match tok_text p with Some s => is_int_text s | None => false end) eqn:Ec.
    + destruct p as [l c s | l c ch]; cbn [next_text_or_err]; [|fin].
      fin. apply lit_shape_of_text. exact Ec.
    + destruct (peek_is_sep C_QUOTE (p :: cur')).
      * eapply out_weaken; [apply stp_read_string_literal; prem|].
        intros [s r] (Hs1 & Hl1 & [mid Hm]). cbn [fst snd] in *. fin.
        subst s. destruct mid as [|x [|y mid]]; cbn [app lit_shape]; try exact I. discriminate.
      * destruct (peek_is_sep C_APOS (p :: cur')); [|fin].
        eapply out_weaken; [apply stp_read_hex_or_bit; prem|].
        intros [s r] (Hs1 & Hl1 & Hlen). cbn [fst snd] in *. fin.
        destruct s as [|a [|b [|c r0]]]; cbn [length] in Hlen; try lia. exact I.
  - intros [s r] (Hs1 & Hl1 & Hsh). cbn [fst snd] in *.
    destruct (literal_total s Hsh) as [o Ho]. rewrite Ho. cbn [pbind].
    destruct o as [v|]; [fin|].
    cbn [outcome errok]. right. split; [reflexivity|].
    exists p. split; [eauto with ptot | split; reflexivity].
Qed.

Ltac use_more ::=
  first [ apply stp_read_tag; prem | apply stp_read_oid; prem | apply stp_maybe_read_oid; prem
        | apply stp_read_imports; prem | apply stp_next_with_opt_tag; prem | apply stp_read_size; prem
        | apply stp_maybe_read_size; prem | apply stp_read_integer; prem | apply stp_read_enumerated; prem
        | apply stp_read_value_constraint; prem | apply stp_read_presence_constraint; prem
        | apply stp_maybe_read_with_components; prem | apply stp_read_literal; prem
        | apply (stp_maybe_read_constants N constant_u64_parser out_constant_u64); prem ].

(* ---------- the type grammar ---------- *)

(* the DEFAULT value of read_field: a literal, or (UnsupportedLiteral on a text token) a value reference *)
Lemma stp_default_value : forall root cur, sub cur root ->
  stp root cur 1 snd tt1
    (match read_literal cur with
     | POk (v, r') => POk (@Lit literal v, r')
     | PErr k (Some tk) =>
         if (k =? E_UNSUPPORTED_LITERAL) && is_text tk then
           let? (s, r') := next_text_or_err cur in POk (Ref s, r')
         else PErr k (Some tk)
     | PErr k None => PErr k None
     | PPanic p => PPanic p
     | POutOfFuel => POutOfFuel
     end).
Proof.
  intros root cur Hs. pose proof (stp_read_literal root cur Hs) as H. unfold stp in *.
  destruct (read_literal cur) as [[v r'] | k [tk|] | p |]; cbn [outcome fst snd] in H |- *.
  - destruct H as (H1 & H2 & _). fin.
  - destruct ((k =? E_UNSUPPORTED_LITERAL) && is_text tk); [repeat stp_step | exact H].
  - exact H.
  - contradiction.
  - contradiction.
Qed.

(* Fuel is handed down, one unit per call and per loop iteration; a list of n tokens needs at most 2n + 4 units
   in read_role_given_text / the two loops and 2n + 3 in the other three, because every call chain
   role -> components -> loop -> field -> role and every loop iteration consumes at least one token. *)
Lemma stp_type_grammar : forall fuel,
  (forall root cur text, sub cur root -> (2 * length cur + 4 <= fuel)%nat ->
     stp root cur 0 snd tt1 (read_role_given_text fuel text cur)) /\
  (forall root cur, sub cur root -> (2 * length cur + 3 <= fuel)%nat ->
     stp root cur 1 snd tt1 (read_components fuel cur)) /\
  (forall root cur acc ext, sub cur root -> (2 * length cur + 4 <= fuel)%nat ->
     stp root cur 0 snd tt1 (components_loop fuel cur acc ext)) /\
  (forall root cur, sub cur root -> (2 * length cur + 3 <= fuel)%nat ->
     stp root cur 1 snd tt1 (read_field fuel cur)) /\
  (forall root cur, sub cur root -> (2 * length cur + 3 <= fuel)%nat ->
     stp root cur 1 snd tt1 (read_choice fuel cur)) /\
  (forall root cur acc ext, sub cur root -> (2 * length cur + 4 <= fuel)%nat ->
     stp root cur 0 snd tt1 (choice_loop fuel cur acc ext)).
Proof.
  induction fuel as [|fuel IH].
  { repeat split; intros; lia. }
  destruct IH as (IHr & IHc & IHl & IHf & IHch & IHcl).
  repeat split.
  - (* read_role_given_text *)
    intros root cur text Hs Hf. unfold stp. cbn [read_role_given_text].
    repeat first [ stp_step | obs IHch; intro_res | obs IHc; intro_res | obs IHr; intro_res ].
  - (* read_components *)
    intros root cur Hs Hf. unfold stp. cbn [read_components].
    stp_step. tail IHl.
  - (* components_loop *)
    intros root cur acc ext Hs Hf. unfold stp. cbn [components_loop].
    repeat first [ stp_step | obs IHf; intro_res | tail IHl ].
  - (* read_field *)
    intros root cur Hs Hf. unfold stp. cbn [read_field].
    stp_step. stp_step. stp_step. obs IHr. intro_res. stp_step.
    stp_step; [repeat stp_step|].
    stp_step; [|repeat stp_step].
    rewrite pbind_assoc. obs stp_default_value. intro_res. repeat stp_step.
  - (* read_choice *)
    intros root cur Hs Hf. unfold stp. cbn [read_choice].
    stp_step. tail IHcl.
  - (* choice_loop *)
    intros root cur acc ext Hs Hf. unfold stp. cbn [choice_loop].
    pose proof (stp_next_if_sep C_DOT root cur Hs) as Hm. unfold stp in Hm.
    destruct (next_if_sep C_DOT cur) as [[marker r] | k tk | p |]; cbn [outcome fst snd] in Hm;
      [destruct Hm as (Hs1 & Hl1 & Hin1) | | contradiction | contradiction];
      repeat first [ stp_step | obs IHr; intro_res | tail IHcl ].
Qed.

Lemma stp_read_role_given_text : forall fuel root cur text, sub cur root -> (2 * length cur + 4 <= fuel)%nat ->
  stp root cur 0 snd tt1 (read_role_given_text fuel text cur).
Proof. intros fuel. exact (proj1 (stp_type_grammar fuel)). Qed.

Lemma stp_read_role : forall fuel root cur, sub cur root -> (2 * length cur + 4 <= fuel)%nat ->
  stp root cur 1 snd tt1 (read_role fuel cur).
Proof.
  intros fuel root cur Hs Hf. unfold stp, read_role. stp_step. tail stp_read_role_given_text.
Qed.

Lemma stp_definition_sep : forall root cur, sub cur root -> stp root cur 1 idt tt1 (definition_sep cur).
Proof. intros root cur Hs. unfold stp, definition_sep. repeat stp_step. Qed.

Lemma stp_read_definition : forall fuel root cur, sub cur root -> (2 * length cur + 4 <= fuel)%nat ->
  stp root cur 1 snd tt1 (read_definition fuel cur).
Proof.
  intros fuel root cur Hs Hf. unfold stp, read_definition.
  obs stp_definition_sep. intro_res. stp_step. stp_step; [|fin].
  obs stp_read_role_given_text. intro_res. fin.
Qed.

Lemma stp_read_value_reference : forall fuel root cur, sub cur root -> (2 * length cur + 4 <= fuel)%nat ->
  stp root cur 1 snd tt1 (read_value_reference fuel cur).
Proof.
  intros fuel root cur Hs Hf. unfold stp, read_value_reference.
  obs stp_read_role. intro_res. obs stp_definition_sep. intro_res. repeat stp_step.
Qed.

(* ---------- the module ---------- *)

Lemma stp_skip_until_after : forall kw root cur, sub cur root -> stp root cur 0 idt tt1 (skip_until_after kw cur).
Proof.
  intros kw root cur. induction cur as [|t r IH]; intros Hs; unfold stp; cbn [skip_until_after]; [fin|].
  destruct (eq_text_ic t kw); [fin|]. tail IH.
Qed.

Lemma out_module_loop : forall fuel tfuel root cur name oid imports defs vals,
  sub cur root -> (length cur < fuel)%nat -> (2 * length cur + 4 <= tfuel)%nat ->
  outcome root tt1 (module_loop fuel tfuel cur name oid imports defs vals).
Proof.
  induction fuel as [|fuel IH]; intros tfuel root cur name oid imports defs vals Hs Hf Ht; [lia|].
  cbn [module_loop]. destruct cur as [|t r]; [fin|]. cbn [length] in Hf, Ht.
  destruct (eq_text_ic t (KW "END")); [exact I|].
  destruct (eq_text_ic t (KW "IMPORTS")).
  { obs stp_read_imports. intro_res. apply IH; prem. }
  destruct (peek_is_sep C_COLON r).
  - obs out_into_text_or. intro_res. obs stp_read_definition. intro_res. apply IH; prem.
  - obs out_into_text_or. intro_res. obs stp_read_value_reference. intro_res. apply IH; prem.
Qed.

(* Model::try_from on any token list, with enough fuel for the type grammar *)
Theorem out_parse_module : forall ts fuel, (2 * length ts + 4 <= fuel)%nat ->
  outcome ts tt1 (parse_module fuel ts).
Proof.
  intros ts fuel Hf. unfold parse_module. destruct ts as [|[l c name | l c ch] r]; [fin | | fin].
  pose proof (sub_refl (Text l c name :: r)) as Hs.
  obs stp_maybe_read_oid. intro_res. obs stp_skip_until_after. intro_res.
  apply out_module_loop; prem.
Qed.

Theorem parse_module_total : forall ts fuel, (2 * length ts + 4 <= fuel)%nat -> safe (parse_module fuel ts).
Proof. intros ts fuel Hf. eapply outcome_safe. apply out_parse_module. exact Hf. Qed.

Theorem parse_total : forall ts, safe (parse ts).
Proof. intros ts. unfold parse. apply parse_module_total. unfold parse_fuel. lia. Qed.

Theorem parse_module_error_token : forall ts fuel k o, (2 * length ts + 4 <= fuel)%nat ->
  parse_module fuel ts = PErr k o ->
  match o with
  | None => k = E_END_OF_STREAM \/ k = E_MISSING_MODULE_NAME
  | Some t =>
      In t ts \/
      (k = E_INVALID_LITERAL /\ exists p, In p ts /\ tok_line t = tok_line p /\ tok_column t = tok_column p)
  end.
Proof.
  intros ts fuel k o Hf H. pose proof (out_parse_module ts fuel Hf) as Ho. rewrite H in Ho. exact Ho.
Qed.
