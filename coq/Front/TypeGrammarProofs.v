(* Front/TypeGrammarProofs.v -- parse-after-print for ENUMERATED, literals, OIDs, IMPORTS, the recursive type grammar
   and whole modules (C07).  Surface syntax, printers and well-formedness predicates are in Front/Print.v. *)
From Coq Require Import String.
From Coq Require Import ZifyBool ZifyNat ZifyN Lia.
From A1 Require Import Front.Lex Front.Parse Front.Print Front.ParseProofs.
Local Open Scope N_scope.

(* ---------- token primitives on printed tokens ---------- *)

Lemma eqsep_P : forall c d, eq_separator (P c) d = (c =? d). Proof. reflexivity. Qed.
Lemma eqsep_T : forall s d, eq_separator (T s) d = false. Proof. reflexivity. Qed.
Lemma eqtext_P : forall c kw, eq_text_ic (P c) kw = false. Proof. reflexivity. Qed.
Lemma eqtext_T : forall s kw, eq_text_ic (T s) kw = eq_ignore_case s kw. Proof. reflexivity. Qed.
Lemma istext_T : forall s, is_text (T s) = true. Proof. reflexivity. Qed.
Lemma istext_P : forall c, is_text (P c) = false. Proof. reflexivity. Qed.
Lemma toktext_T : forall s, tok_text (T s) = Some s. Proof. reflexivity. Qed.
Lemma toktext_P : forall c, tok_text (P c) = None. Proof. reflexivity. Qed.
Lemma nte_T : forall s r, next_text_or_err (T s :: r) = POk (s, r). Proof. reflexivity. Qed.
Lemma noe_cons : forall t r, next_or_err (t :: r) = POk (t, r). Proof. reflexivity. Qed.
Lemma nse_P : forall c r, next_sep_or_err c (P c :: r) = POk r.
Proof. intros c r. unfold next_sep_or_err, next_if_sep. rewrite eqsep_P, N.eqb_refl. reflexivity. Qed.
Lemma nis_P : forall c r, next_is_sep c (P c :: r) = (true, r).
Proof. intros c r. unfold next_is_sep. rewrite eqsep_P, N.eqb_refl. reflexivity. Qed.
Lemma nis_T : forall c s r, next_is_sep c (T s :: r) = (false, T s :: r). Proof. reflexivity. Qed.
Lemma nis_no : forall c ts, peek_is_sep c ts = false -> next_is_sep c ts = (false, ts).
Proof. intros c [|t r] H; [reflexivity|]. cbn [peek_is_sep] in H. unfold next_is_sep. rewrite H. reflexivity. Qed.
Lemma nis_P_ne : forall c d r, (d =? c) = false -> next_is_sep c (P d :: r) = (false, P d :: r).
Proof. intros c d r H. unfold next_is_sep. rewrite eqsep_P, H. reflexivity. Qed.
Lemma nif_P : forall c r, next_if_sep c (P c :: r) = POk (P c, r).
Proof. intros c r. unfold next_if_sep. rewrite eqsep_P, N.eqb_refl. reflexivity. Qed.
Lemma nif_T : forall c s r, next_if_sep c (T s :: r) = PErr E_EXPECTED_SEPARATOR_GOT (Some (T s)).
Proof. reflexivity. Qed.
Lemma nit_P : forall kw c r, next_is_text_ic kw (P c :: r) = (false, P c :: r). Proof. reflexivity. Qed.
Lemma lc_comma : loop_ctrl (P C_COMMA) = POk true. Proof. reflexivity. Qed.
Lemma lc_rbrace : loop_ctrl (P C_RBRACE) = POk false. Proof. reflexivity. Qed.
Lemma three_dots_marker : forall rest, three_dots (marker_toks ++ rest) = POk rest. Proof. reflexivity. Qed.

Lemma eq_ignore_case_refl : forall s, eq_ignore_case s s = true.
Proof. induction s as [|x s IH]; [reflexivity|]. cbn [eq_ignore_case]. rewrite N.eqb_refl. exact IH. Qed.

Ltac tk_step :=
  first [ rewrite nse_P | rewrite noe_cons | rewrite nte_T | rewrite nif_P | rewrite nis_P | rewrite nis_T
        | rewrite lc_comma | rewrite lc_rbrace | rewrite three_dots_marker ].
Ltac tk := cbn [pbind app]; repeat (tk_step; cbn [pbind app]).

(* ---------- ENUMERATED ---------- *)

Definition ext_result (acc_len : nat) (ext : option nat) (e0 : option N) : option N :=
  match ext with Some k => Some (N.of_nat (acc_len + k)) | None => e0 end.

Lemma print_enum_items_length : forall its ext, its <> [] ->
  (2 * length its <= length (print_enum_items its ext))%nat.
Proof.
  induction its as [|it its IH]; intros ext Hne; [congruence|].
  cbn [print_enum_items]. rewrite !app_length.
  assert (H1 : (1 <= length (print_enum_item it))%nat).
  { unfold print_enum_item. destruct (snd it) as [[num n]|]; cbn [length]; lia. }
  destruct its as [|it2 its'].
  - cbn [length]. lia.
  - assert (Hne2 : it2 :: its' <> []) by discriminate.
    specialize (IH (ext_pred ext) Hne2). cbn [length] in *. lia.
Qed.

Lemma read_enumerated_loop_print : forall its fuel acc e0 ext rest,
  its <> [] -> Forall enum_item_ok its ->
  (forall k, ext = Some k -> (k < length its)%nat /\ e0 = None) ->
  (2 * length its <= fuel)%nat ->
  read_enumerated_loop fuel (print_enum_items its ext ++ rest) acc e0
  = POk ((rev acc ++ map enum_item_value its)%list, ext_result (length acc) ext e0, rest).
Proof.
  induction its as [|it its IH]; intros fuel acc e0 ext rest Hne Hok Hext Hf; [congruence|].
  inversion Hok as [|? ? Hit Hrest]; subst.
  destruct fuel as [|fuel]; [cbn [length] in Hf; lia|].
  cbn [print_enum_items]. rewrite <- !app_assoc.
  (* one item, then the optional marker, then "," or "}" *)
  assert (Hitem : forall c more, (c = C_COMMA \/ c = C_RBRACE) ->
    read_enumerated_loop (S fuel) (print_enum_item it ++ P c :: more) acc e0 =
    (let? cont := loop_ctrl (P c) in
     if cont then read_enumerated_loop fuel more (enum_item_value it :: acc) e0
     else POk (rev (enum_item_value it :: acc), e0, more))).
  { intros c more Hc. destruct it as [name [[num n]|]]; unfold print_enum_item, enum_item_value; cbn [fst snd app].
    - unfold enum_item_ok in Hit. cbn [snd] in Hit.
      cbn [read_enumerated_loop]. rewrite nif_T, nte_T. cbn [pbind]. rewrite noe_cons. cbn [pbind].
      rewrite !eqsep_P.
      replace (C_LPAREN =? C_COMMA) with false by reflexivity.
      replace (C_LPAREN =? C_RBRACE) with false by reflexivity.
      replace (C_LPAREN =? C_LPAREN) with true by reflexivity.
      cbn [orb]. rewrite noe_cons. cbn [pbind]. rewrite toktext_T, Hit, nse_P. cbn [pbind]. rewrite noe_cons.
      cbn [pbind]. reflexivity.
    - cbn [read_enumerated_loop]. rewrite nif_T, nte_T. cbn [pbind]. rewrite noe_cons. cbn [pbind].
      destruct Hc as [-> | ->]; reflexivity. }
  assert (Hext_here : ext_here ext = [] \/ (ext = Some O /\ ext_here ext = P C_COMMA :: marker_toks)).
  { destruct ext as [[|k]|]; [right; split; reflexivity | left; reflexivity | left; reflexivity]. }
  destruct Hext_here as [Hh | [He Hh]]; rewrite Hh.
  - (* no marker after this item *)
    cbn [app]. destruct its as [|it2 its'].
    + cbn [app]. rewrite Hitem by (right; reflexivity). rewrite lc_rbrace. cbn [pbind map].
      destruct ext as [[|k]|]; cbn [ext_result].
      * discriminate Hh.
      * destruct (Hext (S k) eq_refl) as [Hk _]. cbn [length] in Hk. lia.
      * cbn [rev]. reflexivity.
    + cbn [app]. rewrite Hitem by (left; reflexivity). rewrite lc_comma. cbn [pbind].
      rewrite IH; [| discriminate | exact Hrest | | cbn [length] in Hf |- *; lia].
      * cbn [rev map]. rewrite <- app_assoc. cbn [app]. f_equal. f_equal. f_equal.
        destruct ext as [[|k]|]; cbn [ext_pred ext_result length]; [discriminate Hh | f_equal; lia | reflexivity].
      * intros k Hk. destruct ext as [[|k']|]; cbn [ext_pred] in Hk; try discriminate.
        inversion Hk; subst. destruct (Hext (S k) eq_refl) as [Hl He0]. cbn [length] in Hl |- *. split; [lia | exact He0].
  - (* the marker follows this item *)
    subst ext. destruct (Hext O eq_refl) as [_ He0]. subst e0.
    cbn [app]. rewrite Hitem by (left; reflexivity). rewrite lc_comma. cbn [pbind].
    destruct fuel as [|fuel]; [cbn [length] in Hf; lia|].
    cbn [read_enumerated_loop marker_toks app]. rewrite nif_P. cbn [is_none_N negb]. tk.
    cbn [ext_pred ext_result].
    replace (Some (N.of_nat (length (enum_item_value it :: acc)) - 1)) with (Some (N.of_nat (length acc + 0)))
      by (cbn [length]; f_equal; lia).
    destruct its as [|it2 its'].
    + tk. cbn [map rev]. reflexivity.
    + tk.
      rewrite IH; [| discriminate | exact Hrest | intros k Hk; discriminate | cbn [length] in Hf |- *; lia].
      cbn [rev map ext_result]. rewrite <- app_assoc. reflexivity.
Qed.

Theorem read_enumerated_print : forall its ext rest,
  enum_wf its ext ->
  read_enumerated (print_enumerated its ext ++ rest) = POk (map enum_item_value its, ext, rest).
Proof.
  intros its ext rest [Hne [Hpos Hok]]. unfold read_enumerated, print_enumerated. cbn [app].
  rewrite nse_P. cbn [pbind].
  rewrite read_enumerated_loop_print; [| exact Hne | exact Hok | |].
  - cbn [rev app length]. f_equal. f_equal. f_equal.
    destruct ext as [k|]; cbn [option_map ext_result]; [f_equal; lia | reflexivity].
  - intros k Hk. destruct ext as [k'|]; cbn [option_map] in Hk; [|discriminate]. inversion Hk; subst.
    cbn [ext_pos_ok] in Hpos. split; [exact Hpos | reflexivity].
  - rewrite app_length. pose proof (print_enum_items_length its (option_map N.to_nat ext) Hne). lia.
Qed.

(* ---------- literals ---------- *)

Lemma ends_with_app : forall a suf, ends_with (a ++ suf) suf = true.
Proof.
  induction a as [|x a IH]; intros suf.
  - cbn [app]. destruct suf; cbn [ends_with]; rewrite str_eqb_refl; reflexivity.
  - cbn [app ends_with]. rewrite IH. destruct (str_eqb (x :: a ++ suf) suf); reflexivity.
Qed.

Lemma ends_with_inv : forall s suf, ends_with s suf = true -> exists pre, s = (pre ++ suf)%list.
Proof.
  induction s as [|x s IH]; intros suf H.
  - cbn [ends_with] in H. destruct (str_eqb [] suf) eqn:E; [|discriminate].
    apply str_eqb_eq in E. subst. exists []. reflexivity.
  - cbn [ends_with] in H. destruct (str_eqb (x :: s) suf) eqn:E.
    + apply str_eqb_eq in E. subst. exists []. reflexivity.
    + destruct (IH suf H) as [pre ->]. exists (x :: pre). reflexivity.
Qed.

Lemma ends_with_last2 : forall a x y p q, ends_with (a ++ [x; y]) [p; q] = true -> x = p /\ y = q.
Proof.
  intros a x y p q H. apply ends_with_inv in H. destruct H as [pre H].
  change (a ++ [x; y])%list with (a ++ [x] ++ [y])%list in H. change (pre ++ [p; q])%list with (pre ++ [p] ++ [q])%list in H.
  rewrite !app_assoc in H. apply app_inj_tail in H. destruct H as [H1 H2].
  apply app_inj_tail in H1. destruct H1 as [_ H1]. split; assumption.
Qed.

Lemma head_not_keyword : forall c r k kw, c <= 57 -> 65 <= k -> eq_ignore_case (c :: r) (k :: kw) = false.
Proof.
  intros c r k kw Hc Hk. cbn [eq_ignore_case]. apply andb_false_iff. left. apply N.eqb_neq.
  unfold to_ascii_lower.
  assert (E1 : (65 <=? c) = false) by (apply N.leb_gt; lia). rewrite E1. cbn [andb].
  destruct ((65 <=? k) && (k <=? 90)); lia.
Qed.

Lemma eq_ignore_case_length : forall a b, eq_ignore_case a b = true -> length a = length b.
Proof.
  induction a as [|x a IH]; destruct b as [|y b]; cbn [eq_ignore_case]; intros H; try discriminate; [reflexivity|].
  apply andb_true_iff in H. destruct H as [_ H]. cbn [length]. f_equal. apply IH. exact H.
Qed.

Lemma starts34 : forall c (r : str), (match c :: r with 34 :: _ => true | _ => false end) = (c =? 34).
Proof.
  intros c r. destruct c as [|p]; [reflexivity|].
  do 6 (try (destruct p as [p|p|]; try reflexivity)).
Qed.

Lemma single_letter : forall s k, 97 <= k -> k <= 122 -> eq_ignore_case s [k] = true -> s = [k] \/ s = [k - 32].
Proof.
  intros s k H1 H2 H. destruct s as [|c [|d r]]; cbn [eq_ignore_case] in H; try discriminate.
  - rewrite andb_true_r in H. apply N.eqb_eq in H. unfold to_ascii_lower in H.
    destruct ((65 <=? c) && (c <=? 90)) eqn:Ec; destruct ((65 <=? k) && (k <=? 90)) eqn:Ek; try lia.
    + right. f_equal. lia.
    + left. f_equal. exact H.
  - apply andb_true_iff in H. destruct H as [_ H]. discriminate H.
Qed.

Lemma literal_string : forall body, literal_of_asn_str (34 :: body ++ [34]) = POk (Some (LString body)).
Proof.
  intros body. unfold literal_of_asn_str.
  replace (eq_ignore_case (34 :: body ++ [34]) (KW "true")) with false
    by (symmetry; change (KW "true") with (116 :: s2n "rue"); apply head_not_keyword; lia).
  replace (eq_ignore_case (34 :: body ++ [34]) (KW "false")) with false
    by (symmetry; change (KW "false") with (102 :: s2n "alse"); apply head_not_keyword; lia).
  replace (ends_with (34 :: body ++ [34]) [34]) with true by (symmetry; apply (ends_with_app (34 :: body) [34])).
  cbn [andb].
  destruct (body ++ [34])%list as [|b r] eqn:E; [destruct body; discriminate E|].
  rewrite <- E. rewrite removelast_last. reflexivity.
Qed.

Lemma literal_int : forall s z, is_int_text s = true -> parse_i64 s = Some z ->
  literal_of_asn_str s = POk (Some (LInteger z)).
Proof.
  intros s z Hi Hp. unfold literal_of_asn_str.
  change (KW "true") with (116 :: s2n "rue").
  rewrite (i64_numeral_not_keyword s z 116 (s2n "rue") Hp) by lia.
  change (KW "false") with (102 :: s2n "alse").
  rewrite (i64_numeral_not_keyword s z 102 (s2n "alse") Hp) by lia.
  destruct s as [|c r]; [discriminate Hp|]. rewrite (starts34 c r).
  assert (Hc : (c =? 34) = false).
  { destruct (c =? 34) eqn:E; [|reflexivity]. apply N.eqb_eq in E. subst c.
    assert (Hn : parse_i64 (34 :: r) = None) by reflexivity. congruence. }
  rewrite Hc. cbn [andb]. rewrite Hi, Hp. reflexivity.
Qed.

Lemma literal_bool : forall s (b : bool), eq_ignore_case s (if b then KW "true" else KW "false") = true ->
  literal_of_asn_str s = POk (Some (LBool b)).
Proof.
  intros s b H. unfold literal_of_asn_str. destruct b.
  - rewrite H. reflexivity.
  - destruct (eq_ignore_case s (KW "true")) eqn:E.
    + apply eq_ignore_case_length in E. apply eq_ignore_case_length in H. rewrite E in H. discriminate H.
    + rewrite H. reflexivity.
Qed.

Lemma literal_quoted_prefix : forall body tail (X : pres (option literal)),
  (if eq_ignore_case (39 :: body ++ 39 :: tail) (KW "true") then POk (Some (LBool true))
   else if eq_ignore_case (39 :: body ++ 39 :: tail) (KW "false") then POk (Some (LBool false))
   else if match 39 :: body ++ 39 :: tail with 34 :: _ => true | _ => false end && ends_with (39 :: body ++ 39 :: tail) [34]
        then match 39 :: body ++ 39 :: tail with
             | _ :: ((_ :: _) as r) => POk (Some (LString (removelast r)))
             | _ => PPanic P_SLICE_RANGE
             end
   else if is_int_text (39 :: body ++ 39 :: tail) then
     POk (match parse_i64 (39 :: body ++ 39 :: tail) with Some v => Some (LInteger v) | None => None end)
   else X) = X.
Proof.
  intros body tail X.
  replace (eq_ignore_case (39 :: body ++ 39 :: tail) (KW "true")) with false
    by (symmetry; change (KW "true") with (116 :: s2n "rue"); apply head_not_keyword; lia).
  replace (eq_ignore_case (39 :: body ++ 39 :: tail) (KW "false")) with false
    by (symmetry; change (KW "false") with (102 :: s2n "alse"); apply head_not_keyword; lia).
  reflexivity.
Qed.

Lemma removelast2 : forall (body : str) x y, removelast (removelast (body ++ [x; y])) = body.
Proof.
  intros body x y. change (body ++ [x; y])%list with (body ++ [x] ++ [y])%list. rewrite app_assoc.
  rewrite removelast_last. apply removelast_last.
Qed.

Lemma literal_hex : forall hex suffix,
  forallb is_hexdigit hex = true -> eq_ignore_case suffix (KW "H") = true ->
  literal_of_asn_str (39 :: hex ++ 39 :: suffix) = POk (Some (LOctets (hex_bytes hex))).
Proof.
  intros hex suffix Hh Hs. unfold literal_of_asn_str. rewrite literal_quoted_prefix.
  change (KW "H") with [72] in Hs.
  assert (Hsuf : exists x, suffix = [x] /\ (x = 104 \/ x = 72)).
  { destruct suffix as [|c [|d r]]; cbn [eq_ignore_case] in Hs; try discriminate.
    - exists c. split; [reflexivity|]. rewrite andb_true_r in Hs. apply N.eqb_eq in Hs.
      unfold to_ascii_lower in Hs. change ((65 <=? 72) && (72 <=? 90)) with true in Hs. cbv iota in Hs.
      destruct ((65 <=? c) && (c <=? 90)) eqn:Ec; lia.
    - apply andb_true_iff in Hs. destruct Hs as [_ Hs]. discriminate Hs. }
  destruct Hsuf as [x [-> Hx]].
  assert (He : ends_with (39 :: hex ++ [39; x]) [39; 104] || ends_with (39 :: hex ++ [39; x]) [39; 72] = true).
  { destruct Hx as [-> | ->].
    - change (39 :: hex ++ [39; 104])%list with ((39 :: hex) ++ [39; 104])%list. rewrite ends_with_app. reflexivity.
    - change (39 :: hex ++ [39; 72])%list with ((39 :: hex) ++ [39; 72])%list. rewrite (ends_with_app _ [39; 72]).
      apply orb_true_r. }
  rewrite He. cbn [andb].
  destruct (hex ++ [39; x])%list as [|a [|b r]] eqn:E.
  - destruct hex; discriminate E.
  - destruct hex as [|h1 [|h2 hex']]; discriminate E.
  - rewrite <- E. rewrite removelast2. rewrite Hh. reflexivity.
Qed.

Lemma literal_bits : forall bits suffix,
  forallb (fun c => (c =? 48) || (c =? 49)) bits = true -> eq_ignore_case suffix (KW "B") = true ->
  literal_of_asn_str (39 :: bits ++ 39 :: suffix) = POk (Some (LOctets (bit_bytes bits))).
Proof.
  intros bits suffix Hh Hs. unfold literal_of_asn_str. rewrite literal_quoted_prefix.
  change (KW "B") with [66] in Hs.
  assert (Hsuf : exists x, suffix = [x] /\ (x = 98 \/ x = 66)).
  { destruct suffix as [|c [|d r]]; cbn [eq_ignore_case] in Hs; try discriminate.
    - exists c. split; [reflexivity|]. rewrite andb_true_r in Hs. apply N.eqb_eq in Hs.
      unfold to_ascii_lower in Hs. change ((65 <=? 66) && (66 <=? 90)) with true in Hs. cbv iota in Hs.
      destruct ((65 <=? c) && (c <=? 90)) eqn:Ec; lia.
    - apply andb_true_iff in Hs. destruct Hs as [_ Hs]. discriminate Hs. }
  destruct Hsuf as [x [-> Hx]].
  assert (Hn : ends_with (39 :: bits ++ [39; x]) [39; 104] || ends_with (39 :: bits ++ [39; x]) [39; 72] = false).
  { apply orb_false_iff. split.
    - destruct (ends_with (39 :: bits ++ [39; x]) [39; 104]) eqn:E; [|reflexivity].
      change (39 :: bits ++ [39; x])%list with ((39 :: bits) ++ [39; x])%list in E. apply ends_with_last2 in E. lia.
    - destruct (ends_with (39 :: bits ++ [39; x]) [39; 72]) eqn:E; [|reflexivity].
      change (39 :: bits ++ [39; x])%list with ((39 :: bits) ++ [39; x])%list in E. apply ends_with_last2 in E. lia. }
  rewrite Hn.
  assert (He : ends_with (39 :: bits ++ [39; x]) [39; 98] || ends_with (39 :: bits ++ [39; x]) [39; 66] = true).
  { destruct Hx as [-> | ->].
    - change (39 :: bits ++ [39; 98])%list with ((39 :: bits) ++ [39; 98])%list. rewrite ends_with_app. reflexivity.
    - change (39 :: bits ++ [39; 66])%list with ((39 :: bits) ++ [39; 66])%list. rewrite (ends_with_app _ [39; 66]).
      apply orb_true_r. }
  cbn [andb]. rewrite He. cbn [andb].
  destruct (bits ++ [39; x])%list as [|a [|b r]] eqn:E.
  - destruct bits; discriminate E.
  - destruct bits as [|h1 [|h2 bits']]; discriminate E.
  - rewrite <- E. rewrite removelast2. rewrite Hh. reflexivity.
Qed.

Lemma hex_bytes_even : forall hex, Nat.even (length hex) = true -> hex_bytes hex = hex_pairs hex.
Proof.
  intros hex H. unfold hex_bytes. apply Nat.even_spec in H. destruct H as [k Hk]. rewrite Hk.
  replace (N.of_nat (2 * k)) with (2 * N.of_nat k) by lia. rewrite N.odd_mul. reflexivity.
Qed.

Lemma bit_bytes_aligned : forall bits, Nat.modulo (length bits) 8 = O ->
  bit_bytes bits = chunks8 (S (length bits)) bits.
Proof. intros bits H. unfold bit_bytes. rewrite H. reflexivity. Qed.

(* the quoted part: opening delimiter, first text, pieces, closing delimiter *)
Lemma nse_S : forall c l k r, next_sep_or_err c (Separator l k c :: r) = POk r.
Proof. intros. unfold next_sep_or_err, next_if_sep. cbn [eq_separator]. rewrite N.eqb_refl. reflexivity. Qed.

Lemma read_string_loop_pieces : forall delim l ps fuel col acc rest,
  Forall (piece_ok delim) ps -> (length ps < fuel)%nat ->
  read_string_loop fuel delim (print_pieces delim l col ps ++ rest) acc col
  = POk ((acc ++ concat (map piece_text ps) ++ [delim])%list, rest).
Proof.
  intros delim l. induction ps as [|p ps IH]; intros fuel col acc rest Hok Hf;
    (destruct fuel as [|fuel]; [cbn [length] in Hf; lia|]).
  - cbn [print_pieces app read_string_loop next_or_err pbind eq_separator]. rewrite N.eqb_refl. reflexivity.
  - inversion Hok as [|? ? Hp Hps]; subst.
    assert (Hsp : forall g, spaces col (col + g) = repeat 32 (N.to_nat g)).
    { intros g. unfold spaces. f_equal. lia. }
    cbn [print_pieces app read_string_loop next_or_err pbind].
    destruct p as [g s | g c]; cbn [piece_tok eq_separator piece_end piece_text].
    + rewrite Hsp. rewrite IH; [| exact Hps | cbn [length] in Hf; lia].
      cbn [map concat piece_text]. rewrite <- !app_assoc. reflexivity.
    + cbn [piece_ok] in Hp. apply N.eqb_neq in Hp. rewrite Hp.
      rewrite Hsp. rewrite IH; [| exact Hps | cbn [length] in Hf; lia].
      cbn [map concat piece_text]. rewrite <- !app_assoc. reflexivity.
Qed.

Lemma read_string_literal_print : forall delim l col first ps rest,
  Forall (piece_ok delim) ps ->
  read_string_literal delim (print_quoted delim l col first ps ++ rest)
  = POk (delim :: (first ++ concat (map piece_text ps)) ++ [delim], rest)%list.
Proof.
  intros delim l col first ps rest Hok. unfold read_string_literal, print_quoted. cbn [app].
  rewrite nse_S. cbn [pbind next_or_err tok_text tok_column].
  rewrite read_string_loop_pieces; [| exact Hok |].
  - rewrite <- !app_assoc. reflexivity.
  - rewrite app_length.
    assert (H : (length ps < length (print_pieces delim l (col + 1 + N.of_nat (length first)) ps))%nat).
    { generalize (col + 1 + N.of_nat (length first)). induction ps as [|p ps IH]; intros k; cbn [print_pieces length]; [lia|].
      inversion Hok; subst. specialize (IH H2 (piece_end k p)). lia. }
    lia.
Qed.

Lemma read_string_literal_print' : forall delim l col first ps rest,
  Forall (piece_ok delim) ps ->
  read_string_literal delim
    (Separator l col delim :: Text l (col + 1) first :: print_pieces delim l (col + 1 + N.of_nat (length first)) ps ++ rest)
  = POk (delim :: (first ++ concat (map piece_text ps)) ++ [delim], rest)%list.
Proof. exact read_string_literal_print. Qed.

Lemma read_literal_sep : forall l col c r,
  read_literal (Separator l col c :: r) =
  (let? (s, r') :=
     (if c =? C_QUOTE then read_string_literal C_QUOTE (Separator l col c :: r)
      else if c =? C_APOS then read_hex_or_bit_string_literal (Separator l col c :: r)
      else PErr E_UNSUPPORTED_LITERAL (Some (Separator l col c))) in
   let? l0 := literal_of_asn_str s in
   match l0 with
   | Some v => POk (v, r')
   | None => PErr E_INVALID_LITERAL (Some (Text l col s))
   end).
Proof. reflexivity. Qed.

Theorem read_literal_print : forall v rest,
  slit_wf v -> read_literal (print_slit v ++ rest) = POk (denote_slit v, rest).
Proof.
  intros v rest Hwf. destruct v as [s b | s z | l col first ps | l col hex suffix | l col bits suffix];
    cbn [slit_wf] in Hwf; cbn [print_slit denote_slit].
  - (* BOOLEAN *)
    cbn [app]. unfold read_literal. cbn [peek_is_text_ic]. rewrite !eqtext_T.
    assert (Hc : eq_ignore_case s (KW "true") || eq_ignore_case s (KW "false") = true).
    { destruct b; rewrite Hwf; [reflexivity | apply orb_true_r]. }
    rewrite Hc. cbn [orb]. rewrite nte_T. cbn [pbind]. rewrite (literal_bool s b Hwf). reflexivity.
  - (* INTEGER *)
    destruct Hwf as [Hi Hp]. cbn [app]. unfold read_literal. rewrite toktext_T, Hi, !orb_true_r.
    rewrite nte_T. cbn [pbind]. rewrite (literal_int s z Hi Hp). reflexivity.
  - (* character string *)
    unfold print_quoted. cbn [app]. rewrite read_literal_sep.
    change (C_QUOTE =? C_QUOTE) with true. cbv iota.
    rewrite read_string_literal_print' by exact Hwf. cbn [pbind].
    change C_QUOTE with 34. rewrite literal_string. reflexivity.
  - (* hstring *)
    destruct Hwf as [Hh [He Hs]].
    unfold print_quoted. cbn [app]. rewrite read_literal_sep.
    change (C_APOS =? C_QUOTE) with false. change (C_APOS =? C_APOS) with true. cbv iota.
    unfold read_hex_or_bit_string_literal. rewrite <- app_assoc.
    rewrite read_string_literal_print' by constructor. cbn [pbind app].
    unfold next_text_eq_any_ic_or_err. cbn [existsb eq_text_ic]. rewrite Hs. cbn [orb pbind map concat].
    rewrite app_nil_r.
    replace (C_APOS :: (hex ++ [C_APOS]) ++ suffix)%list with (39 :: hex ++ 39 :: suffix)%list
      by (rewrite <- app_assoc; reflexivity).
    rewrite (literal_hex hex suffix Hh Hs). rewrite (hex_bytes_even hex He). reflexivity.
  - (* bstring *)
    destruct Hwf as [Hh [He Hs]].
    unfold print_quoted. cbn [app]. rewrite read_literal_sep.
    change (C_APOS =? C_QUOTE) with false. change (C_APOS =? C_APOS) with true. cbv iota.
    unfold read_hex_or_bit_string_literal. rewrite <- app_assoc.
    rewrite read_string_literal_print' by constructor. cbn [pbind app].
    unfold next_text_eq_any_ic_or_err. cbn [existsb eq_text_ic]. rewrite Hs. rewrite orb_true_r. cbn [orb pbind map concat].
    rewrite app_nil_r.
    replace (C_APOS :: (bits ++ [C_APOS]) ++ suffix)%list with (39 :: bits ++ 39 :: suffix)%list
      by (rewrite <- app_assoc; reflexivity).
    rewrite (literal_bits bits suffix Hh Hs). rewrite (bit_bytes_aligned bits He). reflexivity.
Qed.

(* DEFAULT valuereference: read_literal refuses the word with E_UNSUPPORTED_LITERAL and hands the token back *)
Theorem read_literal_value_ref : forall s rest,
  value_ref_ok s -> read_literal (T s :: rest) = PErr E_UNSUPPORTED_LITERAL (Some (T s)).
Proof.
  intros s rest [H1 [H2 H3]]. unfold read_literal. cbn [peek_is_text_ic]. rewrite !eqtext_T, toktext_T, H1, H2, H3.
  reflexivity.
Qed.

(* ---------- OBJECT IDENTIFIER values ---------- *)

Lemma read_oid_loop_T : forall f s r acc,
  read_oid_loop (S f) (T s :: r) acc =
  if forallb is_numeric s then
    match parse_u64 s with
    | Some v => read_oid_loop f r (NumberForm v :: acc)
    | None => PErr E_INVALID_INT_TEXT (Some (T s))
    end
  else
    let (b, r1) := next_is_sep C_LPAREN r in
    if b then
      let? (txt, r2) := next_text_or_err r1 in
      match parse_u64 txt with
      | Some v => let? r3 := next_sep_or_err C_RPAREN r2 in
                  read_oid_loop f r3 (NameAndNumberForm s v :: acc)
      | None => PErr E_INVALID_INT_TEXT (Some (T s))
      end
    else read_oid_loop f r1 (NameForm s :: acc).
Proof. reflexivity. Qed.

Lemma oid_body_no_lparen : forall cs rest,
  peek_is_sep C_LPAREN (flat_map print_oidc cs ++ P C_RBRACE :: rest) = false.
Proof.
  intros [|[c num] cs] rest; [reflexivity|]. cbn [flat_map]. unfold print_oidc. cbn [fst snd].
  destruct c; reflexivity.
Qed.

Lemma print_oidc_length : forall cs, (length cs <= length (flat_map print_oidc cs))%nat.
Proof.
  induction cs as [|[c num] cs IH]; [cbn; lia|]. cbn [flat_map]. rewrite app_length. unfold print_oidc at 1.
  cbn [fst snd length]. destruct c; cbn [length]; lia.
Qed.

Lemma read_oid_loop_print : forall cs fuel acc rest,
  Forall oidc_ok cs -> (length cs < fuel)%nat ->
  read_oid_loop fuel (flat_map print_oidc cs ++ P C_RBRACE :: rest) acc = POk ((rev acc ++ map fst cs)%list, rest).
Proof.
  induction cs as [|[c num] cs IH]; intros fuel acc rest Hok Hf;
    (destruct fuel as [|fuel]; [cbn [length] in Hf; lia|]).
  - cbn [flat_map app map]. rewrite app_nil_r. reflexivity.
  - inversion Hok as [|? ? Hc Hcs]; subst. cbn [length] in Hf.
    cbn [flat_map map fst]. unfold print_oidc at 1. cbn [fst snd]. unfold oidc_ok in Hc. cbn [fst snd] in Hc.
    destruct c as [s | n | s n]; cbn [app]; rewrite read_oid_loop_T.
    + rewrite Hc. rewrite (nis_no _ _ (oid_body_no_lparen cs rest)).
      rewrite IH; [| exact Hcs | lia]. cbn [rev]. rewrite <- app_assoc. reflexivity.
    + destruct Hc as [Hn Hp]. rewrite Hn, Hp.
      rewrite IH; [| exact Hcs | lia]. cbn [rev]. rewrite <- app_assoc. reflexivity.
    + destruct Hc as [Hn Hp]. rewrite Hn. rewrite nis_P. rewrite nte_T. cbn [pbind]. rewrite Hp. rewrite nse_P. cbn [pbind].
      rewrite IH; [| exact Hcs | lia]. cbn [rev]. rewrite <- app_assoc. reflexivity.
Qed.

Theorem read_oid_print : forall cs rest,
  Forall oidc_ok cs -> read_oid (print_oid_body cs ++ rest) = POk (map fst cs, rest).
Proof.
  intros cs rest Hok. unfold read_oid, print_oid_body. rewrite <- app_assoc. cbn [app].
  rewrite read_oid_loop_print; [reflexivity | exact Hok |].
  rewrite app_length. pose proof (print_oidc_length cs). lia.
Qed.

Theorem maybe_read_oid_print : forall o rest,
  opt_oid_ok o -> (o = None -> peek_is_sep C_LBRACE rest = false) ->
  maybe_read_oid (print_opt_oid o ++ rest) = POk (denote_opt_oid o, rest).
Proof.
  intros [cs|] rest Hok Hfollow; unfold maybe_read_oid; cbn [print_opt_oid app denote_opt_oid option_map].
  - rewrite nis_P. rewrite read_oid_print by exact Hok. reflexivity.
  - rewrite (nis_no _ _ (Hfollow eq_refl)). reflexivity.
Qed.

(* ---------- IMPORTS ---------- *)

Lemma read_imports_loop_T : forall f s r what acc,
  read_imports_loop (S f) (T s :: r) what acc =
  (let? (t2, r2) := next_or_err r in
   if eq_separator t2 C_COMMA then read_imports_loop f r2 (what ++ [s]) acc
   else if eq_text_ic t2 (KW "FROM") then
     let? (from, r3) := next_text_or_err r2 in
     let? (oid, r4) := maybe_read_oid r3 in
     read_imports_loop f r4 [] ({| i_what := what ++ [s]; i_from := from; i_from_oid := oid |} :: acc)
   else read_imports_loop f r2 (what ++ [s]) acc).
Proof. reflexivity. Qed.

Lemma read_imports_symbols : forall ss s f what acc from oid tail,
  opt_oid_ok oid -> (oid = None -> peek_is_sep C_LBRACE tail = false) ->
  read_imports_loop (length (s :: ss) + f) (print_symbols (s :: ss) ++ T (KW "FROM") :: T from :: print_opt_oid oid ++ tail)
    what acc
  = read_imports_loop f tail []
      ({| i_what := what ++ s :: ss; i_from := from; i_from_oid := denote_opt_oid oid |} :: acc).
Proof.
  induction ss as [|s2 ss IH]; intros s f what acc from oid tail Hok Hfollow.
  - cbn [print_symbols app length Nat.add]. rewrite read_imports_loop_T. tk.
    rewrite eqsep_T, eqtext_T. change (eq_ignore_case (KW "FROM") (KW "FROM")) with true. cbv iota. tk.
    rewrite maybe_read_oid_print by assumption. cbn [pbind]. reflexivity.
  - change (print_symbols (s :: s2 :: ss)) with (T s :: P C_COMMA :: print_symbols (s2 :: ss)).
    cbn [app]. change (length (s :: s2 :: ss) + f)%nat with (S (length (s2 :: ss) + f)).
    rewrite read_imports_loop_T. tk. rewrite eqsep_P. change (C_COMMA =? C_COMMA) with true. cbv iota.
    rewrite IH by assumption. rewrite <- app_assoc. reflexivity.
Qed.

Lemma imports_no_lbrace : forall is rest, Forall import_ok is ->
  peek_is_sep C_LBRACE (flat_map print_import is ++ P C_SEMI :: rest) = false.
Proof.
  intros [|i is] rest Hok; [reflexivity|]. inversion Hok as [|? ? [Hw _] _]; subst.
  cbn [flat_map]. unfold print_import at 1. destruct (si_what i) as [|s [|s2 ss]]; [congruence | reflexivity | reflexivity].
Qed.

Lemma print_symbols_length : forall ss, (length ss <= length (print_symbols ss))%nat.
Proof.
  induction ss as [|s [|s2 ss] IH]; [cbn; lia | cbn; lia |].
  change (print_symbols (s :: s2 :: ss)) with (T s :: P C_COMMA :: print_symbols (s2 :: ss)).
  cbn [length] in *. lia.
Qed.

Lemma read_imports_loop_print : forall is fuel acc rest,
  Forall import_ok is -> (length (flat_map print_import is) < fuel)%nat ->
  read_imports_loop fuel (flat_map print_import is ++ P C_SEMI :: rest) [] acc
  = POk ((rev acc ++ map denote_import is)%list, rest).
Proof.
  induction is as [|i is IH]; intros fuel acc rest Hok Hf.
  - destruct fuel as [|fuel]; [cbn [length flat_map] in Hf; lia|].
    cbn [flat_map app map]. rewrite app_nil_r. reflexivity.
  - inversion Hok as [|? ? [Hw Ho] His]; subst.
    destruct (si_what i) as [|s ss] eqn:Ew; [congruence|].
    assert (Hpi : print_import i
                  = (print_symbols (s :: ss) ++ T (KW "FROM") :: T (si_from i) :: print_opt_oid (si_oid i))%list)
      by (unfold print_import; rewrite Ew; reflexivity).
    cbn [flat_map] in Hf |- *. rewrite Hpi in Hf |- *. rewrite !app_length in Hf. cbn [length] in Hf.
    pose proof (print_symbols_length (s :: ss)) as Hl. cbn [length] in Hl.
    replace fuel with (length (s :: ss) + (fuel - length (s :: ss)))%nat by (cbn [length]; lia).
    rewrite <- !app_assoc. cbn [app].
    rewrite read_imports_symbols; [| exact Ho | intros _; apply imports_no_lbrace; exact His].
    rewrite IH; [| exact His | cbn [length]; lia].
    cbn [rev map app]. rewrite <- app_assoc. cbn [app]. unfold denote_import. rewrite Ew. reflexivity.
Qed.

Theorem read_imports_print : forall is rest,
  Forall import_ok is -> read_imports (print_imports is ++ rest) = POk (map denote_import is, rest).
Proof.
  intros is rest Hok. unfold read_imports, print_imports. rewrite <- app_assoc. cbn [app].
  rewrite read_imports_loop_print; [reflexivity | exact Hok |]. rewrite app_length. lia.
Qed.

(* ---------- the type grammar: one-step unfoldings of the mutual fixpoint ---------- *)

Lemma rrgt_unfold : forall f text ts,
  read_role_given_text (S f) text ts =
  (let lower := map to_ascii_lower text in
   if str_eqb lower (KW "integer") then
     let? (r, c, ts') := read_integer ts in POk (TInteger r c, ts')
   else if str_eqb lower (KW "boolean") then POk (TBoolean, ts)
   else if str_eqb lower (KW "null") then POk (TNull, ts)
   else match charset_of lower with
   | Some cs => let? (s, ts') := maybe_read_size ts in POk (TString s cs, ts')
   | None =>
   if str_eqb lower (KW "octet") then
     let? (_, r) := next_text_eq_ic_or_err (KW "STRING") ts in
     let? (s, ts') := maybe_read_size r in POk (TOctetString s, ts')
   else if str_eqb lower (KW "bit") then
     let? (_, r) := next_text_eq_ic_or_err (KW "STRING") ts in
     let? (c, r1) := maybe_read_constants N constant_u64_parser r in
     let? (s, ts') := maybe_read_size r1 in POk (TBitString s c, ts')
   else if str_eqb lower (KW "enumerated") then
     let? (v, e, ts') := read_enumerated ts in POk (TEnumerated v e, ts')
   else if str_eqb lower (KW "choice") then
     let? (v, e, ts') := read_choice f ts in POk (TChoice v e, ts')
   else if str_eqb lower (KW "sequence") then
     let? (size, r) := maybe_read_size ts in
     let (b, r1) := next_is_text_ic (KW "OF") r in
     if b then
       let? (text', r2) := next_text_or_err r1 in
       let? (inner, ts') := read_role_given_text f text' r2 in POk (TSequenceOf inner size, ts')
     else let? (fs, e, ts') := read_components f r1 in POk (TSequence fs e, ts')
   else if str_eqb lower (KW "set") then
     let? (size, r) := maybe_read_size ts in
     let (b, r1) := next_is_text_ic (KW "OF") r in
     if b then
       let? (text', r2) := next_text_or_err r1 in
       let? (inner, ts') := read_role_given_text f text' r2 in POk (TSetOf inner size, ts')
     else let? (fs, e, ts') := read_components f r1 in POk (TSet fs e, ts')
   else
     let? ts' := maybe_read_with_components ts in POk (TRef text None, ts')
   end).
Proof. reflexivity. Qed.

Lemma rrgt_integer : forall f ts,
  read_role_given_text (S f) (KW "INTEGER") ts = (let? (r, c, ts') := read_integer ts in POk (TInteger r c, ts')).
Proof. reflexivity. Qed.
Lemma rrgt_boolean : forall f ts, read_role_given_text (S f) (KW "BOOLEAN") ts = POk (TBoolean, ts).
Proof. reflexivity. Qed.
Lemma rrgt_null : forall f ts, read_role_given_text (S f) (KW "NULL") ts = POk (TNull, ts).
Proof. reflexivity. Qed.
Lemma rrgt_string : forall f cs ts,
  read_role_given_text (S f) (charset_word cs) ts = (let? (s, ts') := maybe_read_size ts in POk (TString s cs, ts')).
Proof. intros f cs ts. destruct cs; reflexivity. Qed.
Lemma rrgt_octet : forall f ts,
  read_role_given_text (S f) (KW "OCTET") ts =
  (let? (_, r) := next_text_eq_ic_or_err (KW "STRING") ts in
   let? (s, ts') := maybe_read_size r in POk (TOctetString s, ts')).
Proof. reflexivity. Qed.
Lemma rrgt_bit : forall f ts,
  read_role_given_text (S f) (KW "BIT") ts =
  (let? (_, r) := next_text_eq_ic_or_err (KW "STRING") ts in
   let? (c, r1) := maybe_read_constants N constant_u64_parser r in
   let? (s, ts') := maybe_read_size r1 in POk (TBitString s c, ts')).
Proof. reflexivity. Qed.
Lemma rrgt_enumerated : forall f ts,
  read_role_given_text (S f) (KW "ENUMERATED") ts = (let? (v, e, ts') := read_enumerated ts in POk (TEnumerated v e, ts')).
Proof. reflexivity. Qed.
Lemma rrgt_choice : forall f ts,
  read_role_given_text (S f) (KW "CHOICE") ts = (let? (v, e, ts') := read_choice f ts in POk (TChoice v e, ts')).
Proof. reflexivity. Qed.
Lemma rrgt_sequence : forall f ts,
  read_role_given_text (S f) (KW "SEQUENCE") ts =
  (let? (size, r) := maybe_read_size ts in
   let (b, r1) := next_is_text_ic (KW "OF") r in
   if b then
     let? (text', r2) := next_text_or_err r1 in
     let? (inner, ts') := read_role_given_text f text' r2 in POk (TSequenceOf inner size, ts')
   else let? (fs, e, ts') := read_components f r1 in POk (TSequence fs e, ts')).
Proof. reflexivity. Qed.
Lemma rrgt_set : forall f ts,
  read_role_given_text (S f) (KW "SET") ts =
  (let? (size, r) := maybe_read_size ts in
   let (b, r1) := next_is_text_ic (KW "OF") r in
   if b then
     let? (text', r2) := next_text_or_err r1 in
     let? (inner, ts') := read_role_given_text f text' r2 in POk (TSetOf inner size, ts')
   else let? (fs, e, ts') := read_components f r1 in POk (TSet fs e, ts')).
Proof. reflexivity. Qed.

Lemma rrgt_ref : forall f name ts,
  is_builtin_word (map to_ascii_lower name) = false ->
  read_role_given_text (S f) name ts = (let? ts' := maybe_read_with_components ts in POk (TRef name None, ts')).
Proof.
  intros f name ts H. rewrite rrgt_unfold. cbv zeta. unfold is_builtin_word in H.
  repeat (apply orb_false_iff in H; destruct H as [H ?]).
  unfold charset_of.
  repeat match goal with E : str_eqb _ _ = false |- _ => rewrite E; clear E end.
  reflexivity.
Qed.

Lemma read_components_S : forall f ts,
  read_components (S f) ts = (let? r := next_sep_or_err C_LBRACE ts in components_loop f r [] None).
Proof. reflexivity. Qed.

Lemma components_loop_S : forall f ts acc ext,
  components_loop (S f) ts acc ext =
  (let (b, r) := next_is_sep C_RBRACE ts in
   if b then POk (rev acc, ext, r)
   else
     let (d, r1) := next_is_sep C_DOT r in
     if d then
       let? r2 := next_sep_or_err C_DOT r1 in
       let? r3 := next_sep_or_err C_DOT r2 in
       let ext' := Some (N.of_nat (length acc) - 1) in
       let? (t, r4) := next_or_err r3 in
       if eq_separator t C_COMMA then components_loop f r4 acc ext'
       else if eq_separator t C_RBRACE then POk (rev acc, ext', r4)
       else PErr E_UNEXPECTED_TOKEN (Some t)
     else
       let? (fld, continues, r2) := read_field f r1 in
       if continues then components_loop f r2 (fld :: acc) ext
       else POk (rev (fld :: acc), ext, r2)).
Proof. reflexivity. Qed.

Lemma read_field_S : forall f ts,
  read_field (S f) ts =
  (let? (name, r0) := next_text_or_err ts in
   let? (t, tag, r1) := next_with_opt_tag r0 in
   let? text := into_text_or E_EXPECTED_TEXT t in
   let? (ty0, r2) := read_role_given_text f text r1 in
   let? (t1, r3) := next_or_err r2 in
   let? (ty1, dflt, t2, r4) :=
     (if eq_text_ic t1 (KW "OPTIONAL") then
        let? (t', r') := next_or_err r3 in POk (TOptional ty0, None, t', r')
      else if eq_text_ic t1 (KW "DEFAULT") then
        let? (d, r') :=
          (match read_literal r3 with
           | POk (v, r') => POk (Lit v, r')
           | PErr k (Some tk) =>
               if (k =? E_UNSUPPORTED_LITERAL) && is_text tk then
                 let? (s, r') := next_text_or_err r3 in POk (Ref s, r')
               else PErr k (Some tk)
           | PErr k None => PErr k None
           | PPanic p => PPanic p
           | POutOfFuel => POutOfFuel
           end) in
        let? (t', r'') := next_or_err r' in POk (ty0, Some d, t', r'')
      else POk (ty0, None, t1, r3)) in
   if eq_separator t2 C_COMMA then POk ((name, (tag, ty1, dflt)), true, r4)
   else if eq_separator t2 C_RBRACE then POk ((name, (tag, ty1, dflt)), false, r4)
   else PErr E_UNEXPECTED_TOKEN (Some t2)).
Proof. reflexivity. Qed.

Lemma read_choice_S : forall f ts,
  read_choice (S f) ts = (let? r := next_sep_or_err C_LBRACE ts in choice_loop f r [] None).
Proof. reflexivity. Qed.

Lemma choice_loop_S : forall f ts acc ext,
  choice_loop (S f) ts acc ext =
  (let? (acc', ext', r) :=
     (match next_if_sep C_DOT ts with
      | POk (marker, r) =>
          match acc with
          | [] => PErr E_INVALID_POSITION_FOR_EXTENSION_MARKER (Some marker)
          | _ :: _ =>
              if negb (is_none_N ext) then PErr E_INVALID_POSITION_FOR_EXTENSION_MARKER (Some marker)
              else
                let? r1 := next_sep_or_err C_DOT r in
                let? r2 := next_sep_or_err C_DOT r1 in
                POk (acc, Some (N.of_nat (length acc) - 1), r2)
          end
      | _ =>
          let? (name, r0) := next_text_or_err ts in
          let? (t, tag, r1) := next_with_opt_tag r0 in
          let? text := into_text_or E_EXPECTED_TEXT t in
          let? (ty0, r2) := read_role_given_text f text r1 in
          POk ((name, tag, ty0) :: acc, ext, r2)
      end) in
   let? (t, r') := next_or_err r in
   let? cont := loop_ctrl t in
   if cont then choice_loop f r' acc' ext' else POk (rev acc', ext', r')).
Proof. reflexivity. Qed.

(* ---------- small facts ---------- *)

Lemma ito_T : forall k s, into_text_or k (T s) = POk s. Proof. reflexivity. Qed.
Lemma nteq_string : forall r,
  next_text_eq_ic_or_err (KW "STRING") (T (KW "STRING") :: r) = POk (T (KW "STRING"), r).
Proof. reflexivity. Qed.
Lemma nit_of : forall r, next_is_text_ic (KW "OF") (T (KW "OF") :: r) = (true, r). Proof. reflexivity. Qed.
Lemma mrs_lbrace : forall r, maybe_read_size (P C_LBRACE :: r) = POk (SAny, P C_LBRACE :: r). Proof. reflexivity. Qed.

Lemma print_size_head : forall s sa sb rest, size_wf s sa sb ->
  next_is_sep C_LPAREN (print_size s sa sb ++ rest) = (false, print_size s sa sb ++ rest) /\
  peek_is_text_ic (KW "SIZE") (print_size s sa sb ++ rest) = true /\
  peek_is_sep C_LBRACE (print_size s sa sb ++ rest) = false.
Proof. intros [|a e|a b e] sa sb rest H; [contradiction H| |]; repeat split; reflexivity. Qed.

Lemma maybe_read_size_print : forall z rest, ssize_wf z ->
  (z = SSNone -> peek_is_sep C_LPAREN rest = false /\ peek_is_text_ic (KW "SIZE") rest = false) ->
  maybe_read_size (print_ssize z ++ rest) = POk (denote_ssize z, rest).
Proof.
  intros [|s sa sb|s sa sb] rest Hwf Hf; cbn [ssize_wf] in Hwf; unfold maybe_read_size; cbn [print_ssize denote_ssize].
  - destruct (Hf eq_refl) as [H1 H2]. cbn [app]. rewrite (nis_no _ _ H1). rewrite H2. reflexivity.
  - destruct (print_size_head s sa sb rest Hwf) as [H1 [H2 _]]. rewrite H1, H2. cbv beta iota.
    apply read_size_print. exact Hwf.
  - cbn [app]. rewrite nis_P. rewrite <- app_assoc. rewrite read_size_print by exact Hwf. cbn [pbind app].
    rewrite nse_P. reflexivity.
Qed.

Lemma print_ssize_no_lbrace : forall z rest, ssize_wf z ->
  (z = SSNone -> peek_is_sep C_LBRACE rest = false) -> peek_is_sep C_LBRACE (print_ssize z ++ rest) = false.
Proof.
  intros [|s sa sb|s sa sb] rest Hwf Hf; cbn [ssize_wf] in Hwf; cbn [print_ssize].
  - apply Hf. reflexivity.
  - apply (print_size_head s sa sb rest Hwf).
  - reflexivity.
Qed.

Lemma read_integer_consts_only : forall (cs : list (str * str * Z)) rest,
  Forall (item_ok Z constant_i64_parser) cs ->
  (cs = [] -> peek_is_sep C_LBRACE rest = false) -> peek_is_sep C_LPAREN rest = false ->
  read_integer (print_constants cs ++ rest) = POk ((None, None, false), map item_value cs, rest).
Proof.
  intros cs rest Hok H1 H2. unfold read_integer. rewrite maybe_read_constants_print by assumption. cbn [pbind].
  rewrite (nis_no _ _ H2). reflexivity.
Qed.

Lemma ext_result_top : forall ext, ext_result 0 (option_map N.to_nat ext) None = ext.
Proof. intros [k|]; cbn [option_map ext_result]; [f_equal; lia | reflexivity]. Qed.

Lemma follow_ok_tok : forall s t r,
  eq_separator t C_LBRACE = false -> eq_separator t C_LPAREN = false -> eq_text_ic t (KW "SIZE") = false ->
  follow_ok s (t :: r).
Proof.
  intros s t r H1 H2 H3. unfold follow_ok. destruct (follow_req s) as [[b p] z].
  cbn [peek_is_sep peek_is_text_ic]. auto.
Qed.

(* what follows an item of a list: "," or "}" *)
Definition ends_item (tl : list token) : Prop :=
  exists c tl', tl = P c :: tl' /\ (c = C_COMMA \/ c = C_RBRACE).

Lemma follow_ok_ends_item : forall s tl, ends_item tl -> follow_ok s tl.
Proof. intros s tl [c [tl' [-> [-> | ->]]]]; apply follow_ok_tok; reflexivity. Qed.

Lemma follow_ok_sdefault : forall s d tl, ends_item tl -> follow_ok s (print_sdefault d ++ tl).
Proof.
  intros s [| |l|x] tl H; cbn [print_sdefault app];
    [apply follow_ok_ends_item; exact H | apply follow_ok_tok; reflexivity ..].
Qed.

Lemma ends_item_ext_here : forall e tl, ends_item tl -> ends_item (ext_here e ++ tl).
Proof.
  intros [[|k]|] tl H; cbn [ext_here app]; try exact H.
  exists C_COMMA, (marker_toks ++ tl)%list. split; [reflexivity | left; reflexivity].
Qed.

(* ---------- one component ---------- *)

Lemma read_field_print : forall f name (tag : stag) t d c tl,
  stag_ok tag -> sdefault_wf d -> (c = C_COMMA \/ c = C_RBRACE) ->
  read_role_given_text f (sty_word t) (sty_args t ++ print_sdefault d ++ P c :: tl)
    = POk (denote_sty t, print_sdefault d ++ P c :: tl) ->
  read_field (S f)
    (T name :: print_opt_tag (fst tag) (snd tag) ++ T (sty_word t) :: sty_args t ++ print_sdefault d ++ P c :: tl)
  = POk ((name, (fst tag, match d with SDOptional => TOptional (denote_sty t) | _ => denote_sty t end,
                 denote_sdefault d)),
         c =? C_COMMA, tl).
Proof.
  intros f name tag t d c tl Htag Hd Hc Ht.
  rewrite read_field_S. rewrite nte_T. cbn [pbind].
  rewrite next_with_opt_tag_print by exact Htag. cbn [pbind]. rewrite ito_T. cbn [pbind]. rewrite Ht. cbn [pbind].
  assert (Hfin : forall (x : ufield),
     (if eq_separator (P c) C_COMMA then POk (x, true, tl)
      else if eq_separator (P c) C_RBRACE then POk (x, false, tl)
      else PErr E_UNEXPECTED_TOKEN (Some (P c))) = POk (x, c =? C_COMMA, tl)).
  { intros x. rewrite !eqsep_P. destruct Hc as [-> | ->]; reflexivity. }
  destruct d as [| | l | s]; cbn [print_sdefault app sdefault_wf denote_sdefault] in *.
  - rewrite noe_cons. cbn [pbind]. rewrite !eqtext_P. cbn [pbind]. apply Hfin.
  - rewrite noe_cons. cbn [pbind]. rewrite eqtext_T.
    change (eq_ignore_case (KW "OPTIONAL") (KW "OPTIONAL")) with true. cbv iota.
    rewrite noe_cons. cbn [pbind]. apply Hfin.
  - rewrite noe_cons. cbn [pbind]. rewrite !eqtext_T.
    change (eq_ignore_case (KW "DEFAULT") (KW "OPTIONAL")) with false.
    change (eq_ignore_case (KW "DEFAULT") (KW "DEFAULT")) with true. cbv iota.
    rewrite read_literal_print by exact Hd. cbn [pbind]. rewrite noe_cons. cbn [pbind]. apply Hfin.
  - rewrite noe_cons. cbn [pbind]. rewrite !eqtext_T.
    change (eq_ignore_case (KW "DEFAULT") (KW "OPTIONAL")) with false.
    change (eq_ignore_case (KW "DEFAULT") (KW "DEFAULT")) with true. cbv iota.
    rewrite read_literal_value_ref by exact Hd.
    change (E_UNSUPPORTED_LITERAL =? E_UNSUPPORTED_LITERAL) with true. rewrite istext_T. cbn [andb].
    rewrite nte_T. cbn [pbind]. rewrite noe_cons. cbn [pbind]. apply Hfin.
Qed.

(* ---------- the induction ---------- *)

Definition Ps (s : sty) : Prop := forall fuel rest,
  wf_sty s -> follow_ok s rest -> (2 * length (print_sty s) <= fuel)%nat ->
  read_role_given_text fuel (sty_word s) (sty_args s ++ rest) = POk (denote_sty s, rest).

Definition Pf (fs : sfields) : Prop := forall fuel acc e0 ext rest,
  wf_sfields fs -> (forall k, ext = Some k -> (k < sfields_length fs)%nat) ->
  (2 * length (print_fields fs ext) <= fuel)%nat ->
  components_loop fuel (print_fields fs ext ++ rest) acc e0
  = POk ((rev acc ++ denote_fields fs)%list, ext_result (length acc) ext e0, rest).

Definition Pv (vs : svariants) : Prop := forall fuel acc e0 ext rest,
  vs <> SVNil -> wf_svariants vs -> (forall k, ext = Some k -> (k < svariants_length vs)%nat /\ e0 = None) ->
  (2 * length (print_variants vs ext) <= fuel)%nat ->
  choice_loop fuel (print_variants vs ext ++ rest) acc e0
  = POk ((rev acc ++ denote_variants vs)%list, ext_result (length acc) ext e0, rest).

Lemma ps_boolean : Ps SBoolean.
Proof.
  intros fuel rest _ _ Hfuel. cbn [print_sty sty_args length] in Hfuel. destruct fuel as [|f]; [lia|].
  cbn [sty_word sty_args app denote_sty]. apply rrgt_boolean.
Qed.

Lemma ps_null : Ps SNull.
Proof.
  intros fuel rest _ _ Hfuel. cbn [print_sty sty_args length] in Hfuel. destruct fuel as [|f]; [lia|].
  cbn [sty_word sty_args app denote_sty]. apply rrgt_null.
Qed.

Lemma ps_integer : forall cs rg, Ps (SInteger cs rg).
Proof.
  intros cs rg fuel rest Hwf Hfo Hfuel. cbn [print_sty length] in Hfuel. destruct fuel as [|f]; [lia|].
  cbn [wf_sty] in Hwf. destruct Hwf as [Hcs Hrg].
  cbn [sty_word sty_args denote_sty]. rewrite rrgt_integer. rewrite <- app_assoc.
  destruct rg as [[[r sa] sb]|]; cbn [print_opt_range denote_range].
  - rewrite read_integer_print by assumption. reflexivity.
  - cbn [app]. unfold follow_ok in Hfo. rewrite read_integer_consts_only.
    + reflexivity.
    + exact Hcs.
    + intros ->. cbn [follow_req] in Hfo. apply Hfo. reflexivity.
    + destruct cs; cbn [follow_req] in Hfo; apply Hfo; reflexivity.
Qed.

Lemma follow_size_none : forall b rest,
  ((b = true -> peek_is_sep C_LBRACE rest = false) /\
   (true = true -> peek_is_sep C_LPAREN rest = false) /\
   (true = true -> peek_is_text_ic (KW "SIZE") rest = false)) ->
  peek_is_sep C_LPAREN rest = false /\ peek_is_text_ic (KW "SIZE") rest = false.
Proof. intros b rest [_ [H1 H2]]. split; [apply H1 | apply H2]; reflexivity. Qed.

Lemma ps_string : forall cs sz, Ps (SString cs sz).
Proof.
  intros cs sz fuel rest Hwf Hfo Hfuel. cbn [print_sty length] in Hfuel. destruct fuel as [|f]; [lia|].
  cbn [wf_sty] in Hwf. cbn [sty_word sty_args denote_sty]. rewrite rrgt_string.
  rewrite maybe_read_size_print; [reflexivity | exact Hwf |].
  intros ->. unfold follow_ok in Hfo. cbn [follow_req] in Hfo. apply (follow_size_none false). exact Hfo.
Qed.

Lemma ps_octet : forall sz, Ps (SOctetString sz).
Proof.
  intros sz fuel rest Hwf Hfo Hfuel. cbn [print_sty length] in Hfuel. destruct fuel as [|f]; [lia|].
  cbn [wf_sty] in Hwf. cbn [sty_word sty_args denote_sty app]. rewrite rrgt_octet. rewrite nteq_string. cbn [pbind].
  rewrite maybe_read_size_print; [reflexivity | exact Hwf |].
  intros ->. unfold follow_ok in Hfo. cbn [follow_req] in Hfo. apply (follow_size_none false). exact Hfo.
Qed.

Lemma ps_bit : forall cs sz, Ps (SBitString cs sz).
Proof.
  intros cs sz fuel rest Hwf Hfo Hfuel. cbn [print_sty length] in Hfuel. destruct fuel as [|f]; [lia|].
  cbn [wf_sty] in Hwf. destruct Hwf as [Hcs Hsz].
  cbn [sty_word sty_args denote_sty app]. rewrite rrgt_bit. rewrite nteq_string. cbn [pbind].
  rewrite <- app_assoc. unfold follow_ok in Hfo.
  rewrite maybe_read_constants_print; [| exact Hcs |].
  - cbn [pbind]. rewrite maybe_read_size_print; [reflexivity | exact Hsz |].
    intros ->. destruct cs; cbn [follow_req] in Hfo; [apply (follow_size_none true) | apply (follow_size_none false)]; exact Hfo.
  - intros ->. apply print_ssize_no_lbrace; [exact Hsz|]. intros ->. cbn [follow_req] in Hfo. apply Hfo. reflexivity.
Qed.

Lemma ps_enumerated : forall its ext, Ps (SEnumerated its ext).
Proof.
  intros its ext fuel rest Hwf _ Hfuel. cbn [print_sty length] in Hfuel. destruct fuel as [|f]; [lia|].
  cbn [wf_sty] in Hwf. cbn [sty_word sty_args denote_sty]. rewrite rrgt_enumerated.
  rewrite read_enumerated_print by exact Hwf. reflexivity.
Qed.

Lemma ps_ref : forall name, Ps (SRef name).
Proof.
  intros name fuel rest Hwf Hfo Hfuel. cbn [print_sty length] in Hfuel. destruct fuel as [|f]; [lia|].
  cbn [wf_sty] in Hwf. cbn [sty_word sty_args denote_sty app]. rewrite rrgt_ref by exact Hwf.
  unfold follow_ok in Hfo. cbn [follow_req] in Hfo. destruct Hfo as [_ [Hp _]].
  unfold maybe_read_with_components. rewrite (nis_no _ _ (Hp eq_refl)). reflexivity.
Qed.

Lemma ps_seqof : forall sz t, Ps t -> Ps (SSequenceOf sz t).
Proof.
  intros sz t IHt fuel rest Hwf Hfo Hfuel. cbn [wf_sty] in Hwf. destruct Hwf as [Hsz Hwt].
  cbn [print_sty sty_args length] in Hfuel. rewrite app_length in Hfuel. cbn [length] in Hfuel.
  destruct fuel as [|f]; [lia|].
  cbn [sty_word sty_args denote_sty]. rewrite rrgt_sequence. rewrite <- app_assoc. cbn [app].
  rewrite maybe_read_size_print; [| exact Hsz | intros _; split; reflexivity].
  cbn [pbind]. rewrite nit_of. rewrite nte_T. cbn [pbind].
  rewrite IHt; [reflexivity | exact Hwt | exact Hfo | cbn [print_sty length]; lia].
Qed.

Lemma ps_setof : forall sz t, Ps t -> Ps (SSetOf sz t).
Proof.
  intros sz t IHt fuel rest Hwf Hfo Hfuel. cbn [wf_sty] in Hwf. destruct Hwf as [Hsz Hwt].
  cbn [print_sty sty_args length] in Hfuel. rewrite app_length in Hfuel. cbn [length] in Hfuel.
  destruct fuel as [|f]; [lia|].
  cbn [sty_word sty_args denote_sty]. rewrite rrgt_set. rewrite <- app_assoc. cbn [app].
  rewrite maybe_read_size_print; [| exact Hsz | intros _; split; reflexivity].
  cbn [pbind]. rewrite nit_of. rewrite nte_T. cbn [pbind].
  rewrite IHt; [reflexivity | exact Hwt | exact Hfo | cbn [print_sty length]; lia].
Qed.

Lemma ext_hyp_fields : forall (ext : option N) n,
  ext_pos_ok ext n -> forall k, option_map N.to_nat ext = Some k -> (k < n)%nat.
Proof. intros [e|] n H k Hk; cbn [option_map] in Hk; [|discriminate]. inversion Hk; subst. exact H. Qed.

Lemma ps_sequence : forall fs ext, Pf fs -> Ps (SSequence fs ext).
Proof.
  intros fs ext IHf fuel rest Hwf _ Hfuel. cbn [wf_sty] in Hwf. destruct Hwf as [Hwf Hpos].
  cbn [print_sty sty_args length] in Hfuel.
  destruct fuel as [|[|f]]; [lia | lia |].
  cbn [sty_word sty_args denote_sty app]. rewrite rrgt_sequence. rewrite mrs_lbrace. cbn [pbind]. rewrite nit_P.
  cbv beta iota. rewrite read_components_S. rewrite nse_P. cbn [pbind].
  rewrite IHf; [| exact Hwf | apply ext_hyp_fields; exact Hpos | lia].
  cbn [rev app length]. rewrite ext_result_top. reflexivity.
Qed.

Lemma ps_set : forall fs ext, Pf fs -> Ps (SSet fs ext).
Proof.
  intros fs ext IHf fuel rest Hwf _ Hfuel. cbn [wf_sty] in Hwf. destruct Hwf as [Hwf Hpos].
  cbn [print_sty sty_args length] in Hfuel.
  destruct fuel as [|[|f]]; [lia | lia |].
  cbn [sty_word sty_args denote_sty app]. rewrite rrgt_set. rewrite mrs_lbrace. cbn [pbind]. rewrite nit_P.
  cbv beta iota. rewrite read_components_S. rewrite nse_P. cbn [pbind].
  rewrite IHf; [| exact Hwf | apply ext_hyp_fields; exact Hpos | lia].
  cbn [rev app length]. rewrite ext_result_top. reflexivity.
Qed.

Lemma ps_choice : forall vs ext, Pv vs -> Ps (SChoice vs ext).
Proof.
  intros vs ext IHv fuel rest Hwf _ Hfuel. cbn [wf_sty] in Hwf. destruct Hwf as [Hne [Hwf Hpos]].
  cbn [print_sty sty_args length] in Hfuel.
  destruct fuel as [|[|f]]; [lia | lia |].
  cbn [sty_word sty_args denote_sty app]. rewrite rrgt_choice. rewrite read_choice_S. rewrite nse_P. cbn [pbind].
  rewrite IHv; [| exact Hne | exact Hwf | | lia].
  - cbn [rev app length pbind]. rewrite ext_result_top. reflexivity.
  - intros k Hk. split; [|reflexivity]. revert k Hk. apply ext_hyp_fields. exact Hpos.
Qed.

Lemma pf_nil : Pf SFNil.
Proof.
  intros fuel acc e0 ext rest _ Hext Hfuel. cbn [print_fields length] in Hfuel. destruct fuel as [|f]; [lia|].
  cbn [print_fields app denote_fields]. rewrite components_loop_S. rewrite nis_P. cbv beta iota.
  rewrite app_nil_r. destruct ext as [k|]; [|reflexivity].
  specialize (Hext k eq_refl). cbn [sfields_length] in Hext. lia.
Qed.

Lemma fields_tail_ends : forall r e rest,
  ends_item (match r with SFNil => [P C_RBRACE] | SFCons _ _ _ _ _ => P C_COMMA :: print_fields r e end ++ rest).
Proof.
  intros [|n tg t d r] e rest; cbn [app].
  - exists C_RBRACE, rest. split; [reflexivity | right; reflexivity].
  - eexists C_COMMA, _. split; [reflexivity | left; reflexivity].
Qed.

Lemma pf_cons : forall name tag t d r, Ps t -> Pf r -> Pf (SFCons name tag t d r).
Proof.
  intros name tag t d r IHt IHr fuel acc e0 ext rest Hwf Hext Hfuel.
  cbn [wf_sfields] in Hwf. destruct Hwf as [Htag [Hwt [Hd Hwr]]].
  cbn [print_fields] in Hfuel |- *. cbn [length] in Hfuel. rewrite !app_length in Hfuel. cbn [length] in Hfuel.
  rewrite !app_length in Hfuel.
  destruct fuel as [|[|f]]; [lia | lia |].
  rewrite components_loop_S. cbn [app]. rewrite nis_T. cbv beta iota. rewrite nis_T. cbv beta iota.
  rewrite <- !app_assoc. cbn [app]. rewrite <- !app_assoc.
  set (fld := (name, (fst tag, match d with SDOptional => TOptional (denote_sty t) | _ => denote_sty t end,
                      denote_sdefault d)) : ufield).
  assert (Hfield : forall c tl, (c = C_COMMA \/ c = C_RBRACE) ->
    read_field (S f)
      (T name :: print_opt_tag (fst tag) (snd tag) ++ T (sty_word t) :: sty_args t ++ print_sdefault d ++ P c :: tl)
    = POk (fld, c =? C_COMMA, tl)).
  { intros c tl Hc. apply read_field_print; try assumption.
    apply IHt; [exact Hwt | | cbn [print_sty length]; lia].
    apply follow_ok_sdefault. exists c, tl. split; [reflexivity | exact Hc]. }
  destruct ext as [[|k]|]; cbn [ext_here app ext_pred]; cbn [ext_here ext_pred marker_toks length] in Hfuel.
  - (* the marker follows this component *)
    rewrite Hfield by (left; reflexivity). cbn [pbind]. change (C_COMMA =? C_COMMA) with true. cbv iota.
    rewrite components_loop_S. unfold marker_toks. cbn [app].
    rewrite nis_P_ne by reflexivity. cbv beta iota. rewrite nis_P. cbv beta iota zeta. tk.
    replace (Some (N.of_nat (length (fld :: acc)) - 1)) with (ext_result (length acc) (Some O) e0)
      by (cbn [ext_result length]; f_equal; lia).
    destruct r as [|n2 tg2 t2 d2 r2]; cbn [app]; tk; rewrite eqsep_P.
    + change (C_RBRACE =? C_COMMA) with false. cbv iota. rewrite eqsep_P. change (C_RBRACE =? C_RBRACE) with true.
      cbv iota. cbn [denote_fields rev]. reflexivity.
    + change (C_COMMA =? C_COMMA) with true. cbv iota.
      cbn [length] in Hfuel.
      rewrite IHr; [| exact Hwr | intros k Hk; discriminate Hk | lia].
      cbn [rev denote_fields ext_result]. rewrite <- app_assoc. reflexivity.
  - (* the marker comes later *)
    destruct r as [|n2 tg2 t2 d2 r2].
    + specialize (Hext (S k) eq_refl). cbn [sfields_length] in Hext. lia.
    + cbn [app]. rewrite Hfield by (left; reflexivity). cbn [pbind]. change (C_COMMA =? C_COMMA) with true. cbv iota.
      cbn [length] in Hfuel.
      rewrite IHr; [| exact Hwr | | lia].
      * cbn [rev denote_fields ext_result length]. rewrite <- app_assoc. cbn [app].
        replace (S (length acc) + k)%nat with (length acc + S k)%nat by lia. reflexivity.
      * intros k' Hk'. inversion Hk'; subst. specialize (Hext (S k') eq_refl). cbn [sfields_length] in Hext |- *. lia.
  - (* no marker *)
    destruct r as [|n2 tg2 t2 d2 r2].
    + cbn [app]. rewrite Hfield by (right; reflexivity). cbn [pbind]. change (C_RBRACE =? C_COMMA) with false. cbv iota.
      cbn [rev denote_fields ext_result]. reflexivity.
    + cbn [app]. rewrite Hfield by (left; reflexivity). cbn [pbind]. change (C_COMMA =? C_COMMA) with true. cbv iota.
      cbn [length] in Hfuel.
      rewrite IHr; [| exact Hwr | intros k Hk; discriminate Hk | lia].
      cbn [rev denote_fields ext_result]. rewrite <- app_assoc. reflexivity.
Qed.

Lemma pv_nil : Pv SVNil.
Proof. intros fuel acc e0 ext rest Hne. congruence. Qed.

Lemma pv_cons : forall name tag t r, Ps t -> Pv r -> Pv (SVCons name tag t r).
Proof.
  intros name tag t r IHt IHr fuel acc e0 ext rest _ Hwf Hext Hfuel.
  cbn [wf_svariants] in Hwf. destruct Hwf as [Htag [Hwt Hwr]].
  cbn [print_variants] in Hfuel |- *. cbn [length] in Hfuel. rewrite !app_length in Hfuel. cbn [length] in Hfuel.
  rewrite !app_length in Hfuel.
  destruct fuel as [|[|f]]; [lia | lia |].
  set (var := (name, fst tag, denote_sty t) : str * option atag * uty).
  assert (Hvar : forall c tl, (c = C_COMMA \/ c = C_RBRACE) ->
    choice_loop (S (S f))
      (T name :: print_opt_tag (fst tag) (snd tag) ++ T (sty_word t) :: sty_args t ++ P c :: tl) acc e0
    = (let? cont := loop_ctrl (P c) in
       if cont then choice_loop (S f) tl (var :: acc) e0 else POk (rev (var :: acc), e0, tl))).
  { intros c tl Hc. rewrite choice_loop_S. rewrite nif_T. rewrite nte_T. cbn [pbind].
    rewrite next_with_opt_tag_print by exact Htag. cbn [pbind]. rewrite ito_T. cbn [pbind].
    rewrite IHt; [| exact Hwt | | cbn [print_sty length]; lia].
    - cbn [pbind]. rewrite noe_cons. cbn [pbind]. reflexivity.
    - apply follow_ok_ends_item. exists c, tl. split; [reflexivity | exact Hc]. }
  cbn [app]. rewrite <- !app_assoc. cbn [app]. rewrite <- !app_assoc.
  destruct ext as [[|k]|]; cbn [ext_here app ext_pred]; cbn [ext_here ext_pred marker_toks length] in Hfuel.
  - (* the marker follows this alternative *)
    destruct (Hext O eq_refl) as [_ He0]. subst e0.
    rewrite Hvar by (left; reflexivity). rewrite lc_comma. cbn [pbind].
    rewrite choice_loop_S. unfold marker_toks. cbn [app]. rewrite nif_P. cbn [is_none_N negb]. tk.
    replace (Some (N.of_nat (length (var :: acc)) - 1)) with (ext_result (length acc) (Some O) None)
      by (cbn [ext_result length]; f_equal; lia).
    destruct r as [|n2 tg2 t2 r2]; cbn [app]; tk.
    + cbn [denote_variants rev]. reflexivity.
    + cbn [length] in Hfuel.
      rewrite IHr; [| discriminate | exact Hwr | intros k Hk; discriminate Hk | lia].
      cbn [rev denote_variants ext_result]. rewrite <- app_assoc. reflexivity.
  - (* the marker comes later *)
    destruct (Hext (S k) eq_refl) as [Hk He0].
    destruct r as [|n2 tg2 t2 r2].
    + cbn [svariants_length] in Hk. lia.
    + cbn [app]. rewrite Hvar by (left; reflexivity). rewrite lc_comma. cbn [pbind].
      cbn [length] in Hfuel.
      rewrite IHr; [| discriminate | exact Hwr | | lia].
      * cbn [rev denote_variants ext_result length]. rewrite <- app_assoc. cbn [app].
        replace (S (length acc) + k)%nat with (length acc + S k)%nat by lia. reflexivity.
      * intros k' Hk'. inversion Hk'; subst. split; [| first [exact He0 | reflexivity]]. cbn [svariants_length] in Hk |- *. lia.
  - (* no marker *)
    destruct r as [|n2 tg2 t2 r2].
    + cbn [app]. rewrite Hvar by (right; reflexivity). rewrite lc_rbrace. cbn [pbind].
      cbn [rev denote_variants ext_result]. reflexivity.
    + cbn [app]. rewrite Hvar by (left; reflexivity). rewrite lc_comma. cbn [pbind].
      cbn [length] in Hfuel.
      rewrite IHr; [| discriminate | exact Hwr | intros k Hk; discriminate Hk | lia].
      cbn [rev denote_variants ext_result]. rewrite <- app_assoc. reflexivity.
Qed.

Scheme sty_ind' := Induction for sty Sort Prop
  with sfields_ind' := Induction for sfields Sort Prop
  with svariants_ind' := Induction for svariants Sort Prop.
Combined Scheme sty_mutind from sty_ind', sfields_ind', svariants_ind'.

Lemma type_grammar_all : (forall s, Ps s) /\ (forall fs, Pf fs) /\ (forall vs, Pv vs).
Proof.
  apply sty_mutind; intros.
  - apply ps_boolean.
  - apply ps_null.
  - apply ps_integer.
  - apply ps_string.
  - apply ps_octet.
  - apply ps_bit.
  - apply ps_enumerated.
  - apply ps_sequence; assumption.
  - apply ps_set; assumption.
  - apply ps_seqof; assumption.
  - apply ps_setof; assumption.
  - apply ps_choice; assumption.
  - apply ps_ref.
  - apply pf_nil.
  - apply pf_cons; assumption.
  - apply pv_nil.
  - apply pv_cons; assumption.
Qed.

Theorem read_role_given_text_print : forall s rest fuel,
  wf_sty s -> follow_ok s rest -> (2 * length (print_sty s) <= fuel)%nat ->
  read_role_given_text fuel (sty_word s) (sty_args s ++ rest) = POk (denote_sty s, rest).
Proof. intros s rest fuel. apply (proj1 type_grammar_all). Qed.

Theorem read_role_print : forall s rest fuel,
  wf_sty s -> follow_ok s rest -> (2 * length (print_sty s) <= fuel)%nat ->
  read_role fuel (print_sty s ++ rest) = POk (denote_sty s, rest).
Proof.
  intros s rest fuel Hwf Hfo Hfuel. unfold read_role, print_sty. cbn [app]. rewrite nte_T. cbn [pbind].
  apply read_role_given_text_print; assumption.
Qed.

(* ---------- the module level: an instance of Front/ModuleGrammarProofs.parse_module_items ---------- *)
From A1 Require Front.ModuleGrammarProofs.
Module MG := A1.Front.ModuleGrammarProofs.

Lemma definition_sep_ok : forall r, definition_sep (P C_COLON :: P C_COLON :: P C_EQ :: r) = POk r.
Proof. reflexivity. Qed.

Theorem read_definition_print : forall fuel (tag : stag) t rest,
  stag_ok tag -> wf_sty t -> follow_ok t rest -> (2 * length (print_sty t) <= fuel)%nat ->
  read_definition fuel (assign_toks ++ print_opt_tag (fst tag) (snd tag) ++ print_sty t ++ rest)
  = POk ((fst tag, denote_sty t, None), rest).
Proof.
  intros fuel tag t rest Htag Hwf Hfo Hfuel. unfold read_definition, assign_toks. cbn [app].
  rewrite definition_sep_ok. cbn [pbind].
  unfold print_sty. cbn [app]. rewrite next_with_opt_tag_print by exact Htag. cbn [pbind].
  change (T (sty_word t)) with (Text 0 0 (sty_word t)). cbv iota.
  rewrite read_role_given_text_print by assumption. reflexivity.
Qed.

Theorem read_value_reference_print : forall fuel t l rest,
  wf_sty t -> slit_wf l -> (2 * length (print_sty t) <= fuel)%nat ->
  read_value_reference fuel (print_sty t ++ assign_toks ++ print_slit l ++ rest)
  = POk ((None, denote_sty t, None), denote_slit l, rest).
Proof.
  intros fuel t l rest Hwf Hl Hfuel. unfold read_value_reference, assign_toks. cbn [app].
  rewrite read_role_print; [| exact Hwf | apply follow_ok_tok; reflexivity | exact Hfuel].
  cbn [pbind]. rewrite definition_sep_ok. cbn [pbind]. rewrite read_literal_print by exact Hl. reflexivity.
Qed.

Definition def_item (d : str * stag * sty) : MG.item :=
  let '(name, tag, t) := d in
  MG.IDef name (assign_toks ++ print_opt_tag (fst tag) (snd tag) ++ print_sty t) (fst tag, denote_sty t, None)
    (follow_ok t).

Definition val_item (v : str * sty * slit) : MG.item :=
  let '(name, t, l) := v in
  MG.IVal name (print_sty t ++ assign_toks ++ print_slit l) (None, denote_sty t, None) (denote_slit l)
    (fun _ => True).

Lemma print_items_vals : forall vs, MG.print_items (map val_item vs) = flat_map print_val vs.
Proof.
  induction vs as [|[[name t] l] vs IH]; [reflexivity|].
  cbn [map MG.print_items flat_map val_item MG.item_toks print_val]. rewrite IH. reflexivity.
Qed.

Lemma print_items_defs_vals : forall ds vs,
  MG.print_items (map def_item ds ++ map val_item vs) = (flat_map print_def ds ++ flat_map print_val vs)%list.
Proof.
  induction ds as [|[[name tag] t] ds IH]; intros vs.
  - cbn [map app flat_map]. apply print_items_vals.
  - cbn [map app MG.print_items flat_map def_item MG.item_toks print_def]. rewrite IH.
    rewrite <- !app_assoc. reflexivity.
Qed.

Lemma item_defs_defs_vals : forall ds vs,
  MG.item_defs (map def_item ds ++ map val_item vs) = map denote_def ds.
Proof.
  intros ds vs. unfold MG.item_defs. rewrite flat_map_app.
  assert (H1 : forall l, flat_map (fun it => match it with MG.IDef n _ v _ => [(n, v)] | MG.IVal _ _ _ _ _ => [] end)
                           (map def_item l) = map denote_def l).
  { induction l as [|[[name tag] t] l IH]; [reflexivity|]. cbn [map flat_map def_item denote_def app]. rewrite IH. reflexivity. }
  assert (H2 : forall l, flat_map (fun it => match it with MG.IDef n _ v _ => [(n, v)] | MG.IVal _ _ _ _ _ => [] end)
                           (map val_item l) = []).
  { induction l as [|[[name t] lit] l IH]; [reflexivity|]. cbn [map flat_map val_item app]. exact IH. }
  rewrite H1, H2. apply app_nil_r.
Qed.

Lemma item_vals_defs_vals : forall ds vs,
  MG.item_vals (map def_item ds ++ map val_item vs) = map denote_val vs.
Proof.
  intros ds vs. unfold MG.item_vals. rewrite flat_map_app.
  assert (H1 : forall l, flat_map (fun it => match it with MG.IDef _ _ _ _ => [] | MG.IVal n _ a l0 _ => [(n, a, l0)] end)
                           (map def_item l) = []).
  { induction l as [|[[name tag] t] l IH]; [reflexivity|]. cbn [map flat_map def_item app]. exact IH. }
  assert (H2 : forall l, flat_map (fun it => match it with MG.IDef _ _ _ _ => [] | MG.IVal n _ a l0 _ => [(n, a, l0)] end)
                           (map val_item l) = map denote_val l).
  { induction l as [|[[name t] lit] l IH]; [reflexivity|]. cbn [map flat_map val_item denote_val app]. rewrite IH. reflexivity. }
  rewrite H1, H2. reflexivity.
Qed.

Lemma follows_vals : forall vs tail, MG.follows (map val_item vs) tail.
Proof.
  induction vs as [|[[name t] l] vs IH]; intros tail; cbn [map MG.follows val_item]; [exact I | split; [exact I | apply IH]].
Qed.

Lemma follows_defs_vals : forall ds vs tail,
  defs_wf ds (flat_map print_val vs ++ tail) -> MG.follows (map def_item ds ++ map val_item vs) tail.
Proof.
  induction ds as [|[[name tag] t] ds IH]; intros vs tail Hwf.
  - cbn [map app]. apply follows_vals.
  - cbn [defs_wf] in Hwf. destruct Hwf as [_ [_ [_ [Hfo Hrest]]]].
    cbn [map app MG.follows def_item]. split; [|apply IH; exact Hrest].
    rewrite print_items_defs_vals. rewrite <- app_assoc. exact Hfo.
Qed.

Lemma items_ok_defs : forall fuel ds after,
  defs_wf ds after -> (2 * length (flat_map print_def ds) <= fuel)%nat ->
  Forall (MG.item_ok fuel) (map def_item ds).
Proof.
  intros fuel. induction ds as [|[[name tag] t] ds IH]; intros after Hwf Hfuel; cbn [map]; constructor.
  - cbn [defs_wf] in Hwf. destruct Hwf as [Hn [Htag [Hwt _]]].
    cbn [flat_map print_def] in Hfuel. rewrite app_length in Hfuel. cbn [length] in Hfuel. rewrite !app_length in Hfuel.
    cbn [def_item MG.item_ok]. split; [exact Hn|]. intros rest Hfo. rewrite <- !app_assoc.
    apply read_definition_print; try assumption. lia.
  - cbn [defs_wf] in Hwf. destruct Hwf as [_ [_ [_ [_ Hrest]]]].
    cbn [flat_map] in Hfuel. rewrite app_length in Hfuel. apply (IH after Hrest). lia.
Qed.

Lemma items_ok_vals : forall fuel vs,
  Forall val_wf vs -> (2 * length (flat_map print_val vs) <= fuel)%nat ->
  Forall (MG.item_ok fuel) (map val_item vs).
Proof.
  intros fuel. induction vs as [|[[name t] l] vs IH]; intros Hwf Hfuel; cbn [map]; constructor;
    inversion Hwf as [|? ? Hv Hrest]; subst.
  - cbn [val_wf] in Hv. destruct Hv as [Hn [Hwt Hl]].
    cbn [flat_map print_val] in Hfuel. rewrite app_length in Hfuel. cbn [length] in Hfuel. rewrite !app_length in Hfuel.
    cbn [val_item MG.item_ok]. split; [exact Hn|]. intros rest _. rewrite <- !app_assoc.
    apply read_value_reference_print; try assumption. lia.
  - cbn [flat_map] in Hfuel. rewrite app_length in Hfuel. apply (IH Hrest). lia.
Qed.

Lemma nice_imports : forall is,
  Forall (fun i => import_ok i /\ make_name_nice (si_from i) = si_from i) is ->
  map MG.nice_import (map denote_import is) = map denote_import is.
Proof.
  induction is as [|i is IH]; intros H; [reflexivity|]. inversion H as [|? ? [_ Hi] His]; subst.
  cbn [map]. rewrite (IH His). f_equal. unfold MG.nice_import, denote_import. cbn [i_what i_from i_from_oid].
  rewrite Hi. reflexivity.
Qed.

Theorem parse_print_module : forall m, wf_module m -> parse (print_module m) = POk (denote_module m).
Proof.
  intros m [Hname [Hoid [Himps [Hdefs Hvals]]]]. unfold parse.
  set (fuel := parse_fuel (print_module m)).
  assert (Hfuel : (2 * (length (flat_map print_def (sm_defs m)) + length (flat_map print_val (sm_vals m))) <= fuel)%nat).
  { unfold fuel, parse_fuel, print_module. cbn [length]. rewrite !app_length. lia. }
  clearbody fuel.
  pose (hdr := [T (KW "DEFINITIONS"); T (KW "AUTOMATIC"); T (KW "TAGS"); P C_COLON; P C_COLON; P C_EQ]).
  pose (its := (map def_item (sm_defs m) ++ map val_item (sm_vals m))%list).
  pose (itoks := print_imports_section (sm_imports m)).
  assert (Hshape : print_module m =
            T (sm_name m) :: print_opt_oid (sm_oid m) ++ hdr ++ T (KW "BEGIN")
              :: (itoks ++ MG.print_items its ++ T (KW "END") :: [])).
  { unfold print_module, its. rewrite print_items_defs_vals. rewrite <- !app_assoc. reflexivity. }
  rewrite Hshape.
  pose proof (MG.parse_module_items fuel (sm_name m) (print_opt_oid (sm_oid m)) (denote_opt_oid (sm_oid m)) hdr itoks
                (map denote_import (sm_imports m)) its []) as Hp.
  cbv zeta in Hp. rewrite Hp; clear Hp.
  - unfold denote_module. rewrite Hname. unfold its. rewrite item_defs_defs_vals, item_vals_defs_vals.
    rewrite (nice_imports _ Himps). reflexivity.
  - apply maybe_read_oid_print; [exact Hoid | intros _; reflexivity].
  - unfold hdr. repeat (constructor; [reflexivity|]). constructor.
  - unfold itoks. destruct (sm_imports m) as [|i is] eqn:Ei.
    + left. split; reflexivity.
    + right. exists (print_imports (i :: is)). split; [reflexivity|]. intros rest.
      apply read_imports_print. revert Himps. apply Forall_impl. intros a [Ha _]. exact Ha.
  - unfold its. apply Forall_app. split.
    + apply (items_ok_defs fuel _ _ Hdefs). lia.
    + apply (items_ok_vals fuel _ Hvals). lia.
  - unfold its. apply follows_defs_vals. exact Hdefs.
Qed.
