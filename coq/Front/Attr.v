(* Front/Attr.v -- stub, to be filled *)
