(* Front/Attr.v -- the attribute sub-language `#[asn(<type>)]` (layer F4, property C08).

   printer : generate/rust.rs  RustCodeGenerator::asn_attribute_type / asn_attribute_tag, Size::to_constraint_string,
             LiteralValue::as_rust_const_literal(true)
   parser  : proc_macro/attribute.rs parse_type / parse_type_pre_stepped / parse_opt_size_or_any,
             proc_macro/range.rs (MMV, IntegerRange), proc_macro/size.rs (Size, value), proc_macro/tag.rs (AttrTag)

   Both sides work on token trees.  The printer of the crate produces a string that proc_macro2 / rustc lex into token
   trees; here the printer produces the token trees directly -- the lexing of the printed sub-language (identifiers,
   unsuffixed integer literals with the sign as a separate punct, `..`, `...`, `,`, `::`, parentheses, brackets, string
   literals without escapes) is part of the trusted base (DESIGN.md 7, 8) and is tied by op 3412.
   Only the types in the image of RustType::into_asn occur in attributes: no SEQUENCE/SET/ENUMERATED/CHOICE bodies. *)
From A1 Require Export Base.Res.
From A1 Require Import Front.Codegen.
From Coq Require Import String.
Local Open Scope N_scope.

Inductive size := SAny | SFix (n : N) (ext : bool) | SRange (a b : N) (ext : bool).
Inductive charset := Utf8 | Numeric | Printable | Ia5 | Visible.
Inductive tag := TUniversal (n : N) | TApplication (n : N) | TContext (n : N) | TPrivate (n : N).
Inductive lit :=
| LBool (b : bool) | LStr (s : list N) | LInt (z : Z) | LOct (bs : list N) | LEnum (ty variant : list N).
Inductive aty :=
| ABool | ANull
| AInt (min max : option Z) (ext : bool)
| AStr (sz : size) (cs : charset)
| AOct (sz : size)
| ABits (sz : size)
| AOpt (t : aty)
| ADef (t : aty) (l : lit)
| ASeqOf (t : aty) (sz : size)
| ASetOf (t : aty) (sz : size)
| ARef (name : list N) (tg : option tag).

Inductive tok :=
| TIdent (s : list N)
| TNum (n : N)              (* unsuffixed integer literal (decimal or 0x..) *)
| TPunct (c : N)
| TStr (s : list N)         (* "..." *)
| TParen (ts : list tok)
| TBracket (ts : list tok).

Definition DOT : N := 46.
Definition COMMA : N := 44.
Definition MINUS : N := 45.
Definition COLON : N := 58.
Definition I64_MIN : Z := (- 9223372036854775808)%Z.
Definition I64_MAX : Z := 9223372036854775807%Z.
Definition USIZE_MAX : N := 18446744073709551615.

Definition S_boolean := codes "boolean".       Definition S_null := codes "null".
Definition S_integer := codes "integer".       Definition S_octet_string := codes "octet_string".
Definition S_bit_string := codes "bit_string". Definition S_optional := codes "optional".
Definition S_option := codes "option".         Definition S_default := codes "default".
Definition S_sequence_of := codes "sequence_of". Definition S_set_of := codes "set_of".
Definition S_complex := codes "complex".       Definition S_size := codes "size".
Definition S_tag := codes "tag".               Definition S_min := codes "min".
Definition S_max := codes "max".               Definition S_true := codes "true".
Definition S_false := codes "false".
Definition S_UNIVERSAL := codes "UNIVERSAL".   Definition S_APPLICATION := codes "APPLICATION".
Definition S_PRIVATE := codes "PRIVATE".
Definition S_universal := codes "universal".   Definition S_application := codes "application".
Definition S_private := codes "private".

(* format!("{:?}string", charset).to_lowercase() *)
Definition charset_name (cs : charset) : list N :=
  match cs with
  | Utf8 => codes "utf8string" | Numeric => codes "numericstring" | Printable => codes "printablestring"
  | Ia5 => codes "ia5string" | Visible => codes "visiblestring"
  end.

(* ------------------------------------------------------------------ printer *)
Definition print_z (z : Z) : list tok :=
  if (z <? 0)%Z then [TPunct MINUS; TNum (Z.abs_N z)] else [TNum (Z.to_N z)].
Definition ext_toks (e : bool) : list tok := if e then [TPunct COMMA; TPunct DOT; TPunct DOT; TPunct DOT] else [].
Definition print_bound (b : option Z) (kw : list N) : list tok :=
  match b with Some z => print_z z | None => [TIdent kw] end.

(* Size::to_constraint_string *)
Definition size_param (sz : size) : option (list tok) :=
  match sz with
  | SAny => None
  | SFix n e => Some [TIdent S_size; TParen (TNum n :: ext_toks e)]
  | SRange a b e => Some [TIdent S_size; TParen ([TNum a; TPunct DOT; TPunct DOT; TNum b] ++ ext_toks e)]
  end.

Definition print_tag (g : tag) : list tok :=
  [TIdent S_tag; TParen (match g with
                         | TUniversal n => [TIdent S_UNIVERSAL; TParen [TNum n]]
                         | TApplication n => [TIdent S_APPLICATION; TParen [TNum n]]
                         | TPrivate n => [TIdent S_PRIVATE; TParen [TNum n]]
                         | TContext n => [TNum n]
                         end)].

(* LiteralValue::as_rust_const_literal(true) *)
Definition print_lit (l : lit) : list tok :=
  match l with
  | LBool b => [TIdent (if b then S_true else S_false)]
  | LStr s => [TStr s]
  | LInt z => print_z z
  | LOct bs => [TBracket (flat_map (fun b => [TNum b; TPunct COMMA]) bs)]
  | LEnum t v => [TIdent (rust_struct_or_enum_name t); TPunct COLON; TPunct COLON; TIdent (rust_variant_name v)]
  end.

(* name(p1, p2, ..) or the bare name when there is no parameter *)
Definition with_params (name : list N) (params : list (list tok)) : list tok :=
  match params with
  | [] => [TIdent name]
  | p :: ps => [TIdent name; TParen (p ++ flat_map (fun q => TPunct COMMA :: q) ps)]
  end.
Definition opt_list {A} (o : option A) : list A := match o with Some a => [a] | None => [] end.

Fixpoint print_ty (t : aty) : list tok :=
  match t with
  | ABool => with_params S_boolean []
  | ANull => with_params S_null []
  | AInt mn mx e => with_params S_integer [print_bound mn S_min ++ [TPunct DOT; TPunct DOT] ++ print_bound mx S_max ++ ext_toks e]
  | AStr sz cs => with_params (charset_name cs) (opt_list (size_param sz))
  | AOct sz => with_params S_octet_string (opt_list (size_param sz))
  | ABits sz => with_params S_bit_string [match size_param sz with Some p => p | None => [] end]   (* one, maybe empty, parameter *)
  | AOpt t' => with_params S_optional [print_ty t']
  | ADef t' l => with_params S_default [print_ty t'; print_lit l]
  | ASeqOf t' sz => with_params S_sequence_of (opt_list (size_param sz) ++ [print_ty t'])
  | ASetOf t' sz => with_params S_set_of (opt_list (size_param sz) ++ [print_ty t'])
  | ARef name tg => with_params S_complex ([TIdent name] :: opt_list (option_map print_tag tg))
  end.

(* ------------------------------------------------------------------ parser *)
Definition E_SYN : N := 1.       (* any syn::Error *)
Definition E_FUEL : N := 99.     (* out of fuel: never a normal answer *)

Definition lower_str (s : list N) : list N := map to_lower s.

(* input.parse::<Lit>() yielding Lit::Int: an integer literal, optionally preceded by `-` *)
Definition take_int (ts : list tok) : option (Z * list tok) :=
  match ts with
  | TNum n :: r => Some (Z.of_N n, r)
  | TPunct c :: TNum n :: r => if c =? MINUS then Some ((- Z.of_N n)%Z, r) else None
  | _ => None
  end.

Definition in_i64 (z : Z) : bool := ((I64_MIN <=? z) && (z <=? I64_MAX))%Z.
Definition in_usize (z : Z) : bool := ((0 <=? z) && (z <=? Z.of_N USIZE_MAX))%Z.

(* range.rs MMV::try_parse *)
Inductive mmv := MinMax | Value (z : Z).
Definition parse_mmv (ts : list tok) : res (mmv * list tok) :=
  match take_int ts with
  | Some (z, r) => if in_i64 z then Ok (Value z, r) else Err E_SYN
  | None =>
    match ts with
    | TIdent id :: r =>
      let lc := lower_str id in
      if str_eqb lc S_min || str_eqb lc S_max then Ok (MinMax, r) else Err E_SYN
    | _ => Err E_SYN
    end
  end.

Definition take_punct (c : N) (ts : list tok) : res (list tok) :=
  match ts with
  | TPunct d :: r => if d =? c then Ok r else Err E_SYN
  | _ => Err E_SYN
  end.

Definition peek_punct (c : N) (ts : list tok) : bool :=
  match ts with TPunct d :: _ => d =? c | _ => false end.

(* `, . . .` when the next token is a comma; the whole buffer has to be consumed afterwards (syn checks a
   parenthesised buffer for left-over tokens) *)
Definition parse_ext_eof (ts : list tok) : res bool :=
  if peek_punct COMMA ts then
    let! r := take_punct COMMA ts in let! r := take_punct DOT r in let! r := take_punct DOT r in let! r := take_punct DOT r in
    match r with [] => Ok true | _ => Err E_SYN end
  else match ts with [] => Ok false | _ => Err E_SYN end.

(* range.rs IntegerRange::parse + the mapping into Range<Option<i64>> of attribute.rs *)
Definition parse_int_range (ts : list tok) : res (option Z * option Z * bool) :=
  let! (mn, r) := parse_mmv ts in
  let! r := take_punct DOT r in
  let! r := take_punct DOT r in
  let! (mx, r) := parse_mmv r in
  let! e := parse_ext_eof r in
  match mn, mx with
  | MinMax, MinMax => Ok (None, None, e)
  | Value a, MinMax => if (a =? 0)%Z then Ok (None, None, e) else Ok (Some a, Some I64_MAX, e)
  | Value a, Value b => Ok (Some a, Some b, e)
  | MinMax, Value b => Ok (Some (if (0 <? b)%Z then 0%Z else I64_MIN), Some b, e)
  end.

(* size.rs value(): an integer literal that fits usize; min/max are refused by the callers *)
Definition parse_size_value (ts : list tok) : res (N * list tok) :=
  match take_int ts with
  | Some (z, r) => if in_usize z then Ok (Z.to_N z, r) else Err E_SYN
  | None => Err E_SYN
  end.

(* size.rs Size::parse *)
Definition parse_size (ts : list tok) : res size :=
  let! (mn, r) := parse_size_value ts in
  match r with
  | [] => Ok (SFix mn false)
  | _ =>
    if peek_punct COMMA r then
      let! r := take_punct COMMA r in let! r := take_punct DOT r in let! r := take_punct DOT r in let! r := take_punct DOT r in
      match r with [] => Ok (SFix mn true) | _ => Err E_SYN end
    else
      let! r := take_punct DOT r in
      let! r := take_punct DOT r in
      let! (mx, r) := parse_size_value r in
      let! e := (if peek_punct COMMA r && peek_punct DOT (tl r) then parse_ext_eof r
                 else match r with [] => Ok false | _ => Err E_SYN end) in
      if mn =? mx then Ok (SFix mn e) else Ok (SRange mn mx e)
  end.

(* attribute.rs parse_opt_size_or_any: `input` is what follows the type name in the current buffer *)
Definition parse_opt_size (ts : list tok) : res (size * list tok) :=
  match ts with
  | TParen content :: r =>
    match content with
    | [] => Ok (SAny, r)
    | TIdent id :: TParen sz :: [] =>
      if str_eqb (lower_str id) S_size then let! s := parse_size sz in Ok (s, r) else Err E_SYN
    | _ => Err E_SYN
    end
  | _ => Ok (SAny, ts)
  end.

(* tag.rs AttrTag::parse: a parenthesised group holding NAME(number) or a number *)
Definition parse_tag_group (ts : list tok) : res (tag * list tok) :=
  match ts with
  | TParen (TIdent v :: TParen (TNum n :: _) :: _) :: r =>
    if negb (N.leb n USIZE_MAX) then Err E_SYN else
    let lv := lower_str v in
    if str_eqb lv S_universal then Ok (TUniversal n, r)
    else if str_eqb lv S_application then Ok (TApplication n, r)
    else if str_eqb lv S_private then Ok (TPrivate n, r)
    else Err E_SYN
  | TParen (TNum n :: _) :: r => if N.leb n USIZE_MAX then Ok (TContext n, r) else Err E_SYN
  | _ => Err E_SYN
  end.

(* the default literal of `default(type, literal)`: syn::Lit, else a two-segment path; nothing may follow *)
Definition parse_lit (ts : list tok) : res lit :=
  match ts with
  | [TStr s] => Ok (LStr s)
  | [TIdent a; TPunct c1; TPunct c2; TIdent b] =>
    if (c1 =? COLON) && (c2 =? COLON) && is_rust_ident a && negb (is_keyword a) && is_rust_ident b && negb (is_keyword b)
    then Ok (LEnum a b) else Err E_SYN
  | [TIdent a] => if str_eqb a S_true then Ok (LBool true) else if str_eqb a S_false then Ok (LBool false) else Err E_SYN
  | _ =>
    match take_int ts with
    | Some (z, []) => if in_i64 z then Ok (LInt z) else Err E_SYN
    | _ => Err E_SYN
    end
  end.

Inductive kind :=
| KBool | KNull | KInteger | KOctet | KBits | KString (cs : charset) | KOptional | KDefault | KSeqOf | KSetOf | KComplex | KUnknown.

(* the `match lowercase_ident` of parse_type_pre_stepped, in its order *)
Definition ident_kind (lc : list N) : kind :=
  if str_eqb lc S_octet_string then KOctet
  else if str_eqb lc S_bit_string then KBits
  else if str_eqb lc (charset_name Utf8) then KString Utf8
  else if str_eqb lc (charset_name Numeric) then KString Numeric
  else if str_eqb lc (charset_name Printable) then KString Printable
  else if str_eqb lc (charset_name Ia5) then KString Ia5
  else if str_eqb lc (charset_name Visible) then KString Visible
  else if str_eqb lc S_integer then KInteger
  else if str_eqb lc S_complex then KComplex
  else if str_eqb lc S_option || str_eqb lc S_optional then KOptional
  else if str_eqb lc S_default then KDefault
  else if str_eqb lc S_boolean then KBool
  else if str_eqb lc S_null then KNull
  else if str_eqb lc S_sequence_of then KSeqOf
  else if str_eqb lc S_set_of then KSetOf
  else KUnknown.

(* parse_type: an identifier, then parse_type_pre_stepped; answers the type and the rest of the current buffer *)
Fixpoint parse_ty (fuel : nat) (ts : list tok) : res (aty * list tok) :=
  match fuel with
  | O => Err E_FUEL
  | S f =>
    match ts with
    | TIdent id :: r =>
      match ident_kind (lower_str id) with
      | KOctet => let! (s, r') := parse_opt_size r in Ok (AOct s, r')
      | KBits => let! (s, r') := parse_opt_size r in Ok (ABits s, r')
      | KString cs => let! (s, r') := parse_opt_size r in Ok (AStr s cs, r')
      | KInteger =>
        match r with
        | [] => Ok (AInt None None false, [])
        | TParen [] :: r' => Ok (AInt None None false, r')
        | TParen content :: r' => let! (mn, mx, e) := parse_int_range content in Ok (AInt mn mx e, r')
        | _ => Err E_SYN
        end
      | KComplex =>
        match r with
        | TParen (TIdent name :: TPunct c :: TIdent tg :: content) :: r' =>
          if negb (c =? COMMA) || negb (is_rust_ident name) || is_keyword name || negb (is_rust_ident tg) || is_keyword tg then Err E_SYN
          else if negb (str_eqb (lower_str tg) S_tag) then Err E_SYN
          else let! (g, rest) := parse_tag_group content in
               match rest with [] => Ok (ARef name (Some g), r') | _ => Err E_SYN end
        | _ => Err E_SYN
        end
      | KOptional =>
        match r with
        | TParen content :: r' =>
          let! (t, rest) := parse_ty f content in
          match rest with [] => Ok (AOpt t, r') | _ => Err E_SYN end
        | _ => Err E_SYN
        end
      | KDefault =>
        match r with
        | TParen content :: r' =>
          let! (t, rest) := parse_ty f content in
          let! rest := take_punct COMMA rest in
          let! l := parse_lit rest in
          Ok (ADef t l, r')
        | _ => Err E_SYN
        end
      | KBool => Ok (ABool, r)
      | KNull => Ok (ANull, r)
      | KSeqOf | KSetOf =>
        match r with
        | TParen content :: r' =>
          let! (sz, inner) :=
             (match content with
              | TIdent i :: TParen szt :: rest =>
                if str_eqb (lower_str i) S_size
                then let! s := parse_size szt in let! rest := take_punct COMMA rest in Ok (s, rest)
                else Ok (SAny, content)
              | _ => Ok (SAny, content)
              end) in
          let! (t, rest) := parse_ty f inner in
          match rest with
          | [] => Ok (match ident_kind (lower_str id) with KSeqOf => ASeqOf t sz | _ => ASetOf t sz end, r')
          | _ => Err E_SYN
          end
        | _ => Err E_SYN
        end
      | KUnknown => Err E_SYN
      end
    | _ => Err E_SYN
    end
  end.

(* the whole attribute `#[asn(<type>)]` of a field: the type, then end of input *)
Definition parse_attr_type (fuel : nat) (ts : list tok) : res aty :=
  let! (t, rest) := parse_ty fuel ts in
  match rest with [] => Ok t | _ => Err E_SYN end.

Fixpoint depth (t : aty) : nat :=
  match t with
  | AOpt t' | ADef t' _ | ASeqOf t' _ | ASetOf t' _ => S (depth t')
  | _ => O
  end.
