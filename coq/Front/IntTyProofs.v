(* Front/IntTyProofs.v -- proofs about the INTEGER -> Rust type mapping (C15).
   Everything is Z arithmetic over all of i64 x i64 at once; no sweeps. *)
From A1 Require Import Front.IntTy.
From Coq Require Import Decimal DecimalPos DecimalZ.
Require Import ZifyBool ZifyNat ZifyN.
Local Open Scope Z_scope.
Ltac Zify.zify_post_hook ::= Z.div_mod_to_equations.

Ltac consts := unfold i64_min, i64_max, u64_max, I8_MAX, I16_MAX, I32_MAX, U8_MAX, U16_MAX, U32_MAX in *.

(** * casts *)
Lemma cast_fits k z : fits k z -> cast k z = z.
Proof. unfold fits, cast. destruct k; cbn [kmin kmax modulus]; intros H; lia. Qed.

Lemma cast_range k z : fits k (cast k z).
Proof. unfold fits, cast. destruct k; cbn [kmin kmax modulus]; lia. Qed.

Lemma wrap_u64_id z : 0 <= z <= u64_max -> wrap_u64 z = z.
Proof. intros H. apply cast_fits. unfold fits; cbn [kmin kmax]. consts. lia. Qed.

Lemma in_i64_true z : i64_min <= z <= i64_max -> in_i64 z = true.
Proof. unfold in_i64. lia. Qed.

(** the i64 arithmetic of the amplitude trick never overflows: min < 0 there *)
Lemma i64_add_1_ok m l : i64_min <= l < 0 -> i64_add m l 1 = Ok (l + 1).
Proof. intros H. unfold i64_add. rewrite in_i64_true by (consts; lia). reflexivity. Qed.
Lemma i64_abs_ok m l : i64_min <= l < 0 -> i64_abs m (l + 1) = Ok (- (l + 1)).
Proof. intros H. unfold i64_abs. rewrite in_i64_true by (consts; lia). f_equal. lia. Qed.
Ltac amplitude := rewrite i64_add_1_ok by lia; cbn [bind]; rewrite i64_abs_ok by lia; cbn [bind].

(** * the interval that is permitted and representable *)
Lemma permitted_eff lo hi v : wf_range lo hi ->
  (permitted lo hi v /\ rep64 lo v) <-> eff_lo lo <= v <= eff_hi lo hi.
Proof.
  unfold wf_range, wf_bound, permitted, rep64, eff_lo, eff_hi, needs_signed.
  destruct lo as [l|], hi as [h|]; intros (Hl & Hh & Hlh); try destruct (l <? 0) eqn:E; consts; lia.
Qed.

Lemma eff_lo_le_hi lo hi : wf_range lo hi -> eff_lo lo <= eff_hi lo hi.
Proof.
  unfold wf_range, wf_bound, eff_lo, eff_hi, needs_signed.
  destruct lo as [l|], hi as [h|]; intros (Hl & Hh & Hlh); try destruct (l <? 0) eqn:E; consts; lia.
Qed.

(** * what the accessors print *)
Definition acc_min (t : rty) : Z := unwrap_or (rmin t) 0.
Definition acc_max (t : rty) : Z :=
  match rk t with U64 => unwrap_or (rmax t) (wrap_u64 i64_max) | _ => unwrap_or (rmax t) 0 end.

Lemma integer_range_str_acc t : integer_range_str t = (to_string (acc_min t), to_string (acc_max t)).
Proof. unfold integer_range_str, acc_min, acc_max. destruct (rk t); reflexivity. Qed.

(** * the central case analysis: the non-extensible cascade on literal bounds *)
Definition Narrowest (k : ikind) (L H : Z) : Prop :=
  fits k L /\ fits k H /\ signed k = (L <? 0) /\
  forall k', fits k' L -> fits k' H -> width k <= width k'.

Ltac narrow :=
  unfold Narrowest, fits; cbn [kmin kmax width signed];
  repeat split; try lia;
  let k' := fresh "k'" in intros k'; destruct k'; cbn [kmin kmax width]; lia.

Lemma fixed_lit m l h :
  i64_min <= l <= i64_max -> i64_min <= h <= i64_max -> l <= h ->
  exists t, fixed_int_type m (Some l) (Some h) = Ok t /\ rext t = false /\
            Narrowest (rk t) l h /\ acc_min t = l /\ acc_max t = h /\
            (forall x, rmin t = Some x -> x = l) /\ (forall y, rmax t = Some y -> y = h).
Proof.
  intros Hl Hh Hlh. unfold fixed_int_type, is_unconstrained_pair, unwrap_or.
  destruct ((l =? 0) && (h =? i64_max)) eqn:E0.
  { eexists; split; [reflexivity|]. cbn [rk rmin rmax rext]. unfold acc_min, acc_max; cbn [rk rmin rmax unwrap_or].
    rewrite wrap_u64_id by (consts; lia).
    repeat split; try (intros ? [=]); try (consts; lia); consts; narrow. }
  destruct (0 <=? l) eqn:E1.
  - rewrite wrap_u64_id by (consts; lia).
    destruct (h <=? U8_MAX) eqn:E2; [|destruct (h <=? U16_MAX) eqn:E3; [|destruct (h <=? U32_MAX) eqn:E4]];
      (eexists; split; [reflexivity|]); unfold fixed_range, acc_min, acc_max; cbn [rk rmin rmax rext unwrap_or];
      rewrite !cast_fits by (unfold fits; cbn [kmin kmax]; consts; lia);
      (repeat split; try (intros ? [= <-]; reflexivity)); consts; narrow.
  - amplitude.
    destruct (Z.max (- (l + 1)) h <=? I8_MAX) eqn:E2;
      [|destruct (Z.max (- (l + 1)) h <=? I16_MAX) eqn:E3; [|destruct (Z.max (- (l + 1)) h <=? I32_MAX) eqn:E4]];
      (eexists; split; [reflexivity|]); unfold fixed_range, acc_min, acc_max; cbn [rk rmin rmax rext unwrap_or];
      rewrite !cast_fits by (unfold fits; cbn [kmin kmax]; consts; lia);
      (repeat split; try (intros ? [= <-]; reflexivity)); consts; narrow.
Qed.

(* lower literal, no upper bound (MAX): i64 for a negative lower bound, u64 otherwise *)
Lemma fixed_lit_max m l :
  i64_min <= l <= i64_max ->
  exists t, fixed_int_type m (Some l) None = Ok t /\ rext t = false /\
            Narrowest (rk t) l (if l <? 0 then i64_max else u64_max) /\ acc_min t = l /\
            (forall x, rmin t = Some x -> x = l) /\
            (l < 0 -> acc_max t = i64_max /\ forall y, rmax t = Some y -> y = i64_max).
Proof.
  intros Hl. unfold fixed_int_type, is_unconstrained_pair, unwrap_or.
  destruct (l =? 0) eqn:E0.
  { eexists; split; [reflexivity|]. cbn [rk rmin rmax rext]. unfold acc_min, acc_max; cbn [rk rmin rmax unwrap_or].
    destruct (l <? 0) eqn:E; [lia|].
    repeat split; try (intros ? [=]); try lia; consts; narrow. }
  destruct (0 <=? l) eqn:E1.
  - rewrite wrap_u64_id by (consts; lia).
    destruct (i64_max <=? U8_MAX) eqn:E2; [consts; lia|].
    destruct (i64_max <=? U16_MAX) eqn:E3; [consts; lia|].
    destruct (i64_max <=? U32_MAX) eqn:E4; [consts; lia|].
    eexists; split; [reflexivity|]. unfold fixed_range, acc_min, acc_max; cbn [rk rmin rmax rext unwrap_or].
    rewrite !cast_fits by (unfold fits; cbn [kmin kmax]; consts; lia).
    destruct (l <? 0) eqn:E; [lia|].
    repeat split; try (intros ? [= <-]; reflexivity); try lia; consts; narrow.
  - amplitude.
    destruct (Z.max (- (l + 1)) i64_max <=? I8_MAX) eqn:E2; [consts; lia|].
    destruct (Z.max (- (l + 1)) i64_max <=? I16_MAX) eqn:E3; [consts; lia|].
    destruct (Z.max (- (l + 1)) i64_max <=? I32_MAX) eqn:E4; [consts; lia|].
    eexists; split; [reflexivity|]. unfold fixed_range, acc_min, acc_max; cbn [rk rmin rmax rext unwrap_or].
    rewrite !cast_fits by (unfold fits; cbn [kmin kmax]; consts; lia).
    destruct (l <? 0) eqn:E; [|lia].
    repeat split; try (intros ? [= <-]; reflexivity); try lia; consts; narrow.
Qed.

(** * the extensible mapping *)
Lemma ext_kind_64 lo hi : width (rk (ext_int_type lo hi)) = 64.
Proof.
  unfold ext_int_type. destruct (is_unconstrained_pair lo hi); [reflexivity|].
  destruct ((0 <=? unwrap_or lo 0) && (0 <=? unwrap_or hi 0)); reflexivity.
Qed.

Lemma ext_lit l h :
  i64_min <= l <= i64_max -> i64_min <= h <= i64_max -> l <= h ->
  let t := ext_int_type (Some l) (Some h) in
  rext t = true /\ fits (rk t) l /\ fits (rk t) h /\ acc_min t = l /\ acc_max t = h /\
  (forall x, rmin t = Some x -> x = l) /\ (forall y, rmax t = Some y -> y = h).
Proof.
  intros Hl Hh Hlh. unfold ext_int_type, is_unconstrained_pair, unwrap_or.
  destruct ((l =? 0) && (h =? i64_max)) eqn:E0.
  { cbv zeta. unfold acc_min, acc_max, fits; cbn [rk rmin rmax rext unwrap_or kmin kmax].
    rewrite wrap_u64_id by (consts; lia). repeat split; try (intros ? [=]); consts; lia. }
  destruct ((0 <=? l) && (0 <=? h)) eqn:E1; cbv zeta;
    unfold acc_min, acc_max, fits; cbn [rk rmin rmax rext unwrap_or kmin kmax option_map];
    rewrite ?wrap_u64_id by (consts; lia);
    repeat split; try (intros ? [= <-]; reflexivity); consts; lia.
Qed.

Lemma ext_lit_max l :
  i64_min <= l <= i64_max ->
  let t := ext_int_type (Some l) None in
  rext t = true /\ fits (rk t) l /\ fits (rk t) (if l <? 0 then i64_max else u64_max) /\ acc_min t = l /\
  (forall x, rmin t = Some x -> x = l) /\
  (l < 0 -> acc_max t = i64_max /\ forall y, rmax t = Some y -> y = i64_max).
Proof.
  intros Hl. unfold ext_int_type, is_unconstrained_pair, unwrap_or.
  destruct (l =? 0) eqn:E0.
  { cbv zeta. unfold acc_min, acc_max, fits; cbn [rk rmin rmax rext unwrap_or kmin kmax].
    destruct (l <? 0) eqn:E; [lia|]. repeat split; try (intros ? [=]); consts; lia. }
  destruct ((0 <=? l) && (0 <=? 0)) eqn:E1; cbv zeta;
    unfold acc_min, acc_max, fits; cbn [rk rmin rmax rext unwrap_or kmin kmax option_map];
    rewrite ?wrap_u64_id by (consts; lia);
    (destruct (l <? 0) eqn:E; [|]); try lia;
    repeat split; try (intros ? [= <-]; reflexivity); try (intros ? [=]); consts; lia.
Qed.

(* MIN .. negative literal, extensible: the one no-lower-bound range that becomes signed *)
Lemma ext_min_neg h :
  i64_min <= h < 0 ->
  let t := ext_int_type None (Some h) in
  rext t = true /\ rk t = I64 /\ acc_min t = i64_min /\ acc_max t = h /\
  (forall x, rmin t = Some x -> x = i64_min) /\ (forall y, rmax t = Some y -> y = h).
Proof.
  intros Hh. unfold ext_int_type, is_unconstrained_pair, unwrap_or.
  destruct (h =? i64_max) eqn:E0; [consts; lia|].
  destruct ((0 <=? 0) && (0 <=? h)) eqn:E1; [lia|]. cbv zeta.
  unfold acc_min, acc_max; cbn [rk rmin rmax rext unwrap_or].
  repeat split; intros ? [= <-]; reflexivity.
Qed.

(** * the front end on well-formed source ranges *)
Lemma front_lit_lit l h ext :
  i64_min <= l <= i64_max -> i64_min <= h <= i64_max ->
  front_range (Constrained (Lit l) (Lit h) ext) = Ok (Some l, Some h, ext).
Proof.
  intros Hl Hh. unfold front_range, parse_range, parse_bound.
  rewrite !in_i64_true by assumption. reflexivity.
Qed.

Lemma front_lit_kw l ext :
  i64_min <= l <= i64_max ->
  front_range (Constrained (Lit l) Kw ext) = Ok (if l =? 0 then None else Some l, None, ext).
Proof.
  intros Hl. unfold front_range, parse_range, parse_bound.
  rewrite !in_i64_true by assumption. destruct (l =? 0); reflexivity.
Qed.

Lemma front_kw_lit h ext :
  i64_min <= h <= i64_max ->
  front_range (Constrained Kw (Lit h) ext) = Ok (None, if h =? i64_max then None else Some h, ext).
Proof.
  intros Hh. unfold front_range, parse_range, parse_bound.
  rewrite !in_i64_true by assumption. destruct (h =? i64_max); reflexivity.
Qed.

(* `(0..MAX)` is read as no constraint at all; both mappings treat (Some 0, None) and (None, None) alike *)
Lemma fixed_zero_none m : fixed_int_type m None None = fixed_int_type m (Some 0) None.
Proof. reflexivity. Qed.
Lemma ext_zero_none : ext_int_type None None = ext_int_type (Some 0) None.
Proof. reflexivity. Qed.

Lemma src_lit_kw m l ext : i64_min <= l <= i64_max ->
  src_int_type m (Constrained (Lit l) Kw ext) = int_type m (Some l) None ext.
Proof.
  intros Hl. unfold src_int_type. rewrite front_lit_kw by assumption. cbn [bind].
  destruct (l =? 0) eqn:E; [|reflexivity].
  assert (l = 0) as -> by lia. unfold int_type. destruct ext; [rewrite ext_zero_none|rewrite fixed_zero_none]; reflexivity.
Qed.

Lemma src_lit_lit m l h ext : i64_min <= l <= i64_max -> i64_min <= h <= i64_max ->
  src_int_type m (Constrained (Lit l) (Lit h) ext) = int_type m (Some l) (Some h) ext.
Proof. intros Hl Hh. unfold src_int_type. rewrite front_lit_lit by assumption. reflexivity. Qed.

(** totality: a well-formed source range always yields a type (no error, no panic, either profile) *)
Lemma fixed_total m lo hi :
  (forall l, lo = Some l -> i64_min <= l <= i64_max) ->
  exists t, fixed_int_type m lo hi = Ok t.
Proof.
  intros Hl. unfold fixed_int_type.
  destruct (is_unconstrained_pair lo hi); [eexists; reflexivity|].
  destruct (0 <=? unwrap_or lo 0) eqn:E1.
  - destruct (_ <=? U8_MAX); [|destruct (_ <=? U16_MAX); [|destruct (_ <=? U32_MAX)]]; eexists; reflexivity.
  - destruct lo as [l|]; cbn [unwrap_or] in *; [|lia].
    specialize (Hl l eq_refl). amplitude.
    destruct (_ <=? I8_MAX); [|destruct (_ <=? I16_MAX); [|destruct (_ <=? I32_MAX)]]; eexists; reflexivity.
Qed.

Lemma src_total m r : wf_srange r -> exists t, src_int_type m r = Ok t.
Proof.
  unfold wf_srange, wf_range, wf_bound. destruct r as [|lo hi ext]; cbn [sr_lo sr_hi].
  - intros _. eexists; reflexivity.
  - intros (Hl & Hh & _). unfold src_int_type.
    destruct lo as [l|], hi as [h|].
    + rewrite front_lit_lit by assumption. cbn [bind]. unfold int_type. destruct ext; [eexists; reflexivity|].
      apply fixed_total. intros ? [= <-]. assumption.
    + rewrite front_lit_kw by assumption. cbn [bind]. unfold int_type. destruct ext; [eexists; reflexivity|].
      apply fixed_total. destruct (l =? 0); intros ? [= <-]. assumption.
    + rewrite front_kw_lit by assumption. cbn [bind]. unfold int_type. destruct ext; [eexists; reflexivity|].
      apply fixed_total. intros ? [=].
    + destruct ext; eexists; reflexivity.
Qed.

(** * the summary from which the property theorems are read off *)
Record summary (r : srange) (t : rty) : Prop := {
  s_ext : rext t = sr_ext r;
  s_lo : fits (rk t) (eff_lo (sr_lo r));
  s_hi : fits (rk t) (eff_hi (sr_lo r) (sr_hi r));
  s_narrow : sr_ext r = false -> Narrowest (rk t) (eff_lo (sr_lo r)) (eff_hi (sr_lo r) (sr_hi r));
  s_64 : sr_ext r = true -> width (rk t) = 64;
  s_accmin : acc_min t = declared_lo r (rk t);
  s_accmax : ~ Known_max_keyword_i64max_on_u64 r -> acc_max t = declared_hi r (rk t);
  s_rmin : forall x, rmin t = Some x -> x = declared_lo r (rk t);
  s_rmax : forall y, rmax t = Some y -> ~ Known_max_keyword_i64max_on_u64 r -> y = declared_hi r (rk t)
}.

Lemma not_known_cases r : ~ Known_C15 r ->
  (exists l, sr_lo r = Lit l) \/ (sr_lo r = Kw /\ sr_ext r = true /\ exists h, sr_hi r = Lit h /\ h < 0).
Proof.
  unfold Known_C15, Known_no_lower_bound_unsigned. intros HK.
  destruct (sr_lo r) as [l|] eqn:El; [left; eauto|right].
  destruct (sr_ext r) eqn:Ee.
  - destruct (sr_hi r) as [h|] eqn:Eh.
    + destruct (Z.ltb_spec h 0) as [Hn|Hn]; [eauto 6|].
      exfalso. apply HK. split; [reflexivity|]. intros (_ & h' & [= <-] & Hlt). lia.
    + exfalso. apply HK. split; [reflexivity|]. intros (_ & h' & [=] & _).
  - exfalso. apply HK. split; [reflexivity|]. intros ([=] & _).
Qed.

Lemma summary_holds m r t :
  wf_srange r -> ~ Known_C15 r -> src_int_type m r = Ok t -> summary r t.
Proof.
  intros Hwf HK Hs. destruct (not_known_cases r HK) as [(l & El) | (El & Ee & h & Eh & Hneg)].
  - destruct r as [|lo hi ext]; cbn [sr_lo sr_hi sr_ext] in *; [discriminate|]. subst lo.
    unfold wf_srange, wf_range, wf_bound in Hwf; cbn [sr_lo sr_hi] in Hwf.
    destruct hi as [h|].
    + destruct Hwf as (Hl & Hh & Hlh). rewrite src_lit_lit in Hs by assumption. unfold int_type in Hs.
      destruct ext.
      * injection Hs as <-. destruct (ext_lit l h Hl Hh Hlh) as (A & B & C & D & E & F & G).
        constructor; unfold declared_lo, declared_hi; cbn [sr_lo sr_hi sr_ext eff_lo eff_hi]; auto; try discriminate.
        intros _. apply ext_kind_64.
      * destruct (fixed_lit m l h Hl Hh Hlh) as (t' & Ht & A & (B1 & B2 & B3 & B4) & D & E & F & G).
        rewrite Ht in Hs. injection Hs as <-.
        constructor; unfold declared_lo, declared_hi; cbn [sr_lo sr_hi sr_ext eff_lo eff_hi]; auto; try discriminate.
        intros _. unfold Narrowest. auto.
    + destruct Hwf as (Hl & _ & _). rewrite src_lit_kw in Hs by assumption. unfold int_type in Hs.
      assert (Hkm : forall k, fits k (if l <? 0 then i64_max else u64_max) -> l < 0 -> i64_max = kmax k -> True) by auto.
      destruct ext.
      * injection Hs as <-. destruct (ext_lit_max l Hl) as (A & B & C & D & F & G).
        assert (HK64 := ext_kind_64 (Some l) None).
        constructor; unfold declared_lo, declared_hi, Known_max_keyword_i64max_on_u64;
          cbn [sr_lo sr_hi sr_ext eff_lo eff_hi needs_signed]; auto; try discriminate.
        -- intros Hn. destruct (l <? 0) eqn:E; [|exfalso; apply Hn; auto].
           destruct (G ltac:(lia)) as (G1 & _). rewrite G1.
           unfold fits in B, C. destruct (rk (ext_int_type (Some l) None)); cbn [kmin kmax width] in *; consts; lia.
        -- intros y Hy Hn. destruct (l <? 0) eqn:E; [|exfalso; apply Hn; auto].
           destruct (G ltac:(lia)) as (_ & G2). rewrite (G2 y Hy).
           unfold fits in B, C. destruct (rk (ext_int_type (Some l) None)); cbn [kmin kmax width] in *; consts; lia.
      * destruct (fixed_lit_max m l Hl) as (t' & Ht & A & (B1 & B2 & B3 & B4) & D & F & G).
        rewrite Ht in Hs. injection Hs as <-.
        constructor; unfold declared_lo, declared_hi, Known_max_keyword_i64max_on_u64;
          cbn [sr_lo sr_hi sr_ext eff_lo eff_hi needs_signed]; auto; try discriminate.
        -- intros _. unfold Narrowest. auto.
        -- intros Hn. destruct (l <? 0) eqn:E; [|exfalso; apply Hn; auto].
           destruct (G ltac:(lia)) as (G1 & _). rewrite G1.
           unfold fits in B1, B2. destruct (rk t'); cbn [kmin kmax width signed] in *; consts; try lia; discriminate.
        -- intros y Hy Hn. destruct (l <? 0) eqn:E; [|exfalso; apply Hn; auto].
           destruct (G ltac:(lia)) as (_ & G2). rewrite (G2 y Hy).
           unfold fits in B1, B2. destruct (rk t'); cbn [kmin kmax width signed] in *; consts; try lia; discriminate.
  - destruct r as [|lo hi ext]; cbn [sr_lo sr_hi sr_ext] in *; [discriminate|]. subst lo hi ext.
    unfold wf_srange, wf_range, wf_bound in Hwf; cbn [sr_lo sr_hi] in Hwf. destruct Hwf as (_ & Hh & _).
    unfold src_int_type in Hs. rewrite front_kw_lit in Hs by assumption. cbn [bind] in Hs.
    destruct (h =? i64_max) eqn:E; [consts; lia|]. unfold int_type in Hs. injection Hs as <-.
    destruct (ext_min_neg h ltac:(lia)) as (A & B & C & D & F & G).
    constructor; unfold declared_lo, declared_hi; cbn [sr_lo sr_hi sr_ext eff_lo eff_hi needs_signed]; rewrite ?B;
      auto; try discriminate; unfold fits; cbn [kmin kmax]; consts; lia.
Qed.

(** * the property theorems *)
Lemma holds_all m r t :
  wf_srange r -> ~ Known_C15 r -> src_int_type m r = Ok t ->
  forall v, permitted (sr_lo r) (sr_hi r) v -> rep64 (sr_lo r) v -> fits (rk t) v.
Proof.
  intros Hwf HK Hs v Hp Hr. destruct (summary_holds m r t Hwf HK Hs).
  assert (eff_lo (sr_lo r) <= v <= eff_hi (sr_lo r) (sr_hi r)) as Hv by (apply permitted_eff; auto).
  unfold fits in *. lia.
Qed.

Lemma narrowest m r t :
  wf_srange r -> sr_ext r = false -> ~ Known_C15 r -> src_int_type m r = Ok t ->
  signed (rk t) = needs_signed (sr_lo r) /\
  forall k, (forall v, permitted (sr_lo r) (sr_hi r) v -> rep64 (sr_lo r) v -> fits k v) -> width (rk t) <= width k.
Proof.
  intros Hwf He HK Hs. destruct (summary_holds m r t Hwf HK Hs) as [_ _ _ Hn _ _ _ _ _].
  destruct (Hn He) as (_ & _ & Hsg & Hmin). split.
  - rewrite Hsg. unfold eff_lo, needs_signed. destruct (sr_lo r); reflexivity.
  - intros k Hk. pose proof (eff_lo_le_hi _ _ Hwf) as Hle.
    apply Hmin; apply Hk; apply (permitted_eff _ _ _ Hwf); lia.
Qed.

Lemma ext_is_64 m r t : sr_ext r = true -> src_int_type m r = Ok t -> width (rk t) = 64.
Proof.
  intros He Hs. unfold src_int_type in Hs.
  destruct (front_range r) as [[[lo hi] ext]| |] eqn:Ef; cbn [bind] in Hs; try discriminate.
  assert (ext = true) as ->.
  { destruct r as [|slo shi e]; cbn [sr_ext] in He; [discriminate|]. subst e.
    unfold front_range, parse_range in Ef.
    destruct (parse_bound slo) as [[l|l]|], (parse_bound shi) as [[h|h]|];
      try destruct (l =? 0); try destruct (h =? i64_max); cbn in Ef; congruence. }
  unfold int_type in Hs. injection Hs as <-. apply ext_kind_64.
Qed.

(** * accessor text *)
Lemma uint_codes_numeric d : forallb is_numeric (uint_codes d) = true.
Proof. induction d; cbn [uint_codes forallb]; rewrite ?IHd; reflexivity. Qed.

Lemma codes_uint_codes d : codes_uint (uint_codes d) = Some d.
Proof. induction d; cbn [uint_codes]; [reflexivity| ..]; cbn; rewrite IHd; reflexivity. Qed.

Lemma codes_uint_skip t : codes_uint (95 :: t) = codes_uint t.
Proof. reflexivity. Qed.

Lemma codes_uint_cons_ext c t t' : codes_uint t = codes_uint t' -> codes_uint (c :: t) = codes_uint (c :: t').
Proof. intros H. cbn [codes_uint]. rewrite H. reflexivity. Qed.

Lemma codes_uint_nice p s : codes_uint (nice_loop p s) = codes_uint s.
Proof.
  revert p. induction s as [|c t IH]; intros p; [reflexivity|]. cbn [nice_loop].
  destruct (((p + 1) mod 3 =? 0) && is_numeric c); apply codes_uint_cons_ext; rewrite ?codes_uint_skip; apply IH.
Qed.

Lemma codes_uint_app_us X : codes_uint (X ++ [95]) = codes_uint X.
Proof. induction X as [|c t IH]; [reflexivity|]. apply codes_uint_cons_ext, IH. Qed.

Lemma nice_loop_ends s : forall p, s <> [] -> forallb is_numeric s = true ->
  (p + Z.of_nat (length s)) mod 3 = 0 -> exists X, nice_loop p s = X ++ [95].
Proof.
  induction s as [|c t IH]; intros p Hne Hnum Hp; [congruence|].
  cbn [forallb] in Hnum. apply andb_true_iff in Hnum. destruct Hnum as (Hc & Ht).
  cbn [nice_loop]. rewrite Hc, andb_true_r.
  destruct t as [|c2 t2].
  - cbn [length] in Hp. replace ((p + 1) mod 3 =? 0) with true by lia. exists [c]. reflexivity.
  - destruct (IH ((p + 1) mod 3) ltac:(congruence) Ht) as (X & HX).
    { cbn [length] in *. lia. }
    rewrite HX. destruct ((p + 1) mod 3 =? 0); [exists (c :: 95 :: X)|exists (c :: X)]; reflexivity.
Qed.

Lemma remove_last_ok m out : out <> [] -> remove_last m out = Ok (removelast out).
Proof. destruct out; [congruence|reflexivity]. Qed.

Lemma start_pos n : ((3 - n mod 3) mod 3 + n) mod 3 = 0.
Proof. lia. Qed.

(* digits only *)
Lemma fmt_digits m d p : d <> Nil -> (p + Z.of_nat (length (uint_codes d))) mod 3 = 0 ->
  exists X, remove_last m (nice_loop p (uint_codes d)) = Ok X /\ codes_uint X = Some d /\
            (forall t, X <> 45 :: t) /\ X <> [].
Proof.
  intros Hd Hp.
  assert (uint_codes d <> []) as Hne by (destruct d; cbn; congruence).
  destruct (nice_loop_ends _ p Hne (uint_codes_numeric d) Hp) as (X & HX).
  exists X. rewrite HX. rewrite remove_last_ok by (destruct X; discriminate). rewrite removelast_last.
  split; [reflexivity|]. split.
  - rewrite <- codes_uint_app_us, <- HX, codes_uint_nice. apply codes_uint_codes.
  - assert (exists c t, X ++ [95] = c :: t /\ is_numeric c = true) as (c & t & Hct & Hc).
    { rewrite <- HX. destruct d; try congruence; cbn [uint_codes nice_loop];
        match goal with |- context [if ?b then _ else _] => destruct b end; eauto. }
    destruct X as [|x X']; cbn in Hct.
    + injection Hct as <- _. discriminate.
    + injection Hct as -> _. split; [|discriminate]. intros t' [= -> _]. discriminate.
Qed.

Lemma fmt_parse m z : exists txt, format_number_nicely m (to_string z) = Ok txt /\ parse_num txt = Some z.
Proof.
  unfold format_number_nicely, to_string.
  pose proof (DecimalZ.of_to z) as Hz.
  destruct (Z.to_int z) as [d|d] eqn:Ed.
  - assert (d <> Nil) as Hd.
    { unfold Z.to_int in Ed. destruct z; try discriminate; injection Ed as <-; [discriminate|apply Unsigned.to_uint_nonnil]. }
    destruct (fmt_digits m d _ Hd (start_pos _)) as (X & HX & Hc & Hneg & Hne).
    exists X. split; [exact HX|]. unfold parse_num.
    destruct X as [|c t]; [congruence|].
    assert (c <> 45) as Hc45 by (intros ->; eapply Hneg; reflexivity).
    rewrite <- Hz.
    destruct (Z.eq_dec c 45); [congruence|].
    replace (match c with 45 => _ | _ => match codes_uint (c :: t) with Some Nil | None => None | Some d0 => Some (Z.of_int (Pos d0)) end end)
      with (match codes_uint (c :: t) with Some Nil | None => None | Some d0 => Some (Z.of_int (Pos d0)) end).
    + rewrite Hc. destruct d; congruence.
    + destruct c as [|c|c]; try reflexivity.
      do 6 (destruct c as [c|c|]; try reflexivity). congruence.
  - assert (d <> Nil) as Hd.
    { unfold Z.to_int in Ed. destruct z; try discriminate. injection Ed as <-. apply Unsigned.to_uint_nonnil. }
    set (n := Z.of_nat (length (45 :: uint_codes d))).
    cbn [nice_loop]. replace (is_numeric 45) with false by reflexivity. rewrite andb_false_r.
    destruct (fmt_digits m d (((3 - n mod 3) mod 3 + 1) mod 3) Hd) as (X & HX & Hc & _ & Hne).
    { subst n. cbn [length]. lia. }
    exists (45 :: X). split.
    + unfold remove_last in *.
      destruct (nice_loop (((3 - n mod 3) mod 3 + 1) mod 3) (uint_codes d)) as [|y ys] eqn:En.
      * destruct (overflow_checks m); discriminate.
      * injection HX as <-. reflexivity.
    + unfold parse_num. rewrite Hc, <- Hz. destruct d; congruence.
Qed.

Lemma accessors m r t :
  wf_srange r -> ~ Known_C15 r -> src_int_type m r = Ok t ->
  exists a b, min_max_fn_text m t = Ok (rk t, a, b) /\
              parse_num a = Some (declared_lo r (rk t)) /\
              (~ Known_max_keyword_i64max_on_u64 r -> parse_num b = Some (declared_hi r (rk t))).
Proof.
  intros Hwf HK Hs. destruct (summary_holds m r t Hwf HK Hs) as [_ _ _ _ _ Hmin Hmax _ _].
  unfold min_max_fn_text. rewrite integer_range_str_acc.
  destruct (fmt_parse m (acc_min t)) as (a & Ha & Pa). destruct (fmt_parse m (acc_max t)) as (b & Hb & Pb).
  exists a, b. rewrite Ha, Hb. cbn [bind]. split; [reflexivity|]. split.
  - rewrite Pa, Hmin. reflexivity.
  - intros Hn. rewrite Pb, (Hmax Hn). reflexivity.
Qed.

Lemma declared_bounds m r t :
  wf_srange r -> ~ Known_C15 r -> src_int_type m r = Ok t ->
  rext t = sr_ext r /\
  (forall x, rmin t = Some x -> x = declared_lo r (rk t)) /\
  (forall y, rmax t = Some y -> ~ Known_max_keyword_i64max_on_u64 r -> y = declared_hi r (rk t)).
Proof. intros Hwf HK Hs. destruct (summary_holds m r t Hwf HK Hs). auto. Qed.

(** * tightness of the finding class: on every well-formed range of the class the property does fail *)
Lemma no_lower_unsigned m hi ext t :
  (ext = true -> forall h, hi = Some h -> 0 <= h) ->
  int_type m None hi ext = Ok t -> signed (rk t) = false.
Proof.
  intros Hh. unfold int_type. destruct ext.
  - intros [= <-]. unfold ext_int_type. destruct (is_unconstrained_pair None hi); [reflexivity|].
    destruct hi as [h|]; cbn [unwrap_or].
    + specialize (Hh eq_refl h eq_refl). replace ((0 <=? 0) && (0 <=? h)) with true by lia. reflexivity.
    + reflexivity.
  - unfold fixed_int_type. destruct (is_unconstrained_pair None hi); [intros [= <-]; reflexivity|].
    cbn [unwrap_or]. replace (0 <=? 0) with true by reflexivity.
    destruct (_ <=? U8_MAX); [|destruct (_ <=? U16_MAX); [|destruct (_ <=? U32_MAX)]]; intros [= <-]; reflexivity.
Qed.

Lemma known_refuted m r t :
  wf_srange r -> Known_C15 r -> src_int_type m r = Ok t ->
  exists v, permitted (sr_lo r) (sr_hi r) v /\ rep64 (sr_lo r) v /\ ~ fits (rk t) v.
Proof.
  unfold wf_srange, wf_range, wf_bound, Known_C15, Known_no_lower_bound_unsigned.
  intros Hwf (Hlo & Hx) Hs.
  assert (Hsg : signed (rk t) = false).
  { destruct r as [|lo hi ext]; cbn [sr_lo sr_hi sr_ext] in *.
    - injection Hs as <-. reflexivity.
    - subst lo. unfold src_int_type in Hs. destruct hi as [h|].
      + destruct Hwf as (_ & Hh & _). rewrite front_kw_lit in Hs by assumption. cbn [bind] in Hs.
        eapply no_lower_unsigned; [|exact Hs]. intros -> h'.
        destruct (h =? i64_max) eqn:E; [discriminate|]. intros [= <-].
        destruct (Z.ltb_spec h 0); [|assumption]. exfalso. apply Hx. eauto.
      + eapply no_lower_unsigned; [|exact Hs]. intros _ h' [=]. }
  exists (match sr_hi r with Lit h => Z.min (-1) h | Kw => -1 end).
  rewrite Hlo in *. unfold permitted, rep64, needs_signed, fits.
  destruct (sr_hi r) as [h|]; destruct Hwf as (_ & Hh & _);
    (destruct (rk t); try discriminate Hsg); cbn [kmin kmax]; consts; lia.
Qed.
