(* Front/IntTyProofs.v -- stub, to be filled *)
