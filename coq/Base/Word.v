(* Machine words: u64 bit patterns are [N] below 2^64, i64 values are [Z];
   big-endian byte lists; leading zeros. *)
From A1 Require Export Base.Res.
Require Import ZifyBool ZifyNat ZifyN.
Local Open Scope N_scope.

Definition two64 : N := 18446744073709551616.
Definition two63 : N := 9223372036854775808.
Definition is_u64 (n : N) : Prop := n < two64.
Definition is_i64 (z : Z) : Prop := (- Z.of_N two63 <= z < Z.of_N two63)%Z.
Definition is_u64b (n : N) : bool := n <? two64.
Definition is_i64b (z : Z) : bool := ((- Z.of_N two63 <=? z) && (z <? Z.of_N two63))%Z.

Definition wrap64 (n : N) : N := n mod two64.
(* `x as u64` for an i64 x, and `x as i64` for a u64 x *)
Definition u64_of_i64 (z : Z) : N := Z.to_N (z mod Z.of_N two64).
Definition i64_of_u64 (n : N) : Z :=
  if n <? two63 then Z.of_N n else (Z.of_N n - Z.of_N two64)%Z.

(* u64::leading_zeros *)
Definition lz64 (n : N) : N := 64 - N.size n.

(* big-endian bytes *)
Fixpoint be_bytes (k : nat) (v : N) : list N :=
  match k with
  | O => []
  | S k' => (v / 256 ^ N.of_nat k') mod 256 :: be_bytes k' v
  end.
Definition of_be (l : list N) : N := fold_left (fun a b => a * 256 + b) l 0.

Definition byteb (b : N) : bool := b <? 256.

(** * Lemmas *)

Lemma two64_pow : two64 = 2 ^ 64. Proof. reflexivity. Qed.
Lemma two63_pow : two63 = 2 ^ 63. Proof. reflexivity. Qed.

Lemma u64_i64_roundtrip z : is_i64 z -> i64_of_u64 (u64_of_i64 z) = z.
Proof.
  unfold is_i64, i64_of_u64, u64_of_i64. intros H.
  assert (Z.of_N two64 = 18446744073709551616%Z) as E64 by reflexivity.
  assert (Z.of_N two63 = 9223372036854775808%Z) as E63 by reflexivity.
  rewrite E64, E63 in *.
  destruct (Z_lt_le_dec z 0) as [Hn|Hp].
  - assert (z mod 18446744073709551616 = z + 18446744073709551616)%Z as ->.
    { symmetry. apply Z.mod_unique with (q := (-1)%Z); lia. }
    rewrite Z2N.id by lia.
    destruct (N.ltb_spec (Z.to_N (z + 18446744073709551616)) two63) as [L|L]; unfold two63 in L; lia.
  - rewrite Z.mod_small by lia. rewrite Z2N.id by lia.
    destruct (N.ltb_spec (Z.to_N z) two63) as [L|L]; unfold two63 in L; lia.
Qed.

Lemma u64_of_i64_lt z : u64_of_i64 z < two64.
Proof.
  unfold u64_of_i64.
  assert (0 <= z mod Z.of_N two64 < Z.of_N two64)%Z by (apply Z.mod_pos_bound; reflexivity).
  lia.
Qed.

Lemma i64_u64_roundtrip n : n < two64 -> u64_of_i64 (i64_of_u64 n) = n.
Proof.
  unfold i64_of_u64, u64_of_i64. intros H.
  assert (Z.of_N two64 = 18446744073709551616%Z) as E64 by reflexivity.
  unfold two64 in H.
  destruct (N.ltb_spec n two63) as [L|L]; unfold two63 in L; rewrite E64.
  - rewrite Z.mod_small by lia. lia.
  - assert ((Z.of_N n - 18446744073709551616) mod 18446744073709551616 = Z.of_N n)%Z as ->.
    { symmetry. apply Z.mod_unique with (q := (-1)%Z); lia. }
    lia.
Qed.

Lemma i64_of_u64_range n : n < two64 -> is_i64 (i64_of_u64 n).
Proof.
  unfold i64_of_u64, is_i64. intros H. unfold two64 in H.
  assert (Z.of_N two64 = 18446744073709551616%Z) as E64 by reflexivity.
  assert (Z.of_N two63 = 9223372036854775808%Z) as E63 by reflexivity.
  destruct (N.ltb_spec n two63) as [L|L]; unfold two63 in L; lia.
Qed.

Lemma of_be_acc l a :
  fold_left (fun a b => a * 256 + b) l a = a * 256 ^ N.of_nat (length l) + of_be l.
Proof.
  unfold of_be. revert a. induction l as [|b l IH]; intros a.
  - simpl. lia.
  - cbn [fold_left length]. rewrite IH, (IH (0 * 256 + b)).
    replace (N.of_nat (S (length l))) with (N.succ (N.of_nat (length l))) by lia.
    rewrite N.pow_succ_r'. lia.
Qed.

Lemma of_be_app l1 l2 : of_be (l1 ++ l2) = of_be l1 * 256 ^ N.of_nat (length l2) + of_be l2.
Proof. unfold of_be at 1. rewrite fold_left_app, of_be_acc. reflexivity. Qed.

Lemma of_be_cons b l : of_be (b :: l) = b * 256 ^ N.of_nat (length l) + of_be l.
Proof. change (b :: l) with ([b] ++ l). rewrite of_be_app. unfold of_be at 1. simpl. lia. Qed.

Lemma be_bytes_length k v : length (be_bytes k v) = k.
Proof. induction k; simpl; auto. Qed.

Lemma of_be_be_bytes k v : of_be (be_bytes k v) = v mod 256 ^ N.of_nat k.
Proof.
  induction k as [|k IH].
  - simpl. rewrite N.mod_1_r. reflexivity.
  - cbn [be_bytes]. rewrite of_be_cons, be_bytes_length, IH.
    replace (N.of_nat (S k)) with (N.succ (N.of_nat k)) by lia.
    rewrite N.pow_succ_r'.
    set (p := 256 ^ N.of_nat k). assert (p <> 0) by (apply N.pow_nonzero; lia).
    rewrite (N.mul_comm 256 p).
    rewrite N.mod_mul_r by lia. lia.
Qed.

Lemma be_bytes_small k v : v < 256 ^ N.of_nat k -> of_be (be_bytes k v) = v.
Proof. intros. rewrite of_be_be_bytes. apply N.mod_small; auto. Qed.

Lemma be_bytes_bytes k v : Forall (fun b => b < 256) (be_bytes k v).
Proof. induction k; simpl; constructor; auto. apply N.mod_lt. lia. Qed.

(* leading zero bytes can be dropped *)
Lemma be_bytes_skip j k v :
  v < 256 ^ N.of_nat j -> skipn k (be_bytes (k + j) v) = be_bytes j v.
Proof.
  intros H. induction k as [|k IH]; [reflexivity|].
  cbn [plus be_bytes skipn]. exact IH.
Qed.

Lemma be_bytes_lead_zero j k v :
  v < 256 ^ N.of_nat j -> firstn k (be_bytes (k + j) v) = repeat 0 k.
Proof.
  intros H. induction k as [|k IH]; [reflexivity|].
  cbn [plus be_bytes firstn repeat]. f_equal; [|exact IH].
  rewrite N.div_small; [reflexivity|].
  eapply N.lt_le_trans; [exact H|]. apply N.pow_le_mono_r; lia.
Qed.

Lemma size_bound n : n < 2 ^ N.size n.
Proof.
  destruct n as [|p]; [reflexivity|].
  apply N.size_gt.
Qed.

Lemma size_le_of_lt n k : n < 2 ^ k -> N.size n <= k.
Proof.
  intros H. destruct n as [|p]; [simpl; lia|].
  rewrite N.size_log2 by discriminate.
  apply N.log2_lt_pow2 in H; lia.
Qed.

Lemma size_ge_of_ge n k : 2 ^ k <= n -> k < N.size n.
Proof.
  intros H. assert (n <> 0) by (intro; subst; assert (0 < 2^k) by (apply N.neq_0_lt_0, N.pow_nonzero; lia); lia).
  rewrite N.size_log2 by auto.
  apply N.log2_le_pow2 in H; lia.
Qed.

Lemma lz64_bound n : n < two64 -> lz64 n <= 64 /\ n < 2 ^ (64 - lz64 n).
Proof.
  intros H. unfold lz64.
  assert (N.size n <= 64) by (apply size_le_of_lt; exact H).
  split; [lia|].
  replace (64 - (64 - N.size n)) with (N.size n) by lia. apply size_bound.
Qed.
