(* Common result vocabulary of the model: every Rust function that returns
   Result<T,E> and may also leave the Result world by panicking is a function
   into [res T]. *)
From Coq Require Export List NArith ZArith Lia Bool.
Export ListNotations.

Inductive res (A : Type) : Type :=
| Ok (a : A)
| Err (e : N)      (* error kind code; payloads are dropped *)
| Panic (p : N).   (* panic class code *)
Arguments Ok {A} a.
Arguments Err {A} e.
Arguments Panic {A} p.

Definition bind {A B} (r : res A) (f : A -> res B) : res B :=
  match r with Ok a => f a | Err e => Err e | Panic p => Panic p end.

Notation "'let!' x ':=' r 'in' k" := (bind r (fun x => k))
  (at level 200, x pattern, r at level 100, k at level 200, right associativity).

Definition is_ok {A} (r : res A) : bool := match r with Ok _ => true | _ => false end.
Definition is_panic {A} (r : res A) : bool := match r with Panic _ => true | _ => false end.

(* panic classes (shared by all layers, mirrored by the Rust harness) *)
Definition P_INDEX_OOB : N := 1.
Definition P_ARITH : N := 2.
Definition P_CAPACITY : N := 3.
Definition P_UNWRAP : N := 4.
Definition P_ASSERT : N := 5.
Definition P_SLICE_RANGE : N := 6.
Definition P_UNBOUNDED : N := 7.
Definition P_OTHER : N := 9.

(* cargo profile: the two semantics of unchecked arithmetic and debug_assert! *)
Record mode := { overflow_checks : bool; debug_asserts : bool }.
Definition dev_mode := {| overflow_checks := true; debug_asserts := true |}.
Definition release_mode := {| overflow_checks := false; debug_asserts := false |}.

Lemma bind_ok {A B} (r : res A) (f : A -> res B) b :
  bind r f = Ok b -> exists a, r = Ok a /\ f a = Ok b.
Proof. destruct r; simpl; intros H; try discriminate; eauto. Qed.
