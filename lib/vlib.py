"""Shared machinery of the asn1rs Coq verification checks.

A check (checks/C<nn>.py) provides a `Spec`; `run_check` then
  1. regenerates coq/Gen/*.v from /repo, builds the Coq targets of the property,
     runs the hygiene gate and reads `Print Assumptions` for every pinned theorem;
  2. builds the extracted OCaml model driver and the Rust harness (from /repo's
     current working tree);
  3. runs corpus + generated cases on both, compares line by line, and evaluates the
     property's own oracle on the implementation's answers;
  4. decides (DESIGN.md section 5), writes evidence/<id>.json and replay files.
"""
import fcntl
import hashlib
import json
import os
import random
import re
import resource
import subprocess
import sys
import time
from concurrent.futures import ThreadPoolExecutor

ROOT = os.path.dirname(os.path.dirname(os.path.abspath(__file__)))
REPO = os.environ.get("A1_REPO", "/repo")
COQ = os.path.join(ROOT, "coq")
CACHE = os.path.join(ROOT, ".cache")
HARNESS = os.path.join(ROOT, "harness", "a1h")
OCAML = os.path.join(ROOT, "ocaml")
NCPU = os.cpu_count() or 4

ALLOWED_AXIOMS = {
    # none needed so far; names listed here would be reported in the evidence
}

TRUSTED_BASE = [
    "Coq 8.16.1 kernel incl. vm_compute (no native_compute)",
    "no axioms: every pinned theorem is 'Closed under the global context'",
    "gen/consts.py (regex translator of constants from /repo into coq/Gen/*.v)",
    "Extraction with ExtrOcamlBasic only (bool/option/unit/list/prod/sumbool/sumor to OCaml natives); Z/N/positive/nat stay inductive; OCaml 4.13.1 + zarith for decimal I/O in ocaml/driver.ml",
    "extraction + driver cross-checked per run by vm_compute inside coqc on a sample",
    "Rust harness harness/a1h (op dispatch, canonical integer-list printing, catch_unwind)",
    "hand-written Gallina model tied to /repo only by the differential correspondence run",
]


def log(*a):
    print(*a, file=sys.stderr, flush=True)


class Lock:
    def __init__(self, name):
        os.makedirs(CACHE, exist_ok=True)
        self.path = os.path.join(CACHE, name + ".lock")

    def __enter__(self):
        self.f = open(self.path, "w")
        fcntl.flock(self.f, fcntl.LOCK_EX)
        return self

    def __exit__(self, *a):
        fcntl.flock(self.f, fcntl.LOCK_UN)
        self.f.close()


def sh(cmd, cwd=None, timeout=3600, env=None, inp=None):
    e = dict(os.environ)
    e.update({"CARGO_NET_OFFLINE": "true"})
    if env:
        e.update(env)
    p = subprocess.run(cmd, cwd=cwd, shell=isinstance(cmd, str), stdout=subprocess.PIPE,
                       stderr=subprocess.STDOUT, timeout=timeout, env=e, input=inp)
    return p.returncode, p.stdout.decode("utf-8", "replace")


# --------------------------------------------------------------------------
# 1. Coq side
# --------------------------------------------------------------------------

def regen_consts():
    """Run the constants translator. Returns list of broken items (strings)."""
    sys.path.insert(0, os.path.join(ROOT, "gen"))
    import consts
    return consts.regenerate(REPO, os.path.join(COQ, "Gen"))


def coq_make(targets, timeout=1500):
    """targets: list of .vo paths relative to coq/. Full .vo build under a lock."""
    with Lock("coq"):
        if not os.path.exists(os.path.join(COQ, "Makefile")) or \
                os.path.getmtime(os.path.join(COQ, "Makefile")) < os.path.getmtime(os.path.join(COQ, "_CoqProject")):
            rc, out = sh("coq_makefile -f _CoqProject -o Makefile", cwd=COQ)
            if rc != 0:
                return False, out
        try:
            rc, out = sh(["timeout", str(timeout), "make", "-j%d" % NCPU] + targets, cwd=COQ, timeout=timeout + 30)
        except subprocess.TimeoutExpired:
            return False, "make timed out"
        return rc == 0, out


HYGIENE_RE = re.compile(
    r"\b(Admitted|admit|Axiom|Axioms|Parameter|Parameters|Conjecture|Conjectures|Abort All|Admit Obligations)\b"
    r"|Unset\s+Guard|Unset\s+Positivity|Unset\s+Universe|bypass_check|type-in-type|impredicative-set|native_compute")


def strip_coq_comments(s):
    out = []
    depth = 0
    i = 0
    instr = False
    while i < len(s):
        if depth == 0 and s[i] == '"':
            instr = not instr
            out.append(s[i])
            i += 1
            continue
        if not instr and s.startswith("(*", i):
            depth += 1
            i += 2
            continue
        if not instr and depth > 0 and s.startswith("*)", i):
            depth -= 1
            i += 2
            continue
        if depth == 0:
            out.append(s[i])
        i += 1
    return "".join(out)


def hygiene():
    """grep the whole development (comments stripped) for forbidden vernacular."""
    bad = []
    for d, _, fs in os.walk(COQ):
        for f in fs:
            if not f.endswith(".v"):
                continue
            p = os.path.join(d, f)
            txt = strip_coq_comments(open(p).read())
            for n, line in enumerate(txt.split("\n"), 1):
                m = HYGIENE_RE.search(line)
                if m:
                    # Variable/Hypothesis are only checked outside sections by review; flag keyword hits
                    bad.append("%s:%d: %s" % (os.path.relpath(p, ROOT), n, m.group(0)))
    proj = open(os.path.join(COQ, "_CoqProject")).read()
    for w in ("-type-in-type", "-impredicative-set", "-vos", "-bypass"):
        if w in proj:
            bad.append("_CoqProject: " + w)
    return bad


def assumptions(prop_module, theorems):
    """Returns {name: {'statement':..., 'axioms':[...]} } using a scratch .v file."""
    os.makedirs(CACHE, exist_ok=True)
    name = "assum_%s_%d" % (prop_module.replace(".", "_"), os.getpid())
    path = os.path.join(CACHE, name + ".v")
    with open(path, "w") as f:
        f.write("From A1 Require Import %s.\n" % prop_module)
        for t in theorems:
            f.write('Check %s.\nPrint Assumptions %s.\n' % (t, t))
    with Lock("coq"):
        rc, out = sh(["timeout", "300", "coqc", "-Q", COQ, "A1", "-noglob", path], cwd=CACHE)
    for ext in (".v", ".vo", ".vok", ".vos", ".glob"):
        try:
            os.remove(os.path.join(CACHE, name + ext))
        except OSError:
            pass
    res = {}
    if rc != 0:
        return res, out
    # split output: each theorem produces "name\n     : stmt" then assumptions block
    blocks = re.split(r"^(?=\S+\s*\n\s+: )", out, flags=re.M)
    for t in theorems:
        res[t] = None
    cur = None
    text = out
    # sequential parse
    pos = 0
    for i, t in enumerate(theorems):
        m = re.search(r"^%s\s*\n\s+: " % re.escape(t), text[pos:], flags=re.M)
        if not m:
            continue
        start = pos + m.start()
        nxt = None
        if i + 1 < len(theorems):
            m2 = re.search(r"^%s\s*\n\s+: " % re.escape(theorems[i + 1]), text[start + 1:], flags=re.M)
            if m2:
                nxt = start + 1 + m2.start()
        chunk = text[start:nxt]
        pos = start + 1
        if "Closed under the global context" in chunk:
            stmt = chunk.split("Closed under the global context")[0]
            axioms = []
        elif "Axioms:" in chunk:
            stmt, ax = chunk.split("Axioms:", 1)
            axioms = re.findall(r"^(\S+)\s*:", ax, flags=re.M)
        else:
            stmt, axioms = chunk, ["<unparsed>"]
        stmt = " ".join(stmt.split())
        res[t] = {"statement": stmt, "axioms": axioms}
    return res, out


def build_model():
    """(Re)build the OCaml driver from the extracted model.  coq/model.ml is produced by Extract/Extract.vo."""
    with Lock("ocaml"):
        src = os.path.join(COQ, "model.ml")
        if not os.path.exists(src):
            return False, "coq/model.ml missing (Extract/Extract.vo not built?)"
        exe = os.path.join(OCAML, "a1model")
        stamp = os.path.join(OCAML, ".stamp")
        h = hashlib.sha256(open(src, "rb").read() + open(os.path.join(OCAML, "driver.ml"), "rb").read()).hexdigest()
        if os.path.exists(exe) and os.path.exists(stamp) and open(stamp).read() == h:
            return True, "cached"
        for f in ("model.ml", "model.mli"):
            with open(os.path.join(COQ, f), "rb") as a, open(os.path.join(OCAML, f), "wb") as b:
                b.write(a.read())
        rc, out = sh("ocamlfind ocamlopt -O3 -package zarith -linkpkg -w -a "
                     "model.mli model.ml driver.ml -o a1model", cwd=OCAML, timeout=900)
        if rc == 0:
            open(stamp, "w").write(h)
        return rc == 0, out


# --------------------------------------------------------------------------
# 2. implementation side
# --------------------------------------------------------------------------

def build_harness(features="default", profile="dev", cfg_hooks=True):
    """Build harness/a1h against /repo's working tree. Returns (path|None, log)."""
    tdir = os.path.join(CACHE, "target-" + features)
    with Lock("cargo-" + features):
        lock = os.path.join(HARNESS, "Cargo.lock")
        if not os.path.exists(lock):
            with open(os.path.join(REPO, "Cargo.lock"), "rb") as a, open(lock, "wb") as b:
                b.write(a.read())
        cmd = ["cargo", "build", "--offline", "-q"]
        if profile == "release":
            cmd.append("--release")
        if features != "default":
            cmd += ["--features", features]
        env = {"CARGO_TARGET_DIR": tdir}
        if cfg_hooks:
            env["RUSTFLAGS"] = "--cfg asn1rs_verif -Awarnings"
        rc, out = sh(cmd, cwd=HARNESS, env=env, timeout=1800)
        exe = os.path.join(tdir, "release" if profile == "release" else "debug", "a1h")
        if rc != 0 or not os.path.exists(exe):
            return None, out
        return exe, out


def _run_chunk(cmd, lines, timeout, mem_gb):
    """cmd is a list; the child runs under `ulimit -v` (set by a wrapping /bin/sh so that Python can
    vfork/posix_spawn instead of forking its own large address space)."""
    inp = ("\n".join(lines) + "\n").encode()
    import shlex
    wrapped = ["/bin/sh", "-c", "ulimit -c 0; ulimit -v %d; exec %s" % (mem_gb << 20, " ".join(shlex.quote(c) for c in cmd))]
    try:
        env = dict(os.environ)
        env["RUST_BACKTRACE"] = "0"
        p = subprocess.run(wrapped, input=inp, stdout=subprocess.PIPE, stderr=subprocess.DEVNULL,
                           timeout=timeout, env=env)
        out = p.stdout.decode().split("\n")
        if out and out[-1] == "":
            out.pop()
        if p.returncode == 0 and len(out) == len(lines):
            return out
        why = "32"  # abort / killed / OOM
        # the answers before the crash are valid: keep them and continue after the offending line
        if 0 <= len(out) < len(lines) and p.returncode != 0:
            k = len(out)
            # line k crashed the child (its answer was never flushed; earlier answers may be lost to buffering)
            if k > 0 and all(o != "" for o in out):
                rest = _run_chunk(cmd, lines[k + 1:], timeout, mem_gb) if k + 1 < len(lines) else []
                one = _run_chunk(cmd, [lines[k]], timeout, mem_gb)
                return out + one + rest
    except subprocess.TimeoutExpired:
        why = "31"  # hang
    if len(lines) == 1:
        return ["3 " + why]
    mid = len(lines) // 2
    return _run_chunk(cmd, lines[:mid], timeout, mem_gb) + _run_chunk(cmd, lines[mid:], timeout, mem_gb)


def run_lines(cmd, lines, chunk=None, timeout=120, mem_gb=4, workers=None):
    """Run a line-in/line-out process over `lines` in parallel chunks; a crash or hang
    of the child is bisected down to the offending line, reported as '3 <class>'."""
    if not lines:
        return []
    workers = workers or NCPU
    if chunk is None:
        chunk = max(1, min(4000, (len(lines) + workers - 1) // workers))
    # round-robin assignment so that runs of expensive neighbouring cases are spread over the chunks
    nch = max(1, (len(lines) + chunk - 1) // chunk)
    idxs = [list(range(k, len(lines), nch)) for k in range(nch)]
    with ThreadPoolExecutor(max_workers=workers) as ex:
        outs = list(ex.map(lambda ix: _run_chunk(cmd, [lines[i] for i in ix], timeout, mem_gb), idxs))
    res = [None] * len(lines)
    for ix, o in zip(idxs, outs):
        for i, v in zip(ix, o):
            res[i] = v
    return res


def run_model(lines, mode="dev", **kw):
    exe = os.path.join(OCAML, "a1model")
    m = "1" if mode == "dev" else "0"
    return run_lines(["/bin/sh", "-c", "ulimit -s unlimited 2>/dev/null; exec %s %s" % (exe, m)], lines, **kw)


def coq_crosscheck(cases, mode="dev"):
    """cases: list of (line, expected_line). Evaluates Ops.agree inside coqc by vm_compute."""
    if not cases:
        return True, ""
    name = "xcheck_%d_%d" % (os.getpid(), random.randrange(1 << 30))
    path = os.path.join(CACHE, name + ".v")

    def zl(s):
        return "[" + "; ".join("(%s)" % t for t in s.split()) + "]"
    with open(path, "w") as f:
        f.write("From A1 Require Import Extract.Ops.\nFrom Coq Require Import ZArith List.\nImport ListNotations.\nLocal Open Scope Z_scope.\n")
        f.write("Definition cases : list (Z * list Z * list Z) := [\n")
        rows = []
        for line, exp in cases:
            toks = line.split()
            rows.append("((%s), %s, %s)" % (toks[0], zl(" ".join(toks[1:])), zl(exp)))
        f.write(";\n".join(rows))
        f.write("].\n")
        f.write("Definition bad := filter (fun c => negb (agree %s c)) cases.\n" % ("true" if mode == "dev" else "false"))
        f.write("Eval vm_compute in (length bad, map (fun c => fst (fst c)) (firstn 5 bad)).\n")
    with Lock("coq"):
        rc, out = sh(["timeout", "600", "coqc", "-Q", COQ, "A1", "-noglob", path], cwd=CACHE, timeout=630)
    for ext in (".v", ".vo", ".vok", ".vos", ".glob"):
        try:
            os.remove(os.path.join(CACHE, name + ext))
        except OSError:
            pass
    ok = rc == 0 and re.search(r"=\s*\(0%?(nat)?\s*,\s*\[\]\)", out.replace("\n", " ")) is not None
    return ok, out


# --------------------------------------------------------------------------
# 3. known findings
# --------------------------------------------------------------------------

def known_findings(prop):
    """Lines of KNOWN_FINDINGS.txt: 'finding: property=Cxx id=.. class=.. :: text' -> {class: text}"""
    res = {}
    p = os.path.join(ROOT, "KNOWN_FINDINGS.txt")
    if not os.path.exists(p):
        return res
    for line in open(p):
        line = line.strip()
        if not line.startswith("finding:"):
            continue
        m = re.match(r"finding:\s+property=(\S+)\s+id=(\S+)\s+class=(\S+)\s*(?:witness=(\S+))?\s*::\s*(.*)", line)
        if m and m.group(1) == prop:
            res[m.group(3)] = {"id": m.group(2), "text": m.group(5), "witness": m.group(4)}
    return res


# --------------------------------------------------------------------------
# 4. the generic check
# --------------------------------------------------------------------------

class Spec:
    prop = "C00"
    coq_targets = []          # .vo files (relative to coq/) whose build constitutes the proof obligations
    prop_module = ""          # e.g. "Props.C20"
    theorems = []             # pinned theorem names in prop_module
    builds = [("default", "dev")]   # (feature set, profile) pairs of the harness to confront
    level_text = ""
    rule = ""
    extra_trusted = []
    assumptions_text = []
    xcheck_n = 200
    timeout_per_chunk = 120
    mem_gb = 4

    def corpus(self):
        d = os.path.join(ROOT, "corpus", self.prop)
        lines = []
        if os.path.isdir(d):
            for f in sorted(os.listdir(d)):
                if f.endswith(".txt"):
                    for l in open(os.path.join(d, f)):
                        l = l.split("#")[0].strip()
                        if l:
                            lines.append(l)
        return lines

    def gen(self, rng, tier):
        """-> list of case lines"""
        return []

    def model_line(self, line, build):
        """line sent to the model for a given build (default: identical)."""
        return line

    def canon(self, out):
        """canonicalise an answer line before comparing model and implementation"""
        return out

    def oracle(self, line, out, build):
        """Evaluate the property itself on the implementation's answer.
        Return None (holds / not applicable), or (class, description) when the property fails."""
        return None

    def nontrivial(self, line, out):
        return True

    def extra_checks(self, ctx):
        """hook for additional per-property steps; may append to ctx['violations'] etc."""
        return


def _write_replay(prop, obj):
    d = os.path.join(ROOT, "replays")
    os.makedirs(d, exist_ok=True)
    h = hashlib.sha256(json.dumps(obj, sort_keys=True).encode()).hexdigest()[:12]
    p = os.path.join(d, "%s-%s.json" % (prop, h))
    with open(p, "w") as f:
        json.dump(obj, f, indent=1)
    return p


def run_check(spec, tier, seed):
    t0 = time.time()
    prop = spec.prop
    violations = []      # list of dicts -> replay files
    known_hit = {}
    notes = []
    ctx = {"violations": violations, "notes": notes, "tier": tier, "seed": seed}

    # ---- 1. proofs ----
    broken_consts = regen_consts()
    ok, out = coq_make(spec.coq_targets + ["Extract/Extract.vo"])
    proof_broken = []
    if broken_consts:
        proof_broken.append("constants translator: " + "; ".join(broken_consts))
    if not ok:
        tailmsg = "\n".join(out.strip().split("\n")[-25:])
        proof_broken.append("coq build failed:\n" + tailmsg)
        # try to at least build the executable model
        ok2, out2 = coq_make(["Extract/Extract.vo"])
        if not ok2:
            notes.append("model itself does not build")
    hy = hygiene()
    if hy:
        proof_broken.append("hygiene gate: " + "; ".join(hy[:10]))
    assum, aout = ({}, "")
    if ok:
        assum, aout = assumptions(spec.prop_module, spec.theorems)
    obligations = len(spec.theorems)
    discharged = 0
    per_theorem = {}
    for t in spec.theorems:
        a = assum.get(t)
        if a is None:
            per_theorem[t] = {"checked": False}
            if ok:
                proof_broken.append("theorem %s not found / not checked" % t)
            continue
        bad_ax = [x for x in a["axioms"] if x not in ALLOWED_AXIOMS]
        per_theorem[t] = {"checked": True, "axioms": a["axioms"], "statement": a["statement"][:600]}
        if bad_ax:
            proof_broken.append("theorem %s depends on non-allow-listed axioms %s" % (t, bad_ax))
        else:
            discharged += 1

    # ---- 2. builds ----
    mok, mout = build_model()
    if not mok:
        proof_broken.append("model driver build failed: " + mout[-800:])
    exes = {}
    for feat, prof in spec.builds:
        exe, bout = build_harness(feat, prof)
        if exe is None:
            violations.append({"kind": "harness-build-failed", "build": [feat, prof], "log": bout[-3000:]})
        exes[(feat, prof)] = exe

    # ---- 3. cases ----
    rng = random.Random(seed)
    corpus = spec.corpus()
    gen = spec.gen(rng, tier)
    lines = corpus + gen
    # dedupe preserving order
    seen = set()
    ulines = []
    for l in lines:
        if l not in seen:
            seen.add(l)
            ulines.append(l)
    lines = ulines
    evaluations = 0
    disagreements = []
    oracle_fail = []
    nontrivial = set()
    samples = []
    dist = {}
    xsample = []
    limit_artifacts = 0
    for (feat, prof), exe in exes.items():
        if exe is None or not mok:
            continue
        blines = [l for l in lines if spec.applies(l, (feat, prof))] if hasattr(spec, "applies") else lines
        mlines = [spec.model_line(l, (feat, prof)) for l in blines]
        impl = run_lines([exe], blines, timeout=spec.timeout_per_chunk, mem_gb=spec.mem_gb)
        model = run_model(mlines, mode=prof, timeout=spec.timeout_per_chunk * 3, mem_gb=8)
        refs = None
        if hasattr(spec, "ref_line"):
            # independent reference (e.g. the X.691 transcription) evaluated by the extracted model driver
            rl = [spec.ref_line(l) for l in blines]
            idx = [i for i, r in enumerate(rl) if r]
            ro = run_model([rl[i] for i in idx], mode=prof, timeout=spec.timeout_per_chunk * 3, mem_gb=8)
            refs = [None] * len(blines)
            for i, r in zip(idx, ro):
                refs[i] = r
        evaluations += len(blines)
        for j, (l, ml, io, mo) in enumerate(zip(blines, mlines, impl, model)):
            ci, cm = spec.canon(io), spec.canon(mo)
            if ci != cm and io.startswith("3 ") and limit_artifacts < 200:
                # the child died (abort / out of memory under `ulimit -v`) where the model continues: an allocation just
                # below the model's 4 GiB line fails under a 4 GiB address-space limit that the process shares with its
                # own code and stacks.  Ask once more with three times the limit; only that answer is compared.
                io2 = run_lines([exe], [l], timeout=spec.timeout_per_chunk, mem_gb=3 * spec.mem_gb, workers=1)[0]
                if spec.canon(io2) == cm:
                    limit_artifacts += 1
                    ci = cm
            if ci != cm:
                disagreements.append({"case": l, "build": [feat, prof], "impl": io[:400], "model": mo[:400]})
            if refs is not None:
                o = spec.oracle(l, io, (feat, prof), refs[j])
            else:
                o = spec.oracle(l, io, (feat, prof))
            if o is not None:
                # an oracle may report one (class, text) or a list of them: every class is judged on its own,
                # so a listed finding never masks a different failure on the same case
                for oc in (o if isinstance(o, list) else [o]):
                    oracle_fail.append({"case": l, "build": [feat, prof], "impl": io[:400], "class": oc[0], "what": oc[1]})
            if spec.nontrivial(l, io):
                nontrivial.add(l)
            k = l.split()[0] + ":" + (io.split()[0] if io else "?")
            dist[k] = dist.get(k, 0) + 1
        if len(samples) < 6:
            for l, io in list(zip(blines, impl))[:3]:
                samples.append({"build": "%s/%s" % (feat, prof), "case": l[:200], "impl": io[:200]})
        # sample for the in-Coq cross-check of extraction+driver
        if prof == spec.builds[0][1] and feat == spec.builds[0][0]:
            idx = list(range(len(blines)))
            rng2 = random.Random(seed + 1)
            rng2.shuffle(idx)
            for i in idx:
                if len(mlines[i]) < 2000 and len(model[i]) < 2000 and not model[i].startswith("3 "):
                    xsample.append((mlines[i], model[i]))
                if len(xsample) >= spec.xcheck_n:
                    break
            xmode = prof

    xok = True
    if xsample:
        xok, xout = coq_crosscheck(xsample, mode=xmode)
        if not xok:
            proof_broken.append("extracted driver disagrees with vm_compute inside Coq (or cross-check failed): " + xout[-600:])

    ctx.update({"exes": exes, "lines": lines, "disagreements": disagreements, "oracle_fail": oracle_fail})
    spec.extra_checks(ctx)

    # ---- 4. decide ----
    known = known_findings(prop)
    out_lines = []
    exit_code = 0
    unknown_oracle = []
    for f in oracle_fail:
        if f["class"] in known:
            known_hit.setdefault(f["class"], []).append(f)
        else:
            unknown_oracle.append(f)

    if unknown_oracle:
        f0 = unknown_oracle[0]
        p = _write_replay(prop, {"property": prop, "kind": "property-fails-on-implementation",
                                 "case": f0["case"], "build": f0["build"], "impl": f0["impl"],
                                 "class": f0["class"], "what": f0["what"],
                                 "more": unknown_oracle[1:20], "seed": seed, "tier": tier})
        out_lines.append("VIOLATION property=%s replay=%s" % (prop, p))
        exit_code = 1
    elif disagreements or proof_broken or violations:
        # correspondence or proof broke, and no failing input was found by the oracle on this run's inputs
        p = _write_replay(prop, {"property": prop, "kind": "tie-or-proof-broken",
                                 "proof_broken": proof_broken, "disagreements": disagreements[:20],
                                 "other": violations[:5], "seed": seed, "tier": tier,
                                 "note": "model and implementation differ (or a proof obligation no longer checks); "
                                         "the oracle found no input on which the property itself fails"})
        out_lines.append("VIOLATION property=%s replay=%s no-failing-input-found" % (prop, p))
        exit_code = 1
    for cls, fs in known_hit.items():
        out_lines.append("KNOWN-FINDING: property=%s %s [%s] (%d cases, e.g. %s)" %
                         (prop, known[cls]["text"], known[cls]["id"], len(fs), fs[0]["case"][:120]))

    # ---- 5. evidence ----
    ev = {
        "property_id": prop,
        "tier": tier,
        "seed": seed,
        "level": "proof",
        "coverage": {
            "obligations": obligations,
            "discharged": discharged,
            "checker_cmd": "make -C coq %s (coqc 8.16.1, full .vo) + Print Assumptions per theorem" % " ".join(spec.coq_targets),
            "trusted_base": TRUSTED_BASE + spec.extra_trusted,
            "theorems": per_theorem,
            "evaluations": evaluations,
            "distinct_nontrivial": len(nontrivial),
            "rule": spec.rule,
            "samples": samples,
            "disagreements_checked": len(disagreements),
            "crosscheck_in_coq": {"cases": len(xsample), "ok": xok},
            "distribution": dist,
            "builds": ["%s/%s" % b for b in spec.builds],
            "known_classes_hit": {k: len(v) for k, v in known_hit.items()},
            "corpus_cases": len(corpus),
            "notes": notes + ctx.get("notes_extra", []),
            "explanation": spec.level_text,
        },
        "assumptions": spec.assumptions_text,
        "wall_s": round(time.time() - t0, 2),
        "violations": 1 if exit_code else 0,
    }
    ev["coverage"].update(ctx.get("coverage_extra", {}))
    if limit_artifacts:
        ev["coverage"]["address_space_limit_artifacts"] = ("%d cases in which the harness child died under its 4 GiB address-space limit "
                                                           "and agreed with the model when asked again under three times the limit" % limit_artifacts)
    if obligations == 0:
        # no theorem is pinned for this property yet: report the exploration-style counts only
        for k in ("obligations", "discharged"):
            ev["coverage"].pop(k, None)
        ev["coverage"]["theorems_pinned"] = 0
    os.makedirs(os.path.join(ROOT, "evidence"), exist_ok=True)
    with open(os.path.join(ROOT, "evidence", prop + ".json"), "w") as f:
        json.dump(ev, f, indent=1)
    for l in out_lines:
        print(l)
    print("%s %s: theorems %d/%d, cases %d (%d non-trivial), disagreements %d, oracle failures %d (%d known), %.1fs" %
          (prop, tier, discharged, obligations, evaluations, len(nontrivial), len(disagreements),
           len(oracle_fail), len(oracle_fail) - len(unknown_oracle), time.time() - t0))
    if oracle_fail:
        cc = {}
        for f in oracle_fail:
            cc.setdefault(f["class"], [0, f])
            cc[f["class"]][0] += 1
        for k, (n, f) in cc.items():
            log("oracle class %s: %d cases, e.g. [%s] %s -> %s :: %s" % (k, n, "/".join(f["build"]), f["case"][:160], f["impl"][:100], f["what"][:160]))
    if proof_broken:
        for pb in proof_broken:
            log("PROOF/TIE BROKEN: " + pb)
    return exit_code


def replay(spec, path):
    obj = json.load(open(path))
    cases = []
    if "case" in obj:
        cases.append((obj["case"], tuple(obj.get("build", spec.builds[0]))))
    for d in obj.get("disagreements", []) + obj.get("more", []):
        cases.append((d["case"], tuple(d["build"])))
    regen_consts()
    coq_make(["Extract/Extract.vo"])
    build_model()
    rc = 0
    for line, b in cases:
        exe, _ = build_harness(b[0], b[1])
        io = run_lines([exe], [line])[0]
        mo = run_model([spec.model_line(line, b)], mode=b[1])[0]
        o = spec.oracle(line, io, b)
        print("case:  %s\nbuild: %s\nimpl:  %s\nmodel: %s\noracle: %s\n" % (line, b, io, mo, o))
        if o is not None or spec.canon(io) != spec.canon(mo):
            rc = 1
    if obj.get("proof_broken"):
        print("proof/tie items that did not check:", *obj["proof_broken"], sep="\n  ")
        rc = 1
    return rc
