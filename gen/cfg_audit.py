"""Lists every #[cfg(feature = "descriptive-deserialize-errors")] item of src/rw/uper.rs with the
statement it gates and classifies it: 'log' (a push/assignment on scope_description or a
ScopeDescription value, a struct field, a parameter) or 'other'.  A sentinel for C19, not a verdict."""
import hashlib
import re

REPO = "/repo"


def audit():
    src = open(REPO + "/src/rw/uper.rs").read().split("\n")
    blocks = []
    i = 0
    while i < len(src):
        if 'cfg(feature = "descriptive-deserialize-errors")' in src[i]:
            j = i + 1
            depth = 0
            stmt = []
            while j < len(src):
                stmt.append(src[j].strip())
                depth += src[j].count("(") + src[j].count("{") - src[j].count(")") - src[j].count("}")
                if depth <= 0 and (src[j].rstrip().endswith(";") or src[j].rstrip().endswith(",") or src[j].rstrip().endswith("}")):
                    break
                j += 1
            text = " ".join(stmt)
            kind = "log" if re.search(r"scope_description|ScopeDescription|descriptions", text) else "other"
            blocks.append((kind, text[:120]))
            i = j
        i += 1
    h = hashlib.sha256(repr(blocks).encode()).hexdigest()[:16]
    return {"count": len(blocks), "log_only": sum(1 for b in blocks if b[0] == "log"),
            "other": [b[1] for b in blocks if b[0] != "log"], "hash": h}


if __name__ == "__main__":
    print(audit())
