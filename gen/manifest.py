#!/usr/bin/env python3
"""Writes MANIFEST.json from the table below (kept in one place so it is always valid)."""
import json
import os

ROOT = os.path.dirname(os.path.dirname(os.path.abspath(__file__)))

CHECKS = {
    "C02": dict(
        technique="Independent type-level X.691 transcription in Coq (Uper/X691Type.v over Per/X691.v) related to the proven writer reference (theorems in Props/C02.v) + differential correspondence of writer bits and of the reader on reference bits",
        text="x691 : ty -> val -> option bits is written clause by clause from X.691 (12-14, 16, 17, 19, 20, 23, 30, 11.2, 11.9) independently of the writer model; "
             "Props/C02.v relates it to the implementation-shaped reference enc (which Props/C01.v proves equal to the writer and inverted by the reader) outside the "
             "listed deviation classes; the crate's bits are compared with x691 evaluated by the extracted driver, and the crate's reader is run on the reference bits "
             "followed by trailing data, for random profile types on the constant grid.",
        note="Relative to my transcription of X.691 (no independent PER codec offline); the derivation of descriptor constants from ASN.1 text (SET order, ENUMERATED/CHOICE "
             "index order, constants) is the subject of C08/C16 and their findings; known findings F02-1..4.",
        design="6 (C02), 4 (profile)"),
    "C03": dict(
        technique="Coq model of the SEQUENCE/SET presence machinery (theorems in Props/C03.v) + bounded-exhaustive differential correspondence with a reference preamble encoder",
        text="Gallina model of Scope/write_into_field/read_from_field, write_opt/default and the generated field walk with the theorems of "
             "Props/C03.v; tied to /repo by running every shape with <= 3 (quick) / <= 5 (thorough) components x kinds x marker position x "
             "presence pattern through the real UperWriter/UperReader, judged by an independent reference encoder of the preamble, decode "
             "equality and the exact-refusal oracle.",
        note="Trusted: Coq kernel, extraction + driver, harness, Python reference encoder; descriptor constants derived from the shape as "
             "the compiler does (checked by C08/C16); a marker before the first component is not expressible in the crate (F16-2).",
        design="6 (C03)"),
    "C04": dict(
        technique='Coq proof (UPER, DER and protobuf reader totality: no Panic outcome incl. fuel exhaustion, no success beyond the declared length / window, for every type outside the listed classes) + differential correspondence on random and mutated inputs under memory/time limits',
        text='C04_uper_total: for every mode, well-formed type outside Known_C04 and source in the invariant, read_ty never reaches a Panic outcome (indexing, unchecked arithmetic per profile, allocation, unwrap, debug assertion are explicit Panic outcomes in the model) and a successful read ends within the declared length; C04_remaining_callable, C04_pos_le_len_preserved for every primitive, C04_entry_total, C04_der_total (DER readers), PER primitive no-panic theorems, refutation witnesses for the listed classes. Tied to /repo by differential execution on random bytes and mutated valid encodings for 80 zoo types (UPER), the DER primitives and the protobuf zoo, the child running under RLIMIT_AS and a time limit.',
        note="Partial only in that wall-clock hang and real allocation are bounded as requested work in the model and observed by the tie, and that the protobuf reader's theorems (C04_proto_total for every byte list and every type without a list of lists, C04_proto_no_overread, C04_proto_primitives_total) exclude a bare top-level SEQUENCE OF, which no generated type is; known findings F04-1..3. Trusted: Coq kernel, extraction + driver, harness with catch_unwind, process supervision.",
        design="6 (C04)"),
    "C05": dict(
        technique='Coq proof (C05_forward / C05_backward / sentinel corollaries over an `extends` relation on types) + differential correspondence (write under A, read under B, sentinel after the message)',
        text='C05_forward, C05_backward, C05_sequence_compat, C05_sentinel_forward/backward: for top-level SEQUENCE/SET, CHOICE and ENUMERATED pairs related by appended extension additions/alternatives/items, old data reads under the new type with the additions absent and new data reads under the old type with unknown additions skipped, the reader ending exactly at the end of the message (arbitrary tail), unknown CHOICE/ENUMERATED indices giving InvalidChoiceIndex; schema pairs are also run in both directions through the real writer/reader with a trailing sentinel and judged by an oracle computed from the pair.',
        note='Closure of `extends` under enclosing contexts is not proved (top level only; the tie nests pairs in no outer type either); values inside Known_C01 (>= 16K classes) excluded. Two genuine defects found here were repaired (fix: commits 546b054, 543a356). Trusted: Coq kernel, extraction + driver, harness, Python oracle.',
        design="6 (C05)"),
    "C06": dict(
        technique='Coq proofs: rejection for every PER primitive (Props/C10.v *_reject), rejection at every nesting depth and panic-freedom of the type-level writer (Uper/RejectNestedProofs.v), no-wrong-encoding as a corollary of the round-trip theorem + differential correspondence with a sat() oracle',
        text='C06_reject_nested: for every well-formed type and representable value with a violated non-extensible constraint anywhere inside an encoded position (violates t v = true), write_ty returns an Err (never Ok, never Panic); C06_writer_never_panics for all wf types/values; C06_never_wrong_encoding / C06_no_other_value: a successful write reads back as exactly that value; C06_extensible_*_out_of_root_roundtrips; named error kinds at top level (13 theorems). Values with exactly one violated constraint at a random nesting position (range, size, alphabet position classes incl. code points above U+00FF, index) are run through the real writer; oracle: non-extensible violation => constraint error, extensible => accepted and round-trips.',
        note='The error KIND at depth is not named by the theorem (the first failing position in encoding order decides it); kinds_ok (no negative lower bound on a u64 INTEGER, which the compiler never produces) is a hypothesis with a witness that it is needed. Trusted: Coq kernel, extraction + driver, harness, Python sat() oracle; the F10-1 size family is exempted where the writer rejects lb <= n < 2*lb.',
        design="6 (C06)"),
    "C07": dict(
        technique='Coq model of the recursive-descent parser + parse-after-print theorems for every sub-language and for whole modules + differential correspondence with an independent canon(A) oracle',
        text='Function-for-function fuelled Gallina model of asn/model.rs and asn/*.rs producing the same model dump as the crate (tie is real: 0 disagreements). Theorems: C07_parse_print (parse (print_module m) = denote_module m for every wf_module), C07_parse_print_type (the mutually recursive type grammar), C07_parse_print_{enumerated,oid,opt_oid,imports,value_reference}, tags, SIZE, INTEGER ranges, named numbers; literals _partial; refutation witnesses for 12 deviation classes. Grammar-based generator of abstract modules with layout variation, judged by canon(A) computed independently in Python.',
        note="Printing is to token lists (the character level is C13's theorem); wf_module excludes the forms the parser rewrites (named classes, each with a witness); 17 known findings (F07-*).",
        design="6 (C07)"),
    "C08": dict(
        technique="Coq proof of printer/parser inversion for the attribute type sub-language (partial) + differential correspondence of to_rust -> generator -> attribute parser",
        text="C08_reparse_type_partial / C08_reparse_type_in_context over a model of asn_attribute_type and proc_macro/{attribute,range,size,tag}.rs; "
             "the real pipeline (to_rust -> RustCodeGenerator -> parse_asn_definition/expand) is run on ~3000 definitions (templates, random grammar, "
             "every module text found in /repo) and judged by R1 == R2 and by descriptor constants recomputed independently from the abstract module.",
        note="Partial: attribute/item level, composition with to_rust, expansion constants and proc_macro2 lexing are tie + oracle only; 20 known findings (F08-*).",
        design="6 (C08)"),
    "C09": dict(
        technique="Coq proofs about name mangling and keyword escaping against the generated KEYWORDS table (partial) + cargo check of generated zoos",
        text="C09_field_idents_legal (all X.680 identifiers), C09_keywords_complete (proved against gen/consts.py's copy of KEYWORDS), variant/type "
             "identifier legality outside the Self class, collision witnesses; the mangling model is tied to the crate's functions; a fixed zoo of "
             "126 modules (every keyword at 11 positions, collision pairs, case/separator variants) is generated by the real crate and compiled with "
             "cargo check, rustc diagnostics classified.",
        note="Partial (DESIGN section 8): derives, type/borrow checking of generated bodies and constants are checked by rustc only; 18 known findings (F09-*).",
        design="6 (C09)"),
    "C12": dict(
        technique='Coq model of the resolver + substitution theorem over the whole AST, error theorems and load-order irrelevance + differential correspondence of referencing vs literal variants',
        text='Gallina model of resolve.rs/resolve_scope.rs (local first, first import listing the name, OID match) with C12_subst_type/definition/module/all, C12_literalize_* (the substitution as a function, complete), C12_unresolved_is_error_*, C12_non_integer_is_error_* (incl. negative SIZE), C12_order_irrelevant_* under unique_targets and a witness that duplicate module names make load order matter; literals hoisted into value references (local / sibling module with/without OID, shuffled load order, dangling and wrong-kind references) and compared through the real MultiModuleResolver.',
        note="The error theorems say 'not Ok' without naming the error; known findings F12-1..3.",
        design="6 (C12)"),
    "C14": dict(
        technique='Coq totality theorems for the tokenizer and the whole parser model (no Panic, no fuel exhaustion, every loop consumes a token) + differential correspondence on mutated modules and token soups under process supervision',
        text='C14_lex_total (tokenizer never errs, panics only in the documented class), C14_parse_total (for every token list and fuel >= 2*length+4 the parser model never panics and never runs out of fuel), C14_lex_parse_total, C14_error_carries_token; 12 000 (quick) mutated modules and token soups through tokenizer -> parser -> resolver -> to_rust -> to_protobuf with per-stage outcome, model and crate compared, oracle: no panic/hang except the sanctioned one.',
        note='Resolver and tag-resolution totality are proved too (C14_resolve_total, C14_tag_resolution_total, C14_front_end_total: divergence exactly in the two syntactic classes cyclic import / untagged CHOICE cycle, fuel bounds explicit); the remaining to_rust body and to_protobuf are tie + process supervisor only; non-ASCII char classification outside the model; known findings F14-1, F14-2.',
        design="6 (C14)"),
    "C17": dict(
        technique='Coq proof of the protobuf round trip by induction over the nested type universe, for both writer back ends + differential correspondence on a 35-type zoo (incl. all-optional nested messages, DEFAULT components, extensible INTEGERs, lists of NULL)',
        text="C17_roundtrip: for every well-formed type and value outside Known_C17 (CHOICE with NULL or list alternative, list of lists, list of NULL, BitVec with excess bytes) pwrite succeeds and pread returns a protobuf-equal value; C17_backends_agree: the slice writer produces the Vec writer's bytes or fails exactly when the capacity is short, for every type/value/capacity; primitive round trips (varint/zigzag/tag/number) for all u64/i64; refuted witnesses per class. Zoo values through the real writer (Vec and fixed slice) and reader, judged by a Python ProtobufEq oracle and byte equality of the back ends.",
        note='Encodings of 2^64 bytes or more excluded by hypothesis; sized excludes >= 2^29 fields and > 2^32 enum variants; known findings F17-1..7; two defects of extensible INTEGERs found by the zoo were repaired (4788e65).',
        design="6 (C17)"),
    "C18": dict(
        technique="Coq reference proto3 decoder + proof that the writer's bytes decode under schema_of to the value's fields + protoc as second independent decoder, incl. a two-module schema with imports",
        text="C18_decodes_under_schema: for every well-formed type/value outside Known_C18, pb_decode (schema_of t) (pwrite t v) = the field values of v; C18_numbers_match (field/oneof/enum numbering); the generated .proto files (zoo, bad zoo, a two-module zoo with imported types in every position) are parsed, compared with schema_of, validated by /usr/bin/protoc, and the writer's bytes are decoded by protoc --decode and by the extracted pb_decode, both compared with the value.",
        note="'valid proto3' is relative to protoc 3.21.12 (system tool) and a transcribed grammar subset; SET numbering class lives at declaration level; known findings F18-1..5.",
        design="6 (C18)"),
    "C19": dict(
        technique='Coq proof of erasure (a second model of the reader as built with the feature, every cfg-gated statement a log push; C19_erasure by induction on types) + both feature builds tied to the models and to each other',
        text='Uper/ReaderD.v models the reader with descriptive-deserialize-errors (24 log codes, pushes at the program points of the 44 cfg-gated items); C19_erasure / C19_erasure_history: same Ok value, error kind, panic class and cursor as the plain model for every type and reader state. Both builds (dev and release) are compared with the model and with each other on the C04 UPER input set plus round trips; the log model itself is tied to the feature build through op 1204 (exact sequence of ScopeDescription constructors on failures).',
        note='The theorem is about the two models; what ties both real builds to them is the correspondence (ops 1201/1202 on all four builds, op 1204 on the feature builds). gen/cfg_audit.py lists the cfg-gated items as a sentinel.',
        design="6 (C19)"),
    "C01": dict(
        technique="Coq model of the UPER writer/reader + round-trip oracle over differential correspondence (theorems in Props/C01.v)",
        text="Gallina model of rw/uper.rs (Scope state machine, presence-bit back-patching, open-type wrapping, every write_*/read_* "
             "over the proven L1 primitives, both cargo profiles) with the theorems of Props/C01.v; tied to /repo by differential "
             "execution: the harness drives the real UperWriter/UperReader with hand-rolled constraint impls over a constant grid and "
             "dynamic values (histories of 1-5 values per writer, size sweeps up to 131072), each case also judged by the round-trip oracle.",
        note="Trusted: Coq kernel, extraction + driver (cross-checked), Rust harness, Python oracle; descriptor constants assumed consistent "
             "with the field list; String/Vec/from_utf8 and trait dispatch modelled; known findings F01-1..3 (>= 16K fragmentation) listed.",
        design="6 (C01)"),
    "C10": dict(
        technique="Coq proof (model of every PackedWrite/PackedRead method = independent X.691 transcription, all i64/u64 arguments) + differential correspondence",
        text="48 theorems (Props/C10.v) relating the Gallina model of unaligned/mod.rs to an independent clause-by-clause transcription of "
             "X.691 11.3-11.9/14/16/17 (Per/X691.v), for both cargo profiles and all bounds/values, including octet-string fragmentation at every "
             "length, rejection of inadmissible arguments and panic-freedom of writers/readers; refuted classes carry vm_compute witnesses. "
             "Model tied to /repo by differential execution (exhaustive small ranges, boundary families, lengths up to 200K); the crate's bits are "
             "also compared with the X.691 reference.",
        note="Trusted: Coq kernel, gen/consts.py (PER thresholds), extraction + driver (cross-checked), harness; X691.v is my transcription of the "
             "standard; BitBuffer/Bits as bit lists justified by C11; known findings F10-1..3 listed.",
        design="6 (C10)"),
    "C13": dict(
        technique="Coq proof (tokenizer state machine vs layout renderer, induction over token lists) + differential correspondence",
        text="Gallina model of parse/tokenizer.rs (char-level state machine, Token::append, nested block comments, explicit panic) with theorems "
             "C13_tokenize / C13_layout_invariant / C13_locations / C13_positions_intrinsic for every lex_safe layout over nine gap kinds (incl. lone CR and '-- c --'), C13_lone_cr_is_a_blank, three refuted witnesses; model "
             "tied to /repo by differential execution on generated re-layouts and malformed streams, judged by an independent Python oracle "
             "(token contents and 1-based line/column of every token).",
        note="Trusted: Coq kernel, extraction + driver, harness, Python printer/oracle; str::lines and char::is_control modelled (exact for all "
             "Unicode scalar values); the layout class includes '*' '/' and CR as block-comment content, lone CR as a blank and '-- c --' comments "
             "followed only by blanks/comments on their line; a second '--' does not end a line comment and a lone CR does not end one (F13-1, F13-2, "
             "X.680 12.6.3 / 12.1.6 deviations, listed); VT/FF outside the property's separator set.",
        design="6 (C13)"),
    "C15": dict(
        technique="Coq proof (pure Z arithmetic over all of i64^2) + exhaustive boundary-pair correspondence",
        text="Gallina model of the INTEGER type cascade of rust.rs and the min/max accessor text with theorems C15_total, C15_holds_all, "
             "C15_narrowest, C15_ext_is_64, C15_accessors, C15_declared_bounds for all bounds at once (outside the two listed finding classes, "
             "each with a refutation witness); tied to /repo by differential execution over all ordered pairs of the boundary set B "
             "(about 3.6e5 pairs per build) through the real front end, judged by a set-inclusion oracle.",
        note="Trusted: Coq kernel, gen/consts.py (I8_MAX..U32_MAX), extraction + driver, harness; known findings F15-1, F15-2.",
        design="6 (C15)"),
    "C16": dict(
        technique="Coq proof (Sorted + Permutation + stability of the SET ordering, tag rules) + permutation-exhaustive correspondence",
        text="Gallina model of tag assignment, TagResolver and sort_fields_canonically with theorems for any number of components "
             "(C16_set_sorted, C16_set_stable, C16_sequence_textual, C16_tag_rules, C16_automatic_tags, C16_presence_order, "
             "C16_canonical_le_is_X680_8_6 proved against the generated Tag enum order); refuted classes with witnesses. Tied to /repo by running "
             "all permutations of <= 4 (quick) / <= 5 components through the real two-stage pipeline, judged by an X.680 8.6 oracle.",
        note="Trusted: Coq kernel, gen/consts.py (Tag enum order, DEFAULT_* tags), extraction + driver, harness; stable sort_by modelled as "
             "insertion sort; known findings F16-1..6; order among extension additions judged as canonical (X.691 21.1 reading noted in DESIGN).",
        design="6 (C16)"),
    "C11": dict(
        technique="Coq proof (byte-level bit copy refines list-of-bool splice) + bounded-exhaustive differential correspondence",
        text="Gallina model of slice.rs/buffer.rs on byte lists (bitwise copy, bulk copy with head/aligned/unaligned/tail branches, "
             "BitBuffer growth, Bits view) with theorems against the naive list-of-bool splice/slice specification (Props/C11.v); "
             "tied to /repo by differential execution that is exhaustive over (src_offset, dst_position, len) for 5-byte buffers "
             "with the fill patterns the property names, random 64-byte buffers and BitBuffer/Bits operation sequences over the whole public "
             "surface (every write_*/read_* override, with_write_position_at / with_read_position_at / with_max_read around any operation, "
             "every constructor; Bits/Buffer.v with C11_reachable_inv, C11_buffer_reads_within_bit_len, C11_scope_write_in_place), each also "
             "judged by an independent Python list-of-bool oracle.",
        note="Trusted: Coq kernel + vm_compute, extraction + driver (cross-checked), Rust harness, Python oracle; Vec/slice indexing and "
             "copy_from_slice modelled as list operations; 64-bit usize.",
        design="6 (C11)"),
    "C20": dict(
        technique="Coq proof (round-trip theorems, all u64/i64) + differential correspondence model vs crate",
        text="Machine-checked round-trip theorems (Props/C20.v: C20_length, C20_ident, C20_boolean, C20_boolean_nonzero, "
             "C20_int, C20_enum) over a hand-written Gallina model of basic/distinguished/mod.rs and rw/der.rs, closed under the "
             "global context; the model is tied to /repo by differential execution (extracted OCaml model vs Rust harness, dev and "
             "release) on boundary families and random/mutated raw inputs, with a vm_compute cross-check of the extraction.",
        note="Trusted: Coq kernel + vm_compute, gen/consts.py, ExtrOcamlBasic extraction + driver (cross-checked in Coq per run), "
             "Rust harness; io::Read/Write on slices/Vec modelled as byte lists; tags restricted to < 64 in the theorems (property asks < 31).",
        design="6 (C20)"),
}

NOT_YET = {
}


def main():
    checks = []
    for pid in sorted(CHECKS):
        c = CHECKS[pid]
        checks.append({
            "property_id": pid,
            "quick_cmd": "./bin/check %s quick" % pid,
            "thorough_cmd": "./bin/check %s thorough" % pid,
            "evidence_file": "evidence/%s.json" % pid,
            "replay_cmd_template": "./bin/check %s --replay {path}" % pid,
            "engine": "coq+correspondence",
            "level_claimed": {"category": "proof", "text": c["text"], "design_ref": "DESIGN.md section " + c["design"]},
            "level_note": c["note"],
            "technique": c["technique"],
        })
    props = [json.loads(l)["id"] for l in open(os.path.join(ROOT, "properties.jsonl"))]
    na = []
    for pid in props:
        if pid not in CHECKS:
            na.append({"property_id": pid, "reason": NOT_YET.get(pid, "check not built yet in this round (model and theorems planned in DESIGN.md section 6); not claimed until its check exists")})
    m = {
        "version": 1,
        "setup_cmd": "./bin/setup",
        "hooks": {
            "guard": "--cfg asn1rs_verif",
            "enable": "RUSTFLAGS='--cfg asn1rs_verif' (set by lib/vlib.py build_harness; no source hooks exist, everything is observed at the public API)",
            "baseline_off_cmd": "cd /repo && cargo test --workspace --no-fail-fast --offline",
            "source_commits": [],
            "add_only": True,
        },
        "engines": [{"name": "coq+correspondence", "path": "bin/check",
                     "serves_properties": sorted(CHECKS),
                     "kind_free_text": "Coq 8.16.1 proofs over a hand-written Gallina model; model tied to /repo by constants translator + differential execution (extracted OCaml vs Rust harness)"}],
        "checks": checks,
        "not_applicable": na,
        "notes": "See DESIGN.md. Known findings in KNOWN_FINDINGS.txt.",
    }
    with open(os.path.join(ROOT, "MANIFEST.json"), "w") as f:
        json.dump(m, f, indent=1)


if __name__ == "__main__":
    main()
