#!/usr/bin/env python3
"""Writes MANIFEST.json from the table below (kept in one place so it is always valid)."""
import json
import os

ROOT = os.path.dirname(os.path.dirname(os.path.abspath(__file__)))

CHECKS = {
    "C11": dict(
        technique="Coq proof (byte-level bit copy refines list-of-bool splice) + bounded-exhaustive differential correspondence",
        text="Gallina model of slice.rs/buffer.rs on byte lists (bitwise copy, bulk copy with head/aligned/unaligned/tail branches, "
             "BitBuffer growth, Bits view) with theorems against the naive list-of-bool splice/slice specification (Props/C11.v); "
             "tied to /repo by differential execution that is exhaustive over (src_offset, dst_position, len) for 5-byte buffers "
             "with the fill patterns the property names, random 64-byte buffers and BitBuffer/Bits operation sequences, each also "
             "judged by an independent Python list-of-bool oracle.",
        note="Trusted: Coq kernel + vm_compute, extraction + driver (cross-checked), Rust harness, Python oracle; Vec/slice indexing and "
             "copy_from_slice modelled as list operations; 64-bit usize.",
        design="6 (C11)"),
    "C20": dict(
        technique="Coq proof (round-trip theorems, all u64/i64) + differential correspondence model vs crate",
        text="Machine-checked round-trip theorems (Props/C20.v: C20_length, C20_ident, C20_boolean, C20_boolean_nonzero, "
             "C20_int, C20_enum) over a hand-written Gallina model of basic/distinguished/mod.rs and rw/der.rs, closed under the "
             "global context; the model is tied to /repo by differential execution (extracted OCaml model vs Rust harness, dev and "
             "release) on boundary families and random/mutated raw inputs, with a vm_compute cross-check of the extraction.",
        note="Trusted: Coq kernel + vm_compute, gen/consts.py, ExtrOcamlBasic extraction + driver (cross-checked in Coq per run), "
             "Rust harness; io::Read/Write on slices/Vec modelled as byte lists; tags restricted to < 64 in the theorems (property asks < 31).",
        design="6 (C20)"),
}

NOT_YET = {
}


def main():
    checks = []
    for pid in sorted(CHECKS):
        c = CHECKS[pid]
        checks.append({
            "property_id": pid,
            "quick_cmd": "./bin/check %s quick" % pid,
            "thorough_cmd": "./bin/check %s thorough" % pid,
            "evidence_file": "evidence/%s.json" % pid,
            "replay_cmd_template": "./bin/check %s --replay {path}" % pid,
            "engine": "coq+correspondence",
            "level_claimed": {"category": "proof", "text": c["text"], "design_ref": "DESIGN.md section " + c["design"]},
            "level_note": c["note"],
            "technique": c["technique"],
        })
    props = [json.loads(l)["id"] for l in open(os.path.join(ROOT, "properties.jsonl"))]
    na = []
    for pid in props:
        if pid not in CHECKS:
            na.append({"property_id": pid, "reason": NOT_YET.get(pid, "check not built yet in this round (model and theorems planned in DESIGN.md section 6); not claimed until its check exists")})
    m = {
        "version": 1,
        "setup_cmd": "./bin/setup",
        "hooks": {
            "guard": "--cfg asn1rs_verif",
            "enable": "RUSTFLAGS='--cfg asn1rs_verif' (set by lib/vlib.py build_harness; no source hooks exist, everything is observed at the public API)",
            "baseline_off_cmd": "cd /repo && cargo test --workspace --no-fail-fast --offline",
            "source_commits": [],
            "add_only": True,
        },
        "engines": [{"name": "coq+correspondence", "path": "bin/check",
                     "serves_properties": sorted(CHECKS),
                     "kind_free_text": "Coq 8.16.1 proofs over a hand-written Gallina model; model tied to /repo by constants translator + differential execution (extracted OCaml vs Rust harness)"}],
        "checks": checks,
        "not_applicable": na,
        "notes": "See DESIGN.md. Known findings in KNOWN_FINDINGS.txt.",
    }
    with open(os.path.join(ROOT, "MANIFEST.json"), "w") as f:
        json.dump(m, f, indent=1)


if __name__ == "__main__":
    main()
