#!/usr/bin/env python3
"""Writes MANIFEST.json from the table below (kept in one place so it is always valid)."""
import json
import os

ROOT = os.path.dirname(os.path.dirname(os.path.abspath(__file__)))

CHECKS = {
    "C01": dict(
        technique="Coq model of the UPER writer/reader + round-trip oracle over differential correspondence (theorems in Props/C01.v)",
        text="Gallina model of rw/uper.rs (Scope state machine, presence-bit back-patching, open-type wrapping, every write_*/read_* "
             "over the proven L1 primitives, both cargo profiles) with the theorems of Props/C01.v; tied to /repo by differential "
             "execution: the harness drives the real UperWriter/UperReader with hand-rolled constraint impls over a constant grid and "
             "dynamic values (histories of 1-5 values per writer, size sweeps up to 131072), each case also judged by the round-trip oracle.",
        note="Trusted: Coq kernel, extraction + driver (cross-checked), Rust harness, Python oracle; descriptor constants assumed consistent "
             "with the field list; String/Vec/from_utf8 and trait dispatch modelled; known findings F01-1..3 (>= 16K fragmentation) listed.",
        design="6 (C01)"),
    "C10": dict(
        technique="Coq proof (model of every PackedWrite/PackedRead method = independent X.691 transcription, all i64/u64 arguments) + differential correspondence",
        text="48 theorems (Props/C10.v) relating the Gallina model of unaligned/mod.rs to an independent clause-by-clause transcription of "
             "X.691 11.3-11.9/14/16/17 (Per/X691.v), for both cargo profiles and all bounds/values, including octet-string fragmentation at every "
             "length, rejection of inadmissible arguments and panic-freedom of writers/readers; refuted classes carry vm_compute witnesses. "
             "Model tied to /repo by differential execution (exhaustive small ranges, boundary families, lengths up to 200K); the crate's bits are "
             "also compared with the X.691 reference.",
        note="Trusted: Coq kernel, gen/consts.py (PER thresholds), extraction + driver (cross-checked), harness; X691.v is my transcription of the "
             "standard; BitBuffer/Bits as bit lists justified by C11; known findings F10-1..3 listed.",
        design="6 (C10)"),
    "C13": dict(
        technique="Coq proof (tokenizer state machine vs layout renderer, induction over token lists) + differential correspondence",
        text="Gallina model of parse/tokenizer.rs (char-level state machine, Token::append, nested block comments, explicit panic) with theorems "
             "C13_tokenize / C13_layout_invariant / C13_locations / C13_positions_intrinsic for every lex_safe layout over seven gap kinds; model "
             "tied to /repo by differential execution on generated re-layouts and malformed streams, judged by an independent Python oracle "
             "(token contents and 1-based line/column of every token).",
        note="Trusted: Coq kernel, extraction + driver, harness, Python printer/oracle; str::lines and char::is_control modelled (exact for all "
             "Unicode scalar values); '*' '/' as comment content, '-- c --' and lone CR are covered by the tie only.",
        design="6 (C13)"),
    "C15": dict(
        technique="Coq proof (pure Z arithmetic over all of i64^2) + exhaustive boundary-pair correspondence",
        text="Gallina model of the INTEGER type cascade of rust.rs and the min/max accessor text with theorems C15_total, C15_holds_all, "
             "C15_narrowest, C15_ext_is_64, C15_accessors, C15_declared_bounds for all bounds at once (outside the two listed finding classes, "
             "each with a refutation witness); tied to /repo by differential execution over all ordered pairs of the boundary set B "
             "(about 3.6e5 pairs per build) through the real front end, judged by a set-inclusion oracle.",
        note="Trusted: Coq kernel, gen/consts.py (I8_MAX..U32_MAX), extraction + driver, harness; known findings F15-1, F15-2.",
        design="6 (C15)"),
    "C16": dict(
        technique="Coq proof (Sorted + Permutation + stability of the SET ordering, tag rules) + permutation-exhaustive correspondence",
        text="Gallina model of tag assignment, TagResolver and sort_fields_canonically with theorems for any number of components "
             "(C16_set_sorted, C16_set_stable, C16_sequence_textual, C16_tag_rules, C16_automatic_tags, C16_presence_order, "
             "C16_canonical_le_is_X680_8_6 proved against the generated Tag enum order); refuted classes with witnesses. Tied to /repo by running "
             "all permutations of <= 4 (quick) / <= 5 components through the real two-stage pipeline, judged by an X.680 8.6 oracle.",
        note="Trusted: Coq kernel, gen/consts.py (Tag enum order, DEFAULT_* tags), extraction + driver, harness; stable sort_by modelled as "
             "insertion sort; known findings F16-1..6; order among extension additions judged as canonical (X.691 21.1 reading noted in DESIGN).",
        design="6 (C16)"),
    "C11": dict(
        technique="Coq proof (byte-level bit copy refines list-of-bool splice) + bounded-exhaustive differential correspondence",
        text="Gallina model of slice.rs/buffer.rs on byte lists (bitwise copy, bulk copy with head/aligned/unaligned/tail branches, "
             "BitBuffer growth, Bits view) with theorems against the naive list-of-bool splice/slice specification (Props/C11.v); "
             "tied to /repo by differential execution that is exhaustive over (src_offset, dst_position, len) for 5-byte buffers "
             "with the fill patterns the property names, random 64-byte buffers and BitBuffer/Bits operation sequences, each also "
             "judged by an independent Python list-of-bool oracle.",
        note="Trusted: Coq kernel + vm_compute, extraction + driver (cross-checked), Rust harness, Python oracle; Vec/slice indexing and "
             "copy_from_slice modelled as list operations; 64-bit usize.",
        design="6 (C11)"),
    "C20": dict(
        technique="Coq proof (round-trip theorems, all u64/i64) + differential correspondence model vs crate",
        text="Machine-checked round-trip theorems (Props/C20.v: C20_length, C20_ident, C20_boolean, C20_boolean_nonzero, "
             "C20_int, C20_enum) over a hand-written Gallina model of basic/distinguished/mod.rs and rw/der.rs, closed under the "
             "global context; the model is tied to /repo by differential execution (extracted OCaml model vs Rust harness, dev and "
             "release) on boundary families and random/mutated raw inputs, with a vm_compute cross-check of the extraction.",
        note="Trusted: Coq kernel + vm_compute, gen/consts.py, ExtrOcamlBasic extraction + driver (cross-checked in Coq per run), "
             "Rust harness; io::Read/Write on slices/Vec modelled as byte lists; tags restricted to < 64 in the theorems (property asks < 31).",
        design="6 (C20)"),
}

NOT_YET = {
}


def main():
    checks = []
    for pid in sorted(CHECKS):
        c = CHECKS[pid]
        checks.append({
            "property_id": pid,
            "quick_cmd": "./bin/check %s quick" % pid,
            "thorough_cmd": "./bin/check %s thorough" % pid,
            "evidence_file": "evidence/%s.json" % pid,
            "replay_cmd_template": "./bin/check %s --replay {path}" % pid,
            "engine": "coq+correspondence",
            "level_claimed": {"category": "proof", "text": c["text"], "design_ref": "DESIGN.md section " + c["design"]},
            "level_note": c["note"],
            "technique": c["technique"],
        })
    props = [json.loads(l)["id"] for l in open(os.path.join(ROOT, "properties.jsonl"))]
    na = []
    for pid in props:
        if pid not in CHECKS:
            na.append({"property_id": pid, "reason": NOT_YET.get(pid, "check not built yet in this round (model and theorems planned in DESIGN.md section 6); not claimed until its check exists")})
    m = {
        "version": 1,
        "setup_cmd": "./bin/setup",
        "hooks": {
            "guard": "--cfg asn1rs_verif",
            "enable": "RUSTFLAGS='--cfg asn1rs_verif' (set by lib/vlib.py build_harness; no source hooks exist, everything is observed at the public API)",
            "baseline_off_cmd": "cd /repo && cargo test --workspace --no-fail-fast --offline",
            "source_commits": [],
            "add_only": True,
        },
        "engines": [{"name": "coq+correspondence", "path": "bin/check",
                     "serves_properties": sorted(CHECKS),
                     "kind_free_text": "Coq 8.16.1 proofs over a hand-written Gallina model; model tied to /repo by constants translator + differential execution (extracted OCaml vs Rust harness)"}],
        "checks": checks,
        "not_applicable": na,
        "notes": "See DESIGN.md. Known findings in KNOWN_FINDINGS.txt.",
    }
    with open(os.path.join(ROOT, "MANIFEST.json"), "w") as f:
        json.dump(m, f, indent=1)


if __name__ == "__main__":
    main()
