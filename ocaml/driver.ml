(* Generic driver for the extracted model: each stdin line is
     <opcode> <int> <int> ...
   and the answer line is the integer list Model.run returns. Integers are
   arbitrary precision (Zarith on the OCaml side, Coq's inductive Z in the model). *)
module BZ = Z
open Model

let rec pos_of_z (n : BZ.t) : positive =
  if BZ.equal n BZ.one then XH
  else if BZ.is_even n then XO (pos_of_z (BZ.shift_right n 1))
  else XI (pos_of_z (BZ.shift_right n 1))

let coqz_of_z (n : BZ.t) : z =
  if BZ.sign n = 0 then Z0 else if BZ.sign n > 0 then Zpos (pos_of_z n) else Zneg (pos_of_z (BZ.neg n))

let rec z_of_pos (p : positive) : BZ.t =
  match p with
  | XH -> BZ.one
  | XO q -> BZ.shift_left (z_of_pos q) 1
  | XI q -> BZ.succ (BZ.shift_left (z_of_pos q) 1)

let z_of_coqz (v : z) : BZ.t =
  match v with Z0 -> BZ.zero | Zpos p -> z_of_pos p | Zneg p -> BZ.neg (z_of_pos p)

let () =
  let dev = not (Array.length Sys.argv > 1 && Sys.argv.(1) = "0") in
  let buf = Buffer.create 65536 in
  (try
     while true do
       let line = input_line stdin in
       let toks = List.filter (fun s -> s <> "") (String.split_on_char ' ' line) in
       match toks with
       | [] -> print_newline ()
       | op :: args ->
         let op = coqz_of_z (BZ.of_string op) in
         let args = List.map (fun s -> coqz_of_z (BZ.of_string s)) args in
         let out = Model.run dev op args in
         Buffer.clear buf;
         List.iteri (fun i v ->
             if i > 0 then Buffer.add_char buf ' ';
             Buffer.add_string buf (BZ.to_string (z_of_coqz v))) out;
         print_endline (Buffer.contents buf)
     done
   with End_of_file -> ())
