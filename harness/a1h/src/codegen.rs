//! codegen ops (C08, C09). Mirror of coq/Extract/OpsCodegen.v (op 3410 only; 3401..3403 are implementation-only
//! ops: the check judges them with oracles written from the property text, there is no model line for them).
//!
//! All text ops take the char codes of one or more ASN.1 module texts (several modules are separated by code 0)
//! and push them through the crate's real pipeline:
//!   Tokenizer -> Model::try_from -> try_resolve (MultiModuleResolver for several modules) -> to_rust (= R1)
//!   -> RustCodeGenerator text -> syn::parse_file -> per item with `#[asn(..)]`:
//!   asn1rs_model::proc_macro::parse_asn_definition(attribute tokens, item tokens)  (what rustc hands the macro)
//!   -> Model{definitions:[d]}.to_rust_keep_names() (= R2, what `expand` uses) -> proc_macro::expand(d) text.
//!
//! op 3401  -> 0 nmod { ndef { <R1 dump> <R2 answer> <consts answer> }*ndef }*nmod
//!               <R1 dump>      = len ints..                      (canonical dump of the Definition<Rust>, see `dump_def`)
//!               <R2 answer>    = 0 len ints.. | 1 stage | 2 stage class
//!               <consts answer>= 0 k (trait self name type value)*k   (five length-prefixed strings, blanks removed,
//!                                  `::asn1rs::descriptor::` -> `D::`, `::asn1rs::model::asn::` -> `M::`)
//!                              | 1 stage | 2 stage class
//!          | 1 stage kind | 2 stage class          (whole-module failure; stage 1 parse, 2 resolve, 3 to_rust,
//!                                                    4 generator, 5 generated text is not a Rust file (syn),
//!                                                    6 number of #[asn] items != number of definitions)
//!            per-definition stages: 10 parse_asn_definition Err, 11 parse_asn_definition None,
//!                                   12 to_rust_keep_names, 13 expand, 14 expanded text is not a Rust file
//! ops 3402 / 3403 take an optional FIRST argument `-<options>` (a negative number; absent = 0 = RustCodeGenerator::default()):
//!          bit 0 (1) set_fields_pub(false)      bit 1 (2) set_fields_have_getter_and_setter(true)
//! op 3402  -> 0 n (ns scope name)*n m (scope name type value)*m a (scope ident)*a
//!             the last list: every field access `self.<ident>` in the bodies of the inherent impl blocks (scope = the type)
//!             identifiers and constant declarations found in the
//!             generated text (line scanner, no Rust parser involved, so illegal identifiers come out verbatim) plus
//!             the item names of the macro expansion where the re-parse worked.
//!               ns: 0 module  1 type (file scope)  2 value (file scope)  3 field  4 variant  5 associated item
//!                   6 imported name  7 module path segment of an import
//! op 3403  -> 0 nmod (file name, text)*nmod as length-prefixed strings | 1 stage kind | 2 stage class
//! op 3410 kind name.. -> 0 mangled..      the crate's own name mangling functions (kind: see `op_3410`)
//! op 3412 <aty>       -> 0 <tokens of the printed attribute> <0 <re-parsed type> | 1>   (coq/Extract/OpsCodegen.v run_attr)
//! op 3413 ctx ..      -> 0 <tokens of the whole printed attribute> <what parse_asn_definition shows of it> (run_attr_item)
//! op 3411 name..      -> 0 ident keyword   Rust lexical facts according to proc_macro2 / syn (see `op_3411`)
use crate::I;
use asn1rs_model::asn::{Charset, MultiModuleResolver, Size, Tag, TagProperty};
use asn1rs_model::generate::rust::RustCodeGenerator;
use asn1rs_model::generate::Generator;
use asn1rs_model::parse::Tokenizer;
use asn1rs_model::rust::{EncodingOrdering, Rust, RustType};
use asn1rs_model::{Definition, LiteralValue, Model};

extern "C" {
    fn dup(fd: i32) -> i32;
    fn dup2(from: i32, to: i32) -> i32;
    fn close(fd: i32) -> i32;
}

/// Run `f` with file descriptor 1 pointing at /dev/null (restored afterwards, also when `f` panics).
fn silenced<T>(f: impl FnOnce() -> T) -> T {
    use std::io::Write;
    use std::os::fd::AsRawFd;
    struct Restore(i32);
    impl Drop for Restore {
        fn drop(&mut self) {
            let _ = std::io::stdout().flush();
            unsafe {
                dup2(self.0, 1);
                close(self.0);
            }
        }
    }
    let _ = std::io::stdout().flush();
    let Ok(null) = std::fs::OpenOptions::new().write(true).open("/dev/null") else { return f() };
    let saved = unsafe { dup(1) };
    if saved < 0 {
        return f();
    }
    unsafe { dup2(null.as_raw_fd(), 1) };
    let _restore = Restore(saved);
    f()
}

// ------------------------------------------------------------------ canonical dump of the Rust model

fn p_str(o: &mut Vec<I>, s: &str) {
    let cs: Vec<char> = s.chars().collect();
    o.push(cs.len() as I);
    o.extend(cs.iter().map(|c| *c as u32 as I));
}

fn p_tag(o: &mut Vec<I>, t: Option<Tag>) {
    match t {
        None => o.push(0),
        Some(Tag::Universal(n)) => o.extend([1, 0, n as I]),
        Some(Tag::Application(n)) => o.extend([1, 1, n as I]),
        Some(Tag::ContextSpecific(n)) => o.extend([1, 2, n as I]),
        Some(Tag::Private(n)) => o.extend([1, 3, n as I]),
    }
}

fn p_size(o: &mut Vec<I>, s: &Size) {
    match s {
        Size::Any => o.push(0),
        Size::Fix(n, e) => o.extend([1, *n as I, *e as I]),
        Size::Range(a, b, e) => o.extend([2, *a as I, *b as I, *e as I]),
    }
}

fn p_charset(o: &mut Vec<I>, c: Charset) {
    o.push(match c {
        Charset::Utf8 => 0,
        Charset::Numeric => 1,
        Charset::Printable => 2,
        Charset::Ia5 => 3,
        Charset::Visible => 4,
    })
}

fn p_lit(o: &mut Vec<I>, l: &LiteralValue) {
    match l {
        LiteralValue::Boolean(b) => o.extend([0, *b as I]),
        LiteralValue::String(s) => {
            o.push(1);
            p_str(o, s)
        }
        LiteralValue::Integer(v) => o.extend([2, *v as I]),
        LiteralValue::OctetString(v) => {
            o.extend([3, v.len() as I]);
            o.extend(v.iter().map(|b| *b as I));
        }
        LiteralValue::EnumeratedVariant(a, b) => {
            o.push(4);
            p_str(o, a);
            p_str(o, b)
        }
    }
}

fn p_int(o: &mut Vec<I>, kind: I, min: Option<I>, max: Option<I>, ext: bool) {
    o.extend([1, kind]);
    match min {
        Some(v) => o.extend([1, v]),
        None => o.extend([0, 0]),
    }
    match max {
        Some(v) => o.extend([1, v]),
        None => o.extend([0, 0]),
    }
    o.push(ext as I);
}

fn p_type(o: &mut Vec<I>, t: &RustType) {
    match t {
        RustType::Bool => o.push(0),
        RustType::I8(r) => p_int(o, 0, Some(r.0 as I), Some(r.1 as I), r.2),
        RustType::U8(r) => p_int(o, 1, Some(r.0 as I), Some(r.1 as I), r.2),
        RustType::I16(r) => p_int(o, 2, Some(r.0 as I), Some(r.1 as I), r.2),
        RustType::U16(r) => p_int(o, 3, Some(r.0 as I), Some(r.1 as I), r.2),
        RustType::I32(r) => p_int(o, 4, Some(r.0 as I), Some(r.1 as I), r.2),
        RustType::U32(r) => p_int(o, 5, Some(r.0 as I), Some(r.1 as I), r.2),
        RustType::I64(r) => p_int(o, 6, Some(r.0 as I), Some(r.1 as I), r.2),
        RustType::U64(r) => p_int(o, 7, r.0.map(|v| v as I), r.1.map(|v| v as I), r.2),
        RustType::String(s, c) => {
            o.push(2);
            p_size(o, s);
            p_charset(o, *c)
        }
        RustType::VecU8(s) => {
            o.push(3);
            p_size(o, s)
        }
        RustType::BitVec(s) => {
            o.push(4);
            p_size(o, s)
        }
        RustType::Vec(inner, s, ord) => {
            o.extend([5, matches!(ord, EncodingOrdering::Sort) as I]);
            p_size(o, s);
            p_type(o, inner)
        }
        RustType::Null => o.push(6),
        RustType::Option(inner) => {
            o.push(7);
            p_type(o, inner)
        }
        RustType::Default(inner, lit) => {
            o.push(8);
            p_type(o, inner);
            p_lit(o, lit)
        }
        RustType::Complex(name, tag) => {
            o.push(9);
            p_str(o, name);
            p_tag(o, *tag)
        }
    }
}

fn p_consts(o: &mut Vec<I>, cs: &[(String, String)]) {
    o.push(cs.len() as I);
    for (n, v) in cs {
        p_str(o, n);
        p_str(o, v);
    }
}

fn p_ext(o: &mut Vec<I>, e: Option<usize>) {
    o.push(e.map_or(-1, |v| v as I))
}

/// name, then 0 struct | 1 enum | 2 data enum | 3 tuple struct
fn dump_def(Definition(name, rust): &Definition<Rust>) -> Vec<I> {
    let mut o = Vec::new();
    p_str(&mut o, name);
    match rust {
        Rust::Struct { ordering, fields, tag, extension_after } => {
            o.extend([0, matches!(ordering, EncodingOrdering::Sort) as I]);
            p_tag(&mut o, *tag);
            p_ext(&mut o, *extension_after);
            o.push(fields.len() as I);
            for f in fields {
                p_str(&mut o, f.name());
                p_type(&mut o, f.r#type());
                p_tag(&mut o, f.tag());
                p_consts(&mut o, f.constants());
            }
        }
        Rust::Enum(e) => {
            o.push(1);
            p_tag(&mut o, e.tag());
            p_ext(&mut o, e.extension_after_index());
            o.push(e.len() as I);
            for v in e.variants() {
                p_str(&mut o, v);
            }
        }
        Rust::DataEnum(e) => {
            o.push(2);
            p_tag(&mut o, e.tag());
            p_ext(&mut o, e.extension_after_index());
            o.push(e.len() as I);
            for v in e.variants() {
                p_str(&mut o, v.name());
                p_type(&mut o, v.r#type());
                p_tag(&mut o, v.tag());
            }
        }
        Rust::TupleStruct { r#type, tag, constants } => {
            o.push(3);
            p_type(&mut o, r#type);
            p_tag(&mut o, *tag);
            p_consts(&mut o, constants);
        }
    }
    o
}

// ------------------------------------------------------------------ the pipeline

/// a leading negative argument carries the generator options (see the module documentation)
fn split_options(a: &[I]) -> (I, &[I]) {
    match a.first() {
        Some(f) if *f < 0 => (-*f, &a[1..]),
        _ => (0, a),
    }
}

fn text_of(a: &[I]) -> Vec<String> {
    a.split(|c| *c == 0)
        .map(|part| part.iter().map(|c| char::from_u32(*c as u32).unwrap_or('\u{fffd}')).collect::<String>())
        .collect()
}

/// ASN.1 texts -> Rust models (one per module), as `src/converter.rs` / `proc_macro::asn_to_rust` do it
fn front(texts: &[String]) -> Result<Vec<Model<Rust>>, Vec<I>> {
    fn stage<T>(s: I, r: Result<T, I>) -> Result<T, Vec<I>> {
        r.map_err(|c| vec![2, s, c])
    }
    if texts.len() == 1 {
        let model = stage(1, crate::catch(|| Model::try_from(Tokenizer.parse(&texts[0]))))?.map_err(|_| vec![1, 1, 0])?;
        let model = stage(2, crate::catch(|| model.try_resolve()))?.map_err(|_| vec![1, 2, 0])?;
        let rust = stage(3, crate::catch(|| silenced(|| model.to_rust())))?;
        Ok(vec![rust])
    } else {
        let mut mm = MultiModuleResolver::default();
        for t in texts {
            let model = stage(1, crate::catch(|| Model::try_from(Tokenizer.parse(t))))?.map_err(|_| vec![1, 1, 0])?;
            mm.push(model);
        }
        let models = stage(2, crate::catch(|| mm.try_resolve_all()))?.map_err(|_| vec![1, 2, 0])?;
        stage(
            3,
            crate::catch(|| {
                silenced(|| {
                    let scope = models.iter().collect::<Vec<_>>();
                    models.iter().map(|m| m.to_rust_with_scope(&scope[..])).collect::<Vec<_>>()
                })
            }),
        )
    }
}

fn generate(rust: &Model<Rust>) -> Result<(String, String), Vec<I>> {
    generate_with(rust, 0)
}

fn generate_with(rust: &Model<Rust>, options: I) -> Result<(String, String), Vec<I>> {
    let r = crate::catch(|| {
        let mut g = RustCodeGenerator::default();
        if options & 1 != 0 {
            g.set_fields_pub(false);
        }
        if options & 2 != 0 {
            g.set_fields_have_getter_and_setter(true);
        }
        g.add_model(rust.clone());
        g.to_string().map(|v| v.into_iter().next())
    });
    match r {
        Err(c) => Err(vec![2, 4, c]),
        Ok(Err(_)) | Ok(Ok(None)) => Err(vec![1, 4, 0]),
        Ok(Ok(Some(f))) => Ok(f),
    }
}

/// removes white space outside of string literals
fn compact(s: &str) -> String {
    let mut out = String::with_capacity(s.len());
    let (mut in_str, mut esc) = (false, false);
    for c in s.chars() {
        if in_str {
            out.push(c);
            if esc {
                esc = false;
            } else if c == '\\' {
                esc = true;
            } else if c == '"' {
                in_str = false;
            }
        } else if c == '"' {
            in_str = true;
            out.push(c);
        } else if !c.is_whitespace() {
            out.push(c);
        }
    }
    out
}

fn is_asn_attr(a: &syn::Attribute) -> bool {
    a.path().segments.first().map_or(false, |s| s.ident == "asn")
}

/// The items of the generated file that carry `#[asn(..)]`: (attribute tokens, item tokens without that attribute)
fn asn_items(file: &syn::File) -> Vec<(proc_macro2::TokenStream, proc_macro2::TokenStream)> {
    use quote::ToTokens;
    let mut out = Vec::new();
    for item in &file.items {
        let mut item = item.clone();
        let attrs = match &mut item {
            syn::Item::Struct(s) => &mut s.attrs,
            syn::Item::Enum(e) => &mut e.attrs,
            _ => continue,
        };
        let Some(pos) = attrs.iter().position(is_asn_attr) else { continue };
        let attr = attrs.remove(pos);
        let tokens = match &attr.meta {
            syn::Meta::List(l) => l.tokens.clone(),
            _ => proc_macro2::TokenStream::new(),
        };
        out.push((tokens, item.to_token_stream()));
    }
    out
}

/// blanks removed and the two crate path prefixes of generate/walker.rs shortened to `D::` / `M::`
fn short(s: &str) -> String {
    compact(s).replace("::asn1rs::descriptor::", "D::").replace("::asn1rs::model::asn::", "M::")
}

fn path_string(p: &syn::Path) -> String {
    use quote::ToTokens;
    short(&p.to_token_stream().to_string())
}

/// (trait path, self type, const name, const type, const value) of every associated const of every trait impl
fn expanded_consts(file: &syn::File) -> Vec<[String; 5]> {
    use quote::ToTokens;
    let mut out = Vec::new();
    for item in &file.items {
        let syn::Item::Impl(imp) = item else { continue };
        let Some((_, tr, _)) = &imp.trait_ else { continue };
        let tr = path_string(tr);
        let me = compact(&imp.self_ty.to_token_stream().to_string());
        for it in &imp.items {
            match it {
                syn::ImplItem::Const(c) => out.push([
                    tr.clone(),
                    me.clone(),
                    c.ident.to_string(),
                    short(&c.ty.to_token_stream().to_string()),
                    short(&c.expr.to_token_stream().to_string()),
                ]),
                syn::ImplItem::Type(t) => out.push([
                    tr.clone(),
                    me.clone(),
                    format!("type {}", t.ident),
                    String::new(),
                    short(&t.ty.to_token_stream().to_string()),
                ]),
                _ => {}
            }
        }
        // the order in which read_seq reads the fields (SET: canonical order) as a pseudo constant
        for it in &imp.items {
            let syn::ImplItem::Fn(f) = it else { continue };
            if f.sig.ident != "read_seq" && f.sig.ident != "write_seq" {
                continue;
            }
            let body = compact(&f.block.to_token_stream().to_string());
            let mut names = Vec::new();
            let (pre, post) = if f.sig.ident == "read_seq" { (":AsnDef", "::read_value(reader)?") } else { ("AsnDef", "::write_value(writer,&self.") };
            let mut rest = body.as_str();
            while let Some(p) = rest.find(pre) {
                let after = &rest[p + pre.len()..];
                let end = after.find("::").unwrap_or(after.len());
                if after[end..].starts_with(post) {
                    names.push(after[..end].to_string());
                }
                rest = after;
            }
            out.push([tr.clone(), me.clone(), format!("fn {}", f.sig.ident), String::new(), names.join(",")]);
        }
    }
    out
}

struct Reparsed {
    r2: Vec<I>,
    consts: Vec<I>,
    /// names of the items the expansion adds at file scope
    items: Vec<String>,
}

fn reparse(attr: proc_macro2::TokenStream, item: proc_macro2::TokenStream) -> Reparsed {
    let mut items = Vec::new();
    let parsed = crate::catch(|| silenced(|| asn1rs_model::proc_macro::parse_asn_definition(attr, item).map(|(d, _)| d)));
    let def = match parsed {
        Err(c) => return Reparsed { r2: vec![2, 10, c], consts: vec![2, 10, c], items },
        Ok(Err(_)) => return Reparsed { r2: vec![1, 10], consts: vec![1, 10], items },
        Ok(Ok(None)) => return Reparsed { r2: vec![1, 11], consts: vec![1, 11], items },
        Ok(Ok(Some(d))) => d,
    };
    let d2 = def.clone();
    let r2 = match crate::catch(|| {
        silenced(|| {
            let model: Model<asn1rs_model::proc_macro::AsnModelType> =
                Model { name: "__proc_macro".to_string(), definitions: vec![d2], ..Default::default() };
            model.to_rust_keep_names()
        })
    }) {
        Err(c) => vec![2, 12, c],
        Ok(m) => {
            let mut o = vec![0];
            let mut body = Vec::new();
            // one definition is expected; more (or none) would be visible as a longer/shorter dump
            body.push(m.definitions.len() as I);
            for d in &m.definitions {
                body.extend(dump_def(d));
            }
            o.push(body.len() as I);
            o.extend(body);
            o
        }
    };
    let consts = match crate::catch(|| {
        silenced(|| {
            asn1rs_model::proc_macro::expand(Some(def)).iter().map(|ts| ts.to_string()).collect::<Vec<_>>().join("\n")
        })
    }) {
        Err(c) => vec![2, 13, c],
        Ok(text) => match syn::parse_file(&text) {
            Err(_) => vec![1, 14],
            Ok(file) => {
                for it in &file.items {
                    match it {
                        syn::Item::Type(t) => items.push(t.ident.to_string()),
                        syn::Item::Struct(s) => items.push(s.ident.to_string()),
                        _ => {}
                    }
                }
                let cs = expanded_consts(&file);
                let mut o = vec![0, cs.len() as I];
                for c in &cs {
                    for s in c {
                        p_str(&mut o, s);
                    }
                }
                o
            }
        },
    };
    Reparsed { r2, consts, items }
}

fn op_3401(a: &[I]) -> Vec<I> {
    let texts = text_of(a);
    let rusts = match front(&texts) {
        Ok(r) => r,
        Err(e) => return e,
    };
    let mut out = vec![0, rusts.len() as I];
    for rust in &rusts {
        let (_file, text) = match generate(rust) {
            Ok(f) => f,
            Err(e) => return e,
        };
        if std::env::var("A1H_CODEGEN_DEBUG").is_ok() {
            eprintln!("{}", text);
        }
        let file = match syn::parse_file(&text) {
            Ok(f) => f,
            Err(_) => return vec![1, 5, 0],
        };
        let items = asn_items(&file);
        if items.len() != rust.definitions.len() {
            return vec![1, 6, 0];
        }
        out.push(rust.definitions.len() as I);
        for (def, (attr, item)) in rust.definitions.iter().zip(items) {
            let d1 = dump_def(def);
            out.push(d1.len() as I);
            out.extend(d1);
            let r = reparse(attr, item);
            out.extend(r.r2);
            out.extend(r.consts);
        }
    }
    out
}

// ------------------------------------------------------------------ op 3402: identifiers of the generated text

fn is_ident_char(c: char) -> bool {
    c.is_alphanumeric() || c == '_' || c == '#' || c == '-' || !c.is_ascii()
}

/// the maximal run of "name-like" characters at the start of `s`
fn name_at(s: &str) -> &str {
    let end = s.char_indices().find(|(_, c)| !is_ident_char(*c)).map_or(s.len(), |(i, _)| i);
    &s[..end]
}

/// strips a leading `#[...]` group (balanced brackets, string literals skipped) and following blanks
fn skip_attr(s: &str) -> &str {
    let t = s.trim_start();
    if !t.starts_with("#[") {
        return t;
    }
    let mut depth = 0i32;
    let mut in_str = false;
    let mut esc = false;
    for (i, c) in t.char_indices() {
        if in_str {
            if esc {
                esc = false;
            } else if c == '\\' {
                esc = true;
            } else if c == '"' {
                in_str = false;
            }
            continue;
        }
        match c {
            '"' => in_str = true,
            '[' => depth += 1,
            ']' => {
                depth -= 1;
                if depth == 0 {
                    return skip_attr(&t[i + 1..]);
                }
            }
            _ => {}
        }
    }
    ""
}

struct Idents {
    names: Vec<(I, String, String)>,
    consts: Vec<(String, String, String, String)>,
    /// (type of the inherent impl block, identifier) of every `self.<identifier>` in a body
    accesses: Vec<(String, String)>,
}

/// the identifiers that follow `self.` in one line (`self.0` of a tuple struct and method calls `self.f(` are no field accesses)
fn self_accesses(line: &str) -> Vec<String> {
    let mut out = Vec::new();
    let mut rest = line;
    while let Some(p) = rest.find("self.") {
        let before_ok = rest[..p].chars().last().map_or(true, |c| !(c.is_alphanumeric() || c == '_'));
        let after = &rest[p + 5..];
        let name = name_at(after);
        if before_ok && !name.is_empty() && !name.chars().next().unwrap().is_ascii_digit() && !after[name.len()..].starts_with('(') {
            out.push(name.to_string());
        }
        rest = after;
    }
    out
}

fn parse_const_decl(rest: &str) -> Option<(String, String, String)> {
    // `NAME: TYPE = VALUE;`
    let name = name_at(rest);
    let after = rest[name.len()..].trim_start().strip_prefix(':')?;
    let eq = after.find(" = ")?;
    let ty = after[..eq].trim().to_string();
    let val = after[eq + 3..].trim_end().strip_suffix(';')?.trim().to_string();
    Some((name.to_string(), ty, val))
}

fn scan_generated(text: &str, ids: &mut Idents) {
    #[derive(PartialEq)]
    enum Ctx {
        Top,
        Struct(String),
        Enum(String),
        Impl(String),
        Other(i32),
    }
    let mut ctx = Ctx::Top;
    let mut depth_in_impl = 0i32;
    for line in text.lines() {
        let t = line.trim_end();
        match &mut ctx {
            Ctx::Top => {
                if let Some(r) = t.strip_prefix("use ") {
                    let r = r.trim_end_matches(';');
                    if let Some(p) = r.rfind("::") {
                        let last = &r[p + 2..];
                        if last != "*" {
                            // `use super::lib::{A, B};`: several names imported from one module
                            for one in last.trim_start_matches('{').trim_end_matches('}').split(',') {
                                let one = one.trim();
                                if !one.is_empty() {
                                    ids.names.push((6, String::new(), one.to_string()));
                                }
                            }
                            // the module path of an import the generator derived from an ASN.1 module name
                            for seg in r[..p].split("::") {
                                if seg != "super" && seg != "crate" && !seg.is_empty() {
                                    ids.names.push((7, String::new(), seg.to_string()));
                                }
                            }
                        }
                    }
                } else if let Some(r) = t.strip_prefix("pub const ") {
                    if let Some((n, ty, v)) = parse_const_decl(r) {
                        ids.names.push((2, String::new(), n.clone()));
                        ids.consts.push((String::new(), n, ty, v));
                    }
                } else if let Some(r) = t.strip_prefix("pub struct ") {
                    let n = name_at(r).to_string();
                    ids.names.push((1, String::new(), n.clone()));
                    let after = &r[n.len()..];
                    if after.starts_with('(') {
                        ids.names.push((2, String::new(), n.clone())); // tuple struct constructor
                    } else if after.trim_start().starts_with('{') && !after.trim_end().ends_with('}') {
                        ctx = Ctx::Struct(n);
                    }
                } else if let Some(r) = t.strip_prefix("pub enum ") {
                    let n = name_at(r).to_string();
                    ids.names.push((1, String::new(), n.clone()));
                    if !r.trim_end().ends_with('}') {
                        ctx = Ctx::Enum(n);
                    }
                } else if let Some(r) = t.strip_prefix("impl ") {
                    if t.ends_with('{') {
                        if r.contains(" for ") {
                            ctx = Ctx::Other(1);
                        } else {
                            ctx = Ctx::Impl(name_at(r).to_string());
                            depth_in_impl = 1;
                        }
                    }
                }
            }
            Ctx::Struct(n) => {
                if t == "}" {
                    ctx = Ctx::Top;
                } else {
                    let r = skip_attr(t);
                    let r = r.strip_prefix("pub ").unwrap_or(r);
                    let f = name_at(r);
                    if !f.is_empty() {
                        ids.names.push((3, n.clone(), f.to_string()));
                    }
                }
            }
            Ctx::Enum(n) => {
                if t == "}" {
                    ctx = Ctx::Top;
                } else {
                    let r = skip_attr(t);
                    let v = name_at(r);
                    if !v.is_empty() {
                        ids.names.push((4, n.clone(), v.to_string()));
                    }
                }
            }
            Ctx::Impl(n) => {
                let tt = t.trim_start();
                if depth_in_impl >= 2 {
                    for a in self_accesses(tt) {
                        ids.accesses.push((n.clone(), a));
                    }
                }
                if depth_in_impl == 1 {
                    if let Some(r) = tt.strip_prefix("pub const fn ").or_else(|| tt.strip_prefix("pub fn ")).or_else(|| tt.strip_prefix("fn ")) {
                        ids.names.push((5, n.clone(), name_at(r).to_string()));
                    } else if let Some(r) = tt.strip_prefix("pub const ") {
                        if let Some((c, ty, v)) = parse_const_decl(r) {
                            ids.names.push((5, n.clone(), c.clone()));
                            ids.consts.push((n.clone(), c, ty, v));
                        }
                    }
                }
                depth_in_impl += tt.matches('{').count() as i32 - tt.matches('}').count() as i32;
                if depth_in_impl <= 0 {
                    ctx = Ctx::Top;
                }
            }
            Ctx::Other(d) => {
                *d += t.matches('{').count() as i32 - t.matches('}').count() as i32;
                if *d <= 0 {
                    ctx = Ctx::Top;
                }
            }
        }
    }
}

fn op_3402(a: &[I]) -> Vec<I> {
    let (options, a) = split_options(a);
    let texts = text_of(a);
    let rusts = match front(&texts) {
        Ok(r) => r,
        Err(e) => return e,
    };
    let mut ids = Idents { names: Vec::new(), consts: Vec::new(), accesses: Vec::new() };
    for rust in &rusts {
        let (fname, text) = match generate_with(rust, options) {
            Ok(f) => f,
            Err(e) => return e,
        };
        ids.names.push((0, String::new(), fname.strip_suffix(".rs").unwrap_or(&fname).to_string()));
        let mut local = Idents { names: Vec::new(), consts: Vec::new(), accesses: Vec::new() };
        scan_generated(&text, &mut local);
        // scopes are per generated file
        for (ns, scope, name) in local.names {
            let scope = if ns == 0 { scope } else { format!("{}::{}", fname, scope) };
            ids.names.push((ns, scope, name));
        }
        for (scope, n, t, v) in local.consts {
            ids.consts.push((format!("{}::{}", fname, scope), n, t, v));
        }
        for (scope, a) in local.accesses {
            ids.accesses.push((format!("{}::{}", fname, scope), a));
        }
        if let Ok(file) = syn::parse_file(&text) {
            for (attr, item) in asn_items(&file) {
                for name in reparse(attr, item).items {
                    ids.names.push((1, format!("{}::", fname), name));
                }
            }
        }
    }
    let mut out = vec![0, ids.names.len() as I];
    for (ns, scope, name) in &ids.names {
        out.push(*ns);
        p_str(&mut out, scope);
        p_str(&mut out, name);
    }
    out.push(ids.consts.len() as I);
    for (scope, n, t, v) in &ids.consts {
        p_str(&mut out, scope);
        p_str(&mut out, n);
        p_str(&mut out, t);
        p_str(&mut out, v);
    }
    out.push(ids.accesses.len() as I);
    for (scope, a) in &ids.accesses {
        p_str(&mut out, scope);
        p_str(&mut out, a);
    }
    out
}

fn op_3403(a: &[I]) -> Vec<I> {
    let (options, a) = split_options(a);
    let texts = text_of(a);
    let rusts = match front(&texts) {
        Ok(r) => r,
        Err(e) => return e,
    };
    let mut out = vec![0, rusts.len() as I];
    for rust in &rusts {
        match generate_with(rust, options) {
            Ok((f, t)) => {
                p_str(&mut out, &f);
                p_str(&mut out, &t);
            }
            Err(e) => return e,
        }
    }
    out
}

/// kind 0 rust::rust_field_name            1 rust::rust_variant_name     2 rust::rust_struct_or_enum_name
///      3 rust::rust_module_name(_, false) 4 rust::rust_constant_name
///      5 RustCodeGenerator::rust_field_name(_, true)   6 RustCodeGenerator::rust_variant_name
///      7 RustCodeGenerator::rust_module_name
///      8 field name as emitted   = 5 after 0      9 variant name as emitted = 6 after 1
fn op_3410(a: &[I]) -> Vec<I> {
    let Some((kind, rest)) = a.split_first() else { return vec![-2] };
    let mut s = String::new();
    for c in rest {
        match u32::try_from(*c).ok().and_then(char::from_u32) {
            Some(ch) => s.push(ch),
            None => return vec![-2],
        }
    }
    use asn1rs_model::rust as r;
    let m = match kind {
        0 => r::rust_field_name(&s),
        1 => r::rust_variant_name(&s),
        2 => r::rust_struct_or_enum_name(&s),
        3 => r::rust_module_name(&s, false),
        4 => r::rust_constant_name(&s),
        5 => RustCodeGenerator::rust_field_name(&s, true),
        6 => RustCodeGenerator::rust_variant_name(&s),
        7 => RustCodeGenerator::rust_module_name(&s),
        8 => RustCodeGenerator::rust_field_name(&r::rust_field_name(&s), true),
        9 => RustCodeGenerator::rust_variant_name(&r::rust_variant_name(&s)),
        _ => return vec![-1],
    };
    let mut o = vec![0];
    o.extend(m.chars().map(|c| c as u32 as I));
    o
}

// ------------------------------------------------------------------ op 3412: the attribute type sub-language
// (encoding: see coq/Extract/OpsCodegen.v)

struct Rd<'a> {
    a: &'a [I],
    p: usize,
}
impl<'a> Rd<'a> {
    fn i(&mut self) -> Option<I> {
        let v = *self.a.get(self.p)?;
        self.p += 1;
        Some(v)
    }
    fn b(&mut self) -> Option<bool> {
        match self.i()? {
            0 => Some(false),
            1 => Some(true),
            _ => None,
        }
    }
    fn s(&mut self) -> Option<String> {
        let n = self.i()?;
        if n < 0 || self.p + n as usize > self.a.len() {
            return None;
        }
        let mut out = String::new();
        for _ in 0..n {
            let c = self.i()?;
            if !(0..128).contains(&c) {
                return None;
            }
            out.push(c as u8 as char);
        }
        Some(out)
    }
    fn size(&mut self) -> Option<Size> {
        Some(match self.i()? {
            0 => Size::Any,
            1 => {
                let n = self.i()?;
                let e = self.b()?;
                Size::Fix(usize::try_from(n).ok()?, e)
            }
            2 => {
                let x = self.i()?;
                let y = self.i()?;
                let e = self.b()?;
                Size::Range(usize::try_from(x).ok()?, usize::try_from(y).ok()?, e)
            }
            _ => return None,
        })
    }
    fn lit(&mut self) -> Option<LiteralValue> {
        Some(match self.i()? {
            0 => LiteralValue::Boolean(self.b()?),
            1 => LiteralValue::String(self.s()?),
            2 => LiteralValue::Integer(i64::try_from(self.i()?).ok()?),
            3 => {
                let n = self.i()?;
                if n < 0 {
                    return None;
                }
                let mut v = Vec::new();
                for _ in 0..n {
                    v.push(u8::try_from(self.i()?).ok()?);
                }
                LiteralValue::OctetString(v)
            }
            4 => {
                let t = self.s()?;
                LiteralValue::EnumeratedVariant(t, self.s()?)
            }
            _ => return None,
        })
    }
    /// the RustType whose `into_asn()` is the encoded attribute type (None: not in the image / malformed)
    fn ty(&mut self) -> Option<RustType> {
        use asn1rs_model::asn::Range;
        Some(match self.i()? {
            0 => RustType::Bool,
            1 => RustType::Null,
            2 => {
                let (h1, mn, h2, mx, e) = (self.b()?, self.i()?, self.b()?, self.i()?, self.b()?);
                if h1 && h2 {
                    RustType::I64(Range(i64::try_from(mn).ok()?, i64::try_from(mx).ok()?, e))
                } else {
                    let f = |h: bool, v: I| -> Option<Option<u64>> {
                        if h {
                            // U64 -> i64 in into_asn: only values below 2^63 keep their meaning
                            i64::try_from(v).ok().filter(|v| *v >= 0).map(|v| Some(v as u64))
                        } else {
                            Some(None)
                        }
                    };
                    RustType::U64(Range(f(h1, mn)?, f(h2, mx)?, e))
                }
            }
            3 => {
                let sz = self.size()?;
                let cs = match self.i()? {
                    0 => Charset::Utf8,
                    1 => Charset::Numeric,
                    2 => Charset::Printable,
                    3 => Charset::Ia5,
                    4 => Charset::Visible,
                    _ => return None,
                };
                RustType::String(sz, cs)
            }
            4 => RustType::VecU8(self.size()?),
            5 => RustType::BitVec(self.size()?),
            6 => RustType::Option(Box::new(self.ty()?)),
            7 => {
                let t = self.ty()?;
                RustType::Default(Box::new(t), self.lit()?)
            }
            8 => {
                let sz = self.size()?;
                RustType::Vec(Box::new(self.ty()?), sz, EncodingOrdering::Keep)
            }
            9 => {
                let sz = self.size()?;
                RustType::Vec(Box::new(self.ty()?), sz, EncodingOrdering::Sort)
            }
            10 => {
                let name = self.s()?;
                let tag = match self.i()? {
                    0 => None,
                    1 => {
                        let c = self.i()?;
                        let n = usize::try_from(self.i()?).ok()?;
                        Some(match c {
                            0 => Tag::Universal(n),
                            1 => Tag::Application(n),
                            2 => Tag::ContextSpecific(n),
                            3 => Tag::Private(n),
                            _ => return None,
                        })
                    }
                    _ => return None,
                };
                RustType::Complex(name, tag)
            }
            _ => return None,
        })
    }
}

fn e_size(o: &mut Vec<I>, s: &Size) {
    p_size(o, s)
}

fn e_asn(o: &mut Vec<I>, t: &asn1rs_model::asn::Type) -> bool {
    use asn1rs_model::asn::Type;
    let opt = |o: &mut Vec<I>, v: &Option<i64>| match v {
        Some(v) => o.extend([1, *v as I]),
        None => o.extend([0, 0]),
    };
    match t {
        Type::Boolean => o.push(0),
        Type::Null => o.push(1),
        Type::Integer(i) => {
            o.push(2);
            opt(o, &i.range.0);
            opt(o, &i.range.1);
            o.push(i.range.2 as I);
        }
        Type::String(s, c) => {
            o.push(3);
            e_size(o, s);
            p_charset(o, *c);
        }
        Type::OctetString(s) => {
            o.push(4);
            e_size(o, s)
        }
        Type::BitString(b) => {
            o.push(5);
            e_size(o, &b.size)
        }
        Type::Optional(i) => {
            o.push(6);
            return e_asn(o, i);
        }
        Type::Default(i, l) => {
            o.push(7);
            if !e_asn(o, i) {
                return false;
            }
            p_lit(o, l);
        }
        Type::SequenceOf(i, s) => {
            o.push(8);
            e_size(o, s);
            return e_asn(o, i);
        }
        Type::SetOf(i, s) => {
            o.push(9);
            e_size(o, s);
            return e_asn(o, i);
        }
        Type::TypeReference(n, tag) => {
            o.push(10);
            p_str(o, n);
            match tag {
                None => o.push(0),
                Some(t) => p_tag(o, Some(*t)),
            }
        }
        _ => return false,
    }
    true
}

fn e_tokens(o: &mut Vec<I>, ts: proc_macro2::TokenStream) -> bool {
    use proc_macro2::{Delimiter, TokenTree};
    for t in ts {
        match t {
            TokenTree::Ident(i) => {
                o.push(1);
                p_str(o, &i.to_string());
            }
            TokenTree::Punct(p) => o.extend([3, p.as_char() as u32 as I]),
            TokenTree::Literal(l) => {
                let s = l.to_string();
                if let Some(inner) = s.strip_prefix('"').and_then(|r| r.strip_suffix('"')) {
                    if inner.contains('\\') {
                        return false;
                    }
                    o.push(5);
                    p_str(o, inner);
                } else if let Some(h) = s.strip_prefix("0x") {
                    match I::from_str_radix(h, 16) {
                        Ok(v) => o.extend([2, v]),
                        Err(_) => return false,
                    }
                } else {
                    match s.parse::<I>() {
                        Ok(v) => o.extend([2, v]),
                        Err(_) => return false,
                    }
                }
            }
            TokenTree::Group(g) => {
                let inner: Vec<TokenTree> = g.stream().into_iter().collect();
                o.push(match g.delimiter() {
                    Delimiter::Parenthesis => 4,
                    Delimiter::Bracket => 6,
                    _ => return false,
                });
                o.push(inner.len() as I);
                if !e_tokens(o, g.stream()) {
                    return false;
                }
            }
        }
    }
    true
}

fn op_3412(a: &[I]) -> Vec<I> {
    let mut rd = Rd { a, p: 0 };
    let Some(ty) = rd.ty() else { return vec![-2] };
    if rd.p != a.len() {
        return vec![-2];
    }
    let def = Definition("T".to_string(), Rust::TupleStruct { r#type: ty, tag: None, constants: Vec::new() });
    let mut scope = codegen_scope();
    RustCodeGenerator::default().add_definition(&mut scope, &def);
    let text = scope.to_string();
    let Ok(file) = syn::parse_file(&text) else { return vec![1, 5] };
    let Some(syn::Item::Struct(item)) = file.items.first() else { return vec![1, 6] };
    let Some(field) = item.fields.iter().next() else { return vec![1, 6] };
    let Some(attr) = field.attrs.iter().find(|a| is_asn_attr(a)) else { return vec![1, 6] };
    let syn::Meta::List(list) = &attr.meta else { return vec![1, 6] };
    let toks: Vec<proc_macro2::TokenTree> = list.tokens.clone().into_iter().collect();
    let mut out = vec![0, toks.len() as I];
    if !e_tokens(&mut out, list.tokens.clone()) {
        return vec![1, 7];
    }
    let items = asn_items(&file);
    let Some((outer, body)) = items.into_iter().next() else { return vec![1, 6] };
    let parsed = silenced(|| asn1rs_model::proc_macro::parse_asn_definition(outer, body).map(|(d, _)| d));
    match parsed {
        Ok(Some(Definition(_, asn))) => {
            let mut o = vec![0];
            if e_asn(&mut o, &asn.r#type) {
                out.extend(o);
            } else {
                out.push(1);
            }
        }
        _ => out.push(1),
    }
    out
}

// ------------------------------------------------------------------ op 3413: the whole attribute
// (encoding: see coq/Extract/OpsCodegen.v run_attr_item)

impl<'a> Rd<'a> {
    fn tagopt(&mut self) -> Option<Option<Tag>> {
        Some(match self.i()? {
            0 => None,
            1 => {
                let c = self.i()?;
                let n = usize::try_from(self.i()?).ok()?;
                Some(match c {
                    0 => Tag::Universal(n),
                    1 => Tag::Application(n),
                    2 => Tag::ContextSpecific(n),
                    3 => Tag::Private(n),
                    _ => return None,
                })
            }
            _ => return None,
        })
    }
    fn count(&mut self) -> Option<usize> {
        let n = self.i()?;
        if n < 0 || n as usize > self.a.len() - self.p {
            return None;
        }
        Some(n as usize)
    }
    fn consts(&mut self) -> Option<Vec<(String, i128)>> {
        let n = self.count()?;
        let mut v = Vec::new();
        for _ in 0..n {
            let s = self.s()?;
            v.push((s, self.i()?));
        }
        Some(v)
    }
}

fn attr_tokens(attrs: &[syn::Attribute]) -> Option<proc_macro2::TokenStream> {
    let attr = attrs.iter().find(|a| is_asn_attr(a))?;
    match &attr.meta {
        syn::Meta::List(list) => Some(list.tokens.clone()),
        _ => None,
    }
}

fn dump_tokens(out: &mut Vec<I>, ts: proc_macro2::TokenStream) -> bool {
    out.push(ts.clone().into_iter().count() as I);
    e_tokens(out, ts)
}

/// generated text of one definition -> (syn file, the item with its `#[asn(..)]` header split off)
fn generated_item(def: &Definition<Rust>) -> Result<(syn::File, proc_macro2::TokenStream, proc_macro2::TokenStream), Vec<I>> {
    let mut scope = codegen_scope();
    RustCodeGenerator::default().add_definition(&mut scope, def);
    let text = scope.to_string();
    let Ok(file) = syn::parse_file(&text) else { return Err(vec![1, 5]) };
    let Some((outer, body)) = asn_items(&file).into_iter().next() else { return Err(vec![1, 6]) };
    Ok((file, outer, body))
}

fn reparse_item(outer: proc_macro2::TokenStream, body: proc_macro2::TokenStream) -> Option<asn1rs_model::proc_macro::AsnModelType> {
    match silenced(|| asn1rs_model::proc_macro::parse_asn_definition(outer, body).map(|(d, _)| d)) {
        Ok(Some(Definition(_, asn))) => Some(asn),
        _ => None,
    }
}

/// the constants of the first member of definition `T` in `to_rust_keep_names` of the re-parsed definition
/// (what `expand` works on): `n (name value)*`, or `-1` when to_rust_keep_names panics / `T` is missing
fn reparsed_rust_constants(o: &mut Vec<I>, asn: &asn1rs_model::proc_macro::AsnModelType) {
    let def = Definition("T".to_string(), asn.clone());
    let rust = crate::catch(|| {
        silenced(|| {
            let model: Model<asn1rs_model::proc_macro::AsnModelType> =
                Model { name: "__proc_macro".to_string(), definitions: vec![def], ..Default::default() };
            model.to_rust_keep_names()
        })
    });
    let Ok(rust) = rust else {
        o.push(-1);
        return;
    };
    let consts: Option<Vec<(String, String)>> = rust.definitions.iter().find(|d| d.0 == "T").map(|d| match &d.1 {
        Rust::Struct { fields, .. } => fields.first().map(|f| f.constants().to_vec()).unwrap_or_default(),
        Rust::TupleStruct { constants, .. } => constants.clone(),
        _ => Vec::new(),
    });
    match consts {
        Some(cs) => {
            o.push(cs.len() as I);
            for (n, v) in &cs {
                p_str(o, n);
                o.push(v.parse::<I>().unwrap_or(-999_999));
            }
        }
        None => o.push(-1),
    }
}

fn op_3413_header(rd: &mut Rd) -> Vec<I> {
    use asn1rs_model::asn::Type;
    use asn1rs_model::rust::{DataVariant, Field, PlainEnum};
    let Some(kind) = rd.i() else { return vec![-2] };
    if !(0..=4).contains(&kind) {
        return vec![-2];
    }
    let Some(tag) = rd.tagopt() else { return vec![-2] };
    let Some(ext) = rd.i() else { return vec![-2] };
    let Some(n) = rd.count() else { return vec![-2] };
    let mut names = Vec::new();
    for _ in 0..n {
        let Some(s) = rd.s() else { return vec![-2] };
        names.push(s);
    }
    if rd.p != rd.a.len() || ext < -1 {
        return vec![-2];
    }
    let ext = if ext < 0 { None } else { Some(usize::try_from(ext).unwrap_or(usize::MAX)) };
    let rust = match kind {
        0 | 1 => Rust::Struct {
            ordering: if kind == 0 { EncodingOrdering::Keep } else { EncodingOrdering::Sort },
            fields: names.iter().map(|n| Field::from_name_type(n, RustType::Bool)).collect(),
            tag,
            extension_after: ext,
        },
        2 => Rust::DataEnum(
            asn1rs_model::rust::DataEnum::from(names.iter().map(|n| DataVariant::from_name_type(n, RustType::Bool)).collect::<Vec<_>>())
                .with_extension_after(ext)
                .with_tag_opt(tag),
        ),
        3 => Rust::Enum(PlainEnum::from_names(names.iter()).with_extension_after(ext).with_tag_opt(tag)),
        _ => Rust::TupleStruct { r#type: RustType::Bool, tag, constants: Vec::new() },
    };
    let def = Definition("T".to_string(), rust);
    let (_file, outer, body) = match generated_item(&def) {
        Ok(v) => v,
        Err(e) => return e,
    };
    let mut out = vec![0];
    if !dump_tokens(&mut out, outer.clone()) {
        return vec![1, 7];
    }
    match reparse_item(outer, body) {
        Some(asn) => {
            let (k, e) = match &asn.r#type {
                Type::Sequence(c) => (0, c.extension_after),
                Type::Set(c) => (1, c.extension_after),
                Type::Choice(c) => (2, c.extension_after_index()),
                Type::Enumerated(e) => (3, e.extension_after_index()),
                _ => (4, None),
            };
            out.extend([0, k]);
            // the macro derives a default tag for a CHOICE whose attribute carries none: not the attribute's tag
            p_tag(&mut out, if k == 2 && tag.is_none() { None } else { asn.tag });
            out.push(e.map_or(-1, |v| v as I));
        }
        None => out.push(1),
    }
    out
}

fn op_3413_field(ctx: I, rd: &mut Rd) -> Vec<I> {
    use asn1rs_model::asn::Type;
    use asn1rs_model::rust::{DataVariant, Field};
    let Some(ty) = rd.ty() else { return vec![-2] };
    let tag = if ctx == 3 {
        None
    } else {
        let Some(t) = rd.tagopt() else { return vec![-2] };
        t
    };
    let consts = if ctx == 2 {
        Vec::new()
    } else {
        let Some(c) = rd.consts() else { return vec![-2] };
        c
    };
    if rd.p != rd.a.len() {
        return vec![-2];
    }
    let constants: Vec<(String, String)> = consts.iter().map(|(n, v)| (n.clone(), v.to_string())).collect();
    let rust = match ctx {
        1 => Rust::Struct {
            ordering: EncodingOrdering::Keep,
            fields: vec![Field::from_name_type("f", ty).with_constants(constants).with_tag_opt(tag)],
            tag: None,
            extension_after: None,
        },
        2 => Rust::DataEnum(asn1rs_model::rust::DataEnum::from(vec![DataVariant::from_name_type("V", ty).with_tag_opt(tag)])),
        _ => Rust::TupleStruct { r#type: ty, tag: None, constants },
    };
    let def = Definition("T".to_string(), rust);
    let (file, outer, body) = match generated_item(&def) {
        Ok(v) => v,
        Err(e) => return e,
    };
    let inner = match file.items.first() {
        Some(syn::Item::Struct(s)) => s.fields.iter().next().and_then(|f| attr_tokens(&f.attrs)),
        Some(syn::Item::Enum(e)) => e.variants.iter().next().and_then(|v| attr_tokens(&v.attrs)),
        _ => None,
    };
    let Some(inner) = inner else { return vec![1, 6] };
    let mut out = vec![0];
    if !dump_tokens(&mut out, inner) {
        return vec![1, 7];
    }
    let whole = reparse_item(outer, body);
    let member = whole.clone().and_then(|asn| match asn.r#type {
        Type::Sequence(c) if ctx == 1 => c.fields.into_iter().next().map(|f| f.role),
        Type::Choice(c) if ctx == 2 => c.variants().next().map(|v| asn1rs_model::proc_macro::AsnModelType {
            tag: v.tag,
            r#type: v.r#type.clone(),
            default: None,
        }),
        other if ctx == 3 => Some(asn1rs_model::proc_macro::AsnModelType { tag: asn.tag, r#type: other, default: None }),
        _ => None,
    });
    match member {
        Some(m) => {
            let mut o = vec![0];
            if e_asn(&mut o, &m.r#type) {
                p_tag(&mut o, m.tag);
                let mut t = &m.r#type;
                while let Type::Optional(inner) = t {
                    t = inner;
                }
                match t {
                    Type::Integer(i) => {
                        o.push(i.constants.len() as I);
                        for (n, v) in &i.constants {
                            p_str(&mut o, n);
                            o.push(*v as I);
                        }
                    }
                    _ => o.push(0),
                }
                if let Some(w) = &whole {
                    reparsed_rust_constants(&mut o, w);
                }
                out.extend(o);
            } else {
                out.push(1);
            }
        }
        None => out.push(1),
    }
    out
}

/// `#[asn(<number>)]` on an ENUMERATED variant is never printed by the generator: the item is written here
fn op_3413_enum_variant(rd: &mut Rd) -> Vec<I> {
    use asn1rs_model::asn::Type;
    let num = match (rd.i(), rd.i()) {
        (Some(0), None) => None,
        (Some(1), Some(n)) if n >= 0 => Some(n),
        _ => return vec![-2],
    };
    if rd.p < rd.a.len() {
        return vec![-2];
    }
    let text = format!("#[asn(enumerated)] pub enum T {{ #[asn({})] A, }}", num.map(|n| n.to_string()).unwrap_or_default());
    let Ok(file) = syn::parse_file(&text) else { return vec![1, 5] };
    let Some(syn::Item::Enum(e)) = file.items.first() else { return vec![1, 6] };
    let Some(inner) = e.variants.iter().next().and_then(|v| attr_tokens(&v.attrs)) else { return vec![1, 6] };
    let mut out = vec![0];
    if !dump_tokens(&mut out, inner) {
        return vec![1, 7];
    }
    let Some((outer, body)) = asn_items(&file).into_iter().next() else { return vec![1, 6] };
    match reparse_item(outer, body) {
        Some(asn1rs_model::proc_macro::AsnModelType { r#type: Type::Enumerated(e), .. }) => match e.variants().next().map(|v| v.number()) {
            Some(Some(n)) => out.extend([0, 1, n as I]),
            Some(None) => out.extend([0, 0]),
            None => out.push(1),
        },
        _ => out.push(1),
    }
    out
}

fn op_3413(a: &[I]) -> Vec<I> {
    let mut rd = Rd { a, p: 0 };
    match rd.i() {
        Some(0) => op_3413_header(&mut rd),
        Some(c @ 1..=3) => op_3413_field(c, &mut rd),
        Some(4) => op_3413_enum_variant(&mut rd),
        _ => vec![-2],
    }
}

fn codegen_scope() -> codegen::Scope {
    codegen::Scope::new()
}

/// Rust lexical facts from an implementation that is not ours: `ident` = proc_macro2 lexes the text as exactly one
/// identifier token; `keyword` = it is such a token but syn refuses it as an identifier (syn's table of strict and
/// reserved keywords).
fn op_3411(a: &[I]) -> Vec<I> {
    if !a.iter().all(|c| (0..128).contains(c)) {
        return vec![-3];
    }
    let s: String = a.iter().map(|c| *c as u8 as char).collect();
    let toks: Vec<proc_macro2::TokenTree> = match s.parse::<proc_macro2::TokenStream>() {
        Ok(ts) => ts.into_iter().collect(),
        Err(_) => Vec::new(),
    };
    // `_` alone is lexed as an identifier token by proc_macro2 but is not an identifier of the language
    let ident = toks.len() == 1 && matches!(&toks[0], proc_macro2::TokenTree::Ident(i) if i.to_string() == s) && s != "_";
    let keyword = ident && syn::parse_str::<syn::Ident>(&s).is_err();
    vec![0, ident as I, keyword as I]
}

pub fn run(op: I, a: &[I]) -> Vec<I> {
    let f: fn(&[I]) -> Vec<I> = match op {
        3401 => op_3401,
        3402 => op_3402,
        3403 => op_3403,
        3410 => op_3410,
        3411 => op_3411,
        3412 => op_3412,
        3413 => op_3413,
        _ => return vec![-1],
    };
    let mut v = match crate::catch(|| f(a)) {
        Ok(v) => v,
        Err(c) if op >= 3410 => vec![2, c],
        Err(c) => vec![2, 0, c],
    };
    if op < 3410 {
        // implementation-only ops: no Coq counterpart. The trailing sentinel lets the checks recognise such an
        // answer by its shape (Spec.canon) and keep the model/implementation comparison vacuous for exactly these.
        v.push(IMPL_ONLY);
    }
    v
}

pub const IMPL_ONLY: I = -3400;
