//! intty ops (C15): mirror of coq/Extract/OpsIntTy.v
//!
//! 3101 lo_kind lo hi_kind hi ext      -> type chosen for `T ::= INTEGER (<lo>..<hi>[,...])`
//! 3102 lo_kind lo hi_kind hi ext      -> text of the generated value_min()/value_max() accessors
//! 3103 n (lo_kind lo hi_kind hi ext)* -> 3101 for n definitions in ONE module (batched)
//! 3104 lo_kind lo hi_kind hi ext      -> MIN/MAX/MIN_T/MAX_T/EXTENSIBLE constants emitted by generate/walker.rs
//!
//! bound kind: 0 = literal value, 1 = MIN / MAX keyword, 2 = absent (both must be 2: plain `INTEGER`).
use crate::I;
use asn1rs_model::asn::Range;
use asn1rs_model::generate::walker::AsnDefWriter;
use asn1rs_model::generate::{Generator, RustCodeGenerator};
use asn1rs_model::parse::Tokenizer;
use asn1rs_model::rust::{Rust, RustType};
use asn1rs_model::Model;
use std::convert::TryFrom;

/// `INTEGER`, `INTEGER (a..b)` or `INTEGER (a..b,...)`; None = not a well-formed request
fn type_text(a: &[I]) -> Option<String> {
    let (lk, lo, hk, hi, ext) = (a[0], a[1], a[2], a[3], a[4]);
    if lk == 2 || hk == 2 {
        return if lk == 2 && hk == 2 && ext == 0 {
            Some("INTEGER".to_string())
        } else {
            None
        };
    }
    let l = match lk {
        0 => lo.to_string(),
        1 => "MIN".to_string(),
        _ => return None,
    };
    let h = match hk {
        0 => hi.to_string(),
        1 => "MAX".to_string(),
        _ => return None,
    };
    Some(format!(
        "INTEGER ({}..{}{})",
        l,
        h,
        if ext != 0 { ",..." } else { "" }
    ))
}

fn module_text(types: &[String]) -> String {
    let mut s = String::from("M DEFINITIONS AUTOMATIC TAGS ::= BEGIN\n");
    for (i, t) in types.iter().enumerate() {
        if types.len() == 1 {
            s.push_str(&format!("T ::= {}\n", t));
        } else {
            s.push_str(&format!("T{} ::= {}\n", i, t));
        }
    }
    s.push_str("END\n");
    s
}

/// Tokenizer -> Model::try_from -> try_resolve -> to_rust
fn front(text: &str) -> Result<Model<Rust>, Vec<I>> {
    let tokens = Tokenizer::default().parse(text);
    let model = Model::try_from(tokens).map_err(|_| vec![1, 1])?;
    let model = model.try_resolve().map_err(|_| vec![1, 2])?;
    Ok(model.to_rust())
}

fn opt<T: Into<I> + Copy>(v: Option<T>) -> [I; 2] {
    match v {
        Some(v) => [1, v.into()],
        None => [0, 0],
    }
}

fn fixed<T: Into<I> + Copy>(k: I, r: &Range<T>) -> Vec<I> {
    vec![k, 1, (*r.min()).into(), 1, (*r.max()).into(), r.extensible() as I]
}

/// kind code + declared bounds as the crate's model holds them
fn describe(t: &RustType) -> Option<Vec<I>> {
    Some(match t {
        RustType::U8(r) => fixed(0, r),
        RustType::I8(r) => fixed(1, r),
        RustType::U16(r) => fixed(2, r),
        RustType::I16(r) => fixed(3, r),
        RustType::U32(r) => fixed(4, r),
        RustType::I32(r) => fixed(5, r),
        RustType::U64(r) => {
            let mut v = vec![6];
            v.extend(opt(*r.min()));
            v.extend(opt(*r.max()));
            v.push(r.extensible() as I);
            v
        }
        RustType::I64(r) => fixed(7, r),
        _ => return None,
    })
}

fn tuple_type<'a>(m: &'a Model<Rust>, name: &str) -> Option<&'a RustType> {
    m.definitions.iter().find(|d| d.0 == name).and_then(|d| {
        if let Rust::TupleStruct { r#type, .. } = &d.1 {
            Some(r#type)
        } else {
            None
        }
    })
}

fn kind_of_name(s: &str) -> I {
    match s.trim() {
        "u8" => 0,
        "i8" => 1,
        "u16" => 2,
        "i16" => 3,
        "u32" => 4,
        "i32" => 5,
        "u64" => 6,
        "i64" => 7,
        _ => -1,
    }
}

/// return type and body of `fn <name>(` in the generated source
fn fn_ret_and_body(src: &str, name: &str) -> Option<(String, String)> {
    let at = src.find(&format!("fn {}(", name))?;
    let rest = &src[at..];
    let open = rest.find('{')?;
    let head = &rest[..open];
    let ret = head.split("->").nth(1)?.trim().to_string();
    let close = rest.find('}')?;
    let body = rest[open + 1..close].trim().to_string();
    Some((ret, body))
}

fn push_str(v: &mut Vec<I>, s: &str) {
    v.push(s.chars().count() as I);
    v.extend(s.chars().map(|c| c as I));
}

/// `const <name>: <ty> = <value>;` inside `impl ...numbers::Constraint<..> for ...`
fn const_of(src: &str, name: &str) -> Option<(String, String)> {
    let key = format!("const {}: ", name);
    let at = src.find(&key)?;
    let rest = &src[at + key.len()..];
    let eq = rest.find(" = ")?;
    let semi = rest.find(';')?;
    Some((rest[..eq].to_string(), rest[eq + 3..semi].to_string()))
}

fn some_value(s: &str) -> Option<I> {
    let s = s.trim();
    let inner = s.strip_prefix("Some(")?.strip_suffix(')')?;
    inner.parse::<I>().ok()
}

pub fn run(op: I, a: &[I]) -> Vec<I> {
    match op {
        3101 | 3102 | 3104 if a.len() == 5 => {
            let Some(t) = type_text(a) else {
                return vec![-1];
            };
            let model = match front(&module_text(&[t])) {
                Ok(m) => m,
                Err(e) => return e,
            };
            let Some(ty) = tuple_type(&model, "T") else {
                return vec![-1];
            };
            match op {
                3101 => {
                    let Some(d) = describe(ty) else {
                        return vec![-1];
                    };
                    let mut v = vec![0];
                    v.extend(d);
                    v
                }
                3102 => {
                    let mut generator = RustCodeGenerator::default();
                    generator.add_model(model.clone());
                    let files = generator.to_string().unwrap();
                    let src = &files[0].1;
                    let (Some((rmin, bmin)), Some((rmax, bmax))) =
                        (fn_ret_and_body(src, "value_min"), fn_ret_and_body(src, "value_max"))
                    else {
                        return vec![-1];
                    };
                    let mut v = vec![0, kind_of_name(&rmin), kind_of_name(&rmax)];
                    push_str(&mut v, &bmin);
                    push_str(&mut v, &bmax);
                    v
                }
                _ => {
                    let src = AsnDefWriter::stringify(&model);
                    // restrict to the numbers::Constraint impl
                    let Some(at) = src.find("numbers::Constraint<") else {
                        return vec![-1];
                    };
                    let rest = &src[at..];
                    let Some(end) = rest.find('}') else {
                        return vec![-1];
                    };
                    let block = &rest[..end];
                    let ty = block["numbers::Constraint<".len()..]
                        .split('>')
                        .next()
                        .unwrap_or("");
                    let mut v = vec![0, kind_of_name(ty)];
                    for (n, want_ty) in [("MIN", "Option<i64>".to_string()), ("MIN_T", format!("Option<{}>", ty)),
                                         ("MAX", "Option<i64>".to_string()), ("MAX_T", format!("Option<{}>", ty))] {
                        match const_of(block, n) {
                            None => v.extend([0, 0]),
                            Some((t, val)) => {
                                if t != want_ty {
                                    return vec![-1];
                                }
                                match some_value(&val) {
                                    Some(x) => v.extend([1, x]),
                                    None => return vec![-1],
                                }
                            }
                        }
                    }
                    match const_of(block, "EXTENSIBLE") {
                        Some((_, val)) if val == "true" => v.push(1),
                        Some((_, val)) if val == "false" => v.push(0),
                        _ => return vec![-1],
                    }
                    v
                }
            }
        }
        3103 if !a.is_empty() && a[0] >= 1 && a.len() as I == 1 + 5 * a[0] => {
            let n = a[0] as usize;
            let mut types = Vec::with_capacity(n);
            for i in 0..n {
                match type_text(&a[1 + 5 * i..6 + 5 * i]) {
                    Some(t) => types.push(t),
                    None => return vec![-1],
                }
            }
            let single = n == 1;
            let model = match front(&module_text(&types)) {
                Ok(m) => m,
                Err(e) => return e,
            };
            let mut v = vec![0];
            for i in 0..n {
                let name = if single { "T".to_string() } else { format!("T{}", i) };
                match tuple_type(&model, &name).and_then(describe) {
                    Some(d) => v.extend(d),
                    None => return vec![-1],
                }
            }
            v
        }
        _ => vec![-1],
    }
}
