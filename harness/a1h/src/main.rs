//! Correspondence harness: reads `<opcode> <int>...` lines, runs the op on the
//! real asn1rs crate (built from /repo's working tree) and prints the integer
//! list the Coq model's `run` returns for the same line.
use std::io::{BufRead, Write};
use std::panic::{catch_unwind, AssertUnwindSafe};

mod bits;
mod codegen;
mod der;
mod intty;
mod lex;
mod parse;
mod per;
mod proto;
mod tags;
#[macro_use]
mod uper_grid;
mod uper;

pub type I = i128;

thread_local! {
    static LAST_PANIC: std::cell::RefCell<String> = std::cell::RefCell::new(String::new());
}

fn panic_class(msg: &str) -> I {
    if msg.contains("out of bounds") || msg.contains("out of range for slice") || msg.contains("index out of") {
        if msg.contains("range end index") || msg.contains("range start index") || msg.contains("slice index starts") {
            6
        } else {
            1
        }
    } else if msg.contains("overflow") && msg.contains("capacity") {
        3
    } else if msg.contains("attempt to") {
        2
    } else if msg.contains("called `Option::unwrap()`") || msg.contains("called `Result::unwrap()`") {
        4
    } else if msg.contains("assertion") || msg.contains("Not exhausted") {
        5
    } else {
        9
    }
}

fn dispatch(op: I, args: &[I]) -> Vec<I> {
    match op {
        1000..=1099 => per::run(op, args),
        1100..=1199 => bits::run(op, args),
        1200..=1299 => uper::run(op, args),
        2000..=2099 => der::run(op, args),
        3000..=3099 => lex::run(op, args),
        3100..=3199 => intty::run(op, args),
        3200..=3299 => tags::run(op, args),
        3300..=3399 => parse::run(op, args),
        3400..=3499 => codegen::run(op, args),
        4000..=4199 => proto::run(op, args),
        _ => vec![-1],
    }
}

fn main() {
    std::panic::set_hook(Box::new(|info| {
        let msg = info.to_string();
        if std::env::var_os("A1H_SHOW_PANIC").is_some() {
            eprintln!("{}", msg);
        }
        LAST_PANIC.with(|p| *p.borrow_mut() = msg);
    }));
    let stdin = std::io::stdin();
    let stdout = std::io::stdout();
    let mut out = std::io::BufWriter::new(stdout.lock());
    for line in stdin.lock().lines() {
        let line = line.unwrap();
        let mut it = line.split_ascii_whitespace();
        let Some(op) = it.next() else {
            writeln!(out).unwrap();
            continue;
        };
        let op: I = op.parse().unwrap();
        let args: Vec<I> = it.map(|s| s.parse().unwrap()).collect();
        let res = catch_unwind(AssertUnwindSafe(|| dispatch(op, &args)));
        let res = match res {
            Ok(v) => v,
            Err(_) => {
                let msg = LAST_PANIC.with(|p| p.borrow().clone());
                vec![2, panic_class(&msg)]
            }
        };
        let mut first = true;
        for v in res {
            if !first {
                out.write_all(b" ").unwrap();
            }
            first = false;
            write!(out, "{v}").unwrap();
        }
        writeln!(out).unwrap();
        // flush per answer: after an abort (allocation failure) the answers so far must not be lost
        out.flush().unwrap();
    }
    out.flush().unwrap();
}

/// Run `f`, turning a panic into its class code.
pub fn catch<T>(f: impl FnOnce() -> T) -> Result<T, I> {
    match catch_unwind(AssertUnwindSafe(f)) {
        Ok(v) => Ok(v),
        Err(_) => Err(panic_class(&LAST_PANIC.with(|p| p.borrow().clone()))),
    }
}

pub fn bytes_of(a: &[I]) -> Vec<u8> {
    a.iter().map(|v| *v as u8).collect()
}
