//! proto ops (C17, C18, C04-protobuf): mirror of coq/Extract/OpsProto.v
use crate::I;

#[cfg(not(feature = "protobuf"))]
pub fn run(_op: I, _a: &[I]) -> Vec<I> {
    vec![-1]
}

#[cfg(feature = "protobuf")]
pub use imp::run;

#[cfg(feature = "protobuf")]
mod imp {
    use crate::{bytes_of, I};
    use asn1rs::prelude::*;
    use asn1rs::protocol::protobuf::{Error, Format, ProtoRead, ProtoWrite};
    use std::alloc::{GlobalAlloc, Layout, System};
    use std::cell::Cell;
    use std::sync::atomic::{AtomicBool, Ordering};

    // ------------------------------------------------------------------
    // Watchdog: a read that never terminates (and allocates without bound) must not take the
    // harness down.  Reads run in a worker thread; the allocator charges the worker's allocations
    // to a per-thread budget and parks the thread for good once the budget is exceeded.
    // ------------------------------------------------------------------
    const BUDGET: usize = 1 << 20;
    thread_local! {
        static WORKER: Cell<bool> = const { Cell::new(false) };
        static USED: Cell<usize> = const { Cell::new(0) };
    }
    static TRIPPED: AtomicBool = AtomicBool::new(false);

    struct Quota;
    #[inline]
    fn charge(n: usize) {
        let over = WORKER
            .try_with(|w| {
                if w.get() {
                    USED.try_with(|u| {
                        let v = u.get().saturating_add(n);
                        u.set(v);
                        v > BUDGET
                    })
                    .unwrap_or(false)
                } else {
                    false
                }
            })
            .unwrap_or(false);
        if over {
            TRIPPED.store(true, Ordering::SeqCst);
            loop {
                std::thread::park();
            }
        }
    }
    #[inline]
    fn refund(n: usize) {
        let _ = WORKER.try_with(|w| {
            if w.get() {
                let _ = USED.try_with(|u| u.set(u.get().saturating_sub(n)));
            }
        });
    }
    unsafe impl GlobalAlloc for Quota {
        unsafe fn alloc(&self, l: Layout) -> *mut u8 {
            charge(l.size());
            System.alloc(l)
        }
        unsafe fn dealloc(&self, p: *mut u8, l: Layout) {
            refund(l.size());
            System.dealloc(p, l)
        }
        unsafe fn alloc_zeroed(&self, l: Layout) -> *mut u8 {
            charge(l.size());
            System.alloc_zeroed(l)
        }
        unsafe fn realloc(&self, p: *mut u8, l: Layout, new: usize) -> *mut u8 {
            if new > l.size() {
                charge(new - l.size());
            } else {
                refund(l.size() - new);
            }
            System.realloc(p, l, new)
        }
    }
    #[global_allocator]
    static GLOBAL: Quota = Quota;

    /// Ok(v) | Err(panic class); class 7 = unbounded allocation / no termination
    fn guarded<T: Send + 'static>(f: impl FnOnce() -> T + Send + 'static) -> Result<T, I> {
        // protobuf::Error captures a resolved Backtrace; the first capture loads the symbol tables (large,
        // cached process-wide).  Do it once on the main thread so that it is not charged to a worker.
        static WARM: std::sync::Once = std::sync::Once::new();
        WARM.call_once(|| {
            let mut empty: &[u8] = &[];
            let _ = empty.read_varint();
        });
        let (tx, rx) = std::sync::mpsc::channel();
        TRIPPED.store(false, Ordering::SeqCst);
        let h = std::thread::Builder::new()
            .stack_size(16 << 20)
            .spawn(move || {
                WORKER.with(|w| w.set(true));
                let r = crate::catch(f);
                WORKER.with(|w| w.set(false));
                let _ = tx.send(r);
            })
            .unwrap();
        let t0 = std::time::Instant::now();
        loop {
            match rx.recv_timeout(std::time::Duration::from_millis(5)) {
                Ok(r) => {
                    let _ = h.join();
                    return r;
                }
                Err(std::sync::mpsc::RecvTimeoutError::Timeout) => {
                    if TRIPPED.load(Ordering::SeqCst) || t0.elapsed().as_secs() >= 10 {
                        return Err(7);
                    }
                }
                Err(std::sync::mpsc::RecvTimeoutError::Disconnected) => return Err(9),
            }
        }
    }

    // ------------------------------------------------------------------
    // The zoo.  The ASN.1 text is compiled by asn_to_rust! and kept as a constant for op 4100.
    // ------------------------------------------------------------------
    macro_rules! zoo_module {
        ($name:ident, $src:literal) => {
            asn_to_rust!($src);
            pub const $name: &str = $src;
        };
    }

    zoo_module!(
        ZOO_SRC,
        r#"Zoo DEFINITIONS AUTOMATIC TAGS ::=
BEGIN
Ints ::= SEQUENCE {
  fu8  INTEGER (0..255),
  fi8  INTEGER (-128..127),
  fu16 INTEGER (0..65535),
  fi16 INTEGER (-32768..32767),
  fu32 INTEGER (0..4294967295),
  fi32 INTEGER (-2147483648..2147483647),
  fu64 INTEGER (0..9223372036854775807),
  fi64 INTEGER (-9223372036854775808..9223372036854775807),
  fun  INTEGER
}
Inner ::= SEQUENCE { x INTEGER (0..65535), y UTF8String OPTIONAL }
Color ::= ENUMERATED { red, green, blue }
Prim ::= SEQUENCE { b BOOLEAN, s UTF8String, o OCTET STRING, bits BIT STRING, e Color, i IA5String }
Opt ::= SEQUENCE {
  a INTEGER (0..255) OPTIONAL, b UTF8String OPTIONAL, c BOOLEAN OPTIONAL, d OCTET STRING OPTIONAL,
  e Inner OPTIONAL, f INTEGER (-128..127), g Color OPTIONAL,
  h INTEGER (-9223372036854775808..9223372036854775807) OPTIONAL
}
Lists ::= SEQUENCE {
  li SEQUENCE OF INTEGER (-2147483648..2147483647), ls SEQUENCE OF UTF8String, lq SEQUENCE OF Inner,
  lo SEQUENCE OF INTEGER (0..255) OPTIONAL, t BOOLEAN, so SET OF INTEGER (0..65535)
}
Ch2 ::= CHOICE { x INTEGER (0..255), y OCTET STRING }
Ch ::= CHOICE { i INTEGER (-32768..32767), b BOOLEAN, s UTF8String, q Inner, c Ch2, e Color }
ChSeq ::= SEQUENCE { pre BOOLEAN, c Ch, post INTEGER (0..255), oc Ch2 OPTIONAL }
Lists2 ::= SEQUENCE { lc SEQUENCE OF Ch2, le SEQUENCE OF Color, lb SEQUENCE OF BOOLEAN, lo SEQUENCE OF OCTET STRING }
Tup ::= INTEGER (0..65535)
TupL ::= SEQUENCE OF UTF8String
UseTup ::= SEQUENCE { t Tup, u Tup OPTIONAL, l TupL }
Deep ::= SEQUENCE { a SEQUENCE { b SEQUENCE { c INTEGER (0..255) OPTIONAL } OPTIONAL, d BOOLEAN }, z UTF8String }
SetT ::= SET { b [1] UTF8String, a [0] INTEGER (0..255) }
NullSeq ::= SEQUENCE { a INTEGER (0..255), n NULL, b INTEGER (0..255) }
OptNull ::= SEQUENCE { n NULL OPTIONAL, b INTEGER (0..255) OPTIONAL, c INTEGER (0..255) }
ChNull ::= CHOICE { n NULL, i INTEGER (0..255) }
BitsT ::= BIT STRING
ListNull ::= SEQUENCE { items SEQUENCE OF NULL, x INTEGER (0..255) }
Blank ::= SEQUENCE { a INTEGER (0..255) OPTIONAL, b UTF8String OPTIONAL, l SEQUENCE OF BOOLEAN OPTIONAL }
ListBlank ::= SEQUENCE { items SEQUENCE OF Blank, x INTEGER (0..255) }
ChBlank ::= CHOICE { b Blank, i INTEGER (0..255) }
SeqBlank ::= SEQUENCE { r Blank, o Blank OPTIONAL, c ChBlank, x BOOLEAN }
Defs ::= SEQUENCE {
  name UTF8String, retries INTEGER (0..255) DEFAULT 3, neg INTEGER (-128..127) DEFAULT -5, flag BOOLEAN DEFAULT TRUE,
  label UTF8String DEFAULT "x", col Color DEFAULT green, port INTEGER (0..65535),
  big INTEGER (0..9223372036854775807) DEFAULT 1000000, note UTF8String OPTIONAL
}
DefSet ::= SET { retries INTEGER (0..255) DEFAULT 3, flag BOOLEAN DEFAULT TRUE, opt INTEGER (0..255) OPTIONAL,
  label UTF8String DEFAULT "x", req BOOLEAN }
DefZero ::= SEQUENCE { retries INTEGER (0..255) DEFAULT 0, flag BOOLEAN DEFAULT FALSE, col Color DEFAULT red, x INTEGER (0..255) }
DefInner ::= SEQUENCE { n INTEGER (0..255) DEFAULT 7, s UTF8String DEFAULT "d", b BOOLEAN DEFAULT TRUE }
DefCh ::= CHOICE { d DefInner, i INTEGER (0..255) }
DefNest ::= SEQUENCE { items SEQUENCE OF DefInner, c DefCh, o DefInner OPTIONAL }
XInts ::= SEQUENCE {
  a INTEGER (-5..5,...), at INTEGER (-5..5), b INTEGER (0..255,...), bt INTEGER (0..255), c INTEGER (-128..127,...),
  d INTEGER (0..4294967295,...), dt INTEGER (0..4294967295),
  e INTEGER (-2147483648..2147483647,...), et INTEGER (-2147483648..2147483647),
  f INTEGER (MIN..-1,...), g INTEGER (0..MAX,...), h INTEGER (5..MAX,...), i INTEGER (5..100000000000,...),
  j INTEGER (-100000000000..5,...), oa INTEGER (-5..5,...) OPTIONAL, ob INTEGER (0..255,...) OPTIONAL
}
XList ::= SEQUENCE { l SEQUENCE OF INTEGER (-5..5,...), u SEQUENCE OF INTEGER (0..255,...) }
XCh ::= CHOICE { s INTEGER (-5..5,...), u INTEGER (0..255,...), t INTEGER (0..255) }
END"#
    );

    mod bad {
        use asn1rs::prelude::*;
        zoo_module!(
            ZOO_BAD_SRC,
            r"ZooBad DEFINITIONS AUTOMATIC TAGS ::=
BEGIN
Nested ::= SEQUENCE { ll SEQUENCE OF SEQUENCE OF INTEGER (0..255), x INTEGER (0..255) }
ChList ::= CHOICE { l SEQUENCE OF INTEGER (0..255), i INTEGER (0..255) }
END"
        );
    }
    use bad::{ChList, Nested, ZOO_BAD_SRC};

    // A two-module zoo: ZooImp imports Inner, Color and Ch2 from ZooBase and uses them in every position
    // (plain, OPTIONAL, SEQUENCE OF, CHOICE alternative).  The messages have the shape and the names of the
    // zoo's, so the zoo writer's bytes of the same type id must decode under zoo_imp.proto (op 4103).
    pub const ZOO_BASE_SRC: &str = r"ZooBase { iso(1) standard(0) zoo(4711) base(1) } DEFINITIONS AUTOMATIC TAGS ::=
BEGIN
Inner ::= SEQUENCE { x INTEGER (0..65535), y UTF8String OPTIONAL }
Color ::= ENUMERATED { red, green, blue }
Ch2 ::= CHOICE { x INTEGER (0..255), y OCTET STRING }
END";
    pub const ZOO_IMP_SRC: &str = r"ZooImp DEFINITIONS AUTOMATIC TAGS ::=
BEGIN
IMPORTS Inner, Color, Ch2 FROM ZooBase { iso(1) standard(0) zoo(4711) base(1) };
Prim ::= SEQUENCE { b BOOLEAN, s UTF8String, o OCTET STRING, bits BIT STRING, e Color, i IA5String }
Opt ::= SEQUENCE {
  a INTEGER (0..255) OPTIONAL, b UTF8String OPTIONAL, c BOOLEAN OPTIONAL, d OCTET STRING OPTIONAL,
  e Inner OPTIONAL, f INTEGER (-128..127), g Color OPTIONAL,
  h INTEGER (-9223372036854775808..9223372036854775807) OPTIONAL
}
Lists ::= SEQUENCE {
  li SEQUENCE OF INTEGER (-2147483648..2147483647), ls SEQUENCE OF UTF8String, lq SEQUENCE OF Inner,
  lo SEQUENCE OF INTEGER (0..255) OPTIONAL, t BOOLEAN, so SET OF INTEGER (0..65535)
}
Ch ::= CHOICE { i INTEGER (-32768..32767), b BOOLEAN, s UTF8String, q Inner, c Ch2, e Color }
ChSeq ::= SEQUENCE { pre BOOLEAN, c Ch, post INTEGER (0..255), oc Ch2 OPTIONAL }
Lists2 ::= SEQUENCE { lc SEQUENCE OF Ch2, le SEQUENCE OF Color, lb SEQUENCE OF BOOLEAN, lo SEQUENCE OF OCTET STRING }
END";

    // ------------------------------------------------------------------
    // Values <-> integer lists (same layout as dec_val / enc_val in OpsProto.v)
    // ------------------------------------------------------------------
    struct It<'a>(&'a [I], usize);
    impl<'a> It<'a> {
        fn next(&mut self) -> I {
            let v = self.0[self.1];
            self.1 += 1;
            v
        }
        fn done(&self) -> bool {
            self.1 == self.0.len()
        }
    }
    trait Zv: Sized {
        fn dec(it: &mut It) -> Self;
        fn enc(&self, out: &mut Vec<I>);
    }
    macro_rules! zv_int {
        ($($t:ty),*) => {$(
            impl Zv for $t {
                fn dec(it: &mut It) -> Self { it.next() as $t }
                fn enc(&self, out: &mut Vec<I>) { out.push(*self as I) }
            }
        )*};
    }
    zv_int!(u8, i8, u16, i16, u32, i32, u64, i64);
    impl Zv for bool {
        fn dec(it: &mut It) -> Self {
            it.next() != 0
        }
        fn enc(&self, out: &mut Vec<I>) {
            out.push(*self as I)
        }
    }
    impl Zv for String {
        fn dec(it: &mut It) -> Self {
            let n = it.next() as usize;
            let b: Vec<u8> = (0..n).map(|_| it.next() as u8).collect();
            String::from_utf8(b).expect("generator must supply valid UTF-8")
        }
        fn enc(&self, out: &mut Vec<I>) {
            out.push(self.len() as I);
            out.extend(self.as_bytes().iter().map(|b| *b as I));
        }
    }
    // OCTET STRING and SEQUENCE OF share the layout: count, then the elements
    impl<T: Zv> Zv for Vec<T> {
        fn dec(it: &mut It) -> Self {
            let n = it.next() as usize;
            (0..n).map(|_| T::dec(it)).collect()
        }
        fn enc(&self, out: &mut Vec<I>) {
            out.push(self.len() as I);
            for v in self {
                v.enc(out);
            }
        }
    }
    impl<T: Zv> Zv for Option<T> {
        fn dec(it: &mut It) -> Self {
            if it.next() == 0 {
                None
            } else {
                Some(T::dec(it))
            }
        }
        fn enc(&self, out: &mut Vec<I>) {
            match self {
                None => out.push(0),
                Some(v) => {
                    out.push(1);
                    v.enc(out)
                }
            }
        }
    }
    impl Zv for Null {
        fn dec(_it: &mut It) -> Self {
            Null
        }
        fn enc(&self, _out: &mut Vec<I>) {}
    }
    impl Zv for BitVec {
        fn dec(it: &mut It) -> Self {
            let bit_len = it.next() as u64;
            let bytes = Vec::<u8>::dec(it);
            BitVec::from_bytes(bytes, bit_len)
        }
        fn enc(&self, out: &mut Vec<I>) {
            out.push(self.bit_len() as I);
            self.as_byte_slice().to_vec().enc(out);
        }
    }
    macro_rules! zv_struct {
        ($name:ident { $($f:ident),* }) => {
            impl Zv for $name {
                fn dec(it: &mut It) -> Self { $(let $f = Zv::dec(it);)* $name { $($f),* } }
                fn enc(&self, out: &mut Vec<I>) { $(self.$f.enc(out);)* }
            }
        };
    }
    macro_rules! zv_tuple {
        ($name:ident) => {
            impl Zv for $name {
                fn dec(it: &mut It) -> Self { $name(Zv::dec(it)) }
                fn enc(&self, out: &mut Vec<I>) { self.0.enc(out) }
            }
        };
    }
    macro_rules! zv_enum {
        ($name:ident { $($v:ident = $i:literal),* }) => {
            impl Zv for $name {
                fn dec(it: &mut It) -> Self { match it.next() { $($i => $name::$v,)* _ => panic!("bad enum index") } }
                fn enc(&self, out: &mut Vec<I>) { out.push(match self { $($name::$v => $i),* }) }
            }
        };
    }
    macro_rules! zv_choice {
        ($name:ident { $($v:ident = $i:literal),* }) => {
            impl Zv for $name {
                fn dec(it: &mut It) -> Self { match it.next() { $($i => $name::$v(Zv::dec(it)),)* _ => panic!("bad choice index") } }
                fn enc(&self, out: &mut Vec<I>) { match self { $($name::$v(c) => { out.push($i); c.enc(out) })* } }
            }
        };
    }
    zv_struct!(Ints { fu8, fi8, fu16, fi16, fu32, fi32, fu64, fi64, fun });
    zv_struct!(Inner { x, y });
    zv_enum!(Color { Red = 0, Green = 1, Blue = 2 });
    zv_struct!(Prim { b, s, o, bits, e, i });
    zv_struct!(Opt { a, b, c, d, e, f, g, h });
    zv_struct!(Lists { li, ls, lq, lo, t, so });
    zv_choice!(Ch2 { X = 0, Y = 1 });
    zv_choice!(Ch { I = 0, B = 1, S = 2, Q = 3, C = 4, E = 5 });
    zv_struct!(ChSeq { pre, c, post, oc });
    zv_struct!(Lists2 { lc, le, lb, lo });
    zv_tuple!(Tup);
    zv_tuple!(TupL);
    zv_struct!(UseTup { t, u, l });
    zv_struct!(DeepAb { c });
    zv_struct!(DeepA { b, d });
    zv_struct!(Deep { a, z });
    // SET: components in the order the generated write_seq/read_seq visits them (canonical tag order)
    zv_struct!(SetT { a, b });
    zv_struct!(NullSeq { a, n, b });
    zv_struct!(OptNull { n, b, c });
    zv_choice!(ChNull { N = 0, I = 1 });
    zv_tuple!(BitsT);
    zv_struct!(ListNull { items, x });
    zv_struct!(Blank { a, b, l });
    zv_struct!(ListBlank { items, x });
    zv_choice!(ChBlank { B = 0, I = 1 });
    zv_struct!(SeqBlank { r, o, c, x });
    zv_struct!(Defs { name, retries, neg, flag, label, col, port, big, note });
    zv_struct!(DefSet { retries, flag, opt, label, req });
    // no string component: the compiler front end rejects `UTF8String DEFAULT ""` (empty string literal)
    zv_struct!(DefZero { retries, flag, col, x });
    zv_struct!(DefInner { n, s, b });
    zv_choice!(DefCh { D = 0, I = 1 });
    zv_struct!(DefNest { items, c, o });
    zv_struct!(XInts { a, at, b, bt, c, d, dt, e, et, f, g, h, i, j, oa, ob });
    zv_struct!(XList { l, u });
    zv_choice!(XCh { S = 0, U = 1, T = 2 });
    zv_struct!(Nested { ll, x });
    zv_choice!(ChList { L = 0, I = 1 });

    // ------------------------------------------------------------------
    fn err_kind(e: &Error) -> I {
        match e {
            Error::Io(..) => 1,
            Error::InvalidUtf8Received => 2,
            Error::MissingRequiredField(..) => 3,
            Error::InvalidTagReceived(..) => 4,
            Error::InvalidFormat(..) => 5,
            Error::InvalidVariant(..) => 6,
            Error::UnexpectedFormat(..) => 7,
            Error::UnexpectedTag(..) => 8,
        }
    }

    fn enc_bytes(out: &mut Vec<I>, b: &[u8]) {
        out.push(b.len() as I);
        out.extend(b.iter().map(|x| *x as I));
    }

    fn read_back<T: Readable + Zv + Send + 'static>(bytes: Vec<u8>, out: &mut Vec<I>) {
        let r = guarded(move || {
            let mut reader = ProtobufReader::from(&bytes[..]);
            reader.read::<T>().map_err(|e| err_kind(&e))
        });
        match r {
            Ok(Ok(v)) => {
                out.push(0);
                v.enc(out);
            }
            Ok(Err(k)) => out.extend([1, k]),
            Err(class) => out.extend([2, class]),
        }
    }

    fn write_read<T: Writable + Readable + Zv + Send + 'static>(capmode: I, vals: &[I]) -> Vec<I> {
        let mut it = It(vals, 0);
        let v = T::dec(&mut it);
        if !it.done() {
            return vec![-2];
        }
        let mut out = Vec::new();
        // growable back end
        let w = crate::catch(|| {
            let mut w = ProtobufWriter::default();
            w.write(&v).map(|_| w.into_bytes_vec()).map_err(|e| err_kind(&e))
        });
        let bytes = match w {
            Ok(Ok(b)) => b,
            Ok(Err(k)) => return vec![1, k],
            Err(class) => return vec![2, class],
        };
        out.push(0);
        enc_bytes(&mut out, &bytes);
        // fixed-slice back end
        let n = bytes.len();
        let cap = match capmode {
            0 => n,
            1 => n + 3,
            _ => n.saturating_sub(1),
        };
        let s = crate::catch(|| {
            let mut buf = vec![0xAAu8; cap];
            let mut w = ProtobufWriter::from(&mut buf[..]);
            let r = w.write(&v);
            let len = w.len_written();
            let as_bytes = w.as_bytes().to_vec();
            let into = w.into_bytes_vec();
            assert!(as_bytes == into && len == into.len(), "slice writer views disagree");
            r.map(|_| into).map_err(|e| err_kind(&e))
        });
        match s {
            Ok(Ok(b)) => {
                out.push(0);
                enc_bytes(&mut out, &b);
            }
            Ok(Err(k)) => out.extend([1, k]),
            Err(class) => out.extend([2, class]),
        }
        read_back::<T>(bytes, &mut out);
        out
    }

    fn raw_read<T: Readable + Zv + Send + 'static>(bytes: &[I]) -> Vec<I> {
        let mut out = Vec::new();
        read_back::<T>(bytes_of(bytes), &mut out);
        out
    }

    macro_rules! zoo_dispatch {
        ($tid:expr, $f:ident, $($arg:expr),*) => {
            match $tid {
                0 => $f::<Ints>($($arg),*),
                1 => $f::<Inner>($($arg),*),
                2 => $f::<Color>($($arg),*),
                3 => $f::<Prim>($($arg),*),
                4 => $f::<Opt>($($arg),*),
                5 => $f::<Lists>($($arg),*),
                6 => $f::<Ch2>($($arg),*),
                7 => $f::<Ch>($($arg),*),
                8 => $f::<ChSeq>($($arg),*),
                9 => $f::<Lists2>($($arg),*),
                10 => $f::<Tup>($($arg),*),
                11 => $f::<TupL>($($arg),*),
                12 => $f::<UseTup>($($arg),*),
                13 => $f::<Deep>($($arg),*),
                14 => $f::<SetT>($($arg),*),
                15 => $f::<NullSeq>($($arg),*),
                16 => $f::<OptNull>($($arg),*),
                17 => $f::<ChNull>($($arg),*),
                18 => $f::<BitsT>($($arg),*),
                19 => $f::<Nested>($($arg),*),
                20 => $f::<ChList>($($arg),*),
                21 => $f::<ListNull>($($arg),*),
                22 => $f::<Blank>($($arg),*),
                23 => $f::<ListBlank>($($arg),*),
                24 => $f::<ChBlank>($($arg),*),
                25 => $f::<SeqBlank>($($arg),*),
                26 => $f::<Defs>($($arg),*),
                27 => $f::<DefSet>($($arg),*),
                28 => $f::<DefZero>($($arg),*),
                29 => $f::<DefInner>($($arg),*),
                30 => $f::<DefCh>($($arg),*),
                31 => $f::<DefNest>($($arg),*),
                32 => $f::<XInts>($($arg),*),
                33 => $f::<XList>($($arg),*),
                34 => $f::<XCh>($($arg),*),
                _ => vec![-1],
            }
        };
    }

    // ------------------------------------------------------------------
    // ProtobufEq tie: hand-written types with the real derive
    // ------------------------------------------------------------------
    #[derive(ProtobufEq, Default, Debug, Clone, PartialEq)]
    struct PInner {
        x: u16,
        y: Option<String>,
    }
    #[derive(ProtobufEq)]
    struct P0 {
        a: Option<u64>,
        b: Option<String>,
        c: Option<bool>,
        d: Vec<i32>,
        e: Option<Vec<u8>>,
        f: BitVec,
        g: Option<PInner>,
        h: Option<Vec<String>>,
    }
    #[derive(ProtobufEq)]
    enum P1 {
        A(u64),
        B(PInner),
        C(String),
    }
    zv_struct!(PInner { x, y });
    zv_struct!(P0 { a, b, c, d, e, f, g, h });
    zv_choice!(P1 { A = 0, B = 1, C = 2 });

    fn peq_op<T: Zv + ProtobufEq>(vals: &[I]) -> Vec<I> {
        let mut it = It(vals, 0);
        let a = T::dec(&mut it);
        let b = T::dec(&mut it);
        if !it.done() {
            return vec![-2];
        }
        vec![0, a.protobuf_eq(&b) as I]
    }

    // ------------------------------------------------------------------
    fn proto_text(src: &str) -> Vec<I> {
        use asn1rs_model::asn::MultiModuleResolver;
        use asn1rs_model::generate::protobuf::ProtobufDefGenerator;
        use asn1rs_model::parse::Tokenizer;
        use asn1rs_model::protobuf::ToProtobufModel;
        use asn1rs_model::Model;
        let tokens = Tokenizer.parse(src);
        let model = Model::try_from(tokens).unwrap();
        let mut r = MultiModuleResolver::default();
        r.push(model);
        let models = r.try_resolve_all().unwrap();
        let scope = models.iter().collect::<Vec<_>>();
        let mut out = vec![0];
        for m in &models {
            let p = m.to_rust_with_scope(&scope[..]).to_protobuf();
            let (_file, content) = ProtobufDefGenerator::generate_file(&p).unwrap();
            out.extend(content.chars().map(|c| c as u32 as I));
        }
        out
    }

    /// op 4103: every file the generator produces for a multi-module specification:
    /// 0 nfiles (len name* len content*)*
    fn proto_text_multi(srcs: &[&str]) -> Vec<I> {
        use asn1rs_model::asn::MultiModuleResolver;
        use asn1rs_model::generate::protobuf::ProtobufDefGenerator;
        use asn1rs_model::parse::Tokenizer;
        use asn1rs_model::protobuf::ToProtobufModel;
        use asn1rs_model::Model;
        let mut r = MultiModuleResolver::default();
        for src in srcs {
            r.push(Model::try_from(Tokenizer.parse(src)).unwrap());
        }
        let models = r.try_resolve_all().unwrap();
        let scope = models.iter().collect::<Vec<_>>();
        let mut out = vec![0, models.len() as I];
        for m in &models {
            let p = m.to_rust_with_scope(&scope[..]).to_protobuf();
            let (file, content) = ProtobufDefGenerator::generate_file(&p).unwrap();
            for s in [file, content] {
                out.push(s.chars().count() as I);
                out.extend(s.chars().map(|c| c as u32 as I));
            }
        }
        out
    }

    fn enc<T>(r: Result<T, Error>, rest: usize, f: impl Fn(T) -> Vec<I>) -> Vec<I> {
        match r {
            Ok(v) => {
                let mut o = vec![0, rest as I];
                o.extend(f(v));
                o
            }
            Err(e) => vec![1, err_kind(&e)],
        }
    }

    fn wr_rd<T>(
        written: Vec<u8>,
        tail: &[I],
        rd: impl Fn(&mut &[u8]) -> Result<T, Error>,
        f: impl Fn(T) -> Vec<I>,
    ) -> Vec<I> {
        let mut out = vec![written.len() as I];
        out.extend(written.iter().map(|b| *b as I));
        let mut all = written.clone();
        all.extend(bytes_of(tail));
        let mut slice = &all[..];
        let r = rd(&mut slice);
        out.extend(enc(r, slice.len(), f));
        out
    }

    fn raw<T>(bytes: &[I], rd: impl Fn(&mut &[u8]) -> Result<T, Error>, f: impl Fn(T) -> Vec<I>) -> Vec<I> {
        let all = bytes_of(bytes);
        let mut s = &all[..];
        let r = rd(&mut s);
        enc(r, s.len(), f)
    }

    fn fmt_of(w: I) -> Format {
        match w {
            0 => Format::VarInt,
            1 => Format::Fixed64,
            2 => Format::LengthDelimited,
            _ => Format::Fixed32,
        }
    }

    fn bv_ints(b: BitVec) -> Vec<I> {
        let mut o = vec![b.bit_len() as I];
        enc_bytes(&mut o, b.as_byte_slice());
        o
    }

    pub fn run(op: I, a: &[I]) -> Vec<I> {
        match op {
            4001 => {
                let mut w = Vec::<u8>::new();
                w.write_varint(a[0] as u64).unwrap();
                wr_rd(w, &a[1..], |s| s.read_varint(), |v| vec![v as I])
            }
            4002 => {
                let mut w = Vec::<u8>::new();
                w.write_sint32(a[0] as i32).unwrap();
                wr_rd(w, &a[1..], |s| s.read_sint32(), |v| vec![v as I])
            }
            4003 => {
                let mut w = Vec::<u8>::new();
                w.write_sint64(a[0] as i64).unwrap();
                wr_rd(w, &a[1..], |s| s.read_sint64(), |v| vec![v as I])
            }
            4004 => {
                let mut w = Vec::<u8>::new();
                w.write_tag(a[0] as u32, fmt_of(a[1])).unwrap();
                wr_rd(w, &a[2..], |s| s.read_tag(), |(f, w)| vec![f as I, w as u32 as I])
            }
            4005 => {
                let mut w = Vec::<u8>::new();
                w.write_uint32(a[0] as u32).unwrap();
                wr_rd(w, &a[1..], |s| s.read_uint32(), |v| vec![v as I])
            }
            4006 => {
                let mut w = Vec::<u8>::new();
                w.write_bool(a[0] != 0).unwrap();
                wr_rd(w, &a[1..], |s| s.read_bool(), |v| vec![v as I])
            }
            4007 => {
                let mut w = Vec::<u8>::new();
                w.write_sfixed32(a[0] as i32).unwrap();
                wr_rd(w, &a[1..], |s| s.read_sfixed32(), |v| vec![v as I])
            }
            4008 => {
                let mut w = Vec::<u8>::new();
                w.write_bytes(&bytes_of(a)).unwrap();
                let mut out = vec![w.len() as I];
                out.extend(w.iter().map(|b| *b as I));
                out
            }
            4009 => {
                let bv = BitVec::from_bytes(bytes_of(&a[1..]), a[0] as u64);
                let p = bv.to_vec_with_trailing_bit_len();
                let mut out = vec![0];
                enc_bytes(&mut out, &p);
                let back = BitVec::from_vec_with_trailing_bit_len(p);
                out.push(0);
                out.extend(bv_ints(back));
                out
            }
            4010 => raw(a, |s| s.read_varint(), |v| vec![v as I]),
            4011 => raw(a, |s| s.read_tag(), |(f, w)| vec![f as I, w as u32 as I]),
            4012 => raw(a, |s| s.read_sint32(), |v| vec![v as I]),
            4013 => raw(a, |s| s.read_sint64(), |v| vec![v as I]),
            4014 => raw(
                a,
                |s| s.read_string(),
                |v| {
                    let mut o = Vec::new();
                    enc_bytes(&mut o, v.as_bytes());
                    o
                },
            ),
            4015 => raw(a, |s| s.read_bit_vec(), bv_ints),
            4016 => raw(a, |s| s.read_uint32(), |v| vec![v as I]),
            4017 => raw(a, |s| s.read_bool(), |v| vec![v as I]),
            4018 => raw(a, |s| s.read_sfixed32(), |v| vec![v as I]),
            4050 => zoo_dispatch!(a[0], write_read, a[1], &a[2..]),
            4060 => zoo_dispatch!(a[0], raw_read, &a[2..]), // a[1] is a generator hint, ignored
            4070 => match a[0] {
                0 => peq_op::<P0>(&a[1..]),
                1 => peq_op::<P1>(&a[1..]),
                _ => vec![-1],
            },
            4100 => proto_text(ZOO_SRC),
            4102 => proto_text(ZOO_BAD_SRC),
            4103 => proto_text_multi(&[ZOO_BASE_SRC, ZOO_IMP_SRC]),
            _ => vec![-1],
        }
    }
}
