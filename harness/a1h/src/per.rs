//! L1 ops (C10, C04): PackedWrite/PackedRead on BitBuffer / Bits. Mirror of coq/Extract/OpsPer.v
use crate::bits::per_err_kind;
use crate::{bytes_of, catch, I};
use asn1rs::protocol::per::unaligned::buffer::{BitBuffer, Bits};
use asn1rs::protocol::per::unaligned::{BitWrite, ScopedBitRead};
use asn1rs::protocol::per::{Error, PackedRead, PackedWrite};

fn optn(v: I) -> Option<u64> {
    if v < 0 {
        None
    } else {
        Some(v as u64)
    }
}

fn enc_r<T>(r: Result<Result<T, Error>, I>, pos: usize, f: impl Fn(T) -> Vec<I>) -> Vec<I> {
    match r {
        Ok(Ok(v)) => {
            let mut o = vec![0, pos as I];
            o.extend(f(v));
            o
        }
        Ok(Err(e)) => vec![1, per_err_kind(&e)],
        Err(class) => vec![2, class],
    }
}

fn wr<T>(
    w: impl FnOnce(&mut BitBuffer) -> Result<(), Error>,
    rd: impl FnOnce(&mut Bits) -> Result<T, Error>,
    f: impl Fn(T) -> Vec<I>,
) -> Vec<I> {
    let mut b = BitBuffer::default();
    match w(&mut b) {
        Err(e) => vec![1, per_err_kind(&e)],
        Ok(()) => {
            let wlen = b.bit_len();
            let written: Vec<u8> = b.content().to_vec();
            for bit in [true, false, true] {
                b.write_bit(bit).unwrap();
            }
            let mut out = vec![0, wlen as I, written.len() as I];
            out.extend(written.iter().map(|x| *x as I));
            let content = b.content().to_vec();
            let mut bits = Bits::from((&content[..], b.bit_len()));
            let r = catch(|| rd(&mut bits));
            out.extend(enc_r(r, bits.pos(), f));
            out
        }
    }
}

fn raw<T>(bl: I, bytes: &[I], rd: impl FnOnce(&mut Bits) -> Result<T, Error>, f: impl Fn(T) -> Vec<I>) -> Vec<I> {
    let content = bytes_of(bytes);
    let mut bits = Bits::from((&content[..], bl as usize));
    let r = catch(|| rd(&mut bits));
    enc_r(r, bits.pos(), f)
}

fn pattern(n: usize, a: u64, c: u64) -> Vec<u8> {
    (0..n as u64).map(|i| ((a.wrapping_mul(i).wrapping_add(c)) % 256) as u8).collect()
}

fn oct(v: Vec<u8>) -> Vec<I> {
    let mut o = vec![v.len() as I];
    o.extend(v.iter().map(|x| *x as I));
    o
}
fn bitstr((v, bl): (Vec<u8>, u64)) -> Vec<I> {
    let mut o = vec![bl as I, v.len() as I];
    o.extend(v.iter().map(|x| *x as I));
    o
}

pub fn run(op: I, a: &[I]) -> Vec<I> {
    match op {
        1001 => wr(
            |b| b.write_non_negative_binary_integer(optn(a[0]), optn(a[1]), a[2] as u64),
            |r| r.read_non_negative_binary_integer(optn(a[0]), optn(a[1])),
            |v| vec![v as I],
        ),
        1002 => wr(
            |b| b.write_2s_compliment_binary_integer(a[0] as u64, a[1] as i64),
            |r| r.read_2s_compliment_binary_integer(a[0] as u64),
            |v| vec![v as I],
        ),
        1003 => wr(
            |b| b.write_constrained_whole_number(a[0] as i64, a[1] as i64, a[2] as i64),
            |r| r.read_constrained_whole_number(a[0] as i64, a[1] as i64),
            |v| vec![v as I],
        ),
        1004 => wr(
            |b| b.write_normally_small_non_negative_whole_number(a[0] as u64),
            |r| r.read_normally_small_non_negative_whole_number(),
            |v| vec![v as I],
        ),
        1005 => wr(
            |b| b.write_semi_constrained_whole_number(a[0] as i64, a[1] as i64),
            |r| r.read_semi_constrained_whole_number(a[0] as i64),
            |v| vec![v as I],
        ),
        1006 => wr(
            |b| b.write_unconstrained_whole_number(a[0] as i64),
            |r| r.read_unconstrained_whole_number(),
            |v| vec![v as I],
        ),
        1007 => {
            let mut frag: I = -1;
            let mut o = wr(
                |b| {
                    let f = b.write_length_determinant(optn(a[0]), optn(a[1]), a[2] as u64)?;
                    frag = f.map(|x| x as I).unwrap_or(-1);
                    Ok(())
                },
                |r| r.read_length_determinant(optn(a[0]), optn(a[1])),
                |v| vec![v as I],
            );
            if o[0] == 0 {
                o.insert(0, frag);
            }
            o
        }
        1008 => wr(
            |b| b.write_enumeration_index(a[0] as u64, a[1] != 0, a[2] as u64),
            |r| r.read_enumeration_index(a[0] as u64, a[1] != 0),
            |v| vec![v as I],
        ),
        1009 | 1019 => {
            let n = a[3] as usize;
            let src = if op == 1009 { bytes_of(&a[4..4 + n]) } else { pattern(n, a[4] as u64, a[5] as u64) };
            wr(
                |b| b.write_octetstring(optn(a[0]), optn(a[1]), a[2] != 0, &src),
                |r| r.read_octetstring(optn(a[0]), optn(a[1]), a[2] != 0),
                oct,
            )
        }
        1010 | 1020 => {
            let n = a[5] as usize;
            let src = if op == 1010 { bytes_of(&a[6..6 + n]) } else { pattern(n, a[6] as u64, a[7] as u64) };
            wr(
                |b| b.write_bitstring(optn(a[0]), optn(a[1]), a[2] != 0, &src, a[3] as u64, a[4] as u64),
                |r| r.read_bitstring(optn(a[0]), optn(a[1]), a[2] != 0),
                bitstr,
            )
        }
        1031 => raw(a[2], &a[3..], |r| r.read_non_negative_binary_integer(optn(a[0]), optn(a[1])), |v| vec![v as I]),
        1032 => raw(a[1], &a[2..], |r| r.read_2s_compliment_binary_integer(a[0] as u64), |v| vec![v as I]),
        1033 => raw(a[2], &a[3..], |r| r.read_constrained_whole_number(a[0] as i64, a[1] as i64), |v| vec![v as I]),
        1034 => raw(a[0], &a[1..], |r| r.read_normally_small_non_negative_whole_number(), |v| vec![v as I]),
        1035 => raw(a[1], &a[2..], |r| r.read_semi_constrained_whole_number(a[0] as i64), |v| vec![v as I]),
        1036 => raw(a[0], &a[1..], |r| r.read_unconstrained_whole_number(), |v| vec![v as I]),
        1037 => raw(a[2], &a[3..], |r| r.read_length_determinant(optn(a[0]), optn(a[1])), |v| vec![v as I]),
        1038 => raw(a[2], &a[3..], |r| r.read_enumeration_index(a[0] as u64, a[1] != 0), |v| vec![v as I]),
        1039 => raw(a[3], &a[4..], |r| r.read_octetstring(optn(a[0]), optn(a[1]), a[2] != 0), oct),
        1040 => raw(a[3], &a[4..], |r| r.read_bitstring(optn(a[0]), optn(a[1]), a[2] != 0), bitstr),
        _ => vec![-1],
    }
}
