//! lex ops (C13): mirror of coq/Extract/OpsLex.v
//! 3002  input = k, k opaque ints (metadata for the check's oracle), then as 3001
//! 3001  input = code points of the whole text; output = 0 ntokens (kind line column len codes..)* | 2 class | -2
use crate::I;
use asn1rs_model::parse::{Token, Tokenizer};

fn text_of(a: &[I]) -> Option<String> {
    let mut s = String::with_capacity(a.len());
    for v in a {
        if *v < 0 || *v > 0x10FFFF {
            return None;
        }
        s.push(char::from_u32(*v as u32)?);
    }
    Some(s)
}

pub fn run(op: I, a: &[I]) -> Vec<I> {
    match op {
        3002 if !a.is_empty() => {
            let k = (a[0].max(0) as usize).min(a.len() - 1);
            run(3001, &a[1 + k..])
        }
        3001 => {
            let Some(text) = text_of(a) else {
                return vec![-2];
            };
            match crate::catch(|| Tokenizer::default().parse(&text)) {
                Ok(tokens) => {
                    let mut o: Vec<I> = vec![0, tokens.len() as I];
                    for t in &tokens {
                        let loc = t.location();
                        match t {
                            Token::Text(_, s) => {
                                o.extend([0, loc.line() as I, loc.column() as I, s.chars().count() as I]);
                                o.extend(s.chars().map(|c| c as u32 as I));
                            }
                            Token::Separator(_, c) => {
                                o.extend([1, loc.line() as I, loc.column() as I, 1, *c as u32 as I]);
                            }
                        }
                    }
                    o
                }
                Err(class) => vec![2, class],
            }
        }
        _ => vec![-1],
    }
}
