//! DER ops (C20, C04-DER): mirror of coq/Extract/OpsDer.v
use crate::{bytes_of, I};
use asn1rs::descriptor::numbers::{Integer, Number};
use asn1rs::descriptor::{common, enumerated, numbers, Boolean, ReadableType, WritableType};
use asn1rs::model::asn::Tag;
use asn1rs::protocol::basic::{BasicRead, BasicWrite, Error, DER};
use std::cell::Cell;

thread_local! {
    static TAG: Cell<(I, usize)> = Cell::new((0, 0));
    static VARIANTS: Cell<u64> = Cell::new(0);
}

fn tag_of(c: I, n: usize) -> Tag {
    match c {
        0 => Tag::Universal(n),
        1 => Tag::Application(n),
        2 => Tag::ContextSpecific(n),
        _ => Tag::Private(n),
    }
}
fn class_of(t: &Tag) -> I {
    match t {
        Tag::Universal(_) => 0,
        Tag::Application(_) => 1,
        Tag::ContextSpecific(_) => 2,
        Tag::Private(_) => 3,
    }
}

fn err_kind(e: &Error) -> I {
    // basic::ErrorKind is not nameable from outside the crate; go by its Debug form
    let d = format!("{:?}", e.kind());
    if d.starts_with("IoError") {
        1
    } else if d.starts_with("UnexpectedTypeTag") {
        2
    } else if d.starts_with("UnexpectedTypeLength") {
        3
    } else if d.starts_with("UnexpectedChoiceIndex") {
        4
    } else if d.starts_with("UnsupportedByteLen") {
        5
    } else {
        99
    }
}

fn enc<T>(r: Result<T, Error>, rest: usize, f: impl Fn(T) -> Vec<I>) -> Vec<I> {
    match r {
        Ok(v) => {
            let mut o = vec![0, rest as I];
            o.extend(f(v));
            o
        }
        Err(e) => vec![1, err_kind(&e)],
    }
}

fn wr<T>(
    written: Vec<u8>,
    tail: &[I],
    rd: impl Fn(&mut &[u8]) -> Result<T, Error>,
    f: impl Fn(T) -> Vec<I>,
) -> Vec<I> {
    let mut out = vec![written.len() as I];
    out.extend(written.iter().map(|b| *b as I));
    let mut all = written.clone();
    all.extend(bytes_of(tail));
    let mut slice = &all[..];
    let r = rd(&mut slice);
    out.extend(enc(r, slice.len(), f));
    out
}

// The constraint tag has to be an associated const; the harness enumerates all
// (class, number<64) tags through const generics.
struct TagC<const C: u8, const N: usize>;
impl<const C: u8, const N: usize> common::Constraint for TagC<C, N> {
    const TAG: Tag = match C {
        0 => Tag::Universal(N),
        1 => Tag::Application(N),
        2 => Tag::ContextSpecific(N),
        _ => Tag::Private(N),
    };
}
impl<const C: u8, const N: usize, T: Number> numbers::Constraint<T> for TagC<C, N> {}
impl<const C: u8, const N: usize> asn1rs::descriptor::boolean::Constraint for TagC<C, N> {}

#[derive(Debug, Clone, Copy, PartialEq)]
struct DynEnum<const C: u8, const N: usize>(u64);
impl<const C: u8, const N: usize> common::Constraint for DynEnum<C, N> {
    const TAG: Tag = <TagC<C, N> as common::Constraint>::TAG;
}
impl<const C: u8, const N: usize> enumerated::Constraint for DynEnum<C, N> {
    const NAME: &'static str = "DynEnum";
    const VARIANT_COUNT: u64 = 0;
    const STD_VARIANT_COUNT: u64 = 0;
    fn to_choice_index(&self) -> u64 {
        self.0
    }
    fn from_choice_index(index: u64) -> Option<Self> {
        if index < VARIANTS.with(|v| v.get()) {
            Some(DynEnum(index))
        } else {
            None
        }
    }
}

macro_rules! with_tag {
    ($c:expr, $n:expr, $f:ident, $($arg:expr),*) => {{
        macro_rules! nn {
            ($cc:literal) => {
                match $n {
                    0 => $f::<$cc, 0>($($arg),*), 1 => $f::<$cc, 1>($($arg),*), 2 => $f::<$cc, 2>($($arg),*),
                    3 => $f::<$cc, 3>($($arg),*), 4 => $f::<$cc, 4>($($arg),*), 5 => $f::<$cc, 5>($($arg),*),
                    6 => $f::<$cc, 6>($($arg),*), 7 => $f::<$cc, 7>($($arg),*), 8 => $f::<$cc, 8>($($arg),*),
                    9 => $f::<$cc, 9>($($arg),*), 10 => $f::<$cc, 10>($($arg),*), 11 => $f::<$cc, 11>($($arg),*),
                    12 => $f::<$cc, 12>($($arg),*), 13 => $f::<$cc, 13>($($arg),*), 14 => $f::<$cc, 14>($($arg),*),
                    15 => $f::<$cc, 15>($($arg),*), 16 => $f::<$cc, 16>($($arg),*), 17 => $f::<$cc, 17>($($arg),*),
                    18 => $f::<$cc, 18>($($arg),*), 19 => $f::<$cc, 19>($($arg),*), 20 => $f::<$cc, 20>($($arg),*),
                    21 => $f::<$cc, 21>($($arg),*), 22 => $f::<$cc, 22>($($arg),*), 23 => $f::<$cc, 23>($($arg),*),
                    24 => $f::<$cc, 24>($($arg),*), 25 => $f::<$cc, 25>($($arg),*), 26 => $f::<$cc, 26>($($arg),*),
                    27 => $f::<$cc, 27>($($arg),*), 28 => $f::<$cc, 28>($($arg),*), 29 => $f::<$cc, 29>($($arg),*),
                    30 => $f::<$cc, 30>($($arg),*), 31 => $f::<$cc, 31>($($arg),*), 32 => $f::<$cc, 32>($($arg),*),
                    33 => $f::<$cc, 33>($($arg),*), 47 => $f::<$cc, 47>($($arg),*), 62 => $f::<$cc, 62>($($arg),*),
                    63 => $f::<$cc, 63>($($arg),*), 64 => $f::<$cc, 64>($($arg),*), 65 => $f::<$cc, 65>($($arg),*),
                    127 => $f::<$cc, 127>($($arg),*), 128 => $f::<$cc, 128>($($arg),*), 200 => $f::<$cc, 200>($($arg),*),
                    255 => $f::<$cc, 255>($($arg),*), 256 => $f::<$cc, 256>($($arg),*), 300 => $f::<$cc, 300>($($arg),*),
                    _ => vec![-2],
                }
            };
        }
        match $c { 0 => nn!(0), 1 => nn!(1), 2 => nn!(2), _ => nn!(3) }
    }};
}

fn w_number_k<T: Number, const C: u8, const N: usize>(v: T) -> Vec<u8> {
    let mut w = DER::writer(Vec::<u8>::new());
    Integer::<T, TagC<C, N>>::write_value(&mut w, &v).unwrap();
    w.into_inner()
}
fn r_number_k<T: Number, const C: u8, const N: usize>(s: &mut &[u8]) -> Result<I, Error>
where
    I: From<T>,
{
    let mut r = DER::reader(&mut *s);
    Integer::<T, TagC<C, N>>::read_value(&mut r).map(I::from)
}

fn op_number<const C: u8, const N: usize>(k: I, v: I, tail: &[I]) -> Vec<I> {
    let written = match k {
        0 => w_number_k::<u8, C, N>(v as u8),
        1 => w_number_k::<i8, C, N>(v as i8),
        2 => w_number_k::<u16, C, N>(v as u16),
        3 => w_number_k::<i16, C, N>(v as i16),
        4 => w_number_k::<u32, C, N>(v as u32),
        5 => w_number_k::<i32, C, N>(v as i32),
        6 => w_number_k::<u64, C, N>(v as u64),
        _ => w_number_k::<i64, C, N>(v as i64),
    };
    wr(written, tail, |s| r_number_any::<C, N>(k, s), |v| vec![v])
}
fn r_number_any<const C: u8, const N: usize>(k: I, s: &mut &[u8]) -> Result<I, Error> {
    match k {
        0 => r_number_k::<u8, C, N>(s),
        1 => r_number_k::<i8, C, N>(s),
        2 => r_number_k::<u16, C, N>(s),
        3 => r_number_k::<i16, C, N>(s),
        4 => r_number_k::<u32, C, N>(s),
        5 => r_number_k::<i32, C, N>(s),
        6 => r_number_k::<u64, C, N>(s),
        _ => r_number_k::<i64, C, N>(s),
    }
}
fn op_number_read<const C: u8, const N: usize>(k: I, bytes: &[I]) -> Vec<I> {
    let all = bytes_of(bytes);
    let mut s = &all[..];
    let r = r_number_any::<C, N>(k, &mut s);
    enc(r, s.len(), |v| vec![v])
}

fn r_bool<const C: u8, const N: usize>(s: &mut &[u8]) -> Result<bool, Error> {
    let mut r = DER::reader(&mut *s);
    Boolean::<TagC<C, N>>::read_value(&mut r)
}
fn op_boolean<const C: u8, const N: usize>(b: bool, tail: &[I]) -> Vec<I> {
    let mut w = DER::writer(Vec::<u8>::new());
    Boolean::<TagC<C, N>>::write_value(&mut w, &b).unwrap();
    wr(w.into_inner(), tail, |s| r_bool::<C, N>(s), |b| vec![b as I])
}
fn op_boolean_read<const C: u8, const N: usize>(bytes: &[I]) -> Vec<I> {
    let all = bytes_of(bytes);
    let mut s = &all[..];
    let r = r_bool::<C, N>(&mut s);
    enc(r, s.len(), |b| vec![b as I])
}

fn r_enum<const C: u8, const N: usize>(s: &mut &[u8]) -> Result<u64, Error> {
    let mut r = DER::reader(&mut *s);
    asn1rs::descriptor::Enumerated::<DynEnum<C, N>>::read_value(&mut r).map(|e| e.0)
}
fn op_enum<const C: u8, const N: usize>(i: u64, tail: &[I]) -> Vec<I> {
    let mut w = DER::writer(Vec::<u8>::new());
    asn1rs::descriptor::Enumerated::<DynEnum<C, N>>::write_value(&mut w, &DynEnum(i)).unwrap();
    wr(w.into_inner(), tail, |s| r_enum::<C, N>(s), |v| vec![v as I])
}
fn op_enum_read<const C: u8, const N: usize>(bytes: &[I]) -> Vec<I> {
    let all = bytes_of(bytes);
    let mut s = &all[..];
    let r = r_enum::<C, N>(&mut s);
    enc(r, s.len(), |v| vec![v as I])
}

pub fn run(op: I, a: &[I]) -> Vec<I> {
    match op {
        2001 => {
            let mut w = Vec::<u8>::new();
            w.write_length(a[0] as u64).unwrap();
            wr(w, &a[1..], |s| s.read_length(), |v| vec![v as I])
        }
        2002 => {
            let mut w = Vec::<u8>::new();
            w.write_identifier(tag_of(a[0], a[1] as usize)).unwrap();
            wr(w, &a[2..], |s| s.read_identifier(), |t| vec![class_of(&t), t.value() as I])
        }
        2003 => with_tag!(a[0], a[1], op_boolean, a[2] != 0, &a[3..]),
        2004 => with_tag!(a[1], a[2], op_number, a[0], a[3], &a[4..]),
        2005 => {
            VARIANTS.with(|v| v.set(a[2] as u64));
            with_tag!(a[0], a[1], op_enum, a[3] as u64, &a[4..])
        }
        2010 => {
            let all = bytes_of(a);
            let mut s = &all[..];
            let r = s.read_length();
            enc(r, s.len(), |v| vec![v as I])
        }
        2011 => {
            let all = bytes_of(a);
            let mut s = &all[..];
            let r = s.read_identifier();
            enc(r, s.len(), |t| vec![class_of(&t), t.value() as I])
        }
        2012 => {
            let all = bytes_of(a);
            let mut s = &all[..];
            let r = s.read_boolean();
            enc(r, s.len(), |b| vec![b as I])
        }
        2013 => {
            let all = bytes_of(&a[1..]);
            let mut s = &all[..];
            let r = s.read_integer_i64(a[0] as u32);
            enc(r, s.len(), |v| vec![v as I])
        }
        2014 => {
            let all = bytes_of(&a[1..]);
            let mut s = &all[..];
            let r = s.read_integer_u64(a[0] as u32);
            enc(r, s.len(), |v| vec![v as I])
        }
        2015 => with_tag!(0, a[1], op_number_read, a[0], &a[2..]),
        2016 => with_tag!(0, a[0], op_boolean_read, &a[1..]),
        2017 => {
            VARIANTS.with(|v| v.set(a[0] as u64));
            with_tag!(0, a[1], op_enum_read, &a[2..])
        }
        _ => vec![-1],
    }
}
