//! L0 ops (C11, C04): slice.rs tuple carriers, BitBuffer, Bits. Mirror of coq/Extract/OpsBits.v
use crate::{bytes_of, I};
use asn1rs::protocol::per::unaligned::buffer::{BitBuffer, Bits};
use asn1rs::protocol::per::unaligned::{BitRead, BitWrite, ScopedBitRead};
use asn1rs::protocol::per::{Error, ErrorKind};

pub fn per_err_kind(e: &Error) -> I {
    match e.kind() {
        ErrorKind::FromUtf8Error(_) => 1,
        ErrorKind::InvalidString(..) => 2,
        ErrorKind::UnsupportedOperation(_) => 3,
        ErrorKind::InsufficientSpaceInDestinationBuffer(_) => 4,
        ErrorKind::InsufficientDataInSourceBuffer(_) => 5,
        ErrorKind::LengthDeterminantExceedsLimit { .. } => 6,
        ErrorKind::InvalidChoiceIndex(..) => 7,
        ErrorKind::ExtensionFieldsInconsistent(_) => 8,
        ErrorKind::ValueNotInRange(..) => 9,
        ErrorKind::ValueExceedsMaxInt => 10,
        ErrorKind::ValueIsNegativeButExpectedUnsigned(_) => 11,
        ErrorKind::SizeNotInRange(..) => 12,
        ErrorKind::BitLenNotInRange(..) => 13,
        ErrorKind::OptFlagsExhausted => 14,
        ErrorKind::EndOfStream => 15,
    }
}

fn take_list(a: &[I]) -> (Vec<u8>, &[I]) {
    if a.is_empty() {
        return (Vec::new(), a);
    }
    let n = (a[0] as usize).min(a.len() - 1);
    (bytes_of(&a[1..1 + n]), &a[1 + n..])
}

fn status(r: Result<(), Error>) -> Vec<I> {
    match r {
        Ok(()) => vec![0],
        Err(e) => vec![1, per_err_kind(&e)],
    }
}

fn read_out(r: Result<(), Error>, dst: &[u8]) -> Vec<I> {
    match r {
        Ok(()) => {
            let mut o = vec![0];
            o.extend(dst.iter().map(|b| *b as I));
            o
        }
        Err(e) => vec![1, per_err_kind(&e)],
    }
}

fn bit_out(r: Result<bool, Error>) -> Vec<I> {
    match r {
        Ok(bit) => vec![0, bit as I],
        Err(e) => vec![1, per_err_kind(&e)],
    }
}

/// Bits::from(&BitBuffer): len, pos, remaining, is_empty, then everything read back
fn bits_probe(b: &BitBuffer) -> Vec<I> {
    let mut r = Bits::from(b);
    let len = r.len();
    let mut o: Vec<I> = vec![0, len as I, r.pos() as I, r.remaining() as I, r.is_empty() as I];
    if len > 1_048_576 {
        o.push(3);
        return o;
    }
    let mut dst = vec![0u8; (len + 7) / 8];
    match r.read_bits_with_len(&mut dst, len) {
        Ok(()) => {
            o.push(0);
            o.push(r.pos() as I);
            o.extend(dst.iter().map(|b| *b as I));
        }
        Err(e) => o.extend([1, per_err_kind(&e)]),
    }
    o
}

const BAD: I = -99;

/// One sub-op on a BitBuffer; returns its output and the unread arguments. The closures handed
/// to the scoped combinators are `Fn`: they only return values.
fn bstep<'x>(b: &mut BitBuffer, a: &'x [I]) -> (Vec<I>, &'x [I]) {
    let op = a[0];
    let a = &a[1..];
    match op {
        1 => (status(b.write_bit(a[0] != 0)), &a[1..]),
        2 => {
            let (soff, slen) = (a[0] as usize, a[1] as usize);
            let (src, rest) = take_list(&a[2..]);
            (status(b.write_bits_with_offset_len(&src, soff, slen)), rest)
        }
        7 => {
            let soff = a[0] as usize;
            let (src, rest) = take_list(&a[1..]);
            (status(b.write_bits_with_offset(&src, soff)), rest)
        }
        11 => {
            let (src, rest) = take_list(a);
            (status(b.write_bits(&src)), rest)
        }
        12 => {
            let len = a[0] as usize;
            let (src, rest) = take_list(&a[1..]);
            (status(b.write_bits_with_len(&src, len)), rest)
        }
        3 => (bit_out(b.read_bit()), a),
        4 => {
            let (doff, dlen, n, fill) = (a[0] as usize, a[1] as usize, a[2] as usize, a[3] as u8);
            let mut dst = vec![fill; n];
            let r = b.read_bits_with_offset_len(&mut dst, doff, dlen);
            (read_out(r, &dst), &a[4..])
        }
        13 => {
            let (n, fill) = (a[0] as usize, a[1] as u8);
            let mut dst = vec![fill; n];
            let r = b.read_bits(&mut dst);
            (read_out(r, &dst), &a[2..])
        }
        14 => {
            let (dlen, n, fill) = (a[0] as usize, a[1] as usize, a[2] as u8);
            let mut dst = vec![fill; n];
            let r = b.read_bits_with_len(&mut dst, dlen);
            (read_out(r, &dst), &a[3..])
        }
        15 => {
            let (doff, n, fill) = (a[0] as usize, a[1] as usize, a[2] as u8);
            let mut dst = vec![fill; n];
            let r = b.read_bits_with_offset(&mut dst, doff);
            (read_out(r, &dst), &a[3..])
        }
        5 => {
            let (pos, bit) = (a[0] as usize, a[1] != 0);
            (status(b.with_write_position_at(pos, |b| b.write_bit(bit))), &a[2..])
        }
        16 => {
            b.clear();
            (vec![0], a)
        }
        17 => {
            b.reset_read_position();
            (vec![0], a)
        }
        18 => {
            b.ensure_can_write_additional_bits(a[0] as usize);
            (vec![0], &a[1..])
        }
        19 => (vec![0, b.byte_len() as I, b.bit_len() as I], a),
        20 => b.with_write_position_at(a[0] as usize, |b| bstep(b, &a[1..])),
        21 => b.with_read_position_at(a[0] as usize, |b| bstep(b, &a[1..])),
        22 => b.with_max_read(a[0] as usize, |b| bstep(b, &a[1..])),
        30 => (bits_probe(b), a),
        _ => (vec![BAD], &a[..0]),
    }
}

fn rstep<'x>(r: &mut Bits, a: &'x [I]) -> (Vec<I>, &'x [I]) {
    let op = a[0];
    let a = &a[1..];
    match op {
        3 => (bit_out(r.read_bit()), a),
        4 => {
            let (doff, dlen, n, fill) = (a[0] as usize, a[1] as usize, a[2] as usize, a[3] as u8);
            let mut dst = vec![fill; n];
            let x = r.read_bits_with_offset_len(&mut dst, doff, dlen);
            (read_out(x, &dst), &a[4..])
        }
        13 => {
            let (n, fill) = (a[0] as usize, a[1] as u8);
            let mut dst = vec![fill; n];
            let x = r.read_bits(&mut dst);
            (read_out(x, &dst), &a[2..])
        }
        14 => {
            let (dlen, n, fill) = (a[0] as usize, a[1] as usize, a[2] as u8);
            let mut dst = vec![fill; n];
            let x = r.read_bits_with_len(&mut dst, dlen);
            (read_out(x, &dst), &a[3..])
        }
        15 => {
            let (doff, n, fill) = (a[0] as usize, a[1] as usize, a[2] as u8);
            let mut dst = vec![fill; n];
            let x = r.read_bits_with_offset(&mut dst, doff);
            (read_out(x, &dst), &a[3..])
        }
        8 => {
            let p = r.set_pos(a[0] as usize);
            (vec![0, p as I], &a[1..])
        }
        9 => (vec![0, r.remaining() as I], a),
        10 => {
            let l = r.set_len(a[0] as usize);
            (vec![0, l as I], &a[1..])
        }
        21 => r.with_read_position_at(a[0] as usize, |r| rstep(r, &a[1..])),
        _ => (vec![BAD], &a[..0]),
    }
}

/// byte_len(), bit_len(), the read position (observed as bit_len() inside with_max_read(0, ..):
/// the field is not public), content()
fn buf_state(b: &mut BitBuffer, acc: &mut Vec<I>) {
    acc.push(b.byte_len() as I);
    acc.push(b.bit_len() as I);
    let rpos = b.with_max_read(0, |b| b.bit_len());
    acc.push(rpos as I);
    acc.extend(b.content().iter().map(|b| *b as I));
}

fn run_buf_seq(mut b: BitBuffer, mut a: &[I]) -> Vec<I> {
    let mut acc: Vec<I> = vec![0];
    buf_state(&mut b, &mut acc);
    while !a.is_empty() {
        let (out, rest) = bstep(&mut b, a);
        if out == [BAD] {
            return vec![2, 99];
        }
        a = rest;
        acc.extend(out);
        buf_state(&mut b, &mut acc);
    }
    let v: Vec<u8> = b.into();
    acc.extend(v.iter().map(|b| *b as I));
    acc
}

fn run_bits_seq(mut r: Bits, mut a: &[I], slice_len: usize) -> Vec<I> {
    let mut acc: Vec<I> = vec![0];
    acc.extend([slice_len as I, r.len() as I, r.pos() as I, r.is_empty() as I]);
    while !a.is_empty() {
        let (out, rest) = rstep(&mut r, a);
        if out == [BAD] {
            return vec![2, 99];
        }
        a = rest;
        acc.extend(out);
        acc.extend([slice_len as I, r.len() as I, r.pos() as I, r.is_empty() as I]);
    }
    acc
}

fn buf_ctor(a: &[I]) -> Option<(BitBuffer, &[I])> {
    Some(match a[0] {
        0 => (BitBuffer::default(), &a[1..]),
        1 => (BitBuffer::with_capacity(a[1] as usize), &a[2..]),
        2 => {
            let (l, rest) = take_list(&a[1..]);
            (BitBuffer::from_bytes(l), rest)
        }
        3 => {
            let (l, rest) = take_list(&a[1..]);
            (BitBuffer::from_bits(l, rest[0] as usize), &rest[1..])
        }
        4 => {
            let (l, rest) = take_list(&a[1..]);
            (BitBuffer::from_bits_with_position(l, rest[0] as usize, rest[1] as usize), &rest[2..])
        }
        5 => {
            let (l, rest) = take_list(&a[1..]);
            (BitBuffer::from(l), rest)
        }
        _ => return None,
    })
}

fn enc_pd(r: Result<(), Error>, pos: usize, d: &[u8]) -> Vec<I> {
    match r {
        Ok(()) => {
            let mut o = vec![0, pos as I];
            o.extend(d.iter().map(|b| *b as I));
            o
        }
        Err(e) => vec![1, per_err_kind(&e)],
    }
}

pub fn run(op: I, a: &[I]) -> Vec<I> {
    match op {
        1101 => {
            let (mut pos, soff, slen) = (a[0] as usize, a[1] as usize, a[2] as usize);
            let (mut dst, rest) = take_list(&a[3..]);
            let (src, _) = take_list(rest);
            let r = (&mut dst[..], &mut pos).write_bits_with_offset_len(&src, soff, slen);
            enc_pd(r, pos, &dst)
        }
        1102 => {
            let (mut pos, doff, dlen) = (a[0] as usize, a[1] as usize, a[2] as usize);
            let (src, rest) = take_list(&a[3..]);
            let (mut dst, _) = take_list(rest);
            let r = (&src[..], &mut pos).read_bits_with_offset_len(&mut dst, doff, dlen);
            enc_pd(r, pos, &dst)
        }
        1103 => {
            let mut pos = a[0] as usize;
            let mut dst = bytes_of(&a[2..]);
            let r = (&mut dst[..], &mut pos).write_bit(a[1] != 0);
            enc_pd(r, pos, &dst)
        }
        1104 => {
            let mut pos = a[0] as usize;
            let src = bytes_of(&a[1..]);
            match (&src[..], &mut pos).read_bit() {
                Ok(b) => vec![0, pos as I, b as I],
                Err(e) => vec![1, per_err_kind(&e)],
            }
        }
        1110 => run_buf_seq(BitBuffer::default(), a),
        1111 => {
            let len = a[0] as usize;
            let (sl, ops) = take_list(&a[1..]);
            // Bits::from((slice,len)) debug_asserts len <= 8*slice.len(); the generator keeps to that here
            run_bits_seq(Bits::from((&sl[..], len)), ops, sl.len())
        }
        1112 => match buf_ctor(a) {
            Some((b, ops)) => run_buf_seq(b, ops),
            None => vec![2, 99],
        },
        1113 => match a[0] {
            0 => {
                let (sl, ops) = take_list(&a[1..]);
                run_bits_seq(Bits::from(&sl[..]), ops, sl.len())
            }
            1 => {
                let (sl, rest) = take_list(&a[1..]);
                run_bits_seq(Bits::from((&sl[..], rest[0] as usize)), &rest[1..], sl.len())
            }
            2 => {
                let (sl, rest) = take_list(&a[1..]);
                let n = sl.len();
                let b = BitBuffer::from_bits_with_position(sl, rest[0] as usize, rest[1] as usize);
                run_bits_seq(Bits::from(&b), &rest[2..], n)
            }
            _ => vec![2, 99],
        },
        _ => vec![-1],
    }
}
