//! L0 ops (C11, C04): slice.rs tuple carriers, BitBuffer, Bits. Mirror of coq/Extract/OpsBits.v
use crate::{bytes_of, I};
use asn1rs::protocol::per::unaligned::buffer::{BitBuffer, Bits};
use asn1rs::protocol::per::unaligned::{BitRead, BitWrite, ScopedBitRead};
use asn1rs::protocol::per::{Error, ErrorKind};

pub fn per_err_kind(e: &Error) -> I {
    match e.kind() {
        ErrorKind::FromUtf8Error(_) => 1,
        ErrorKind::InvalidString(..) => 2,
        ErrorKind::UnsupportedOperation(_) => 3,
        ErrorKind::InsufficientSpaceInDestinationBuffer(_) => 4,
        ErrorKind::InsufficientDataInSourceBuffer(_) => 5,
        ErrorKind::LengthDeterminantExceedsLimit { .. } => 6,
        ErrorKind::InvalidChoiceIndex(..) => 7,
        ErrorKind::ExtensionFieldsInconsistent(_) => 8,
        ErrorKind::ValueNotInRange(..) => 9,
        ErrorKind::ValueExceedsMaxInt => 10,
        ErrorKind::ValueIsNegativeButExpectedUnsigned(_) => 11,
        ErrorKind::SizeNotInRange(..) => 12,
        ErrorKind::BitLenNotInRange(..) => 13,
        ErrorKind::OptFlagsExhausted => 14,
        ErrorKind::EndOfStream => 15,
    }
}

fn take_list(a: &[I]) -> (Vec<u8>, &[I]) {
    if a.is_empty() {
        return (Vec::new(), a);
    }
    let n = (a[0] as usize).min(a.len() - 1);
    (bytes_of(&a[1..1 + n]), &a[1 + n..])
}

enum Carrier<'a> {
    Buf(BitBuffer),
    Bits(Bits<'a>),
}

fn state_rec(c: &Carrier, out: &mut Vec<I>) {
    match c {
        Carrier::Buf(b) => {
            // read position is pub(crate); recover it through a clone-free trick: not observable -> track separately
            out.push(b.byte_len() as I);
            out.push(b.bit_len() as I);
        }
        Carrier::Bits(r) => {
            out.push(r.len() as I / 1);
        }
    }
}

fn run_seq(mut c: Carrier, mut a: &[I], slice_len: usize) -> Vec<I> {
    let mut acc: Vec<I> = vec![0];
    let mut rpos: usize = 0; // BitBuffer::read_position is not public: mirrored here from successful reads
    while !a.is_empty() {
        let op = a[0];
        a = &a[1..];
        let mut out: Vec<I> = Vec::new();
        let mut status = |r: Result<(), Error>, out: &mut Vec<I>| match r {
            Ok(()) => out.push(0),
            Err(e) => {
                out.push(1);
                out.push(per_err_kind(&e));
            }
        };
        match (op, &mut c) {
            (1, Carrier::Buf(b)) => {
                let r = b.write_bit(a[0] != 0);
                a = &a[1..];
                status(r, &mut out);
            }
            (2, Carrier::Buf(b)) => {
                let (soff, slen) = (a[0] as usize, a[1] as usize);
                let (src, rest) = take_list(&a[2..]);
                a = rest;
                let r = b.write_bits_with_offset_len(&src, soff, slen);
                status(r, &mut out);
            }
            (7, Carrier::Buf(b)) => {
                let soff = a[0] as usize;
                let (src, rest) = take_list(&a[1..]);
                a = rest;
                let r = b.write_bits_with_offset(&src, soff);
                status(r, &mut out);
            }
            (3, Carrier::Buf(b)) => match b.read_bit() {
                Ok(bit) => {
                    rpos += 1;
                    out.extend([0, bit as I]);
                }
                Err(e) => out.extend([1, per_err_kind(&e)]),
            },
            (3, Carrier::Bits(r)) => match r.read_bit() {
                Ok(bit) => out.extend([0, bit as I]),
                Err(e) => out.extend([1, per_err_kind(&e)]),
            },
            (4, _) => {
                let (doff, dlen, n, fill) = (a[0] as usize, a[1] as usize, a[2] as usize, a[3] as u8);
                a = &a[4..];
                let mut dst = vec![fill; n];
                let r = match &mut c {
                    Carrier::Buf(b) => b.read_bits_with_offset_len(&mut dst, doff, dlen),
                    Carrier::Bits(r) => r.read_bits_with_offset_len(&mut dst, doff, dlen),
                };
                match r {
                    Ok(()) => {
                        rpos = rpos.wrapping_add(dlen);
                        out.push(0);
                        out.extend(dst.iter().map(|b| *b as I));
                    }
                    Err(e) => out.extend([1, per_err_kind(&e)]),
                }
            }
            (5, Carrier::Buf(b)) => {
                let (pos, bit) = (a[0] as usize, a[1] != 0);
                a = &a[2..];
                let r = b.with_write_position_at(pos, |b| b.write_bit(bit));
                status(r, &mut out);
            }
            (8, Carrier::Bits(r)) => {
                r.set_pos(a[0] as usize);
                a = &a[1..];
                out.push(0);
            }
            (9, Carrier::Bits(r)) => {
                let n = r.remaining();
                out.extend([0, n as I]);
            }
            (10, Carrier::Bits(r)) => {
                r.set_len(a[0] as usize);
                a = &a[1..];
                out.push(0);
            }
            _ => return vec![2, 99],
        }
        acc.extend(out);
        match &c {
            Carrier::Buf(b) => {
                acc.extend([
                    b.byte_len() as I,
                    b.bit_len() as I,
                    rpos as I,
                    b.content().last().copied().unwrap_or(0) as I,
                ]);
            }
            Carrier::Bits(r) => {
                acc.extend([slice_len as I, r.len() as I, r.pos() as I, 0]);
            }
        }
    }
    if let Carrier::Buf(b) = &c {
        acc.extend(b.content().iter().map(|b| *b as I));
    }
    let _ = state_rec;
    acc
}

fn enc_pd(r: Result<(), Error>, pos: usize, d: &[u8]) -> Vec<I> {
    match r {
        Ok(()) => {
            let mut o = vec![0, pos as I];
            o.extend(d.iter().map(|b| *b as I));
            o
        }
        Err(e) => vec![1, per_err_kind(&e)],
    }
}

pub fn run(op: I, a: &[I]) -> Vec<I> {
    match op {
        1101 => {
            let (mut pos, soff, slen) = (a[0] as usize, a[1] as usize, a[2] as usize);
            let (mut dst, rest) = take_list(&a[3..]);
            let (src, _) = take_list(rest);
            let r = (&mut dst[..], &mut pos).write_bits_with_offset_len(&src, soff, slen);
            enc_pd(r, pos, &dst)
        }
        1102 => {
            let (mut pos, doff, dlen) = (a[0] as usize, a[1] as usize, a[2] as usize);
            let (src, rest) = take_list(&a[3..]);
            let (mut dst, _) = take_list(rest);
            let r = (&src[..], &mut pos).read_bits_with_offset_len(&mut dst, doff, dlen);
            enc_pd(r, pos, &dst)
        }
        1103 => {
            let mut pos = a[0] as usize;
            let mut dst = bytes_of(&a[2..]);
            let r = (&mut dst[..], &mut pos).write_bit(a[1] != 0);
            enc_pd(r, pos, &dst)
        }
        1104 => {
            let mut pos = a[0] as usize;
            let src = bytes_of(&a[1..]);
            match (&src[..], &mut pos).read_bit() {
                Ok(b) => vec![0, pos as I, b as I],
                Err(e) => vec![1, per_err_kind(&e)],
            }
        }
        1110 => run_seq(Carrier::Buf(BitBuffer::default()), a, 0),
        1111 => {
            let len = a[0] as usize;
            let (sl, ops) = take_list(&a[1..]);
            // Bits::from((slice,len)) debug_asserts len <= 8*slice.len(); the harness keeps to that
            run_seq(Carrier::Bits(Bits::from((&sl[..], len))), ops, sl.len())
        }
        _ => vec![-1],
    }
}
