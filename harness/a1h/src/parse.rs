//! parse / resolve / totality ops (C07, C12, C14). Mirror of coq/Extract/OpsParse.v
//!
//! 3301  input  = code points of ONE module text
//!       output = 0 <model>                                   resolved `Model<Asn<Resolved>>` (Model::try_resolve)
//!              | 1 1 kind <tok>                              parse error      (stage 1)
//!              | 1 2 kind <str>                              resolve error    (stage 2)
//!              | 2 stage class                               panic in stage 0 (tokenizer) / 1 / 2
//!              | -2                                          input is not a sequence of Unicode scalar values
//! 3302  input  = k (len code*len)*k                          k module texts in load order (converter.rs:
//!                                                            Tokenizer -> Model::try_from -> MultiModuleResolver::push,
//!                                                            then try_resolve_all)
//!       output = 0 k <model>*k | 1 1 idx kind <tok> | 1 2 kind <str> | 2 stage class | -2
//! 3303  input  = flags code*                                 flags bit0: also to_protobuf (needs the `protobuf` build)
//!                                                                  bit1: also run the code generators (information only)
//!       output = (stage outcome)*  until the first stage that does not succeed
//!                  stage 0 tokenizer, 1 parser, 2 resolver, 3 to_rust, 4 to_protobuf, 5 RustCodeGenerator, 6 ProtobufDefGenerator
//!                  outcome 0 | 1 kind hastok line column len | 2 class file line msg | -1 (stage not compiled in)
//!                (stages 4, 5, 6 all start from the result of stage 3, so a failure in one does not hide the others)
//!
//! 3304  input  = n1 <3302 input of n1 ints> <3302 input>      two module sets (C12: referencing variant, literal variant)
//!       output = len(answer 1) <answer 1> <answer 2>          the two 3302 answers
//! 3311/3312/3313/3314  input = k <k opaque ints> <input of 3301/3302/3303/3304>; the prefix is the check's own description of
//!       the case (checks/C07.py, C12.py, C14.py decode it in their oracles); output as 3301/3302/3303
//!
//! <model> = <str name> <oid?> nimports (nwhat <str>*nwhat <str from> <oid?>)* ndefs (<str name> <asn>)* nvalrefs (<str name> <asn> <lit>)*
//! <str>   = len code*len
//! <oid?>  = 0 | 1 n comp*n        comp = 0 <str> | 1 number | 2 <str> number
//! <asn>   = <tag> <type> <default?>      <tag> = -1 | class number  (0 UNIVERSAL 1 APPLICATION 2 context 3 PRIVATE)
//! <default?> = 0 | 1 <lit>        <lit> = 0 bool | 1 <str> | 2 int | 3 n byte*n | 4 <str type> <str variant>
//! <type>  = 0 BOOLEAN | 1 <range> <consts> INTEGER | 2 <size> charset (0 utf8 1 numeric 2 printable 3 ia5 4 visible)
//!         | 3 <size> OCTET STRING | 4 <size> <consts> BIT STRING | 5 NULL | 6 <type> Optional | 7 <type> <lit> Default
//!         | 8 <fields> SEQUENCE | 9 <type> <size> SEQUENCE OF | 10 <fields> SET | 11 <type> <size> SET OF
//!         | 12 n (<str> number|-1)*n extension_after|-1  ENUMERATED
//!         | 13 n (<str> <tag> <type>)*n extension_after|-1  CHOICE
//!         | 14 <str> <tag> TypeReference
//! <range> = (0 | 1 min) (0 | 1 max) extensible      <consts> = n (<str> value)*n
//! <size>  = 0 | 1 n ext | 2 min max ext
//! <fields>= n (<str name> <asn>)*n extension_after|-1
//! <tok>   = -1 | 0 line column <str> (text) | 1 line column 1 c (separator)
use crate::I;
use asn1rs_model::asn::{
    Asn, Charset, ComponentTypeList, MultiModuleResolver, ObjectIdentifier, ObjectIdentifierComponent, Size, Tag, Type,
};
use asn1rs_model::parse::{Token, Tokenizer};
use asn1rs_model::resolve::Resolved;
use asn1rs_model::{LiteralValue, Model};

fn text_of(a: &[I]) -> Option<String> {
    let mut s = String::with_capacity(a.len());
    for v in a {
        if *v < 0 || *v > 0x10FFFF {
            return None;
        }
        s.push(char::from_u32(*v as u32)?);
    }
    Some(s)
}

// ------------------------------------------------------------------ dump

fn d_str(o: &mut Vec<I>, s: &str) {
    o.push(s.chars().count() as I);
    o.extend(s.chars().map(|c| c as u32 as I));
}

fn d_oid(o: &mut Vec<I>, oid: &Option<ObjectIdentifier>) {
    match oid {
        None => o.push(0),
        Some(oid) => {
            o.push(1);
            o.push(oid.iter().count() as I);
            for c in oid.iter() {
                match c {
                    ObjectIdentifierComponent::NameForm(n) => {
                        o.push(0);
                        d_str(o, n);
                    }
                    ObjectIdentifierComponent::NumberForm(v) => {
                        o.push(1);
                        o.push(*v as I);
                    }
                    ObjectIdentifierComponent::NameAndNumberForm(n, v) => {
                        o.push(2);
                        d_str(o, n);
                        o.push(*v as I);
                    }
                }
            }
        }
    }
}

fn d_tag(o: &mut Vec<I>, t: &Option<Tag>) {
    match t {
        None => o.push(-1),
        Some(Tag::Universal(n)) => o.extend([0, *n as I]),
        Some(Tag::Application(n)) => o.extend([1, *n as I]),
        Some(Tag::ContextSpecific(n)) => o.extend([2, *n as I]),
        Some(Tag::Private(n)) => o.extend([3, *n as I]),
    }
}

fn d_lit(o: &mut Vec<I>, l: &LiteralValue) {
    match l {
        LiteralValue::Boolean(b) => o.extend([0, *b as I]),
        LiteralValue::String(s) => {
            o.push(1);
            d_str(o, s);
        }
        LiteralValue::Integer(v) => o.extend([2, *v as I]),
        LiteralValue::OctetString(v) => {
            o.push(3);
            o.push(v.len() as I);
            o.extend(v.iter().map(|b| *b as I));
        }
        LiteralValue::EnumeratedVariant(t, v) => {
            o.push(4);
            d_str(o, t);
            d_str(o, v);
        }
    }
}

fn d_size(o: &mut Vec<I>, s: &Size<usize>) {
    match s {
        Size::Any => o.push(0),
        Size::Fix(n, e) => o.extend([1, *n as I, *e as I]),
        Size::Range(a, b, e) => o.extend([2, *a as I, *b as I, *e as I]),
    }
}

fn d_fields(o: &mut Vec<I>, l: &ComponentTypeList<Resolved>) {
    o.push(l.fields.len() as I);
    for f in &l.fields {
        d_str(o, &f.name);
        d_asn(o, &f.role);
    }
    o.push(l.extension_after.map_or(-1, |v| v as I));
}

fn d_type(o: &mut Vec<I>, t: &Type<Resolved>) {
    match t {
        Type::Boolean => o.push(0),
        Type::Integer(i) => {
            o.push(1);
            match i.range.min() {
                None => o.push(0),
                Some(v) => o.extend([1, *v as I]),
            }
            match i.range.max() {
                None => o.push(0),
                Some(v) => o.extend([1, *v as I]),
            }
            o.push(i.range.extensible() as I);
            o.push(i.constants.len() as I);
            for (n, v) in &i.constants {
                d_str(o, n);
                o.push(*v as I);
            }
        }
        Type::String(s, c) => {
            o.push(2);
            d_size(o, s);
            o.push(match c {
                Charset::Utf8 => 0,
                Charset::Numeric => 1,
                Charset::Printable => 2,
                Charset::Ia5 => 3,
                Charset::Visible => 4,
            });
        }
        Type::OctetString(s) => {
            o.push(3);
            d_size(o, s);
        }
        Type::BitString(b) => {
            o.push(4);
            d_size(o, &b.size);
            o.push(b.constants.len() as I);
            for (n, v) in &b.constants {
                d_str(o, n);
                o.push(*v as I);
            }
        }
        Type::Null => o.push(5),
        Type::Optional(i) => {
            o.push(6);
            d_type(o, i);
        }
        Type::Default(i, l) => {
            o.push(7);
            d_type(o, i);
            d_lit(o, l);
        }
        Type::Sequence(l) => {
            o.push(8);
            d_fields(o, l);
        }
        Type::SequenceOf(i, s) => {
            o.push(9);
            d_type(o, i);
            d_size(o, s);
        }
        Type::Set(l) => {
            o.push(10);
            d_fields(o, l);
        }
        Type::SetOf(i, s) => {
            o.push(11);
            d_type(o, i);
            d_size(o, s);
        }
        Type::Enumerated(e) => {
            o.push(12);
            o.push(e.len() as I);
            for v in e.variants() {
                d_str(o, v.name());
                o.push(v.number().map_or(-1, |n| n as I));
            }
            o.push(e.extension_after_index().map_or(-1, |v| v as I));
        }
        Type::Choice(c) => {
            o.push(13);
            o.push(c.len() as I);
            for v in c.variants() {
                d_str(o, &v.name);
                d_tag(o, &v.tag);
                d_type(o, &v.r#type);
            }
            o.push(c.extension_after_index().map_or(-1, |v| v as I));
        }
        Type::TypeReference(n, t) => {
            o.push(14);
            d_str(o, n);
            d_tag(o, t);
        }
    }
}

fn d_asn(o: &mut Vec<I>, a: &Asn<Resolved>) {
    d_tag(o, &a.tag);
    d_type(o, &a.r#type);
    match &a.default {
        None => o.push(0),
        Some(l) => {
            o.push(1);
            d_lit(o, l);
        }
    }
}

fn d_model(o: &mut Vec<I>, m: &Model<Asn<Resolved>>) {
    d_str(o, &m.name);
    d_oid(o, &m.oid);
    o.push(m.imports.len() as I);
    for i in &m.imports {
        o.push(i.what.len() as I);
        for w in &i.what {
            d_str(o, w);
        }
        d_str(o, &i.from);
        d_oid(o, &i.from_oid);
    }
    o.push(m.definitions.len() as I);
    for d in &m.definitions {
        d_str(o, &d.0);
        d_asn(o, &d.1);
    }
    o.push(m.value_references.len() as I);
    for v in &m.value_references {
        d_str(o, &v.name);
        d_asn(o, &v.role);
        d_lit(o, &v.value);
    }
}

fn d_tok(o: &mut Vec<I>, t: Option<&Token>) {
    match t {
        None => o.push(-1),
        Some(Token::Text(l, s)) => {
            o.extend([0, l.line() as I, l.column() as I]);
            d_str(o, s);
        }
        Some(Token::Separator(l, c)) => o.extend([1, l.line() as I, l.column() as I, 1, *c as u32 as I]),
    }
}

// ------------------------------------------------------------------ error kinds

/// `parse::ErrorKind` is not reachable through the public API (private field of `parse::Error`); the variant is
/// recovered from the `Display` text, whose fixed part precedes the token.
fn parse_error_kind(e: &asn1rs_model::parse::Error) -> I {
    let s = e.to_string();
    if s.starts_with("The ASN definition is missing the module name") {
        return 5;
    }
    if s.starts_with("Unexpected end of stream or file") {
        return 6;
    }
    // "At line {}, column {} <fixed text>"
    let rest = s
        .strip_prefix("At line ")
        .map(|r| r.trim_start_matches(|c: char| c.is_ascii_digit()))
        .and_then(|r| r.strip_prefix(", column "))
        .map(|r| r.trim_start_matches(|c: char| c.is_ascii_digit()))
        .and_then(|r| r.strip_prefix(' '));
    let Some(rest) = rest else { return -9 };
    const TABLE: [(&str, I); 13] = [
        ("expected text, but instead got", 0),
        ("expected a text like", 1),
        ("expected separator, but instead got", 2),
        ("expected a separator like", 3),
        ("an unexpected token was encountered", 4),
        ("an unexpected range value was encountered", 7),
        ("an invalid value for an enum variant", 8),
        ("an invalid value for an constant value", 9),
        ("an invalid value for a tag", 10),
        ("an extension marker is present", 11),
        ("a number was expected but instead got", 12),
        ("an (yet) unsupported value reference literal", 13),
        ("an invalid literal was discovered", 14),
    ];
    for (p, k) in TABLE {
        if rest.starts_with(p) {
            return k;
        }
    }
    -9
}

fn d_parse_error(o: &mut Vec<I>, e: &asn1rs_model::parse::Error) {
    o.push(parse_error_kind(e));
    d_tok(o, e.token());
}

fn d_resolve_error(o: &mut Vec<I>, e: &asn1rs_model::resolve::Error) {
    use asn1rs_model::resolve::Error;
    match e {
        Error::FailedToResolveType(n) => {
            o.push(0);
            d_str(o, n);
        }
        Error::FailedToResolveReference(n) => {
            o.push(1);
            d_str(o, n);
        }
        Error::FailedToParseLiteral(n) => {
            o.push(2);
            d_str(o, n);
        }
    }
}

// ------------------------------------------------------------------ panics with their site

fn last_panic() -> String {
    crate::LAST_PANIC.with(|p| p.borrow().clone())
}

/// (file id, line) of "panicked at <file>:<line>:<col>:"
fn panic_site(msg: &str) -> (I, I) {
    let Some(rest) = msg.strip_prefix("panicked at ") else { return (0, 0) };
    let head = rest.lines().next().unwrap_or("");
    let mut parts = head.rsplitn(4, ':');
    // <file>:<line>:<col>:   -> rsplit gives "", col, line, file
    let _ = parts.next();
    let _ = parts.next();
    let line = parts.next().and_then(|l| l.parse::<I>().ok()).unwrap_or(0);
    let file = parts.next().unwrap_or("");
    const FILES: [(&str, I); 16] = [
        ("parse/tokenizer.rs", 1),
        ("asn/model.rs", 2),
        ("asn/mod.rs", 3),
        ("asn/size.rs", 4),
        ("asn/integer.rs", 5),
        ("asn/components.rs", 6),
        ("asn/choice.rs", 7),
        ("asn/enumerated.rs", 8),
        ("asn/resolve_scope.rs", 9),
        ("asn/tag_resolver.rs", 10),
        ("src/rust.rs", 11),
        ("src/protobuf.rs", 12),
        ("generate/rust.rs", 13),
        ("generate/protobuf.rs", 14),
        ("generate/walker.rs", 15),
        ("asn/inner_type_constraints.rs", 16),
    ];
    for (f, id) in FILES {
        if file.ends_with(f) {
            return (id, line);
        }
    }
    if file.contains("/rustc/") || file.contains("library/") {
        return (90, line);
    }
    (99, line)
}

fn panic_msg_code(msg: &str) -> I {
    let body = msg.splitn(2, '\n').nth(1).unwrap_or(msg);
    const TABLE: [(&str, I); 12] = [
        ("unclosed comment blocks", 1),
        ("index out of bounds", 2),
        ("is not a char boundary", 3),
        ("byte index", 3),
        ("out of range for slice", 4),
        ("slice index starts at", 4),
        ("attempt to", 5),
        ("called `Option::unwrap()`", 6),
        ("called `Result::unwrap()`", 6),
        ("requires a tag", 7),
        ("missing a tag", 7),
        ("Invalid string literal", 8),
    ];
    for (p, k) in TABLE {
        if body.contains(p) {
            return k;
        }
    }
    0
}

/// run one stage; a panic becomes `[class, file, line, msg]`
fn stage<T>(f: impl FnOnce() -> T) -> Result<T, [I; 4]> {
    match crate::catch(f) {
        Ok(v) => Ok(v),
        Err(class) => {
            let msg = last_panic();
            let (file, line) = panic_site(&msg);
            Err([class, file, line, panic_msg_code(&msg)])
        }
    }
}

// ------------------------------------------------------------------ stdout silencing (to_rust uses println!)

extern "C" {
    fn dup(fd: i32) -> i32;
    fn dup2(from: i32, to: i32) -> i32;
    fn close(fd: i32) -> i32;
}

/// Run `f` with file descriptor 1 pointing at /dev/null (restored afterwards, also when `f` panics).
fn silenced<T>(f: impl FnOnce() -> T) -> T {
    use std::io::Write;
    use std::os::fd::AsRawFd;
    struct Restore(i32);
    impl Drop for Restore {
        fn drop(&mut self) {
            let _ = std::io::stdout().flush();
            unsafe {
                dup2(self.0, 1);
                close(self.0);
            }
        }
    }
    let _ = std::io::stdout().flush();
    let Ok(null) = std::fs::OpenOptions::new().write(true).open("/dev/null") else { return f() };
    let saved = unsafe { dup(1) };
    if saved < 0 {
        return f();
    }
    unsafe { dup2(null.as_raw_fd(), 1) };
    let _restore = Restore(saved);
    f()
}

// ------------------------------------------------------------------ ops

fn op_3301(a: &[I]) -> Vec<I> {
    let Some(text) = text_of(a) else { return vec![-2] };
    let tokens = match stage(|| Tokenizer::default().parse(&text)) {
        Ok(t) => t,
        Err(p) => return vec![2, 0, p[0]],
    };
    let model = match stage(|| Model::try_from(tokens)) {
        Ok(Ok(m)) => m,
        Ok(Err(e)) => {
            let mut o = vec![1, 1];
            d_parse_error(&mut o, &e);
            return o;
        }
        Err(p) => return vec![2, 1, p[0]],
    };
    let resolved = match stage(|| model.try_resolve()) {
        Ok(Ok(m)) => m,
        Ok(Err(e)) => {
            let mut o = vec![1, 2];
            d_resolve_error(&mut o, &e);
            return o;
        }
        Err(p) => return vec![2, 2, p[0]],
    };
    let mut o = vec![0];
    d_model(&mut o, &resolved);
    o
}

fn split_texts(a: &[I]) -> Option<Vec<String>> {
    let k = *a.first()?;
    if k < 0 {
        return None;
    }
    let mut p = 1usize;
    let mut out = Vec::new();
    for _ in 0..k {
        let len = *a.get(p)?;
        if len < 0 {
            return None;
        }
        p += 1;
        let end = p.checked_add(len as usize)?;
        out.push(text_of(a.get(p..end)?)?);
        p = end;
    }
    if p != a.len() {
        return None;
    }
    Some(out)
}

fn op_3302(a: &[I]) -> Vec<I> {
    let Some(texts) = split_texts(a) else { return vec![-2] };
    let mut resolver = MultiModuleResolver::default();
    for (idx, text) in texts.iter().enumerate() {
        let tokens = match stage(|| Tokenizer::default().parse(text)) {
            Ok(t) => t,
            Err(p) => return vec![2, 0, p[0]],
        };
        match stage(|| Model::try_from(tokens)) {
            Ok(Ok(m)) => resolver.push(m),
            Ok(Err(e)) => {
                let mut o = vec![1, 1, idx as I];
                d_parse_error(&mut o, &e);
                return o;
            }
            Err(p) => return vec![2, 1, p[0]],
        }
    }
    match stage(|| resolver.try_resolve_all()) {
        Ok(Ok(models)) => {
            let mut o = vec![0, models.len() as I];
            for m in &models {
                d_model(&mut o, m);
            }
            o
        }
        Ok(Err(e)) => {
            let mut o = vec![1, 2];
            d_resolve_error(&mut o, &e);
            o
        }
        Err(p) => vec![2, 2, p[0]],
    }
}

fn push_panic(o: &mut Vec<I>, st: I, p: [I; 4]) {
    o.push(st);
    o.push(2);
    o.extend(p);
}

fn op_3303(a: &[I]) -> Vec<I> {
    let Some((&flags, rest)) = a.split_first() else { return vec![-2] };
    let Some(text) = text_of(rest) else { return vec![-2] };
    let mut o = Vec::new();
    let tokens = match stage(|| Tokenizer::default().parse(&text)) {
        Ok(t) => t,
        Err(p) => {
            push_panic(&mut o, 0, p);
            return o;
        }
    };
    o.extend([0, 0]);
    let model = match stage(|| Model::try_from(tokens)) {
        Ok(Ok(m)) => m,
        Ok(Err(e)) => {
            o.extend([1, 1, parse_error_kind(&e)]);
            match e.token() {
                None => o.extend([0, 0, 0, 0]),
                Some(t) => {
                    let len = match t {
                        Token::Text(_, s) => s.chars().count(),
                        Token::Separator(..) => 1,
                    };
                    o.extend([1, t.location().line() as I, t.location().column() as I, len as I]);
                }
            }
            return o;
        }
        Err(p) => {
            push_panic(&mut o, 1, p);
            return o;
        }
    };
    o.extend([1, 0]);
    let resolved = match stage(|| model.try_resolve()) {
        Ok(Ok(m)) => m,
        Ok(Err(e)) => {
            let mut k = Vec::new();
            d_resolve_error(&mut k, &e);
            o.extend([2, 1, k[0], 0, 0, 0, 0]);
            return o;
        }
        Err(p) => {
            push_panic(&mut o, 2, p);
            return o;
        }
    };
    o.extend([2, 0]);
    let rust = match silenced(|| stage(|| resolved.to_rust())) {
        Ok(r) => r,
        Err(p) => {
            push_panic(&mut o, 3, p);
            return o;
        }
    };
    o.extend([3, 0]);
    if flags & 1 != 0 {
        #[cfg(feature = "protobuf")]
        {
            use asn1rs_model::protobuf::ToProtobufModel;
            match silenced(|| stage(|| rust.to_protobuf())) {
                Ok(proto) => {
                    o.extend([4, 0]);
                    if flags & 2 != 0 {
                        use asn1rs_model::generate::protobuf::ProtobufDefGenerator;
                        use asn1rs_model::generate::Generator;
                        match silenced(|| {
                            stage(|| {
                                let mut g = ProtobufDefGenerator::default();
                                g.add_model(proto);
                                g.to_string().is_ok()
                            })
                        }) {
                            Ok(true) => o.extend([6, 0]),
                            Ok(false) => o.extend([6, 1, 0, 0, 0, 0, 0]),
                            Err(p) => push_panic(&mut o, 6, p),
                        }
                    }
                }
                Err(p) => push_panic(&mut o, 4, p),
            }
        }
        #[cfg(not(feature = "protobuf"))]
        o.extend([4, -1]);
    }
    if flags & 2 != 0 {
        use asn1rs_model::generate::rust::RustCodeGenerator;
        use asn1rs_model::generate::Generator;
        match silenced(|| stage(|| RustCodeGenerator::from(rust).to_string().is_ok())) {
            Ok(true) => o.extend([5, 0]),
            Ok(false) => o.extend([5, 1, 0, 0, 0, 0, 0]),
            Err(p) => push_panic(&mut o, 5, p),
        }
    }
    o
}

pub fn run(op: I, a: &[I]) -> Vec<I> {
    match op {
        3301 => op_3301(a),
        3302 => op_3302(a),
        3303 => op_3303(a),
        3304 => {
            // two 3302 inputs: n1 <n1 ints> <rest>; answer = len(answer 1) answer 1 answer 2
            if a.is_empty() || a[0] < 0 || (a[0] as usize) >= a.len() {
                return vec![-2];
            }
            let n1 = a[0] as usize;
            let first = op_3302(&a[1..1 + n1]);
            let second = op_3302(&a[1 + n1..]);
            let mut o = vec![first.len() as I];
            o.extend(first);
            o.extend(second);
            o
        }
        // 331x = 330x behind a prefix `k <k opaque ints>` (the check's own description of the case)
        3311..=3314 if !a.is_empty() && a[0] >= 0 && (a[0] as usize) < a.len() => run(op - 10, &a[1 + a[0] as usize..]),
        3311..=3314 => vec![-2],
        _ => vec![-1],
    }
}
