//! tags ops (C16). Mirror of coq/Extract/OpsTags.v
//!
//! op 3201: a SET/SEQUENCE definition given as integers is rendered as ASN.1 text and pushed through the
//! crate's real pipeline (Tokenizer -> Model::try_from -> try_resolve -> to_rust -> RustCodeGenerator text ->
//! the `#[asn(..)]` attribute macro entry points parse_asn_definition/expand, i.e. what rustc would run on the
//! generated file); the field order of read_seq/write_seq, the TAG constants of the field constraints and the
//! STD_OPTIONAL_FIELDS / EXTENDED_AFTER_FIELD constants are parsed out of the expanded text.
//!
//! input : is_set ext auto n (tc tn ty opt)*n m entry*m
//!           ext  = -1 (no marker) or the number of components written before the `...`
//!           tc   = -1 (untagged) | 0 UNIVERSAL | 1 APPLICATION | 2 context | 3 PRIVATE ; tn = number
//!           ty   = builtin 0..11 | inline 20 ENUMERATED, 21 SEQUENCE, 22 SET | 99 reference to an undefined name
//!                  | 100+j reference to table entry j
//!           opt  = 0 mandatory | 1 OPTIONAL | 2 DEFAULT (rendered as OPTIONAL for kinds without a literal)
//!           entry = tc tn kind [cext k (tc tn ty)*k]   kind as ty, 23 = CHOICE (followed by its alternatives);
//!                  references only to later entries
//! output: 0 n order(n original indices) tags(n x class number) std_optional extended_after(-1 none) own_class own_number
//!         | 1 stage (front end returned an error) | 2 class (panic) | -2 (malformed input)
use crate::I;
use asn1rs_model::generate::rust::RustCodeGenerator;
use asn1rs_model::generate::Generator;
use asn1rs_model::parse::Tokenizer;
use asn1rs_model::Model;

struct Comp {
    tc: I,
    tn: I,
    ty: I,
    opt: I,
}
struct Alt {
    tc: I,
    tn: I,
    ty: I,
}
struct Entry {
    tc: I,
    tn: I,
    kind: I,
    cext: I,
    alts: Vec<Alt>,
}
struct Def {
    is_set: bool,
    ext: I,
    auto: bool,
    comps: Vec<Comp>,
    table: Vec<Entry>,
}

fn builtin_ok(t: I) -> bool {
    (0..=11).contains(&t)
}

fn decode(a: &[I]) -> Option<Def> {
    let mut it = a.iter().copied();
    let is_set = it.next()?;
    let ext = it.next()?;
    let auto = it.next()?;
    let n = it.next()?;
    if !(0..=1).contains(&is_set) || !(0..=1).contains(&auto) || n < 0 || ext < -1 || ext > n {
        return None;
    }
    let mut comps = Vec::new();
    for _ in 0..n {
        let c = Comp { tc: it.next()?, tn: it.next()?, ty: it.next()?, opt: it.next()? };
        if !(-1..=3).contains(&c.tc) || c.tn < 0 || !(0..=2).contains(&c.opt) {
            return None;
        }
        comps.push(c);
    }
    let m = it.next()?;
    if m < 0 {
        return None;
    }
    let mut table = Vec::new();
    for i in 0..m {
        let mut e = Entry { tc: it.next()?, tn: it.next()?, kind: it.next()?, cext: -1, alts: Vec::new() };
        if !(-1..=3).contains(&e.tc) || e.tn < 0 {
            return None;
        }
        let kind_ok = builtin_ok(e.kind)
            || (20..=23).contains(&e.kind)
            || e.kind == 99
            || (e.kind >= 100 && e.kind - 100 > i && e.kind - 100 < m);
        if !kind_ok {
            return None;
        }
        if e.kind == 23 {
            e.cext = it.next()?;
            let k = it.next()?;
            if k < 1 || !(e.cext == -1 || (1..=k).contains(&e.cext)) {
                return None;
            }
            for _ in 0..k {
                let al = Alt { tc: it.next()?, tn: it.next()?, ty: it.next()? };
                let ok = builtin_ok(al.ty) || al.ty == 99 || (al.ty >= 100 && al.ty - 100 > i && al.ty - 100 < m);
                if !(-1..=3).contains(&al.tc) || al.tn < 0 || !ok {
                    return None;
                }
                e.alts.push(al);
            }
        }
        table.push(e);
    }
    if it.next().is_some() {
        return None;
    }
    for c in &comps {
        let ok = builtin_ok(c.ty) || (20..=22).contains(&c.ty) || c.ty == 99 || (c.ty >= 100 && c.ty - 100 < m);
        if !ok {
            return None;
        }
    }
    Some(Def { is_set: is_set == 1, ext, auto: auto == 1, comps, table })
}

fn tag_txt(tc: I, tn: I) -> String {
    match tc {
        -1 => String::new(),
        0 => format!("[UNIVERSAL {}] ", tn),
        1 => format!("[APPLICATION {}] ", tn),
        2 => format!("[{}] ", tn),
        _ => format!("[PRIVATE {}] ", tn),
    }
}

fn type_txt(t: I) -> String {
    match t {
        0 => "BOOLEAN".into(),
        1 => "INTEGER".into(),
        2 => "OCTET STRING".into(),
        3 => "UTF8String".into(),
        4 => "NULL".into(),
        5 => "BIT STRING".into(),
        6 => "IA5String".into(),
        7 => "NumericString".into(),
        8 => "PrintableString".into(),
        9 => "VisibleString".into(),
        10 => "SEQUENCE OF INTEGER".into(),
        11 => "SET OF INTEGER".into(),
        20 => "ENUMERATED { x, y }".into(),
        21 => "SEQUENCE { x INTEGER }".into(),
        22 => "SET { x INTEGER }".into(),
        99 => "Undef".into(),
        j => format!("R{}", j - 100),
    }
}

pub fn render(d: &Def) -> String {
    let mut s = String::new();
    s.push_str("Mod DEFINITIONS ");
    if d.auto {
        s.push_str("AUTOMATIC TAGS ");
    }
    s.push_str("::= BEGIN\n");
    s.push_str(if d.is_set { "Top ::= SET {" } else { "Top ::= SEQUENCE {" });
    let mut parts: Vec<String> = Vec::new();
    for (i, c) in d.comps.iter().enumerate() {
        if d.ext == i as I {
            parts.push(" ...".into());
        }
        let suffix = match (c.opt, c.ty) {
            (0, _) => "",
            (2, 0) => " DEFAULT FALSE",
            (2, 1) => " DEFAULT 0",
            _ => " OPTIONAL",
        };
        parts.push(format!(" c{} {}{}{}", i, tag_txt(c.tc, c.tn), type_txt(c.ty), suffix));
    }
    if d.ext == d.comps.len() as I {
        parts.push(" ...".into());
    }
    s.push_str(&parts.join(","));
    s.push_str(" }\n");
    for (i, e) in d.table.iter().enumerate() {
        s.push_str(&format!("R{} ::= {}", i, tag_txt(e.tc, e.tn)));
        if e.kind == 23 {
            s.push_str("CHOICE {");
            let mut parts: Vec<String> = Vec::new();
            for (k, al) in e.alts.iter().enumerate() {
                if e.cext == k as I {
                    parts.push(" ...".into());
                }
                parts.push(format!(" a{} {}{}", k, tag_txt(al.tc, al.tn), type_txt(al.ty)));
            }
            if e.cext == e.alts.len() as I {
                parts.push(" ...".into());
            }
            s.push_str(&parts.join(","));
            s.push_str(" }\n");
        } else {
            s.push_str(&type_txt(e.kind));
            s.push('\n');
        }
    }
    s.push_str("END\n");
    s
}

/// `#[asn(<attr>)]` + item text of `pub struct Top { .. }` in the generated file
fn split_top(text: &str) -> Option<(String, String)> {
    let lines: Vec<&str> = text.lines().collect();
    let at = lines.iter().position(|l| {
        l.strip_prefix("pub struct Top").map_or(false, |r| r.starts_with(' ') || r.starts_with(';') || r.starts_with('{'))
    })?;
    // walk back over the attribute lines of the item
    let mut first = at;
    while first > 0 && (lines[first - 1].starts_with("#[") || lines[first - 1].trim().is_empty()) {
        first -= 1;
    }
    let mut attr = None;
    let mut item = String::new();
    for l in &lines[first..at] {
        if attr.is_none() && l.starts_with("#[asn(") && l.ends_with(")]") {
            attr = Some(l[6..l.len() - 2].to_string());
        } else {
            item.push_str(l);
            item.push('\n');
        }
    }
    let mut end = at;
    if !lines[at].trim_end().ends_with("{}") && !lines[at].trim_end().ends_with(';') {
        while end < lines.len() && lines[end] != "}" {
            end += 1;
        }
    }
    for l in &lines[at..=end.min(lines.len() - 1)] {
        item.push_str(l);
        item.push('\n');
    }
    Some((attr?, item))
}

fn class_code(name: &str) -> I {
    match name {
        "Universal" => 0,
        "Application" => 1,
        "ContextSpecific" => 2,
        "Private" => 3,
        _ => -9,
    }
}

fn digits(s: &str) -> (Option<usize>, &str) {
    let end = s.find(|c: char| !c.is_ascii_digit()).unwrap_or(s.len());
    (s[..end].parse().ok(), &s[end..])
}

/// all occurrences of `pre <digits> post` in `s`, returning the digits and the remainder after `post`
fn scan<'a>(s: &'a str, pre: &str, post: &str) -> Vec<(usize, &'a str)> {
    let mut out = Vec::new();
    let mut rest = s;
    while let Some(p) = rest.find(pre) {
        let after = &rest[p + pre.len()..];
        let (d, r) = digits(after);
        if let Some(d) = d {
            if let Some(r2) = r.strip_prefix(post) {
                out.push((d, r2));
            }
        }
        rest = after;
    }
    out
}

fn between<'a>(s: &'a str, pre: &str, post: &str) -> Option<&'a str> {
    let p = s.find(pre)?;
    let after = &s[p + pre.len()..];
    let q = after.find(post)?;
    Some(&after[..q])
}

extern "C" {
    fn dup(fd: i32) -> i32;
    fn dup2(from: i32, to: i32) -> i32;
    fn close(fd: i32) -> i32;
}

/// Run `f` with file descriptor 1 pointing at /dev/null (restored afterwards, also when `f` panics).
fn silenced<T>(f: impl FnOnce() -> T) -> T {
    use std::io::Write;
    use std::os::fd::AsRawFd;
    struct Restore(i32);
    impl Drop for Restore {
        fn drop(&mut self) {
            let _ = std::io::stdout().flush();
            unsafe {
                dup2(self.0, 1);
                close(self.0);
            }
        }
    }
    let _ = std::io::stdout().flush();
    let Ok(null) = std::fs::OpenOptions::new().write(true).open("/dev/null") else { return f() };
    let saved = unsafe { dup(1) };
    if saved < 0 {
        return f();
    }
    unsafe { dup2(null.as_raw_fd(), 1) };
    let _restore = Restore(saved);
    f()
}

fn op_3201(a: &[I]) -> Vec<I> {
    let Some(d) = decode(a) else { return vec![-2] };
    let text = render(&d);
    let debug = std::env::var("A1H_TAGS_DEBUG").is_ok();
    if debug {
        eprintln!("{}", text);
    }
    let tokens = Tokenizer.parse(&text);
    let model = match Model::try_from(tokens) {
        Ok(m) => m,
        Err(_) => return vec![1, 1],
    };
    let model = match model.try_resolve() {
        Ok(m) => m,
        Err(_) => return vec![1, 2],
    };
    let rust = model.to_rust();
    let files = match RustCodeGenerator::from(rust).to_string() {
        Ok(f) => f,
        Err(_) => return vec![1, 3],
    };
    let generated = files.into_iter().map(|(_f, c)| c).collect::<Vec<_>>().join("\n");
    if debug {
        eprintln!("{}", generated);
    }
    let Some((attr, item)) = split_top(&generated) else { return vec![1, 4] };
    let (Ok(attr_ts), Ok(item_ts)) = (attr.parse(), item.parse()) else { return vec![1, 5] };
    // the attribute parser reports failures with println!; keep that off the answer stream
    let expanded = silenced(|| {
        let definition = match asn1rs_model::proc_macro::parse_asn_definition(attr_ts, item_ts) {
            Ok((def, _item)) => def,
            Err(_) => return Err(6),
        };
        if definition.is_none() {
            return Err(7);
        }
        Ok(asn1rs_model::proc_macro::expand(definition)
            .iter()
            .map(|ts| ts.to_string())
            .collect::<Vec<_>>()
            .join(" "))
    });
    let expanded = match expanded {
        Ok(e) => e,
        Err(stage) => return vec![1, stage],
    };
    if debug {
        eprintln!("{}", expanded);
    }
    let compact: String = expanded.chars().filter(|c| !c.is_whitespace()).collect();

    let n = d.comps.len();
    // field order of read_seq / write_seq
    let Some(read_body) = between(&compact, "fnread_seq<", "fnwrite_seq<") else { return vec![1, 8] };
    let read_order: Vec<usize> = scan(read_body, ":AsnDefTopFieldC", "::read_value(reader)?").iter().map(|x| x.0).collect();
    let Some(p) = compact.find("fnwrite_seq<") else { return vec![1, 8] };
    let write_body = &compact[p..];
    let write_body = &write_body[..write_body.find("Ok(())").unwrap_or(write_body.len())];
    let write_order: Vec<usize> = scan(write_body, "AsnDefTopFieldC", "::write_value(writer,&self.c").iter().map(|x| x.0).collect();
    if read_order != write_order || read_order.len() != n {
        return vec![1, 9];
    }
    // TAG constants of the field constraints
    let mut tags: Vec<Option<(I, I)>> = vec![None; n];
    for (i, rest) in scan(
        &compact,
        "common::Constraintfor___asn1rs_TopFieldC",
        "Constraint{constTAG:::asn1rs::model::asn::Tag=::asn1rs::model::asn::Tag::",
    ) {
        let name_end = rest.find('(').unwrap_or(0);
        let (num, _) = digits(&rest[name_end + 1..]);
        if i < n {
            if let Some(num) = num {
                tags[i] = Some((class_code(&rest[..name_end]), num as I));
            }
        }
    }
    let Some(std_opt) = between(&compact, "constSTD_OPTIONAL_FIELDS:u64=", ";").and_then(|s| s.parse::<I>().ok()) else {
        return vec![1, 10];
    };
    let ext_after = match between(&compact, "constEXTENDED_AFTER_FIELD:Option<u64>=", ";") {
        Some("None") => -1,
        Some(s) => match s.strip_prefix("Some(").and_then(|s| s.strip_suffix(')')).and_then(|s| s.parse::<I>().ok()) {
            Some(v) => v,
            None => return vec![1, 10],
        },
        None => return vec![1, 10],
    };
    let mut out = vec![0, n as I];
    out.extend(read_order.iter().map(|i| *i as I));
    for i in &read_order {
        match tags[*i] {
            Some((c, num)) => {
                out.push(c);
                out.push(num);
            }
            None => return vec![1, 11],
        }
    }
    out.push(std_opt);
    out.push(ext_after);
    // the TAG constant of the SET/SEQUENCE type itself
    let own_pre = "common::ConstraintforTop{constTAG:::asn1rs::model::asn::Tag=::asn1rs::model::asn::Tag::";
    let Some(p) = compact.find(own_pre) else { return vec![1, 12] };
    let rest = &compact[p + own_pre.len()..];
    let name_end = rest.find('(').unwrap_or(0);
    let (num, _) = digits(&rest[name_end + 1..]);
    let Some(num) = num else { return vec![1, 12] };
    out.push(class_code(&rest[..name_end]));
    out.push(num as I);
    out
}

pub fn run(op: I, a: &[I]) -> Vec<I> {
    match op {
        3201 => match crate::catch(|| op_3201(a)) {
            Ok(v) => v,
            Err(c) => vec![2, c],
        },
        _ => vec![-1],
    }
}
