//! uper ops. Stub until the layer is built. Mirror of coq/Extract/Ops*.v
use crate::I;

pub fn run(_op: I, _a: &[I]) -> Vec<I> {
    vec![-1]
}
