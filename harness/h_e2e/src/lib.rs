#![allow(unused, dead_code, non_camel_case_types, non_snake_case, non_upper_case_globals, unreachable_patterns)]
