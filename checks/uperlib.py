"""Types and values of the L2 (UPER) ops: Python mirror of the integer encoding used by
coq/Extract/OpsUper.v and harness/a1h/src/uper.rs, generators on the fixed constant grid
(gen/uper_grid.py) and the ASN.1-level predicates the oracles need (sat, equality)."""
import os
import sys

ROOT = os.path.dirname(os.path.dirname(os.path.abspath(__file__)))
sys.path.insert(0, os.path.join(ROOT, "gen"))
import uper_grid as G  # noqa: E402

I64_MIN, I64_MAX = -2**63, 2**63 - 1
KIND_RANGE = {0: (0, 2**8 - 1), 1: (-2**7, 2**7 - 1), 2: (0, 2**16 - 1), 3: (-2**15, 2**15 - 1),
              4: (0, 2**32 - 1), 5: (-2**31, 2**31 - 1), 6: (0, 2**64 - 1), 7: (-2**63, 2**63 - 1)}
CS_UTF8, CS_IA5, CS_NUM, CS_PRINT, CS_VIS = range(5)
PRINTABLE = " '()+,-./0123456789:=?ABCDEFGHIJKLMNOPQRSTUVWXYZabcdefghijklmnopqrstuvwxyz"

# types are tuples: ("bool",) ("null",) ("int", k, (hl,lo,hh,hi,ext)) ("str", cs, (lo,hi,ext)) ("oct", (lo,hi,ext))
# ("bits", (lo,hi,ext)) ("list", elem, (lo,hi,ext)) ("seq", [(fk, default|None, ty)...], (so, fc, ea))
# ("choice", [ty...], (std, ext)) ("enum", vc, (std, ext));   fk in "req","opt","def"
# values: ("bool",b) ("null",) ("int",z) ("str",[codes]) ("oct",[bytes]) ("bits",[bytes],bl) ("list",[v]) ("seq",[v|None]) ("choice",i,v) ("enum",i)


def enc_ty(t):
    k = t[0]
    if k == "bool":
        return [0]
    if k == "null":
        return [1]
    if k == "int":
        hl, lo, hh, hi, ext = t[2]
        return [2, t[1], int(hl), lo, int(hh), hi, int(ext)]
    if k == "str":
        lo, hi, ext = t[2]
        return [3, t[1], lo, hi, int(ext)]
    if k == "oct":
        lo, hi, ext = t[1]
        return [4, lo, hi, int(ext)]
    if k == "bits":
        lo, hi, ext = t[1]
        return [5, lo, hi, int(ext)]
    if k == "list":
        lo, hi, ext = t[2]
        return [6, lo, hi, int(ext)] + enc_ty(t[1])
    if k == "seq":
        so, fc, ea = t[2]
        o = [7, so, fc, ea, len(t[1])]
        for fk, d, ft in t[1]:
            if fk == "req":
                o.append(0)
            elif fk == "opt":
                o.append(1)
            else:
                o.append(2)
                o += enc_val(d)
            o += enc_ty(ft)
        return o
    if k == "choice":
        std, ext = t[2]
        o = [8, std, int(ext), len(t[1])]
        for a in t[1]:
            o += enc_ty(a)
        return o
    if k == "enum":
        std, ext = t[2]
        return [9, t[1], std, int(ext)]
    raise ValueError(t)


def enc_val(v):
    k = v[0]
    if k == "bool":
        return [0, int(v[1])]
    if k == "null":
        return [1]
    if k == "int":
        return [2, v[1]]
    if k == "str":
        return [3, len(v[1])] + list(v[1])
    if k == "oct":
        return [4, len(v[1])] + list(v[1])
    if k == "bits":
        return [5, v[2], len(v[1])] + list(v[1])
    if k == "list":
        o = [6, len(v[1])]
        for x in v[1]:
            o += enc_val(x)
        return o
    if k == "seq":
        o = [7, len(v[1])]
        for x in v[1]:
            if x is None:
                o.append(0)
            else:
                o.append(1)
                o += enc_val(x)
        return o
    if k == "choice":
        return [8, v[1]] + enc_val(v[2])
    if k == "enum":
        return [9, v[1]]
    raise ValueError(v)


def dec_val(o, i=0):
    """-> (value, next index)"""
    tag = o[i]
    if tag == 0:
        return ("bool", bool(o[i + 1])), i + 2
    if tag == 1:
        return ("null",), i + 1
    if tag == 2:
        return ("int", o[i + 1]), i + 2
    if tag == 3:
        n = o[i + 1]
        return ("str", list(o[i + 2:i + 2 + n])), i + 2 + n
    if tag == 4:
        n = o[i + 1]
        return ("oct", list(o[i + 2:i + 2 + n])), i + 2 + n
    if tag == 5:
        bl, n = o[i + 1], o[i + 2]
        return ("bits", list(o[i + 3:i + 3 + n]), bl), i + 3 + n
    if tag == 6:
        n = o[i + 1]
        i += 2
        vs = []
        for _ in range(n):
            v, i = dec_val(o, i)
            vs.append(v)
        return ("list", vs), i
    if tag == 7:
        n = o[i + 1]
        i += 2
        vs = []
        for _ in range(n):
            if o[i] == 0:
                vs.append(None)
                i += 1
            else:
                v, i = dec_val(o, i + 1)
                vs.append(v)
        return ("seq", vs), i
    if tag == 8:
        idx = o[i + 1]
        v, i = dec_val(o, i + 2)
        return ("choice", idx, v), i
    if tag == 9:
        return ("enum", o[i + 1]), i + 2
    raise ValueError("bad value tag %r at %d" % (tag, i))


def veq(a, b):
    return a == b


# ---------------------------------------------------------------- constraint satisfaction (ASN.1 level)
def cs_valid(cs, ch):
    if cs == CS_UTF8:
        return True
    if cs == CS_NUM:
        return ch == 32 or 48 <= ch <= 57
    if cs == CS_PRINT:
        return ch < 128 and chr(ch) in PRINTABLE
    if cs == CS_IA5:
        return ch <= 127
    return 32 <= ch <= 126


def in_size(n, key):
    lo, hi, _ = key
    return (lo < 0 or n >= lo) and (hi < 0 or n <= hi)


def sat(t, v, root_only=False):
    """does v satisfy the constraint of t (extensible constraints admit anything of the right kind unless root_only)"""
    k = t[0]
    if k in ("bool", "null"):
        return True
    if k == "int":
        hl, lo, hh, hi, ext = t[2]
        ok = (not hl or v[1] >= lo) and (not hh or v[1] <= hi)
        return ok or (ext and not root_only)
    if k == "str":
        if not all(cs_valid(t[1], c) for c in v[1]):
            return False
        return in_size(len(v[1]), t[2]) or (t[2][2] and not root_only)
    if k == "oct":
        return in_size(len(v[1]), t[1]) or (t[1][2] and not root_only)
    if k == "bits":
        return in_size(v[2], t[1]) or (t[1][2] and not root_only)
    if k == "list":
        return (in_size(len(v[1]), t[2]) or (t[2][2] and not root_only)) and all(sat(t[1], x, root_only) for x in v[1])
    if k == "seq":
        for (fk, d, ft), x in zip(t[1], v[1]):
            if x is not None and not sat(ft, x, root_only):
                return False
        return True
    if k == "choice":
        std, ext = t[2]
        if v[1] >= len(t[1]):
            return False
        if v[1] >= std and not ext:
            return False
        return sat(t[1][v[1]], v[2], root_only)
    if k == "enum":
        std, ext = t[2]
        return v[1] < t[1] and (v[1] < std or ext)
    return True


# ---------------------------------------------------------------- generators on the grid
def consistent_seq(fields, ea):
    """descriptor constants as the compiler derives them"""
    fc = len(fields)
    nroot = fc if ea < 0 else ea + 1
    so = sum(1 for (fk, _, _) in fields[:nroot] if fk != "req")
    return (so, fc, ea)


def gen_ty(rng, depth, allow_null=True):
    kinds = ["bool", "int", "int", "str", "oct", "bits", "enum"]
    if allow_null:
        kinds.append("null")
    if depth > 0:
        kinds += ["seq", "seq", "seq", "list", "choice"]
    k = rng.choice(kinds)
    if k == "bool":
        return ("bool",)
    if k == "null":
        return ("null",)
    if k == "int":
        while True:
            key = rng.choice(G.NUM)
            kind = rng.randrange(8)
            klo, khi = KIND_RANGE[kind]
            hl, lo, hh, hi, ext = key
            # the compiler only pairs a range with a kind that can hold it
            if (not hl or lo >= klo) and (not hh or hi <= khi) and (hl or klo >= 0 or True):
                if not hh and not ext and hl:
                    continue   # semi-constrained INTEGER is not emitted by the compiler
                if hh and not hl and not ext:
                    continue
                return ("int", kind, key)
    if k == "str":
        while True:
            key = rng.choice(G.SIZE)
            if key[1] > 300 or key[0] > 300:
                if rng.random() < 0.9:
                    continue
            return ("str", rng.randrange(5), key)
    if k in ("oct", "bits"):
        while True:
            key = rng.choice(G.SIZE)
            if (key[1] > 300 or key[0] > 300) and rng.random() < 0.9:
                continue
            return (k, key)
    if k == "list":
        while True:
            key = rng.choice(G.SIZE)
            if key[0] > 20 or (key[0] >= 0 and key[1] >= 0 and key[0] == key[1] and key[0] > 8):
                continue
            return ("list", gen_ty(rng, depth - 1), key)
    if k == "enum":
        std, ext = rng.choice(G.ENUM)
        if std == 0:
            std = 1
        vc = std + (rng.randrange(0, 4) if ext else 0)
        return ("enum", vc, (std, ext))
    if k == "choice":
        while True:
            std, ext = rng.choice(G.CHOICE)
            if std == 0:
                continue
            n = std + (rng.randrange(0, 3) if ext else 0)
            if n > 8:
                continue
            return ("choice", [gen_ty(rng, depth - 1) for _ in range(n)], (std, ext))
    if k == "seq":
        n = rng.randrange(0, 6)
        ea = rng.choice([-1, -1] + list(range(-1, n)))
        fields = []
        for i in range(n):
            ft = gen_ty(rng, depth - 1)
            in_root = ea < 0 or i <= ea
            r = rng.random()
            if in_root:
                fk = "req" if r < 0.4 else ("opt" if r < 0.8 else "def")
            else:
                # extension additions: OPTIONAL mostly (the only shape the generated code wraps as open type)
                fk = "opt" if r < 0.8 else ("req" if r < 0.9 else "def")
            d = None
            if fk == "def":
                d = gen_val(rng, ft, "valid")
            fields.append((fk, d, ft))
        so, fc, ea2 = consistent_seq(fields, ea)
        if so > 6 or (so, fc, ea2) not in G.SEQ:
            return ("bool",)
        return ("seq", fields, (so, fc, ea2))
    raise AssertionError


def gen_len(rng, key, mode):
    lo, hi, ext = key
    l = max(lo, 0)
    u = hi if hi >= 0 else l + 40
    if mode == "valid":
        if u - l > 300:
            return rng.choice([l, l + 1, l + rng.randrange(0, 20), 127, 128, 129]) if l <= 127 else l
        return rng.choice([l, u, rng.randint(l, u)])
    if mode == "ext":       # anything (used with extensible constraints)
        return rng.choice([max(0, l - 1), u + 1, u + rng.randrange(1, 5), 0])
    # "bad": just outside
    cands = [x for x in (l - 1, u + 1) if x >= 0 and (x < l or (hi >= 0 and x > hi))]
    return rng.choice(cands) if cands else None


def gen_chars(rng, cs, n, bad_at=None):
    out = []
    for i in range(n):
        if cs == CS_UTF8:
            c = rng.choice([rng.randrange(32, 127), 0xE4, 0x20AC, 0x1F600, 0x7F, 0])
        elif cs == CS_NUM:
            c = rng.choice([32] + list(range(48, 58)))
        elif cs == CS_PRINT:
            c = ord(rng.choice(PRINTABLE))
        elif cs == CS_IA5:
            c = rng.randrange(0, 128)
        else:
            c = rng.randrange(32, 127)
        out.append(c)
    if bad_at is not None and n > 0:
        bad = {CS_NUM: [47, 58, 65, 0x130], CS_PRINT: [42, 59, 64, 0x80, 0x141], CS_IA5: [128, 0xE4, 0x20AC, 0x141],
               CS_VIS: [31, 127, 128, 0xE4, 0x141]}.get(cs)
        if bad:
            out[bad_at % n] = rng.choice(bad)
    return out


def gen_val(rng, t, mode="valid"):
    """mode: valid (inside the root), ext (outside the root where the constraint is extensible, else valid)"""
    k = t[0]
    if k == "bool":
        return ("bool", rng.random() < 0.5)
    if k == "null":
        return ("null",)
    if k == "int":
        hl, lo, hh, hi, ext = t[2]
        klo, khi = KIND_RANGE[t[1]]
        l = lo if hl else (0 if (hh or ext) and not hl and False else klo)
        # the writer treats a missing MIN as 0 and a missing MAX as i64::MAX when the other bound (or EXT) is present
        if not hl and (hh or ext):
            l = max(klo, 0)
        u = hi if hh else min(khi, I64_MAX)
        l, u = max(l, klo), min(u, khi)
        if mode == "ext" and ext:
            cands = [x for x in (lo - 1 if hl else None, hi + 1 if hh else None, klo, khi, 0) if x is not None and klo <= x <= khi]
            return ("int", rng.choice(cands))
        if l > u:
            return ("int", l)
        return ("int", rng.choice([l, u, (l + u) // 2, rng.randint(l, u), min(u, l + 1), max(l, u - 1)]))
    if k == "str":
        n = gen_len(rng, t[2], mode if (mode == "valid" or t[2][2]) else "valid")
        return ("str", gen_chars(rng, t[1], n))
    if k == "oct":
        n = gen_len(rng, t[1], mode if (mode == "valid" or t[1][2]) else "valid")
        return ("oct", [rng.randrange(256) for _ in range(n)])
    if k == "bits":
        n = gen_len(rng, t[1], mode if (mode == "valid" or t[1][2]) else "valid")
        nb = (n + 7) // 8
        bs = [rng.randrange(256) for _ in range(nb)]
        if n % 8:
            bs[-1] &= (0xFF << (8 - n % 8)) & 0xFF
        return ("bits", bs, n)
    if k == "list":
        n = gen_len(rng, t[2], mode if (mode == "valid" or t[2][2]) else "valid")
        n = min(n, 12)
        if not in_size(n, t[2]) and not t[2][2]:
            n = max(t[2][0], 0)
        return ("list", [gen_val(rng, t[1], mode) for _ in range(n)])
    if k == "seq":
        so, fc, ea = t[2]
        vs = []
        for i, (fk, d, ft) in enumerate(t[1]):
            if fk == "req":
                vs.append(gen_val(rng, ft, mode))
            elif fk == "opt":
                vs.append(gen_val(rng, ft, mode) if rng.random() < 0.6 else None)
            else:
                vs.append(d if rng.random() < 0.4 else gen_val(rng, ft, mode))
        # the encoder insists that additions are present "all or none" only in the sense first-absent => later-absent
        if ea >= 0:
            adds = range(ea + 1, fc)
            seen_absent = False
            for i in adds:
                fk, d, ft = t[1][i]
                present = vs[i] is not None and not (fk == "def" and vs[i] == d)
                if not present:
                    seen_absent = True
                elif seen_absent and rng.random() < 0.9:
                    # make it consistent: drop later additions after the first absent one
                    if fk == "opt":
                        vs[i] = None
                    elif fk == "def":
                        vs[i] = d
        return ("seq", vs)
    if k == "choice":
        std, ext = t[2]
        n = len(t[1])
        i = rng.randrange(n)
        return ("choice", i, gen_val(rng, t[1][i], mode))
    if k == "enum":
        return ("enum", rng.randrange(t[1]))
    raise AssertionError


def has_kind(t, pred):
    if pred(t):
        return True
    k = t[0]
    if k == "list":
        return has_kind(t[1], pred)
    if k == "seq":
        return any(has_kind(ft, pred) for _, _, ft in t[1])
    if k == "choice":
        return any(has_kind(a, pred) for a in t[1])
    return False


def line(op, ints):
    return "%d %s" % (op, " ".join(map(str, ints)))
