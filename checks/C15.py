"""C15 -- the Rust type chosen for an INTEGER can hold every permitted value.

Cases (see coq/Extract/OpsIntTy.v / harness/a1h/src/intty.rs):
  3101 lo_kind lo hi_kind hi ext      type chosen for  T ::= INTEGER (<lo>..<hi>[,...])
  3102 ...                            text of the generated value_min()/value_max()
  3103 n (lo_kind lo hi_kind hi ext)* 3101 for n definitions of one module
  3104 ...                            MIN/MIN_T/MAX/MAX_T/EXTENSIBLE emitted by generate/walker.rs
bound kind 0 = literal, 1 = MIN/MAX keyword, 2 = absent (plain INTEGER).

The oracle below is written from the property, not from the model: it computes the interval the constraint
permits within 64 bits and checks set inclusion / minimality / width / accessor values against what the crate
answered."""
from vlib import Spec

I64_MIN, I64_MAX, U64_MAX = -2 ** 63, 2 ** 63 - 1, 2 ** 64 - 1
#            code: (min, max, width, signed)
KINDS = {0: (0, 2 ** 8 - 1, 8, False), 1: (-2 ** 7, 2 ** 7 - 1, 8, True),
         2: (0, 2 ** 16 - 1, 16, False), 3: (-2 ** 15, 2 ** 15 - 1, 16, True),
         4: (0, 2 ** 32 - 1, 32, False), 5: (-2 ** 31, 2 ** 31 - 1, 32, True),
         6: (0, U64_MAX, 64, False), 7: (I64_MIN, I64_MAX, 64, True)}
KNAME = {0: "u8", 1: "i8", 2: "u16", 3: "i16", 4: "u32", 5: "i32", 6: "u64", 7: "i64"}


def boundary_set():
    b = {0}
    for k in range(64):
        for s in (1, -1):
            for d in (-1, 0, 1):
                b.add(s * 2 ** k + d)
    return b


SMALL = set(range(-20, 21)) | {s * v for s in (1, -1) for v in (100, 126, 127, 128, 129, 130, 200, 254, 255, 256, 257, 258, 300)}
B0 = sorted(boundary_set())
B = sorted(boundary_set() | SMALL)
BATCH = 64


def required(lk, lo, hk, hi):
    """The interval [lo', hi'] the constraint permits within 64 bits, and the signedness it calls for.
    No lower bound (MIN / absent) = i64::MIN; no upper bound = the largest 64-bit value of that signedness."""
    lo2 = lo if lk == 0 else I64_MIN
    need_signed = lo2 < 0
    hi2 = hi if hk == 0 else (I64_MAX if need_signed else U64_MAX)
    return lo2, hi2, need_signed


def src_text(lk, lo, hk, hi, ext):
    if lk == 2:
        return "INTEGER"
    return "INTEGER (%s..%s%s)" % (lo if lk == 0 else "MIN", hi if hk == 0 else "MAX", ",..." if ext else "")


def parse_rust_int(codes):
    """value of a Rust integer literal expression `[-]d[_d]*`; None when it is not one"""
    s = "".join(map(chr, codes))
    neg = s.startswith("-")
    body = s[1:] if neg else s
    if not body or body[0] == "_" or not all(c.isdigit() or c == "_" for c in body) or "__" in body:
        return None
    v = int(body.replace("_", ""))
    return -v if neg else v


class C15(Spec):
    prop = "C15"
    coq_targets = ["Props/C15.vo"]
    prop_module = "Props.C15"
    theorems = ["C15_total", "C15_holds_all", "C15_narrowest", "C15_ext_is_64", "C15_accessors", "C15_declared_bounds",
                "C15_refuted_class", "C15_refuted_no_lower_bound", "C15_refuted_unconstrained", "C15_refuted_max_keyword"]
    builds = [("default", "dev"), ("default", "release")]
    timeout_per_chunk = 300
    level_text = ("Theorems by pure Z arithmetic for all of i64 x i64 (and MIN/MAX/absent bounds, extensible or not) about a "
                  "hand-written model of Integer::try_from/try_resolve (range part), asn_fixed_integer_to_rust_type, "
                  "asn_extensible_integer_to_rust, integer_range_str, format_number_nicely and the walker's integer constants; "
                  "thresholds generated from rust.rs; model tied to the crate by exhaustive differential execution over the "
                  "boundary set (dev and release builds). Full outside the listed classes; the classes are refuted by witnesses.")
    rule = ("all ordered pairs (lo,hi) of B = {0, +-1, +-2^k, +-2^k+-1 : k<=63} u {-20..20, +-100, +-126..130, +-200, +-254..258, +-300} "
            "(incl. lo>hi and literals outside i64, for model/implementation agreement), each non-extensible and extensible "
            "-- pairs of i64 literals in modules of 64 definitions per case line (op 3103), the rest one per line; "
            "every b in B with MIN.. / ..MAX, MIN..MAX, plain INTEGER; accessor text (3102) and walker constants (3104) for "
            "all (b,b), keyword variants and a random sample of pairs; batched modules (3103). "
            "non-trivial = the front end produced a type; distinct = distinct case line")
    assumptions_text = ["a one-definition module without value references (bounds that are value references are C12)",
                        "decimal Display of the primitive integer types = Coq's Z.to_int digits",
                        "'within 64 bits': a negative or absent lower bound calls for i64, otherwise u64"]

    # ------------------------------------------------------------------ cases
    def gen(self, rng, tier):
        L = []
        inb = [b for b in B if I64_MIN <= b <= I64_MAX]
        outb = [b for b in B if not (I64_MIN <= b <= I64_MAX)]
        # every ordered pair of B, both extensibility flags (both tiers).  Pairs of i64 literals go through
        # 3103 in modules of BATCH definitions (one case line = BATCH pairs); a literal outside i64 makes the
        # whole module fail to resolve, so those pairs go one by one through 3101.
        for ext in (0, 1):
            cur = []
            for lo in inb:
                for hi in inb:
                    cur += [0, lo, 0, hi, ext]
                    if len(cur) == 5 * BATCH:
                        L.append("3103 %d %s" % (BATCH, " ".join(map(str, cur))))
                        cur = []
            if cur:
                L.append("3103 %d %s" % (len(cur) // 5, " ".join(map(str, cur))))
            for o in outb:
                for b in B:
                    L.append("3101 0 %d 0 %d %d" % (o, b, ext))
                    if b not in outb:
                        L.append("3101 0 %d 0 %d %d" % (b, o, ext))
            # the same pairs one by one on the diagonal band and the thresholds (plain 3101 path)
            for i, lo in enumerate(inb):
                for hi in inb[max(0, i - 2):i + 3]:
                    L.append("3101 0 %d 0 %d %d" % (lo, hi, ext))
            for b in B:
                L.append("3101 1 0 0 %d %d" % (b, ext))
                L.append("3101 0 %d 1 0 %d" % (b, ext))
            L.append("3101 1 0 1 0 %d" % ext)
        L.append("3101 2 0 2 0 0")
        # malformed requests (both sides must answer -1)
        L += ["3101 2 0 2 0 1", "3101 2 0 0 5 0", "3101 0 5 2 0 0", "3101 3 0 0 5 0", "3101 0 0 0 5"]
        # accessors and walker constants
        sample = []
        for ext in (0, 1):
            for b in B:
                sample.append((0, b, 0, b, ext))
                sample.append((1, 0, 0, b, ext))
                sample.append((0, b, 1, 0, ext))
            sample.append((1, 0, 1, 0, ext))
        sample.append((2, 0, 2, 0, 0))
        n_rand = 3000 if tier == "quick" else 40000
        for _ in range(n_rand):
            a, b = rng.choice(inb), rng.choice(inb)
            if rng.random() < 0.85 and a > b:
                a, b = b, a
            sample.append((0, a, 0, b, rng.randrange(2)))
        for _ in range(n_rand // 3):
            a = rng.randint(I64_MIN, I64_MAX) >> rng.randrange(64)
            b = rng.randint(I64_MIN, I64_MAX) >> rng.randrange(64)
            if a > b:
                a, b = b, a
            sample.append((0, a, 0, b, rng.randrange(2)))
        for s in sample:
            L.append("3102 %d %d %d %d %d" % s)
            L.append("3104 %d %d %d %d %d" % s)
        # random full-range pairs through 3101 as well
        for _ in range(n_rand):
            a = rng.randint(I64_MIN, I64_MAX) >> rng.randrange(64)
            b = rng.randint(I64_MIN, I64_MAX) >> rng.randrange(64)
            if rng.random() < 0.85 and a > b:
                a, b = b, a
            L.append("3101 0 %d 0 %d %d" % (a, b, rng.randrange(2)))
        # batched modules
        for _ in range(200 if tier == "quick" else 3000):
            n = rng.choice([1, 2, 3, 10, 50])
            items = []
            for _ in range(n):
                r = rng.random()
                pool = inb if rng.random() < 0.97 else B
                if r < 0.8:
                    a, b = rng.choice(pool), rng.choice(pool)
                    if a > b and rng.random() < 0.8:
                        a, b = b, a
                    items += [0, a, 0, b, rng.randrange(2)]
                elif r < 0.87:
                    items += [1, 0, 0, rng.choice(pool), rng.randrange(2)]
                elif r < 0.94:
                    items += [0, rng.choice(pool), 1, 0, rng.randrange(2)]
                elif r < 0.97:
                    items += [1, 0, 1, 0, rng.randrange(2)]
                else:
                    items += [2, 0, 2, 0, 0]
            L.append("3103 %d %s" % (n, " ".join(map(str, items))))
        return L

    # ------------------------------------------------------------------ the property
    def _check_type(self, lk, lo, hk, hi, ext, d):
        """d = [kind has_min min has_max max ext] as reported by the crate for this definition"""
        kind, has_min, rmin, has_max, rmax, rext = d
        src = src_text(lk, lo, hk, hi, ext)
        if kind not in KINDS:
            return ("intty_not_an_integer_type", "%s mapped to a non-integer type" % src)
        kmin, kmax, width, sgn = KINDS[kind]
        lo2, hi2, need_signed = required(lk, lo, hk, hi)
        if rext != ext:
            return ("extensibility_lost", "%s: extensible flag of the Rust range is %d" % (src, rext))
        if not (kmin <= lo2 and hi2 <= kmax):
            if lk != 0 and not sgn and ext and hk == 0 and hi < 0:
                # the listed family F15-1 does not reach here: an extensible range with a negative upper bound is mapped to i64
                return ("no_lower_bound_unsigned_negative_upper_extensible",
                        "%s -> %s: not even the upper bound fits the unsigned type" % (src, KNAME[kind]))
            if lk != 0 and not sgn:
                return ("no_lower_bound_unsigned",
                        "%s -> %s: no lower bound (MIN/absent) is taken as 0: negative values permitted by the constraint "
                        "(e.g. %d) do not fit" % (src, KNAME[kind], min(-1, hi2)))
            return ("type_too_narrow", "%s -> %s cannot hold [%d, %d]" % (src, KNAME[kind], lo2, hi2))
        if ext:
            if width != 64:
                return ("ext_not_64", "%s -> %s: extensible range not mapped to a 64-bit type" % (src, KNAME[kind]))
        else:
            best = min(w for (a, b, w, s) in KINDS.values() if a <= lo2 and hi2 <= b)
            if width != best:
                return ("not_narrowest", "%s -> %s although a %d-bit type suffices" % (src, KNAME[kind], best))
            if sgn != need_signed:
                return ("wrong_signedness", "%s -> %s" % (src, KNAME[kind]))
        # bounds as the crate's model keeps them
        if has_min:
            want = lo if lk == 0 else kmin
            if rmin != want:
                return ("declared_bound_mismatch", "%s -> %s keeps lower bound %d" % (src, KNAME[kind], rmin))
        if has_max:
            if hk == 0:
                if rmax != hi:
                    return ("declared_bound_mismatch", "%s -> %s keeps upper bound %d" % (src, KNAME[kind], rmax))
            elif rmax != kmax:
                if kind == 6 and rmax == I64_MAX:
                    return ("max_keyword_i64max_on_u64",
                            "%s -> u64 with upper bound i64::MAX: MAX (no upper bound) is cut to i64::MAX on an unsigned 64-bit type" % src)
                return ("declared_bound_mismatch", "%s -> %s keeps upper bound %d" % (src, KNAME[kind], rmax))
        return None

    def oracle(self, line, out, build):
        a = list(map(int, line.split()))
        o = list(map(int, out.split()))
        op = a[0]
        if o[:1] in ([2], [3]):
            return ("intty_panic", "front end / generator panicked or crashed: %s" % out)
        if o[:1] == [-1]:
            return None
        if op == 3103:
            n = a[1]
            items = [a[2 + 5 * i:7 + 5 * i] for i in range(n)]
        else:
            if len(a) != 6:
                return None
            items = [a[1:6]]
        lit_ok = all((it[0] != 0 or I64_MIN <= it[1] <= I64_MAX) and (it[2] != 0 or I64_MIN <= it[3] <= I64_MAX)
                     for it in items)
        if o[:1] == [1]:
            if lit_ok:
                return ("front_end_rejects_i64_range", "rejected although every literal bound is an i64: %s" % out)
            return None            # a literal outside i64 cannot be held by the crate's model at all: not this property
        if o[:1] != [0]:
            return ("intty_unexpected_answer", out)
        if op in (3101, 3103):
            body = o[1:]
            if len(body) != 6 * len(items):
                return ("intty_unexpected_answer", out)
            for i, (lk, lo, hk, hi, ext) in enumerate(items):
                if lk == 0 and hk == 0 and lo > hi:
                    continue       # empty range: nothing is permitted
                r = self._check_type(lk, lo, hk, hi, ext, body[6 * i:6 * i + 6])
                if r is not None:
                    return r
            return None
        lk, lo, hk, hi, ext = items[0]
        if lk == 0 and hk == 0 and lo > hi:
            return None
        src = src_text(lk, lo, hk, hi, ext)
        if lk != 0 and o[1] in KINDS and not KINDS[o[1]][3] and ext and hk == 0 and hi < 0:
            return ("no_lower_bound_unsigned_negative_upper_extensible",
                    "%s -> %s: not even the upper bound fits the unsigned type" % (src, KNAME[o[1]]))
        if lk != 0 and o[1] in KINDS and not KINDS[o[1]][3]:
            # same family as on 3101: the accessor's return type / the constants' type is the unsigned type
            return ("no_lower_bound_unsigned",
                    "%s -> %s: no lower bound (MIN/absent) is taken as 0; accessors and constants are those of the "
                    "unsigned type%s" % (src, KNAME[o[1]],
                                         " (upper bound wrapped to %d)" % (hi % 2 ** 64) if hk == 0 and hi < 0 else ""))
        if op == 3102:
            kmn, kmx = o[1], o[2]
            n1 = o[3]
            tmin = o[4:4 + n1]
            n2 = o[4 + n1]
            tmax = o[5 + n1:5 + n1 + n2]
            if kmn != kmx or kmn not in KINDS:
                return ("accessor_type_mismatch", "%s: value_min/value_max return types differ or are not integers" % src)
            kmin, kmax, width, sgn = KINDS[kmn]
            vmin, vmax = parse_rust_int(tmin), parse_rust_int(tmax)
            if vmin is None or vmax is None:
                return ("accessor_not_a_literal", "%s: accessor body is not an integer literal: %r / %r" %
                        (src, "".join(map(chr, tmin)), "".join(map(chr, tmax))))
            if not (kmin <= vmin <= kmax and kmin <= vmax <= kmax):
                return ("accessor_out_of_type", "%s: accessor value does not fit its return type %s" % (src, KNAME[kmn]))
            want_min = lo if lk == 0 else kmin
            if vmin != want_min:
                return ("accessor_min_mismatch", "%s: value_min() = %d, declared %s" % (src, vmin, want_min))
            if hk == 0:
                if vmax != hi:
                    return ("accessor_max_mismatch", "%s: value_max() = %d, declared %d" % (src, vmax, hi))
            elif vmax != kmax:
                if kmn == 6 and vmax == I64_MAX:
                    return ("max_keyword_i64max_on_u64",
                            "%s: value_max() of the u64 type is i64::MAX although no upper bound was declared" % src)
                return ("accessor_max_mismatch", "%s: value_max() = %d" % (src, vmax))
            return None
        if op == 3104:
            kind, hmin, cmin, hmint, cmint, hmax, cmax, hmaxt, cmaxt, cext = o[1:11]
            if kind not in KINDS:
                return ("intty_not_an_integer_type", src)
            kmin, kmax, width, sgn = KINDS[kind]
            if (hmin, cmin) != (hmint, cmint) or (hmax, cmax) != (hmaxt, cmaxt):
                return ("walker_consts_differ", "%s: MIN/MIN_T or MAX/MAX_T differ" % src)
            if cext != ext:
                return ("extensibility_lost", "%s: EXTENSIBLE = %d" % (src, cext))
            if hmin and cmin != (lo if lk == 0 else kmin):
                return ("declared_bound_mismatch", "%s: const MIN = %d" % (src, cmin))
            if hmax:
                if hk == 0:
                    if cmax != hi:
                        return ("declared_bound_mismatch", "%s: const MAX = %d" % (src, cmax))
                elif cmax != kmax:
                    if kind == 6 and cmax == I64_MAX:
                        return ("max_keyword_i64max_on_u64", "%s: const MAX of the u64 type is i64::MAX" % src)
                    return ("declared_bound_mismatch", "%s: const MAX = %d" % (src, cmax))
            # a constant that is emitted must fit i64 (MIN/MAX are Option<i64>) and the field type (MIN_T/MAX_T)
            for h, c in ((hmin, cmin), (hmax, cmax)):
                if h and not (I64_MIN <= c <= I64_MAX and kmin <= c <= kmax):
                    return ("walker_const_out_of_type", "%s: constant %d" % (src, c))
            return None
        return None

    def nontrivial(self, line, out):
        return out.startswith("0 ")


SPEC = C15()
