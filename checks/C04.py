import random
from vlib import Spec, run_model
import uperlib as U
import dectype


def zoo(seed, n):
    rng = random.Random(seed)
    out = []
    while len(out) < n:
        t = U.gen_ty(rng, rng.randrange(0, 4))
        if t not in out:
            out.append(t)
    return out


def mutate(rng, bs):
    bs = list(bs)
    for _ in range(rng.randrange(1, 4)):
        k = rng.randrange(5)
        if k == 0 and bs:
            bs = bs[:rng.randrange(len(bs))]
        elif k == 1 and bs:
            i = rng.randrange(len(bs))
            bs[i] ^= 1 << rng.randrange(8)
        elif k == 2:
            bs.insert(rng.randrange(len(bs) + 1), rng.choice([0, 0xFF, 0x80, 0xC0, 0xC4, 0x7F, rng.randrange(256)]))
        elif k == 3 and bs:
            del bs[rng.randrange(len(bs))]
        elif bs:
            i = rng.randrange(min(len(bs), 4))
            bs[i] = rng.choice([0xFF, 0xC0, 0xC1, 0xC4, 0x80, 0xBF, 0x7F, 0x00])
    return bs


class C04(Spec):
    prop = "C04"
    coq_targets = ["Props/C04.vo"]
    prop_module = "Props.C04"
    theorems = ['C04_bit_copy_no_panic', 'C04_per_readers_no_panic', 'C04_octetstring_reader_no_panic', 'C04_refuted_untrusted_length_alloc', 'C04_read_bit_within_len', 'C04_read_bits_within_len', 'C04_der_total', 'C04_uper_total', 'C04_uper_total_bytes', 'C04_src_of_bytes_inv', 'C04_remaining_callable', 'C04_remaining_in_invariant', 'C04_pos_le_len_preserved', 'C04_entry_total', 'C04_refuted_size_octets', 'C04_refuted_size_string', 'C04_refuted_size_bitstring', 'C04_refuted_size_sequence_of', 'C04_refuted_size_large_upper', 'C04_refuted_bitstring_unconstrained', 'C04_refuted_bitstring_extensible', 'C04_ext_count_overflow_is_error', 'C04_proto_total', 'C04_proto_refuted_nested_list', 'C04_proto_no_overread', 'C04_proto_primitives_total', 'C04_nonvacuous']
    builds = [("default", "dev"), ("default", "release"), ("protobuf", "dev"), ("protobuf", "release")]
    timeout_per_chunk = 600
    xcheck_n = 100
    level_text = ("Totality statements (no Panic outcome, no success beyond the declared length) over the reader halves of the model "
                  "(L0-L2 UPER, DER primitives, protobuf reader), with every partial Rust operation an explicit Panic; tied to the crate by "
                  "differential execution on random bytes and on truncations / bit flips / insertions / deletions of valid encodings, the "
                  "child process running under a memory limit and a time limit.")
    rule = ("for each of 80 zoo types (grid types, depth <= 3): random byte strings (0-24 bytes) with bit lengths {0, 8k-1, 8k, 8len}, and valid "
            "encodings (produced by the model's encoder) mutated by 1-3 of {truncate, flip bit, insert byte, delete byte, overwrite a leading "
            "byte with a boundary value}; DER primitive readers and BasicReader arms on random bytes; protobuf reader on random bytes for its "
            "20 zoo types. non-trivial = the reader consumed at least one bit or rejected after a length field; distinct = distinct case line")
    assumptions_text = ["allocation above 4 GiB is treated as unbounded (RLIMIT_AS 4 GiB, time limit per chunk)",
                        "the remaining-bit accessor is probed after every read"]

    def applies(self, line, build):
        proto = line.startswith("4")
        return proto == (build[0] == "protobuf")

    def gen(self, rng, tier):
        q = tier == "quick"
        L = []
        types = zoo(20260923, 80 if q else 300)
        per = 25 if q else 400
        # transmitted counts and lengths at the edge of usize, placed at every count / length position of simple shapes:
        # the addition count of an extensible SEQUENCE read by a reader that knows 0..3 additions, the length of an unconstrained
        # OCTET STRING / SEQUENCE OF, the index of an extensible CHOICE / ENUMERATED (normally small number in its long form)
        def bits_to_line(t, bits):
            bs = []
            for i in range(0, len(bits), 8):
                ch = bits[i:i + 8] + [0] * (8 - len(bits[i:i + 8]))
                x = 0
                for b in ch:
                    x = 2 * x + b
                bs.append(x)
            return U.line(1202, U.enc_ty(t) + [len(bits)] + bs)
        huge = [2 ** 64 - 1, 2 ** 64 - 2, 2 ** 64 - 64, 2 ** 63, 2 ** 63 - 1, 2 ** 32, 2 ** 32 - 1, 2 ** 31, 65536]
        def nsnn_long(v, octets=8):
            return [1] + [int(c) for c in format(octets, "08b")] + [int(c) for c in format(v, "0%db" % (8 * octets))]
        for known in range(0, 4):
            fields = [("req", None, ("bool",))] + [("opt", None, ("bool",))] * known
            key = U.consistent_seq(fields, 0)
            if key not in U.G.SEQ:
                continue
            t = ("seq", fields, key)
            for v in huge:
                for tail in ([], [1] * 9, [0] * 70, [1, 0] * 40):
                    L.append(bits_to_line(t, [1, 1] + nsnn_long(v) + tail))
        for t in [("choice", [("bool",), ("bool",)], (1, True)), ("enum", 3, (2, True))]:
            if (t[0] == "choice" and t[2] in U.G.CHOICE) or (t[0] == "enum" and t[2] in U.G.ENUM):
                for v in huge:
                    L.append(bits_to_line(t, [1] + nsnn_long(v) + [0] * 16))
        # valid encodings from the model's encoder
        enc_lines = []
        enc_types = []
        for t in types:
            for _ in range(3 if q else 10):
                v = U.gen_val(rng, t, rng.choice(["valid", "valid", "ext"]))
                enc_lines.append(U.line(1201, [1] + U.enc_ty(t) + U.enc_val(v)))
                enc_types.append(t)
        enc_out = run_model(enc_lines, mode="release", timeout=600)
        valid = {}
        for t, o in zip(enc_types, enc_out):
            oo = o.split()
            if oo[:1] == ["0"]:
                nb = int(oo[2])
                if nb <= 3000:
                    valid.setdefault(id(t), []).append((int(oo[1]), list(map(int, oo[3:3 + nb]))))
        for t in types:
            et = U.enc_ty(t)
            for _ in range(per):
                r = rng.random()
                vs = valid.get(id(t))
                if r < 0.45 and vs:
                    bl, bs = rng.choice(vs)
                    bs = mutate(rng, bs)
                    bl = rng.choice([8 * len(bs), min(bl, 8 * len(bs)), max(0, 8 * len(bs) - rng.randrange(8))])
                else:
                    n = rng.randrange(0, 25)
                    bs = [rng.choice([0, 0xFF, 0x80, 0xC0, 0xC1, 0xC4, 0x7F, 1, rng.randrange(256)]) for _ in range(n)]
                    bl = rng.choice([8 * n, 8 * n, max(0, 8 * n - 1), rng.randrange(0, 8 * n + 1), 0])
                L.append(U.line(1202, et + [bl] + bs))
        # DER readers
        for _ in range(1500 if q else 50000):
            n = rng.randrange(0, 12)
            bs = [rng.choice([0, 1, 2, 0x7f, 0x80, 0x81, 0x82, 0x88, 0x89, 0xff, rng.randrange(256)]) for _ in range(n)]
            op = rng.choice([2010, 2011, 2012, 2013, 2014, 2015, 2016, 2017])
            if op in (2013, 2014):
                pre = [rng.choice([0, 1, 2, 7, 8, 9, 255, 256, 2 ** 32 - 1])]
            elif op == 2015:
                pre = [rng.randrange(8), rng.randrange(31)]
            elif op == 2016:
                pre = [rng.randrange(31)]
            elif op == 2017:
                pre = [rng.choice([0, 1, 3, 300]), rng.randrange(31)]
            else:
                pre = []
            if pre and bs and op in (2015, 2016, 2017) and rng.random() < 0.7:
                bs[0] = pre[-1]
            L.append("%d %s" % (op, " ".join(map(str, pre + bs))))
        # protobuf reader (zoo types 1..20 of harness/a1h/src/proto.rs)
        for _ in range(2500 if q else 80000):
            n = rng.randrange(0, 20)
            bs = [rng.choice([0, 1, 8, 10, 16, 18, 0x80, 0xFF, 5, rng.randrange(256)]) for _ in range(n)]
            if rng.random() < 0.2:
                # varint hazards: runs of 8..12 continuation octets (the longest legal varint has 10 octets) at a tag, value or
                # length position, terminated or not
                run = [rng.choice([0x80, 0xFF, 0x81]) for _ in range(rng.choice([8, 9, 10, 11, 12]))] + \
                      rng.choice([[], [0], [1], [0x7F], [0x02, 7]])
                at = rng.randrange(0, min(len(bs), 3) + 1)
                bs = bs[:at] + run + bs[at:]
            L.append("4060 %d 0 %s" % (rng.randrange(1, 21), " ".join(map(str, bs))))
        # ... and the raw varint primitives on the same hazards (ops 4010..4018)
        for k in (1, 2, 9, 10, 11, 12, 13):
            for fill in (0x80, 0xFF):
                for tail in ([], [0], [1], [0x7F], [0x80]):
                    for op in range(4010, 4019):
                        L.append("%d %s" % (op, " ".join(map(str, [fill] * k + tail))))
        return L

    def canon(self, out):
        if out.startswith("3 ") or out in ("2 7 0", "2 3 0", "2 7", "2 3"):
            return "UNBOUNDED"
        return out

    def oracle(self, line, out, build):
        a = list(map(int, line.split()))
        o = list(map(int, out.split()))
        op = a[0]
        res = []
        if op == 1202:
            t, i = dectype.dec_ty(a, 1)
            bl = a[i]
            if o[0] in (2, 3):
                res.append((self._cls_uper(t, o), "UPER reader panicked/crashed: %s" % out[:30]))
                return res
            if o[0] == 0:
                # ... value ..., then `0 remaining`
                try:
                    _, j = U.dec_val(o, 1)
                except Exception:
                    return [("malformed_answer", out[:60])]
                if o[j] != 0:
                    res.append(("remaining_not_callable", "bits_remaining() panicked after a successful read: %s" % o[j:j + 2]))
                elif o[j + 1] > bl:
                    res.append(("read_past_len", "success with more bits remaining than declared"))
            else:
                if o[2] != 0:
                    res.append(("remaining_not_callable", "bits_remaining() panicked after a failed read: %s" % o[2:4]))
            return res or None
        if o[0] in (2, 3):
            who = "der" if op < 3000 else "proto"
            cls = who + "_reader_panics"
            if who == "proto" and (o[0] == 3 or o[1:2] == [7]) and a[1] == 19:
                cls = "proto_reader_unbounded_nested_list"   # zoo type 19 = SEQUENCE OF SEQUENCE OF (F17-3)
            if op == 4015 and len(a) - 1 < 8:
                cls = "proto_read_bit_vec_short_input"       # the public primitive on fewer than 8 octets (F17-6)
            return (cls, "%s reader panicked/crashed on arbitrary bytes: %s" % (who, out[:30]))
        return None

    def _cls_uper(self, t, o):
        unbounded = o[0] == 3 or o[1:2] in ([3], [7])
        semi = U.has_kind(t, lambda tt: (tt[0] in ("oct", "bits") and self._f10(tt[1])) or (tt[0] in ("str", "list") and self._f10(tt[2])))
        if unbounded and semi:
            return "untrusted_length_alloc_semi_or_large_size"
        if U.has_kind(t, lambda tt: tt[0] == "bits") and not unbounded:
            return "bitstring_fragment_arithmetic"
        if unbounded and U.has_kind(t, lambda tt: tt[0] == "bits"):
            return "bitstring_fragment_arithmetic"
        return "uper_reader_panics"

    def _f10(self, key):
        return (key[0] >= 0 or key[1] >= 0) and (key[1] < 0 or key[1] >= 65536)

    def nontrivial(self, line, out):
        return len(line.split()) > 6


SPEC = C04()
