import C04 as C04mod
from vlib import Spec, run_lines
import uperlib as U


class C19(Spec):
    prop = "C19"
    coq_targets = ["Props/C19.vo"]
    prop_module = "Props.C19"
    theorems = []
    # the same inputs go through both feature builds; the model has no diagnostics state at all, so
    # agreement of each build with the model is the erasure statement, and the two builds are also
    # compared with each other directly (extra_checks)
    builds = [("default", "dev"), ("descr", "dev"), ("default", "release"), ("descr", "release")]
    timeout_per_chunk = 600
    xcheck_n = 60
    level_text = ("Non-interference: the model of the UPER reader carries no diagnostics state, and every "
                  "#[cfg(feature = \"descriptive-deserialize-errors\")] block of rw/uper.rs is a push onto a log (audited syntactically "
                  "by gen/cfg_audit.py); both real builds are tied to that one model by differential execution on valid, mutated and random "
                  "inputs, and compared with each other line by line (same Ok value or error kind, same bits consumed).")
    rule = ("the C04 UPER input set (80 zoo types x random byte strings and mutated valid encodings with varied declared bit lengths) run through "
            "the harness built with default features and with --features descriptive-deserialize-errors, dev and release; plus full round trips. "
            "non-trivial = the read consumed at least one bit or failed after a length field; distinct = distinct case line")
    assumptions_text = ["Cargo feature unification: the harness feature 'descr' enables asn1rs/descriptive-deserialize-errors"]

    def gen(self, rng, tier):
        base = C04mod.SPEC.gen(rng, tier)
        L = [l for l in base if l.startswith("1202")]
        # and some complete write/read histories
        for _ in range(600 if tier == "quick" else 20000):
            t = U.gen_ty(rng, rng.randrange(0, 4))
            v = U.gen_val(rng, t, rng.choice(["valid", "ext"]))
            L.append(U.line(1201, [1] + U.enc_ty(t) + U.enc_val(v)))
        return L

    def canon(self, out):
        if out.startswith("3 ") or out in ("2 7 0", "2 3 0", "2 7", "2 3") or out.endswith(" 2 7") or out.endswith(" 2 3"):
            return "UNBOUNDED"
        return out

    def oracle(self, line, out, build):
        return None     # the property is relational: judged in extra_checks

    def extra_checks(self, ctx):
        lines = ctx["lines"]
        exes = ctx["exes"]
        n_cmp = 0
        for prof in ("dev", "release"):
            a, b = exes.get(("default", prof)), exes.get(("descr", prof))
            if not a or not b:
                continue
            oa = run_lines([a], lines, timeout=self.timeout_per_chunk, mem_gb=self.mem_gb)
            ob = run_lines([b], lines, timeout=self.timeout_per_chunk, mem_gb=self.mem_gb)
            for l, x, y in zip(lines, oa, ob):
                n_cmp += 1
                if self.canon(x) != self.canon(y):
                    ctx["oracle_fail"].append({"case": l, "build": ["default+descr", prof], "impl": (x + " || " + y)[:400],
                                               "class": "feature_changes_result",
                                               "what": "default build answers %s, descriptive-deserialize-errors build answers %s" % (x[:80], y[:80])})
        ctx.setdefault("coverage_extra", {})["cross_build_comparisons"] = n_cmp
        # syntactic audit of the cfg-gated blocks (sentinel, not verdict)
        try:
            import sys, os
            sys.path.insert(0, os.path.join(os.path.dirname(os.path.dirname(os.path.abspath(__file__))), "gen"))
            import cfg_audit
            ctx["coverage_extra"]["cfg_blocks"] = cfg_audit.audit()
        except Exception as e:      # pragma: no cover
            ctx["coverage_extra"]["cfg_blocks"] = "audit failed: %s" % e

    def nontrivial(self, line, out):
        return len(line.split()) > 6


SPEC = C19()
