import C04 as C04mod
from vlib import Spec, run_lines
import uperlib as U


class C19(Spec):
    prop = "C19"
    coq_targets = ["Props/C19.vo"]
    prop_module = "Props.C19"
    theorems = ["C19_erasure", "C19_erasure_history"]
    # ops 1201/1202: the same inputs go through both feature builds and the log-free model (Uper/Reader.v), and the
    # two builds are also compared with each other directly (extra_checks).
    # op 1204 (feature builds only): the same read through `Reader::read`, answered by the model WITH the log
    # (Uper/ReaderD.v, the one C19_erasure is about); on a failure both sides print the log that ends up in
    # `Error::scope_description()` as one constructor code per entry, so the log model itself is tied.
    # the feature build first: the in-Coq cross-check of the extracted driver samples the first build, so it covers op 1204
    builds = [("descr", "dev"), ("default", "dev"), ("default", "release"), ("descr", "release")]
    timeout_per_chunk = 600
    xcheck_n = 60
    level_text = ("Erasure proof: Uper/ReaderD.v models the reader as built with the feature (state = state of the default-build model "
                  "plus the log; each of the 44 #[cfg(feature = \"descriptive-deserialize-errors\")] items of rw/uper.rs is a push of a "
                  "constructor code at its program point, pushes that follow a computed result are executed for Ok and Err alike, errors carry "
                  "the log); C19_erasure proves that dropping the log gives exactly the default-build model (same Ok value, error kind, panic "
                  "class, cursor, length and scope), C19_erasure_history the same for several reads from one reader. Ties: both real builds "
                  "against the log-free model on ops 1201/1202 (hard), the two builds against each other line by line, and the feature build "
                  "against the log model on op 1204, where on every failing read the sequence of ScopeDescription constructors in "
                  "Error::scope_description() must equal the model's log entry by entry (hard as well; only the enumerated-index warning is "
                  "filtered on both sides, because the harness' EnumC has the constant VARIANT_COUNT = 0 and so provokes it for every index; "
                  "payloads of the entries are not modelled). The cfg items are additionally audited syntactically by gen/cfg_audit.py.")
    rule = ("the C04 UPER input set (80 zoo types x random byte strings and mutated valid encodings with varied declared bit lengths) run through "
            "the harness built with default features and with --features descriptive-deserialize-errors, dev and release; plus full round trips. "
            "non-trivial = the read consumed at least one bit or failed after a length field; distinct = distinct case line")
    assumptions_text = ["Cargo feature unification: the harness feature 'descr' enables asn1rs/descriptive-deserialize-errors"]

    def gen(self, rng, tier):
        base = C04mod.SPEC.gen(rng, tier)
        L = [l for l in base if l.startswith("1202")]
        # and some complete write/read histories
        for _ in range(600 if tier == "quick" else 20000):
            t = U.gen_ty(rng, rng.randrange(0, 4))
            v = U.gen_val(rng, t, rng.choice(["valid", "ext"]))
            L.append(U.line(1201, [1] + U.enc_ty(t) + U.enc_val(v)))
        # the log model: every raw read once more as op 1204 (answered only by the feature builds)
        L += ["1204" + l[4:] for l in L if l.startswith("1202 ")]
        return L

    def applies(self, line, build):
        return build[0] == "descr" or not line.startswith("1204")

    def canon(self, out):
        if out.startswith("3 ") or out in ("2 7 0", "2 3 0", "2 7", "2 3") or out.endswith(" 2 7") or out.endswith(" 2 3"):
            return "UNBOUNDED"
        return out

    def oracle(self, line, out, build):
        return None     # the property is relational: judged in extra_checks

    def extra_checks(self, ctx):
        all_lines = ctx["lines"]
        lines = [l for l in all_lines if not l.startswith("1204")]
        exes = ctx["exes"]
        n_cmp = 0
        for prof in ("dev", "release"):
            a, b = exes.get(("default", prof)), exes.get(("descr", prof))
            if not a or not b:
                continue
            oa = run_lines([a], lines, timeout=self.timeout_per_chunk, mem_gb=self.mem_gb)
            ob = run_lines([b], lines, timeout=self.timeout_per_chunk, mem_gb=self.mem_gb)
            for l, x, y in zip(lines, oa, ob):
                n_cmp += 1
                if self.canon(x) != self.canon(y):
                    ctx["oracle_fail"].append({"case": l, "build": ["default+descr", prof], "impl": (x + " || " + y)[:400],
                                               "class": "feature_changes_result",
                                               "what": "default build answers %s, descriptive-deserialize-errors build answers %s" % (x[:80], y[:80])})
        ctx.setdefault("coverage_extra", {})["cross_build_comparisons"] = n_cmp
        # how much of the log model was exercised by op 1204 (the comparison itself is part of the ordinary tie)
        d = exes.get(("descr", "dev"))
        l4 = [l for l in all_lines if l.startswith("1204")]
        if d and l4:
            o4 = run_lines([d], l4, timeout=self.timeout_per_chunk, mem_gb=self.mem_gb)
            fails = [o.split() for o in o4 if o.startswith("1 ")]
            kinds = set()
            for f in fails:
                kinds.update(f[4:])
            ctx["coverage_extra"]["log_model"] = {
                "op1204_cases": len(l4), "failing_reads_with_log_compared": len(fails),
                "log_entries_compared": sum(int(f[3]) for f in fails if len(f) > 3),
                "longest_log": max([int(f[3]) for f in fails if len(f) > 3] or [0]),
                "distinct_entry_codes_seen": sorted(int(k) for k in kinds)}
        # syntactic audit of the cfg-gated blocks (sentinel, not verdict)
        try:
            import sys, os
            sys.path.insert(0, os.path.join(os.path.dirname(os.path.dirname(os.path.abspath(__file__))), "gen"))
            import cfg_audit
            ctx["coverage_extra"]["cfg_blocks"] = cfg_audit.audit()
        except Exception as e:      # pragma: no cover
            ctx["coverage_extra"]["cfg_blocks"] = "audit failed: %s" % e

    def nontrivial(self, line, out):
        return len(line.split()) > 6


SPEC = C19()
