"""C09 -- every accepted module yields Rust code that rustc accepts.

Ops (harness/a1h/src/codegen.rs):
  3402 <code point>...   module text(s) -> the identifiers found in the generated text (+ the item names of the macro
                         expansion) with their namespace/scope, and the constant declarations with type and literal
  3403 <code point>...   module text(s) -> the generated Rust file(s)                  (both implementation-only)
  3410 kind <code point>...   the crate's name mangling functions; mirrored by coq/Front/Codegen.v (tie of the model)

ORACLES (independent of any model):
  (a) logic, from op 3402: every emitted identifier matches the Rust identifier grammar, is not a keyword of the 2021
      edition unless written as a raw identifier (`self`, `Self`, `super`, `crate` cannot be raw), no two names of one
      namespace/scope coincide, every integer constant literal fits its declared type;
  (b) the real rustc (extra_checks): the generated files of a zoo of modules are compiled in harness/h_e2e with
      `cargo check`; a module the front end accepts whose generated code rustc rejects is a failure, classified by
      rustc's own diagnostics.  A module the front end rejects with an error satisfies the property.
"""
import hashlib
import json
import os
import re
import shutil
import subprocess
import time

import vlib
from vlib import Spec
from C08 import (BOOL, CH, EN, FIX, INT, NULL, REF, RNG, SEQ, SET, STR, UTF8, C, Gen, M, T, line_of, render_module,
                 templates, nonidem_module)

# --------------------------------------------------------------------------------------------- Rust lexical facts
# The Rust Reference, "Keywords" (2021 edition)
STRICT = ["as", "break", "const", "continue", "crate", "else", "enum", "extern", "false", "fn", "for", "if", "impl", "in",
          "let", "loop", "match", "mod", "move", "mut", "pub", "ref", "return", "self", "Self", "static", "struct", "super",
          "trait", "true", "type", "unsafe", "use", "where", "while", "async", "await", "dyn"]
RESERVED = ["abstract", "become", "box", "do", "final", "macro", "override", "priv", "typeof", "unsized", "virtual", "yield", "try"]
KEYWORDS = STRICT + RESERVED
NOT_RAW = {"self", "Self", "super", "crate"}          # The Rust Reference, "Identifiers": these cannot be raw identifiers
INT_TYPES = {"u8": (0, 2 ** 8 - 1), "i8": (-2 ** 7, 2 ** 7 - 1), "u16": (0, 2 ** 16 - 1), "i16": (-2 ** 15, 2 ** 15 - 1),
             "u32": (0, 2 ** 32 - 1), "i32": (-2 ** 31, 2 ** 31 - 1), "u64": (0, 2 ** 64 - 1), "i64": (-2 ** 63, 2 ** 63 - 1),
             "usize": (0, 2 ** 64 - 1)}
NS_NAME = {0: "module", 1: "type", 2: "value", 3: "field", 4: "variant", 5: "assoc", 6: "import", 7: "import-path"}
IDENT_RE = re.compile(r"^(?:[A-Za-z][A-Za-z0-9_]*|_[A-Za-z0-9_]+)$")      # ASCII subset of XID_Start XID_Continue* | _ XID_Continue+


def ident_problem(name):
    """None when `name` is a legal, non-keyword Rust identifier (raw identifiers allowed)"""
    raw = name.startswith("r#")
    base = name[2:] if raw else name
    if not IDENT_RE.match(base):
        return "ident_illegal"
    if base in NOT_RAW and raw:
        return "ident_illegal_raw:" + base
    if base in KEYWORDS and not raw:
        return "keyword_not_escaped:" + base
    if base == "_":
        return "ident_illegal"
    return None


# --------------------------------------------------------------------------------------------- answer decoding

def ints_of(out):
    o = list(map(int, out.split()))
    if o and o[-1] == -3400:
        o.pop()
    return o


def read_str(o, p):
    n = o[p]
    return "".join(chr(c) for c in o[p + 1:p + 1 + n]), p + 1 + n


def parse_3402(out):
    o = ints_of(out)
    if not o or o[0] != 0:
        return None
    p = 2
    names = []
    for _ in range(o[1]):
        ns = o[p]
        scope, p = read_str(o, p + 1)
        name, p = read_str(o, p)
        names.append((ns, scope, name))
    consts = []
    m = o[p]
    p += 1
    for _ in range(m):
        scope, p = read_str(o, p)
        name, p = read_str(o, p)
        ty, p = read_str(o, p)
        val, p = read_str(o, p)
        consts.append((scope, name, ty, val))
    accesses = []
    if p < len(o):
        a = o[p]
        p += 1
        for _ in range(a):
            scope, p = read_str(o, p)
            ident, p = read_str(o, p)
            accesses.append((scope, ident))
    return names, consts, accesses


def parse_3403(out):
    o = ints_of(out)
    if not o or o[0] != 0:
        return None
    p = 2
    files = []
    for _ in range(o[1]):
        f, p = read_str(o, p)
        t, p = read_str(o, p)
        files.append((f, t))
    return files


# --------------------------------------------------------------------------------------------- generator options
# ops 3402 / 3403 take the options of RustCodeGenerator as a leading negative argument (harness/a1h/src/codegen.rs):
# bit 0 set_fields_pub(false), bit 1 set_fields_have_getter_and_setter(true); no argument = RustCodeGenerator::default().
# (global derives: without_additional_global_derives() is a no-op on the default generator and an added derive is the
# user's own claim about the types -- not part of the family.)
OPTIONS = [0, 1, 2, 3]
OPTION_TEXT = {0: "default", 1: "private fields", 2: "getter and setter", 3: "private fields + getter and setter"}


def line_with_options(text, op, options):
    l = line_of(text, op)
    return l if not options else "%d -%d %s" % (op, options, l.split(" ", 1)[1])


def split_line(line):
    """-> (op, options, module text)"""
    toks = line.split()
    options = 0
    rest = toks[1:]
    if rest and rest[0].startswith("-"):
        options = -int(rest[0])
        rest = rest[1:]
    return toks[0], options, "".join(chr(int(x)) for x in rest)


def text_of_line(line):
    return split_line(line)[2]


# --------------------------------------------------------------------------------------------- module texts of the pool

def mod_text(name, body, auto=True):
    return "%s DEFINITIONS %s::= BEGIN\n%s\nEND\n" % (name, "AUTOMATIC TAGS " if auto else "", body)


LOWER_KW = [k for k in KEYWORDS if k[0].islower()]
POSITIONS = ["component", "alternative", "item", "named-number", "value", "type", "inline", "set-component", "bit-name", "ext-component", "module"]


def cap(s):
    return s[0].upper() + s[1:]


def pool_module(pos, ident, k=0):
    """one small module with `ident` at one position (ident is an ASN.1 identifier: lower-case first letter; the
    type/module positions use it capitalised, which is what ASN.1 requires there)"""
    n = "P%d" % k
    if pos == "component":
        return mod_text(n, "  Ta ::= SEQUENCE { %s INTEGER (0..9), fb BOOLEAN OPTIONAL }" % ident)
    if pos == "ext-component":
        return mod_text(n, "  Ta ::= SEQUENCE { %s INTEGER (0..9), ..., fb BOOLEAN OPTIONAL }" % ident)
    if pos == "set-component":
        return mod_text(n, "  Ta ::= SET { fa UTF8String, %s INTEGER DEFAULT 5 }" % ident)
    if pos == "alternative":
        return mod_text(n, "  Ta ::= CHOICE { %s INTEGER (0..9), fb BOOLEAN }" % ident)
    if pos == "item":
        return mod_text(n, "  Ta ::= ENUMERATED { aa, %s, ... }" % ident)
    if pos == "named-number":
        return mod_text(n, "  Ta ::= INTEGER { %s(1), bb(2) } (0..9)\n  Tb ::= SEQUENCE { fa INTEGER { %s(3) } (0..9) }" % (ident, ident))
    if pos == "bit-name":
        return mod_text(n, "  Ta ::= BIT STRING { %s(0), bb(1) } (SIZE(8))" % ident)
    if pos == "value":
        return mod_text(n, "  %s INTEGER ::= 5\n  Ta ::= INTEGER (0..%s)" % (ident, ident))
    if pos == "type":
        return mod_text(n, "  %s ::= SEQUENCE { fa INTEGER (0..9) }\n  Tb ::= SEQUENCE { fb %s, fc %s OPTIONAL }" % (cap(ident), cap(ident), cap(ident)))
    if pos == "inline":
        return mod_text(n, "  Ta ::= SEQUENCE { %s SEQUENCE { fa BOOLEAN }, fb ENUMERATED { %s, xx } }" % (ident, ident))
    if pos == "module":
        return mod_text(cap(ident), "  Ta ::= SEQUENCE { fa INTEGER (0..9) }") + "\0" + \
            mod_text(n, "  IMPORTS Ta FROM %s;\n  Tb ::= SEQUENCE { fb Ta }" % cap(ident))
    raise ValueError(pos)


# names differing only in case or separators (each list is put into ONE scope at each position)
COLLIDING = [["foo-bar", "fooBar"], ["foo-bar", "foo_bar"], ["fooBar", "foo_bar"], ["foobar", "fooBar"], ["foo-bar", "foo-Bar"],
             ["ab-c", "a-bc"], ["abc", "aBC"], ["ab1", "ab-1"], ["value", "vaLue"], ["x", "x"]]
VARIANTS = ["foo", "fooBar", "foo-bar", "foo_bar", "foo-Bar", "fOO", "foo1", "foo-1", "f", "f-g-h", "fooBARBaz", "x-y-z", "a--b" if False else "a-b-c-d",
            "u8", "i64", "str", "string", "vec", "option", "main", "std", "core", "asn1rs", "default", "new", "value", "variants", "variant",
            "value-index", "read", "write", "deref", "from", "clone", "eq", "hash", "fmt", "union", "macro-rules", "static-x", "r", "r-type", "x_"]
# type names that shadow names the generated code itself relies on
SHADOWING_TYPES = ["String", "Vec", "Option", "Result", "Box", "Null", "BitVec", "Default", "Some", "None", "Ok", "Err", "Self",
                   "Reader", "Writer", "Readable", "Writable", "Sized", "Clone", "Debug", "Hash", "PartialEq", "Copy", "Eq", "PartialOrd"]


def collision_module(pos, names, k):
    n = "Q%d" % k
    a, b = names
    if pos == "component":
        return mod_text(n, "  Ta ::= SEQUENCE { %s INTEGER (0..9), %s BOOLEAN }" % (a, b))
    if pos == "alternative":
        return mod_text(n, "  Ta ::= CHOICE { %s INTEGER (0..9), %s BOOLEAN }" % (a, b))
    if pos == "item":
        return mod_text(n, "  Ta ::= ENUMERATED { %s, %s }" % (a, b))
    if pos == "named-number":
        return mod_text(n, "  Ta ::= INTEGER { %s(1), %s(2) } (0..9)" % (a, b))
    if pos == "value":
        return mod_text(n, "  %s INTEGER ::= 5\n  %s INTEGER ::= 6\n  Ta ::= INTEGER (0..%s)" % (a, b, a))
    if pos == "type":
        return mod_text(n, "  %s ::= SEQUENCE { fa INTEGER (0..9) }\n  %s ::= SEQUENCE { fb BOOLEAN }" % (cap(a), cap(b)))
    raise ValueError(pos)


def special_modules():
    """collisions that involve more than one position, value-reference kinds, structural corner cases"""
    S = []
    # inline type name vs definition name; constraint type names of the expansion
    S.append(("inline_vs_definition", mod_text("X1", "  Ta ::= SEQUENCE { fb SEQUENCE { x BOOLEAN } }\n  TaFb ::= SEQUENCE { y BOOLEAN }")))
    S.append(("expansion_name_clash", mod_text("X2", "  Ta ::= SEQUENCE { fieldB BOOLEAN }\n  TaField ::= SEQUENCE { b BOOLEAN }")))
    S.append(("field_constant_clash", mod_text("X3", "  Ta ::= SEQUENCE { f INTEGER { a-b(1) } (0..9), f-a INTEGER { b(2) } (0..9) }")))
    S.append(("of_anonymous_structured", mod_text("X4", "  Ta ::= SEQUENCE OF SEQUENCE { x BOOLEAN }")))
    S.append(("of_anonymous_enum", mod_text("X5", "  Ta ::= SET OF ENUMERATED { x, y }")))
    S.append(("empty_sequence", mod_text("X6", "  Ta ::= SEQUENCE { }")))
    S.append(("empty_extensible_sequence", mod_text("X7", "  Ta ::= SEQUENCE { ... }")))
    S.append(("recursive_optional", mod_text("X8", "  Ta ::= SEQUENCE { next Ta OPTIONAL, v INTEGER (0..9) }")))
    S.append(("recursive_of", mod_text("X9", "  Ta ::= SEQUENCE { kids SEQUENCE OF Ta }")))
    S.append(("recursive_choice", mod_text("X10", "  Ta ::= CHOICE { leaf NULL, node Tb }\n  Tb ::= SEQUENCE { l Ta, r Ta }")))
    S.append(("choice_default_of_first", mod_text("X11", "  Ta ::= CHOICE { a Tb, b NULL }\n  Tb ::= CHOICE { c Ta, d NULL }")))
    S.append(("value_int", mod_text("V1", "  max-v INTEGER ::= 100\n  min-v INTEGER ::= -40\n  big-v INTEGER ::= 9223372036854775807\n  Ta ::= INTEGER (min-v..max-v)")))
    S.append(("value_bool", mod_text("V2", "  flag BOOLEAN ::= TRUE\n  Ta ::= SEQUENCE { fa BOOLEAN DEFAULT flag }")))
    S.append(("value_string", mod_text("V3", "  greeting UTF8String ::= \"hello\"\n  ia IA5String ::= \"x y\"\n  Ta ::= SEQUENCE { fa UTF8String DEFAULT greeting }")))
    S.append(("value_string_escape", mod_text("V4", "  path UTF8String ::= \"a\\b\"\n  Ta ::= SEQUENCE { fa UTF8String DEFAULT \"c\\d\" }")))
    S.append(("value_octets", mod_text("V5", "  mask OCTET STRING ::= 'FF00'H\n  Ta ::= SEQUENCE { fa OCTET STRING DEFAULT mask }")))
    S.append(("value_octets_literal_default", mod_text("V6", "  Ta ::= SEQUENCE { fa OCTET STRING DEFAULT 'DEAD'H }")))
    S.append(("value_enumerated_default", mod_text("V7", "  Colour ::= ENUMERATED { red, dark-blue }\n  Ta ::= SEQUENCE { fa Colour DEFAULT dark-blue }")))
    S.append(("value_of_referenced_type", mod_text("V8", "  MyInt ::= INTEGER (0..255)\n  my-v MyInt ::= 7\n  Ta ::= SEQUENCE { fa MyInt DEFAULT my-v, fb MyInt DEFAULT 9 }")))
    S.append(("value_int_out_of_range", mod_text("V9", "  Ta ::= SEQUENCE { fa INTEGER (0..9) DEFAULT 300, fb INTEGER (0..255) DEFAULT -1 }")))
    S.append(("value_named_number_out_of_range", mod_text("V10", "  Ta ::= INTEGER { big(300), neg(-1) } (0..255)")))
    S.append(("value_named_number_too_big", mod_text("V16", "  Ta ::= INTEGER { big(300) } (0..255)")))
    S.append(("value_default_too_big", mod_text("V17", "  Ta ::= SEQUENCE { fa INTEGER (0..9) DEFAULT 300 }")))
    S.append(("value_size_ref", mod_text("V11", "  len INTEGER ::= 8\n  Ta ::= OCTET STRING (SIZE(len))\n  Tb ::= SEQUENCE (SIZE(1..len)) OF BOOLEAN")))
    S.append(("value_bitstring_default", mod_text("V12", "  Ta ::= SEQUENCE { fa BIT STRING DEFAULT '0101'B }")))
    S.append(("value_int_default_on_u64", mod_text("V13", "  Ta ::= SEQUENCE { fa INTEGER DEFAULT -5, fb INTEGER (-10..10) DEFAULT -5 }")))
    S.append(("value_null", mod_text("V14", "  Ta ::= SEQUENCE { fa NULL OPTIONAL, fb SEQUENCE OF NULL }")))
    # named numbers on an extension addition (to_rust wraps the component in Option): fixed in /repo fd1f3f1
    S.append(("named_number_on_extension_addition", mod_text("V18", "  Ta ::= SEQUENCE { a BOOLEAN, ..., b INTEGER { x(1) } (0..9) }")))
    S.append(("named_number_on_extension_addition_set", mod_text("V19", "  Ta ::= SET { a BOOLEAN, ..., b INTEGER { x(1), y-z(9) } (0..9), c INTEGER { neg(-3) } (-5..5) }")))
    S.append(("named_number_on_extension_additions_mixed", mod_text("V20", "  Ta ::= SEQUENCE { a INTEGER { first(0) } (0..255), ..., b INTEGER { big(70000) } (0..70000), c INTEGER { d(2) } (0..9) DEFAULT 2, e INTEGER { f(1) } (0..9) OPTIONAL }")))
    # named numbers on OPTIONAL integer components: reach the Rust model since /repo e572296 (`pub const G_C: u8 = 3;` next to
    # `pub g: Option<u8>`: the declared type is the inner one, fd1f3f1)
    S.append(("named_number_on_optional", mod_text("V21", "  Ta ::= SEQUENCE { a BOOLEAN, g INTEGER { c(3) } (0..9) OPTIONAL, h INTEGER { neg(-7), big-one(70000) } OPTIONAL }")))
    S.append(("named_number_on_optional_set", mod_text("V22", "  Ta ::= SET { g INTEGER { low(-5), high-v(5) } (-5..5) OPTIONAL, ..., k INTEGER { m(1) } (0..65535) OPTIONAL }")))
    # names on which rust_variant_name / rust_struct_or_enum_name is not idempotent (a-b -> AB -> Ab; found with op 3410), at every
    # position where a name travels through the generated text and is read back by the macro or referenced again: a name
    # mangled a second time (Plan::Ab) no longer exists -> rustc
    S.append(("nonidem_all_positions", render_module(nonidem_module("N1"), with_desc=False)))
    S.append(("nonidem_all_positions_b", render_module(nonidem_module("N2", plan="Plan-B-C", route="A-B", rec="X-Y-Z", pick="Mode-S", ta="Item-A-B"), with_desc=False)))
    S.append(("nonidem_imported", mod_text("N3Lib", "  Route-T-A ::= ENUMERATED { a-b, x-y-z, plan-b-c }\n  Rec-A-B ::= SEQUENCE { is-a-b BOOLEAN, mode-s-t Route-T-A DEFAULT x-y-z }\n"
                                                    "  Pick-X-Y ::= CHOICE { a-b Rec-A-B, item-a-b Route-T-A }") + "\0" +
              mod_text("N3", "  IMPORTS Route-T-A, Rec-A-B, Pick-X-Y FROM N3Lib;\n  S ::= SEQUENCE { q Route-T-A DEFAULT a-b, r Rec-A-B, l SEQUENCE OF Route-T-A, ..., e Route-T-A DEFAULT plan-b-c, c Pick-X-Y OPTIONAL }\n"
                             "  X ::= SET { a-b Route-T-A DEFAULT x-y-z, x-y-z SET OF Rec-A-B }\n  T-A ::= CHOICE { a-b Route-T-A, plan-b-c Pick-X-Y, ..., x-y-z Rec-A-B }")))
    S.append(("nonidem_constants", mod_text("N4", "  a-b INTEGER ::= 5\n  x-y-z INTEGER ::= 3\n  is-a-b BOOLEAN ::= TRUE\n  T-A ::= INTEGER { a-b(1), plan-b-c(2) } (0..a-b)\n"
                                                  "  Rec-A-B ::= SEQUENCE { a-b INTEGER { x-y-z(0), item-a-b(5) } (0..a-b) DEFAULT x-y-z, mode-s-t BOOLEAN DEFAULT is-a-b, ..., a-b1 INTEGER { a-b(3) } (0..9) }\n"
                                                  "  X-Y-Z ::= BIT STRING { a-b(0), x-y-z(1) } (SIZE(8))")))
    # accessor names (set_fields_have_getter_and_setter): keyword components get `fn type_`, `type_mut`, `set_type`
    S.append(("accessors_on_keywords", mod_text("A1", "  Ta ::= SEQUENCE { type INTEGER (0..9), match BOOLEAN OPTIONAL, self UTF8String DEFAULT \"x\", ..., fn INTEGER { a(1) } (0..9), r-type Tb OPTIONAL }\n"
                                                      "  Tb ::= SET { loop BOOLEAN, mod SEQUENCE OF INTEGER (0..9), yield ENUMERATED { a, b } DEFAULT a }")))
    # ... and accessor names that coincide with each other or with the min/max functions: only with getters and setters
    S.append(("accessor_name_clash", mod_text("A2", "  Ta ::= SEQUENCE { x INTEGER (0..9), set-x BOOLEAN }\n  Tb ::= SEQUENCE { y BOOLEAN, y-mut BOOLEAN }\n"
                                                    "  Tc ::= SEQUENCE { z INTEGER (0..9), z-min BOOLEAN }")))
    S.append(("value_default_on_choice_alt", mod_text("V15", "  Ta ::= SEQUENCE { fa Tb DEFAULT x : 5 }\n  Tb ::= CHOICE { x INTEGER }")))
    return S


def abstract_zoo():
    """the C08 template pool (ordinary modules of every production) without the description comment"""
    return [("template_" + m["name"], render_module(m, with_desc=False)) for m in templates()]


def pool_cases(full):
    """(label, text) for the identifier pool. `full` = every keyword at every position individually"""
    cases = []
    k = 0
    for pos in POSITIONS:
        kws = LOWER_KW + (["self-x", "match-it", "fn-1"] if pos != "module" else [])
        for kw in kws:
            k += 1
            cases.append(("kw:%s:%s" % (pos, kw), pool_module(pos, kw, k)))
    for pos in ("component", "alternative", "item", "named-number", "value", "type"):
        for names in COLLIDING:
            k += 1
            cases.append(("collide:%s:%s/%s" % (pos, names[0], names[1]), collision_module(pos, names, k)))
        for v in VARIANTS:
            k += 1
            cases.append(("variant:%s:%s" % (pos, v), pool_module(pos, v, k)))
    for t in SHADOWING_TYPES:
        k += 1
        cases.append(("shadow:type:%s" % t, mod_text("R%d" % k, "  %s ::= SEQUENCE { fa INTEGER (0..9) OPTIONAL, fb UTF8String, fc SEQUENCE OF BOOLEAN, fd BIT STRING, fe NULL }\n"
                                                     "  Tb ::= SEQUENCE { fx %s OPTIONAL }\n  Tc ::= CHOICE { a %s, b BOOLEAN }" % (t, t, t))))
    for label, text in special_modules():
        cases.append(("special:" + label, text))
    return cases


def keyword_modules():
    """rustc zoo: five keywords per module, each as component, alternative and ENUMERATED item in separate definitions
    (rustc reports the first syntax error of every item and goes on with the next item, so one definition per use).
    `self` is a component only here: as item/alternative it is the known class variant_named_Self (separate picks)."""
    G = []
    for g in range(0, len(LOWER_KW), 5):
        defs = []
        for i, kw in enumerate(LOWER_KW[g:g + 5]):
            defs.append("  Ta%d ::= SEQUENCE { %s INTEGER (0..9), fb BOOLEAN }" % (i, kw))
            if kw != "self":
                defs.append("  Tb%d ::= CHOICE { %s INTEGER (0..9), ab BOOLEAN }" % (i, kw))
                defs.append("  Tc%d ::= ENUMERATED { aa, %s }" % (i, kw))
        G.append(("kw3:%s" % "+".join(LOWER_KW[g:g + 5]), mod_text("K%d" % g, "\n".join(defs))))
    return G


def fixed_zoo():
    """quick tier: independent of the seed"""
    Z = abstract_zoo() + keyword_modules()
    cases = dict(pool_cases(True))
    picks = ["kw:alternative:self", "kw:item:self", "kw:ext-component:type", "kw:ext-component:fn", "kw:named-number:loop", "kw:value:match", "kw:type:self", "kw:inline:box",
             "kw:set-component:async", "kw:bit-name:yield", "kw:module:match", "kw:module:self", "kw:module:type", "kw:component:self-x",
             "collide:component:foo-bar/fooBar", "collide:component:foo-bar/foo_bar", "collide:alternative:foo-bar/fooBar", "collide:item:foo-bar/fooBar",
             "collide:named-number:foo-bar/fooBar", "collide:value:foo-bar/fooBar", "collide:type:foo-bar/fooBar", "collide:type:abc/aBC",
             "collide:component:x/x", "collide:item:x/x", "collide:type:x/x",
             "variant:component:u8", "variant:component:default", "variant:component:new", "variant:alternative:default",
             "variant:alternative:variants", "variant:item:default", "variant:item:variants", "variant:component:union", "variant:component:macro-rules",
             "variant:type:string", "variant:type:option", "variant:value:u8", "variant:component:x_",
             "variant:component:r-type", "variant:alternative:from", "variant:item:clone", "variant:component:value", "variant:alternative:value"]
    for p in picks:
        Z.append((p, cases[p]))
    for t in ["String", "Vec", "Option", "Result", "Null", "BitVec", "Default", "Self", "Box", "Some", "Reader", "Debug"]:
        Z.append(("shadow:type:%s" % t, cases["shadow:type:%s" % t]))
    for label, text in special_modules():
        Z.append(("special:" + label, text))
    return Z


# --------------------------------------------------------------------------------------------- rustc stage

E2E_DIR = os.path.join(vlib.ROOT, "harness", "h_e2e")
E2E_TARGET = os.path.join(vlib.CACHE, "target-e2e")
BATCH = 40
# warnings are not rejections; deny-by-default lints (overflowing_literals, ...) are, so they stay enabled
CRATE_HEADER = "#![allow(unused, dead_code, non_camel_case_types, non_snake_case, non_upper_case_globals, unreachable_patterns)]\n"
# names the generated code (or the macro expansion) itself refers to unqualified: a definition with such a name captures them
RELIED_ON = ["String", "Vec", "Option", "Result", "Box", "Null", "BitVec", "Default", "Some", "None", "Ok", "Err", "Reader", "Writer",
             "Readable", "Writable", "Sized", "Self"]


def repo_hash():
    h = hashlib.sha256()
    for d, dirs, fs in os.walk(vlib.REPO):
        dirs[:] = sorted(x for x in dirs if x not in ("target", ".git"))
        for f in sorted(fs):
            if f.endswith((".rs", ".toml", ".lock")):
                p = os.path.join(d, f)
                h.update(p.encode())
                h.update(open(p, "rb").read())
    return h.hexdigest()


def rust_mod_ident(name):
    """how a user would declare the module of a generated file: `mod r#type;`, or under another name (#[path]) for self/super/crate"""
    if name in NOT_RAW:
        return "m_" + name
    return "r#" + name if name in KEYWORDS else name


def write_case_file(k, files):
    """src/c<k>.rs: every generated file of the case as an inline module named like the file (so `super::x` resolves)"""
    parts = []
    for fname, text in files:
        mod = fname[:-3] if fname.endswith(".rs") else fname
        parts.append("pub mod %s {\n%s\n}\n" % (rust_mod_ident(mod), text))
    with open(os.path.join(E2E_DIR, "src", "c%d.rs" % k), "w") as f:
        f.write("".join(parts))


def cargo_check(active):
    with open(os.path.join(E2E_DIR, "src", "lib.rs"), "w") as f:
        f.write(CRATE_HEADER + "".join("mod c%d;\n" % k for k in active))
    env = dict(os.environ)
    env.update({"CARGO_NET_OFFLINE": "true", "CARGO_TARGET_DIR": E2E_TARGET})
    p = subprocess.run(["cargo", "check", "--offline", "-q", "--message-format=json"], cwd=E2E_DIR, env=env,
                       stdout=subprocess.PIPE, stderr=subprocess.PIPE, timeout=3600)
    errs = {}
    unattributed = []
    for line in p.stdout.decode("utf-8", "replace").split("\n"):
        if not line.startswith("{"):
            continue
        try:
            m = json.loads(line)
        except ValueError:
            continue
        if m.get("reason") != "compiler-message":
            continue
        msg = m["message"]
        if msg.get("level") != "error":
            continue
        text = msg.get("message", "")
        if text.startswith("aborting due to") or text.startswith("could not compile"):
            continue
        code = (msg.get("code") or {}).get("code") or ""
        spans = msg.get("spans", [])
        ks = set()
        for sp in spans:
            f = sp
            # the innermost user file of a macro backtrace
            while f is not None:
                mm = re.search(r"src/c(\d+)\.rs$", f.get("file_name", ""))
                if mm:
                    ks.add(int(mm.group(1)))
                    break
                exp = f.get("expansion")
                f = exp.get("span") if exp else None
        src = ""
        for sp in spans:
            if sp.get("is_primary") and sp.get("text"):
                src = sp["text"][0].get("text", "").strip()
        if not ks:
            unattributed.append((code, text))
        for k in ks:
            errs.setdefault(k, []).append((code, text, src))
    return p.returncode, errs, unattributed, p.stderr.decode("utf-8", "replace")


def classify_rustc(code, text, src):
    if "Invalid literal value: [" in text:
        return "octet_string_default_not_reparsable"
    if "Cannot find variant for extensible attribute" in text:
        return "extensible_after_names_unescaped_field"
    m = re.search(r"expected identifier, found (?:reserved )?keyword `(\w+)`", text)
    if m:
        if src.startswith("use super::"):
            return "keyword_module_path"
        return "variant_named_Self" if m.group(1) == "Self" else "keyword_not_escaped:" + m.group(1)
    if src.startswith("use super::self::"):
        return "keyword_module_path"
    m = re.search(r"expected identifier, found `(\w+)`", text)
    if m and m.group(1) in KEYWORDS:
        return "variant_named_Self" if m.group(1) == "Self" else "keyword_not_escaped:" + m.group(1)
    m = re.search(r"expected one of .*found keyword `(\w+)`", text) or re.search(r"expected .*, found keyword `(\w+)`", text)
    if m:
        return "variant_named_Self" if m.group(1) == "Self" else "keyword_not_escaped:" + m.group(1)
    if "`self`" in text and ("cannot be" in text or "imports" in text or "in paths" in text):
        return "keyword_not_escaped:self"
    if "`Self`" in text:
        return "variant_named_Self"
    m = re.search(r"\bpub (\w+):", src) or re.match(r"(?:#\[[^\]]*\]\s*)?(\w+)\s*[,(]", src)
    if m and m.group(1) in KEYWORDS and not code.startswith("E03") and code not in ("E0277", "E0428", "E0124"):
        return "keyword_not_escaped:" + m.group(1)
    if code == "E0428":
        return "ident_collision:item"
    if code == "E0124":
        return "ident_collision:field"
    if code in ("E0592", "E0201"):
        return "ident_collision:assoc"
    if code == "E0415":
        return "ident_collision:parameter"
    if code == "E0119":
        return "conflicting_impls"
    if code == "E0081":
        return "ident_collision:discriminant"
    if "literal out of range" in text:
        return "const_literal_out_of_range"
    if code == "E0600" or "cannot apply unary operator `-`" in text:
        return "const_negative_on_unsigned"
    if code == "E0308":
        return "const_type_mismatch" if ("const " in src or "DEFAULT_VALUE" in src) else "type_mismatch"
    if code == "E0072":
        return "recursive_type_infinite_size"
    if code == "E0277":
        m = re.search(r"the trait bound `[^`]*: ([\w:]+)", text) or re.search(r"`[^`]*` doesn't implement `([\w:]+)`", text)
        return "trait_unsatisfied:" + (m.group(1).split("::")[-1] if m else "?")
    if code == "E0391":
        return "cycle_in_default"
    if "panicked" in text:
        return "macro_panic"
    if "unknown character escape" in text or "unknown byte escape" in text:
        return "string_literal_not_escaped"
    if code in ("E0412", "E0433", "E0425", "E0432", "E0531", "E0532", "E0423", "E0574", "E0573", "E0404", "E0107", "E0599", "E0614", "E0609", "E0560", "E0061", "E0618"):
        return "name_resolution:" + code
    if "Invalid ASN attribute" in text or "Unexpected" in text or "Invalid literal" in text or "Cannot find variant" in text or "Missing #[asn" in text:
        return "macro_rejects_generated_attribute"
    if code:
        return "rustc_error:" + code
    return "rustc_syntax_error"


def check_set(active):
    """-> ({k: [(code, message, source line)]} for the cases rustc rejects, number of cargo runs).  Errors are attributed by the
    file a diagnostic points into; the offending cases are removed and the rest is compiled again (a syntax error hides
    later phases); when rustc fails without a usable span the set is bisected."""
    bad = {}
    runs = 0
    act = list(active)
    for _ in range(12):
        if not act:
            break
        rc, errs, unattr, stderr = cargo_check(act)
        runs += 1
        if rc == 0 and not errs:
            break
        if not errs:
            if len(act) == 1:
                bad[act[0]] = [(c, t, "") for c, t in unattr] or [("", "rustc failed: " + stderr[-300:], "")]
            else:
                half = len(act) // 2
                for part in (act[:half], act[half:]):
                    b, r = check_set(part)
                    runs += r
                    bad.update(b)
            break
        for k, es in errs.items():
            bad.setdefault(k, []).extend(es)
        act = [k for k in act if k not in errs]
    return bad, runs


def compile_cases(texts_by_case, log=vlib.log):
    """texts_by_case: {k: [(file name, text)]} -> {k: [] (compiles) | [(rustc error code, message, source line)]}  (raw diagnostics)"""
    os.makedirs(os.path.join(E2E_DIR, "src"), exist_ok=True)
    lock = os.path.join(E2E_DIR, "Cargo.lock")
    if not os.path.exists(lock):
        shutil.copy(os.path.join(vlib.REPO, "Cargo.lock"), lock)
    result = {}
    keys = sorted(texts_by_case)
    runs = 0
    with vlib.Lock("cargo-e2e"):
        for f in os.listdir(os.path.join(E2E_DIR, "src")):
            if re.match(r"c\d+\.rs$", f):
                os.remove(os.path.join(E2E_DIR, "src", f))
        for k, files in texts_by_case.items():
            write_case_file(k, files)
        for b in range(0, len(keys), BATCH):
            bad, r = check_set(keys[b:b + BATCH])
            runs += r
            for k in keys[b:b + BATCH]:
                result[k] = [(c, t, s) for c, t, s in bad.get(k, [])]
        with open(os.path.join(E2E_DIR, "src", "lib.rs"), "w") as f:
            f.write(CRATE_HEADER)
        for f in os.listdir(os.path.join(E2E_DIR, "src")):
            if re.match(r"c\d+\.rs$", f):
                os.remove(os.path.join(E2E_DIR, "src", f))
    log("C09 rustc stage: %d modules, %d cargo check runs" % (len(keys), runs))
    return result


def model_implements(probe):
    """does the extracted Coq model answer this op (anything but the unknown-op answer -1)?"""
    try:
        return vlib.run_model([probe])[0].strip() != "-1"
    except Exception:
        return False


# --------------------------------------------------------------------------------------------- the check

class C09(Spec):
    prop = "C09"
    coq_targets = ["Props/C09.vo"]
    prop_module = "Props.C09"
    theorems = ["C09_field_idents_legal", "C09_keywords_complete", "C09_keywords_complete_identifier", "C09_keywords_escaped", "C09_variant_idents_legal",
                "C09_type_idents_legal", "C09_refuted_variant_Self", "C09_mangle_collision_refuted",
                "C09_no_collision", "C09_field_name_no_trailing_underscore", "C09_consts_typed_partial", "C09_const_declared_type",
                "C09_const_on_extension_addition_fixed", "C09_refuted_const_negative_on_unsigned",
                "C09_variant_mangling_not_idempotent", "C09_variant_mangling_fixed_points", "C09_variant_mangling_idempotent_iff"]
    builds = [("default", "dev")]
    level_text = ("Partial by design (DESIGN.md section 8): 'rustc accepts' is checked by running the real rustc on the generated files "
                  "of a zoo of modules (harness/h_e2e, cargo check), the logic core (identifiers legal, keywords escaped, no collisions, "
                  "integer constants fit their type) by an oracle over the identifiers the generator really emitted (op 3402). "
                  "Ops 3402/3403 have NO Coq counterpart: the model/implementation line comparison is vacuous for them (model_line maps "
                  "them to the unknown op 3400, canon erases both answers); op 3410 (name mangling) is compared with the Coq model "
                  "Front/Codegen.v line by line. Proved in Coq on that model (Props/C09.v): emitted field / variant / type names are legal "
                  "identifiers and no keywords (outside the class `Self`); C09_no_collision: under the explicit hypothesis that the MANGLED "
                  "names are pairwise different (the mangling itself is refuted as non-injective, F09-3..8) the EMITTED field, variant and "
                  "type names are pairwise different per namespace (the keyword escape adds no collision); C09_consts_typed_partial: the "
                  "decimal literal fmt_const prints for an INTEGER constant is a value of the declared integer type outside F09-9 / F09-10 "
                  "(associated constants, value references, other constant types, derives and type checking: oracle / rustc only).")
    rule = ("identifier pool: every strict and reserved keyword of the Rust 2021 edition at every position ASN.1 allows (component, "
            "extension-root component, SET component, alternative, ENUMERATED item, named number, named bit, value reference, type "
            "reference (capitalised), inline type, module reference), hyphen/underscore/case variants and well-known Rust names at the "
            "same positions, pairs of names differing only in case or separators in one scope, type names shadowing names the generated "
            "code uses, every value-reference kind, structural corner cases; rustc stage: quick = fixed zoo of ~125 modules (C08 template "
            "pool + all keywords, five per module as component/alternative/item in separate definitions + picks of the pool + corner "
            "cases; reduced from one module per keyword to stay within minutes on a cold cache), cached under .cache/c09_e2e_<hash of the "
            "/repo sources + zoo text>.json; thorough = + 1000 seeded modules of the C08 grammar with pool identifiers. "
            "non-trivial = the front end accepted the module and emitted at least 3 identifiers; distinct = distinct module text")
    assumptions_text = ["the line scanner of op 3402 finds every identifier the generator emits (cross-checked against rustc: a module the "
                        "logic oracle passes but rustc rejects is reported)",
                        "rustc 2021 edition as installed in the image is 'rustc'"]
    xcheck_n = 100
    timeout_per_chunk = 300

    def model_line(self, line, build):
        return "3400" if line.split(" ", 1)[0] in ("3401", "3402", "3403") else line

    def canon(self, out):
        # "3 31"/"3 32": vlib's marker for a hung/crashed child. These ops have no model answer to compare with; the
        # crash itself is reported by the oracle (front_end_crash). A modelled op (3410) still disagrees: the model's
        # answer is never IMPL-ONLY.
        if out == "-1" or out.endswith(" -3400") or out in ("3 31", "3 32"):
            return "IMPL-ONLY"
        return out

    # ---------------------------------------------------------------- generation
    def gen(self, rng, tier):
        L = []
        self.labels = {}
        for options in OPTIONS:
            for label, text in pool_cases(True) + abstract_zoo() + keyword_modules():
                l = line_with_options(text, 3402, options)
                self.labels[l] = label if not options else "%s [%s]" % (label, OPTION_TEXT[options])
                L.append(l)
        # the mangling functions (tie of coq/Front/Codegen.v): every pool identifier through every function
        names = set(LOWER_KW + KEYWORDS + VARIANTS + [cap(v) for v in VARIANTS] + SHADOWING_TYPES + [n for p in COLLIDING for n in p])
        names |= {"", "-", "_", "a", "A", "aB", "AB", "ABc", "aBC", "HTTPServer", "my-HTTP-server", "x1y2", "X-1", "a--b", "-a", "a-", "A_B", "a_b_", "__",
                  "mySCREAMINGName", "e-waffle", "ee-waffle", "EEWaffle", "berndDasBrot", "who-knowsWhat", "Module-Name", "My_Module", "ETSI-ITS-CDD", "x9", "9x"}
        alphabet = "abcxyzABCXYZ019-_"
        for _ in range(300 if tier == "quick" else 20000):
            names.add("".join(rng.choice(alphabet) for _ in range(rng.randrange(1, 9))))
        if model_implements("3410 0 97"):
            for n in sorted(names):
                for kind in range(10):
                    L.append("3410 %d %s" % (kind, " ".join(str(ord(c)) for c in n)))
        # the transcribed keyword table and identifier grammar against proc_macro2 / syn
        if model_implements("3411 97"):
            for n in sorted(names | set("_ __ _a a_ _1 1a A1 a1 Ab aB r".split())):
                if "#" not in n and '"' not in n and "'" not in n:
                    L.append("3411 " + " ".join(str(ord(c)) for c in n))
        return L

    # ---------------------------------------------------------------- oracle (a): logic
    def oracle(self, line, out, build):
        op = line.split(" ", 1)[0]
        if op == "3403":
            # only reached when a finding of the rustc stage is replayed: compile this one module
            files = parse_3403(out)
            if files is None:
                return None
            errs = [(classify_rustc(c, t, sl), t, sl) for c, t, sl in compile_cases({0: files}).get(0, [])]
            text = " ".join(text_of_line(line).replace("\0", " || ").split())
            return [(c, "rustc rejects the generated code: %s | %s :: %s" % (m[:200], sl[:120], text[:600])) for c, m, sl in primary_causes(errs, files)] or None
        if op != "3402":
            return None
        text = " ".join(text_of_line(line).replace("\0", " || ").split())
        if split_line(line)[1]:
            text = "[generator options: %s] %s" % (OPTION_TEXT.get(split_line(line)[1], split_line(line)[1]), text)
        o = ints_of(out)
        if out.startswith("3 "):
            cls = "untagged_choice_cycle_stack_overflow" if out == "3 32" and choice_cycle(text) else "front_end_crash"
            return (cls, "%s :: %s" % (out, text))
        if o[:1] == [1]:
            return None if o[1] in (1, 2) else ("codegen_error_stage_%d" % o[1], text)
        if o[:1] == [2]:
            stage = o[1] if len(o) > 1 else 0
            if stage == 4 and o[2:] == [1] and re.search(r"(SEQUENCE|SET)\s*\{\s*\.\.\.\s*\}", text):
                return ("generator_panic_empty_extensible", "stage 4 index out of bounds :: %s" % text)
            return ("front_end_panic" if stage <= 3 else "generator_panic", "stage %d class %s :: %s" % (stage, o[2:], text))
        parsed = parse_3402(out)
        if parsed is None:
            return ("malformed_answer", out[:200])
        return [(c, "%s :: %s" % (t, text[:1200])) for c, t in logic_oracle(*parsed)] or None

    def nontrivial(self, line, out):
        if line.startswith("3410"):
            return len(line.split()) > 3
        o = out.split(" ", 2)
        return o[:1] == ["0"] and len(o) > 1 and int(o[1]) >= 3

    # ---------------------------------------------------------------- oracle (b): rustc
    # modules of the zoo that are also compiled under every NON-default option combination of the generator
    OPTION_SUBSET_PREFIXES = ("kw3:", "kw:ext-component:", "kw:set-component:", "kw:component:self-x", "kw:inline:", "special:nonidem",
                              "special:named_number_on_", "special:accessors_on_keywords", "special:accessor_name_clash", "special:value_enumerated_default",
                              "special:value_bool", "special:value_int", "special:value_null")
    OPTION_SUBSET_TEMPLATES = ("template_DefaultsExt", "template_DefaultsSet", "template_IntsNamed", "template_IntsNamedDefault",
                               "template_Extseq", "template_Extset", "template_ExtFirst", "template_Nested", "template_NestedChoice",
                               "template_Refs", "template_NonIdem", "template_ConfusableSeq", "template_ConfusableSet", "template_Prims")

    def rustc_stage(self, ctx, exe, zoo, options, ks):
        """generate (op 3403) and compile the zoo modules with the indices `ks` under `options`; report rustc's rejections.
        -> (statistics, {k: raw diagnostics})"""
        labels = [z[0] for z in zoo]
        lines = {k: line_with_options(zoo[k][1], 3403, options) for k in ks}
        # the cache holds rustc's raw diagnostics per module; it depends on the /repo sources, the module texts, the crate
        # header and the generator options
        key = hashlib.sha256((repo_hash() + "\n" + CRATE_HEADER + "\n".join(lines[k] for k in ks)).encode()).hexdigest()[:24]
        cache = os.path.join(vlib.CACHE, "c09_e2e_%s.json" % key)
        outs = dict(zip(ks, vlib.run_lines([exe], [lines[k] for k in ks], timeout=300)))
        accepted, rejected, panicked = {}, 0, 0
        for k in ks:
            o = ints_of(outs[k])
            if o[:1] == [1] and o[1] in (1, 2):
                rejected += 1
                continue
            if o[:1] != [0]:
                panicked += 1
                continue          # reported by the logic stream (same module text under op 3402)
            accepted[k] = parse_3403(outs[k])
        if os.path.exists(cache):
            raw = {int(k): [tuple(e) for e in v] for k, v in json.load(open(cache)).items()}
            cached = True
        else:
            raw = compile_cases(accepted)
            with open(cache, "w") as f:
                json.dump(raw, f)
            cached = False
        res = {k: [(classify_rustc(c, t, sl), t, sl) for c, t, sl in v] for k, v in raw.items()}
        # logic verdict on the same modules, for the cross comparison
        louts = dict(zip(ks, vlib.run_lines([exe], [line_with_options(zoo[k][1], 3402, options) for k in ks], timeout=300)))
        n_bad = 0
        classes = {}
        opt_text = "" if not options else "[generator options: %s] " % OPTION_TEXT[options]
        for k in sorted(accepted):
            errs = res.get(k, [])
            text = opt_text + " ".join(zoo[k][1].replace("\0", " || ").split())
            parsed = parse_3402(louts[k])
            logic = set(c for c, _ in logic_oracle(*parsed)) if parsed else set()
            if not errs:
                if logic:
                    ctx["oracle_fail"].append({"case": lines[k], "build": ["default", "dev"], "impl": "rustc accepts", "class": "logic_oracle_false_alarm",
                                               "what": "%s flagged by the logic oracle but rustc accepts the generated code :: %s" % (sorted(logic), text[:600])})
                continue
            n_bad += 1
            for cls, msg, src in primary_causes(errs, accepted[k]):
                classes[cls] = classes.get(cls, 0) + 1
                ctx["oracle_fail"].append({"case": lines[k], "build": ["default", "dev"], "impl": ("rustc: " + msg)[:400], "class": cls,
                                           "what": "[%s] rustc rejects the generated code: %s | %s :: %s" % (labels[k], msg[:200], src[:120], text[:600])})
        return {"modules": len(ks), "accepted_by_front_end": len(accepted), "rejected_by_front_end": rejected,
                "front_end_or_generator_panic": panicked, "rejected_by_rustc": n_bad, "classes": classes,
                "from_cache": cached, "cache_key": key}, raw

    def extra_checks(self, ctx):
        exe = ctx["exes"].get(("default", "dev"))
        if exe is None:
            return
        zoo = fixed_zoo()
        if ctx["tier"] != "quick":
            zoo += seeded_zoo(ctx["seed"], 1000)
        labels = [z[0] for z in zoo]
        t0 = time.time()
        stats, raw = self.rustc_stage(ctx, exe, zoo, 0, list(range(len(zoo))))
        ctx["coverage_extra"] = {"rustc_stage": stats}
        # every non-default configuration of the generator: the subset, and of it only what compiles under the default options
        # (what rustc rejects there is a known class already and would only repeat itself)
        subset = [k for k, lab in enumerate(labels)
                  if (lab.startswith(self.OPTION_SUBSET_PREFIXES) or lab in self.OPTION_SUBSET_TEMPLATES) and raw.get(k) == []]
        if ctx["tier"] != "quick":
            subset = [k for k in range(len(zoo)) if raw.get(k) == []]
        pairs = stats["accepted_by_front_end"]
        per_option = {}
        for options in OPTIONS[1:]:
            st, _raw = self.rustc_stage(ctx, exe, zoo, options, subset)
            per_option[OPTION_TEXT[options]] = st
            pairs += st["accepted_by_front_end"]
        ctx["coverage_extra"]["rustc_stage_generator_options"] = per_option
        ctx["coverage_extra"]["module_option_pairs_compiled"] = pairs
        ctx["coverage_extra"]["rustc_stage_wall_s"] = round(time.time() - t0, 1)
        vlib.log("C09 rustc stage: %d (module, options) pairs, %d modules under each of %d non-default option sets, %.1fs" %
                 (pairs, len(subset), len(OPTIONS) - 1, time.time() - t0))
        nonidem = [lab for lab in labels if lab.startswith("special:nonidem")]
        ctx["coverage_extra"]["non_idempotent_names"] = {"zoo_modules": len(nonidem), "labels": nonidem}


def choice_cycle(text):
    """the module text has untagged CHOICE definitions that reach each other through their alternatives"""
    ch = {}
    for m in re.finditer(r"\b([A-Z][\w-]*)\s*::=\s*CHOICE\s*\{([^{}]*)\}", text):
        ch[m.group(1)] = set(re.findall(r"\b([A-Z][\w-]*)\b", m.group(2)))
    def reach(a, seen):
        for b in ch.get(a, ()):
            if b in ch and (b in seen or reach(b, seen | {b})):
                return True
        return False
    return any(reach(a, {a}) for a in ch)


def primary_causes(errs, files):
    """rustc's diagnostics for one module -> the (class, message, source line) entries worth reporting: a keyword or a name
    clash is the primary cause and whatever else rustc says about the same module follows from it"""
    found = []
    for cls, msg, src in errs:
        if cls not in [f[0] for f in found]:
            found.append((cls, msg, src))
    primary = [f for f in found if f[0].startswith(("keyword_not_escaped", "variant_named_Self", "keyword_module_path", "ident_collision:item", "ident_collision:field"))]
    if not primary:
        primary = [f for f in found if f[0].startswith("ident_collision")]
    if not primary:
        shadowed = [n for n in RELIED_ON if any(re.search(r"^pub (?:struct|enum) %s\b" % n, t, flags=re.M) for _f, t in files)]
        if shadowed:
            primary = [("type_name_captures_rust_name", "%s: %s" % (shadowed[0], found[0][1]), found[0][2])]
    if not primary and any(f[0] in ("macro_panic", "string_literal_not_escaped") for f in found) and any("\\" in t for _f, t in files):
        primary = [("string_literal_not_escaped", found[0][1], found[0][2])]
    return primary or found


def logic_oracle(names, consts, accesses=()):
    fails = []
    seen = {}
    for ns, scope, name in names:
        if ns == 0:
            # the file name: the user declares the module (`mod r#type;` is possible), so only the identifier grammar is judged
            if not IDENT_RE.match(name):
                fails.append(("ident_illegal", "module name `%s`" % name))
            continue
        if ns == 7:
            pr = ident_problem(name)
            if pr:
                fails.append(("keyword_module_path" if pr.startswith("keyword_not_escaped") else pr, "module `%s` in the path of an import" % name))
            continue
        if ns == 6:
            # an imported name is only judged as an identifier; it may legally coincide with nothing local
            pr = ident_problem(name)
            if pr:
                fails.append((pr, "imported name `%s`" % name))
            key = (1, scope, name)
        else:
            pr = ident_problem(name)
            if pr == "keyword_not_escaped:Self" and ns in (1, 2, 4):
                pr = "variant_named_Self"      # the item/alternative `self` or the type `Self`: upper-cased into the keyword
            if pr:
                fails.append((pr, "%s name `%s` in scope `%s`" % (NS_NAME.get(ns, ns), name, scope)))
            key = (ns, scope, name[2:] if name.startswith("r#") else name)
        if key in seen:
            fails.append(("ident_collision:" + NS_NAME.get(ns, str(ns)), "%s name `%s` is emitted twice in scope `%s`" % (NS_NAME.get(ns, ns), name, scope)))
        seen[key] = True
    for scope, name, ty, val in consts:
        if ty in INT_TYPES:
            v = val.replace("_", "")
            if re.fullmatch(r"-?\d+", v):
                lo, hi = INT_TYPES[ty]
                if int(v) < 0 and lo == 0:
                    fails.append(("const_negative_on_unsigned", "const %s: %s = %s in `%s`" % (name, ty, val, scope)))
                elif not lo <= int(v) <= hi:
                    fails.append(("const_literal_out_of_range", "const %s: %s = %s in `%s`" % (name, ty, val, scope)))
            else:
                fails.append(("const_type_mismatch", "const %s: %s = %s in `%s`" % (name, ty, val, scope)))
        elif ty.startswith("Option<") and re.fullmatch(r"-?[\d_]+", val):
            # `pub const B_X: Option<u8> = 1;` (named number of an extension addition before /repo fd1f3f1)
            fails.append(("const_type_mismatch", "const %s: %s = %s in `%s`" % (name, ty, val, scope)))
        elif ty == "bool" and val not in ("true", "false"):
            fails.append(("const_type_mismatch", "const %s: %s = %s in `%s`" % (name, ty, val, scope)))
        elif ty == "&'static str":
            if not (val.startswith('"') and val.endswith('"')) or '"' in val[1:-1]:
                fails.append(("const_type_mismatch", "const %s: %s = %s in `%s`" % (name, ty, val, scope)))
            elif "\\" in val:
                # an ASN.1 cstring has no escapes: a backslash must arrive as `\\\\` in the Rust literal, a bare one changes the value
                fails.append(("string_literal_not_escaped", "const %s: %s = %s in `%s`" % (name, ty, val, scope)))
        elif ty.startswith("&'static [") and not val.startswith("&["):
            fails.append(("const_type_mismatch", "const %s: %s = %s in `%s`" % (name, ty, val, scope)))
    # every `self.<ident>` in an accessor / function body names a declared field of that struct (its escaped spelling)
    fields = {}
    for ns, scope, name in names:
        if ns == 3:
            fields.setdefault(scope, set()).add(name[2:] if name.startswith("r#") else name)
    for scope, ident in accesses:
        if scope in fields and ident not in fields[scope]:
            fails.append(("accessor_names_undeclared_field", "`self.%s` in an impl of `%s`, whose fields are %s" % (ident, scope, sorted(fields[scope]))))
    out = []
    seen = set()
    for c, t in fails:
        if c not in seen:
            seen.add(c)
            out.append((c, t))
    return out


def seeded_zoo(seed, n):
    """thorough: modules of the C08 grammar whose names are drawn from the identifier pool"""
    import random
    rng = random.Random(seed * 7919 + 13)
    g = Gen(rng)
    pool = LOWER_KW + VARIANTS + [x for p in COLLIDING for x in p]
    Z = []

    def rename(ty):
        k = ty[0]
        if k in ("seq", "set"):
            for c in ty[1]:
                if rng.random() < 0.3:
                    c[0] = rng.choice(pool)
                rename(c[2])
        elif k == "choice":
            for a in ty[1]:
                if rng.random() < 0.3:
                    a[0] = rng.choice(pool)
                rename(a[2])
        elif k == "enum":
            for it in ty[1]:
                if rng.random() < 0.3:
                    it[0] = rng.choice(pool)
        elif k in ("seqof", "setof"):
            rename(ty[2])
    for i in range(n):
        m = g.module()
        if rng.random() < 0.6:
            for d in m["defs"]:
                rename(d[2])
        Z.append(("seeded:%d" % i, render_module(m, with_desc=False)))
    return Z


SPEC = C09()
