"""C14 -- the front end is total: malformed text gives an error, not a panic or hang.

Op (harness/a1h/src/parse.rs, coq/Extract/OpsParse.v):
  3303 flags <code point>...     tokenizer -> parser -> resolver -> to_rust [-> to_protobuf if flags&1]
                                 [-> code generators if flags&2: outside the property, recorded as information only]
       answer = (stage outcome)*   stage 0 tokenizer 1 parser 2 resolver 3 to_rust 4 to_protobuf 5/6 generators
                outcome 0 | 1 kind hastok line column len | 2 class file line msg | -1 (stage not compiled in)
       `3 31` = the harness child was killed after the chunk timeout (hang), `3 32` = it died (stack overflow/abort)

ORACLE (independent of the model): no panic at any stage except the tokenizer's documented panic for an
unterminated block comment -- decided here from the text alone (`ends_inside_block_comment`); no hang, no abort;
a parse error other than MissingModuleName / UnexpectedEndOfStream carries a token, and that token lies in the text
at the reported line/column.  Every distinct panic site gets its own class:
`panic_<stage>_<source file>_<message class>`; an abort is classified by a syntactic trigger recognised in the text.
"""
import re

from vlib import Spec
import C07

STAGE = {0: "tokenizer", 1: "parser", 2: "resolver", 3: "to_rust", 4: "to_protobuf", 5: "rust_codegen", 6: "proto_codegen"}
FILES = {0: "unknown", 1: "tokenizer_rs", 2: "asn_model_rs", 3: "asn_mod_rs", 4: "size_rs", 5: "integer_rs", 6: "components_rs",
         7: "choice_rs", 8: "enumerated_rs", 9: "resolve_scope_rs", 10: "tag_resolver_rs", 11: "rust_rs", 12: "protobuf_rs",
         13: "generate_rust_rs", 14: "generate_protobuf_rs", 15: "walker_rs", 16: "inner_type_constraints_rs", 90: "std", 99: "other"}
MSGS = {0: "other", 1: "unclosed_comment", 2: "index_out_of_bounds", 3: "str_char_boundary", 4: "slice_range", 5: "arithmetic_overflow",
        6: "unwrap_none_or_err", 7: "missing_tag", 8: "invalid_string_literal"}

KEYWORDS = ["DEFINITIONS", "AUTOMATIC", "TAGS", "BEGIN", "END", "IMPORTS", "FROM", "SEQUENCE", "SET", "OF", "CHOICE", "ENUMERATED",
            "INTEGER", "BOOLEAN", "NULL", "OCTET", "BIT", "STRING", "UTF8String", "IA5String", "NumericString", "PrintableString",
            "VisibleString", "SIZE", "OPTIONAL", "DEFAULT", "MIN", "MAX", "TRUE", "FALSE", "WITH", "COMPONENTS", "PRESENT", "ABSENT",
            "UNIVERSAL", "APPLICATION", "PRIVATE", "EXPLICIT", "IMPLICIT", "H", "B"]
PUNCT = ["::=", "..", "...", "{", "}", "(", ")", "[", "]", ",", ";", ":", "=", ".", "'", '"', "--", "/*", "*/", "-", "|", "!", "^", "@", "<", ">"]
IDENTS = ["A", "B", "Foo", "Bar-Baz", "x", "y", "abc", "a-b", "Module", "X_Module", "end", "Integer", "T1"]
NUMBERS = ["0", "1", "5", "-1", "255", "65536", "9223372036854775807", "9223372036854775808", "-9223372036854775808",
           "-9223372036854775809", "18446744073709551615", "18446744073709551616", "340282366920938463463374607431768211456",
           "+5", "-", "--5", "0x10", "1e5", "007", "-0"]
CHARS = list(" \n\t\r(){}[],.;:='\"-/*") + ["a", "Z", "0", "9", "_", "\x00", "\x7f", "\x0b", "é", "€", "\U0001F600", "٠", " ",
                                              " ", "\u0085"]
VOCAB = KEYWORDS + PUNCT * 2 + IDENTS + NUMBERS

HAND = [
    "M DEFINITIONS AUTOMATIC TAGS ::= BEGIN A ::= SEQUENCE { x INTEGER (0..255), y BOOLEAN DEFAULT TRUE, ..., z UTF8String (SIZE(1..4)) OPTIONAL } END",
    "M { iso(1) 2 name } DEFINITIONS ::= BEGIN IMPORTS A, b FROM X { 1 2 } C FROM Y; D ::= CHOICE { a A, c [1] C, ... } v INTEGER ::= 5 END",
    "M DEFINITIONS ::= BEGIN E ::= ENUMERATED { a(1), b, ..., c(7) } B ::= BIT STRING { f(0), g(1) } (SIZE(2..8,...)) END",
    "M DEFINITIONS ::= BEGIN S ::= SEQUENCE { a OCTET STRING DEFAULT 'ABCD'H, b BIT STRING DEFAULT '0101'B, c IA5String DEFAULT \"a b\", d E DEFAULT x } E ::= ENUMERATED { x, y } END",
    "M DEFINITIONS ::= BEGIN S ::= SEQUENCE (SIZE(1..MAX)) OF SET SIZE(3) OF INTEGER { one(1) } (MIN..lim, ...) lim INTEGER ::= 9 END",
    "M DEFINITIONS ::= BEGIN R ::= T (WITH COMPONENTS { ..., a (0..5) PRESENT, b ABSENT }) T ::= SEQUENCE { a INTEGER OPTIONAL, b NULL OPTIONAL } END",
    "M DEFINITIONS ::= BEGIN /* block /* nested */ comment */ A ::= [APPLICATION 2] SET { ... , x [PRIVATE 3] NULL } -- line\n END",
    "M DEFINITIONS ::= BEGIN Expr ::= SEQUENCE { l CHOICE { n INTEGER, e Expr2 } } Expr2 ::= SEQUENCE OF Expr END",
    "M DEFINITIONS ::= BEGIN IMPORTS lim, Colour FROM N; A ::= SEQUENCE { x INTEGER (0..lim), c Colour DEFAULT red } END",
    "M DEFINITIONS ::= BEGIN IMPORTS lim FROM M; A ::= INTEGER (0..lim) lim INTEGER ::= 5 END",
]


# ------------------------------------------------------------------ text analysis used by the oracle

def ends_inside_block_comment(text):
    """the lexical rule of the documented panic: line comments `--` only outside block comments, `/*` nests"""
    nest = 0
    for line in re.split(r"\r\n|\n", text):
        i = 0
        n = len(line)
        while i < n:
            two = line[i:i + 2]
            if nest > 0:
                if two == "*/":
                    nest -= 1
                    i += 2
                elif two == "/*":
                    nest += 1
                    i += 2
                else:
                    i += 1
            elif two == "--":
                break
            elif two == "/*":
                nest += 1
                i += 2
            else:
                i += 1
    return nest > 0


def strip_comments(text):
    out = []
    nest = 0
    for line in re.split(r"\r\n|\n", text):
        i = 0
        n = len(line)
        while i < n:
            two = line[i:i + 2]
            if nest > 0:
                if two == "*/":
                    nest -= 1
                    i += 2
                elif two == "/*":
                    nest += 1
                    i += 2
                else:
                    i += 1
            elif two == "--":
                break
            elif two == "/*":
                nest += 1
                out.append(" ")
                i += 2
            else:
                out.append(line[i])
                i += 1
        out.append("\n")
    return "".join(out)


TOKEN_RE = re.compile(r"[:;=(){}.,\[\]'\"]|[^\s:;=(){}.,\[\]'\"]+")
KW = {k.lower() for k in KEYWORDS if len(k) > 1}


def simple_tokens(text):
    return TOKEN_RE.findall(strip_comments(text))


def recursive_untagged_reference(text):
    """syntactic trigger of the unbounded recursion of TagResolver: a cycle of definitions in which every step is an
    untagged definition that is (a) a bare type reference or (b) a CHOICE with an untagged alternative that is a bare
    type reference (possibly through nested untagged inline CHOICEs)"""
    toks = simple_tokens(text)
    # split into definitions  Name : : = body
    starts = [i for i in range(len(toks) - 3) if toks[i + 1:i + 4] == [":", ":", "="] and toks[i] not in SEP_SET]
    edges = {}
    for n, s in enumerate(starts):
        e = starts[n + 1] if n + 1 < len(starts) else len(toks)
        body = toks[s + 4:e]
        name = toks[s]
        if name in edges:
            continue            # the first definition of a name is the one that is found
        edges[name] = set(_edges_of(body))
    # cycle detection
    state = {}

    def visit(n):
        if state.get(n) == 1:
            return True
        if state.get(n) == 2 or n not in edges:
            return False
        state[n] = 1
        for m in edges[n]:
            if visit(m):
                return True
        state[n] = 2
        return False
    return any(visit(n) for n in list(edges))


SEP_SET = set(":;=(){}.,[]'\"")


def _edges_of(body):
    if not body or body[0] == "[":
        return []
    if body[0].lower() == "choice" and body[1:2] == ["{"]:
        return _choice_edges(body, 2)[0]
    if body[0].lower() not in KW and body[0] not in SEP_SET:
        return [body[0]]
    return []


def _choice_edges(body, i):
    """alternatives of a CHOICE body starting after its `{`; returns (edges, index after the closing `}`)"""
    out = []
    while i < len(body) and body[i] != "}":
        if body[i] == ".":
            i += 1
            continue
        if body[i] == ",":
            i += 1
            continue
        # alternative: name [tag]? type
        i += 1
        if i < len(body) and body[i] == "[":
            # tagged: skip to the end of the alternative
            depth = 0
            while i < len(body) and not (depth == 0 and body[i] in (",", "}")):
                depth += body[i] in "{(["
                depth -= body[i] in "})]"
                i += 1
            continue
        if i < len(body) and body[i].lower() == "choice" and body[i + 1:i + 2] == ["{"]:
            sub, i = _choice_edges(body, i + 2)
            out += sub
            continue
        if i < len(body) and body[i].lower() not in KW and body[i] not in SEP_SET:
            out.append(body[i])
        depth = 0
        while i < len(body) and not (depth == 0 and body[i] in (",", "}")):
            depth += body[i] in "{(["
            depth -= body[i] in "})]"
            i += 1
    return out, i + 1


def imports_from_itself(text):
    """syntactic trigger of the unbounded recursion of ResolveScope::value_reference / definition: the module
    IMPORTS ... FROM its own name (the single-module scope of op 3303 contains only the module itself)"""
    toks = simple_tokens(text)
    if not toks:
        return False
    name = toks[0]
    for suf in ("_Module", "Module"):
        if name.endswith(suf):
            name = name[:len(name) - len(suf)]
    for i, t in enumerate(toks[:-1]):
        if t.upper() == "FROM":
            frm = toks[i + 1]
            for suf in ("_Module", "Module"):
                if frm.endswith(suf):
                    frm = frm[:len(frm) - len(suf)]
            if frm == name:
                return True
    return False


def token_in_text(text, line, col, ln, exact=True):
    lines = re.split(r"\r\n|\n", text)
    if text.endswith("\n"):
        lines = lines[:-1] if lines and lines[-1] == "" else lines
    if not (1 <= line <= len(lines)):
        return False
    s = lines[line - 1]
    if not (1 <= col <= len(s)):
        return False
    if exact and col - 1 + ln > len(s):
        return False
    return True


# ------------------------------------------------------------------ inputs

def mutate(rng, text):
    s = text
    for _ in range(rng.randint(1, 4)):
        toks = [(m.start(), m.end()) for m in re.finditer(r"::=|\.\.\.|\.\.|[:;=(){}.,\[\]'\"]|[^\s:;=(){}.,\[\]'\"]+", s)]
        k = rng.random()
        if not s:
            s = rng.choice(VOCAB)
            continue
        if k < 0.12:                                    # char deletion
            p = rng.randrange(len(s))
            s = s[:p] + s[p + 1:]
        elif k < 0.26:                                  # char insertion
            p = rng.randrange(len(s) + 1)
            s = s[:p] + rng.choice(CHARS) + s[p:]
        elif k < 0.34 and len(s) > 1:                   # char swap
            p = rng.randrange(len(s) - 1)
            s = s[:p] + s[p + 1] + s[p] + s[p + 2:]
        elif k < 0.42:                                  # truncation at a char
            s = s[:rng.randrange(len(s))]
        elif not toks:
            s = s + " " + rng.choice(VOCAB)
        elif k < 0.50:                                  # replacement by a token of the same category
            a, b = rng.choice(toks)
            t = s[a:b]
            if re.fullmatch(r"-?[0-9]+", t):
                new = rng.choice(NUMBERS)
            elif t in KEYWORDS:
                new = rng.choice(KEYWORDS)
            elif re.fullmatch(r"[A-Za-z][A-Za-z0-9_-]*", t):
                ids = [s[c:d] for c, d in toks if re.fullmatch(r"[A-Za-z][A-Za-z0-9_-]*", s[c:d]) and s[c:d] not in KEYWORDS]
                new = rng.choice(ids + IDENTS[:3])
            else:
                new = rng.choice(PUNCT)
            s = s[:a] + new + s[b:]
        elif k < 0.60:                                  # token deletion
            a, b = rng.choice(toks)
            s = s[:a] + s[b:]
        elif k < 0.76:                                  # token insertion
            a, b = rng.choice(toks)
            s = s[:a] + rng.choice(VOCAB) + " " + s[a:]
        elif k < 0.84:                                  # token replacement
            a, b = rng.choice(toks)
            s = s[:a] + rng.choice(VOCAB) + s[b:]
        elif k < 0.92 and len(toks) > 1:                # token swap
            i = rng.randrange(len(toks) - 1)
            (a, b), (c, d) = toks[i], toks[i + 1]
            s = s[:a] + s[c:d] + s[b:c] + s[a:b] + s[d:]
        elif k < 0.97:                                  # truncation at a token
            a, b = rng.choice(toks)
            s = s[:a] if rng.random() < 0.5 else s[:b]
        else:                                           # token duplication
            a, b = rng.choice(toks)
            s = s[:b] + " " + s[a:b] + s[b:]
    return s


def soup(rng):
    n = rng.choice([1, 2, 3, 5, 8, 13, 20, 40])
    toks = [rng.choice(VOCAB) for _ in range(n)]
    k = rng.random()
    if k < 0.5:
        toks = ["M", "DEFINITIONS", "::=", "BEGIN"] + toks + (["END"] if rng.random() < 0.5 else [])
    elif k < 0.7:
        toks = ["M", "DEFINITIONS", "::=", "BEGIN", "A", "::=", rng.choice(["SEQUENCE", "SET", "CHOICE", "ENUMERATED", "INTEGER"]),
                rng.choice(["{", "(", ""])] + toks
    return rng.choice([" ", " ", "\n", ""]).join(toks) if rng.random() < 0.2 else " ".join(toks)


def line_3303(flags, text):
    return "3303 %d %s" % (flags, " ".join(str(ord(c)) for c in text))


def parse_answer(out):
    """-> list of (stage, outcome tuple)"""
    o = [int(x) for x in out.split()]
    res = []
    p = 0
    while p < len(o):
        st = o[p]
        k = o[p + 1]
        if k == 0 or k == -1:
            res.append((st, (k,)))
            p += 2
        elif k == 1:
            res.append((st, tuple(o[p + 1:p + 7])))
            p += 7
        elif k == 2:
            res.append((st, tuple(o[p + 1:p + 6])))
            p += 6
        else:
            raise ValueError(out)
    return res


class C14(Spec):
    prop = "C14"
    coq_targets = ["Props/C14.vo"]
    prop_module = "Props.C14"
    theorems = ["C14_lex_total_partial", "C14_parse_total_partial", "C14_safe_means", "C14_parse_total", "C14_parse_total_default_fuel", "C14_error_carries_token", "C14_lex_parse_total", "C14_resolve_total", "C14_resolve_total_outside_class", "C14_cyclic_import_never_resolves", "C14_import_lookup_fuel_exact", "C14_tag_resolution_total", "C14_cyclic_b_iff", "C14_tag_fuel_bound", "C14_front_end_total", "C14_front_end_outcomes", "C14_op_3303_crash", "C14_cyclic_import_diverges", "C14_untagged_choice_cycle_diverges", "C14_class_wider_than_divergence_on_short_circuit", "C14_nonvacuous_two_hop_import_chain", "C14_literal_panics_unreachable", "C14_fuel_length_plus_1_insufficient", "C14_invalid_literal_token_is_synthesised", "C14_refuted_to_rust_unbounded_recursion_on_recursive_untagged_type",
                "C14_refuted_resolver_unbounded_recursion_on_cyclic_import"]
    MODEL_OPS = {3303}
    builds = [("default", "dev"), ("default", "release"), ("protobuf", "dev")]
    level_text = ('Every input is pushed through the real tokenizer, parser, resolver, to_rust and (protobuf build) to_protobuf, '
                  'each stage under catch_unwind, the child process under a time limit; the Gallina model (tokenizer, parser, '
                  'resolver, and the TagResolver recursion of to_rust with divergence as an outcome) predicts the outcome class '
                  'of every stage incl. error kind and token position, and is compared on every ASCII input (non-ASCII inputs: '
                  'char::is_numeric is outside the model, comparison vacuous, oracle still applied). Theorems '
                  '(Front/{LexProofs,ParseTotalProofs}.v): the tokenizer model never returns an error and panics only with the '
                  'unclosed-comment panic! or the i32 overflow of the nesting counter; C14_parse_total: for EVERY token list the '
                  'whole parser model (module header, imports, definitions, the mutual type grammar, literals, WITH COMPONENTS) '
                  'never panics and never runs out of fuel once fuel >= 2*length+4 (so every loop consumes a token: no '
                  'non-termination), C14_lex_parse_total composes both, C14_error_carries_token: every error carries a token of '
                  'the input (or the synthesised literal token at an input position). C14_resolve_total / C14_tag_resolution_total / '
                  'C14_front_end_total (Front/ResolveTotalProofs.v): the resolver and the tag-resolution recursion of to_rust never panic and '
                  'diverge exactly in two syntactic classes (cyclic import of an undefined name; untagged CHOICE / reference cycle, decidable '
                  'cyclic_b), with explicit fuel bounds and vm_compute witnesses; the rest of to_rust and to_protobuf are covered by the tie and '
                  'the process supervisor.')
    rule = ("valid modules (the C07 generator, nesting <= 5, and hand-written ones) mutated by 1..4 character/token deletions, "
            "insertions (ASCII, control and non-ASCII characters; the ASN.1 vocabulary), swaps, replacements, duplications and "
            "truncations; token soups from the ASN.1 vocabulary (bare and behind a module header); the unmutated modules. "
            "non-trivial = the parser was reached and consumed the module header (an error after it, or a model); distinct = "
            "distinct case line")
    assumptions_text = ["panic sites are identified by the file/line/message of the panic hook (harness/a1h/src/parse.rs)",
                        "a hang is observed as the chunk timeout of the harness child; stack depth is that of the main thread (8 MiB)"]
    xcheck_n = 30
    timeout_per_chunk = 120

    def __init__(self):
        self._last = None
        self.info = {}

    def model_line(self, line, build):
        a = line.split()
        if int(a[0]) not in self.MODEL_OPS or any(int(x) > 127 for x in a[2:]):
            return "3399"       # not modelled (non-ASCII text: char::is_numeric): the model answers -1, see canon()
        return line

    def canon(self, out):
        # see C07.canon: vacuous only where the Coq model does not answer (its answer is "-1")
        if out == "-1":
            return self._last
        if not (out.startswith("3 ") or out.startswith("-")):
            # the panic site (file, line, message class) is information for the oracle, not part of the tie;
            # the code generators (stages 5, 6) are outside the property and not modelled
            try:
                res = []
                for st, oc in parse_answer(out):
                    if st >= 5:
                        continue
                    if oc[0] == 2:
                        oc = (2, oc[1], 0, 0, 0)
                    res.append(str(st))
                    res += [str(x) for x in oc]
                out = " ".join(res)
            except Exception:
                pass
        self._last = out
        return out

    def applies(self, line, build):
        flags = int(line.split(None, 2)[1])
        return bool(flags & 1) == (build[0] == "protobuf")

    def gen(self, rng, tier):
        n = 12000 if tier == "quick" else 1000000
        max_aborts = 4 if tier == "quick" else 2000     # every abort of the harness child costs the runner a restart
        texts = []
        bases = list(HAND)
        for i in range(150 if tier == "quick" else 3000):
            g = C07.Gen(rng, special=0.05 if i % 2 else 0.0, max_depth=rng.choice([2, 3, 4]))
            A = g.module()
            t = C07.layout(rng, C07.atoms(A))
            # a base whose conversion aborts the process makes most of its mutants abort too; every abort costs the
            # runner a restart, so only a few such bases are kept (the class is in the corpus anyway)
            if recursive_untagged_reference(t) and (tier == "quick" or rng.random() < 0.85):
                continue
            bases.append(t)
        texts += bases
        while len(texts) < n:
            k = rng.random()
            if k < 0.8:
                texts.append(mutate(rng, rng.choice(bases)))
            else:
                texts.append(soup(rng))
        # extreme but well-formed nesting (stack depth of the recursive descent; DESIGN.md C14 limits)
        for depth in (200, 2000):
            texts.append("M DEFINITIONS ::= BEGIN A ::= " + "SEQUENCE OF " * depth + "INTEGER END")
            texts.append("M DEFINITIONS ::= BEGIN A ::= " + "SEQUENCE { a " * depth + "NULL" + " }" * depth + " END")
        # inputs on which the (classified) unbounded recursions are expected: only a few are kept
        kept = []
        aborts = 0
        for t in texts:
            if recursive_untagged_reference(t) or imports_from_itself(t):
                aborts += 1
                if aborts > max_aborts:
                    continue
            kept.append(t)
        texts = kept
        L = []
        for i, t in enumerate(texts):
            info = 2 if i % 10 == 0 else 0
            L.append(line_3303(info, t))
            L.append(line_3303(info | 1, t))
        return L

    def oracle(self, line, out, build):
        a = line.split()
        if a[0] != "3303":
            return None
        try:
            text = "".join(chr(int(x)) for x in a[2:])
        except ValueError:
            return None
        short = text if len(text) <= 400 else text[:400] + "..."
        o = out.split()
        if o[:1] == ["3"]:
            if o[1:2] == ["31"]:
                return [("front_end_hang", "no answer within the time limit on: %r" % short)]
            if recursive_untagged_reference(text):
                return [("to_rust_unbounded_recursion_on_recursive_untagged_type",
                         "the process died (stack overflow in TagResolver::resolve_tag <-> resolve_type_tag) on a module whose "
                         "untagged type references / CHOICE alternatives form a cycle: %r" % short)]
            if imports_from_itself(text):
                return [("resolver_unbounded_recursion_on_cyclic_import",
                         "the process died (stack overflow in ResolveScope::value_reference/definition) on a module that IMPORTS a "
                         "name it does not define FROM itself: %r" % short)]
            if text.count("SEQUENCE OF") >= 1000 or text.count("SEQUENCE {") >= 1000:
                return [("stack_overflow_on_deep_nesting", "the process died on %d-fold nesting" % max(text.count("SEQUENCE OF"), text.count("SEQUENCE {")))]
            return [("front_end_crash_abort", "the process died on: %r" % short)]
        if o[:1] in (["-1"], ["-2"]):
            return None
        try:
            stages = parse_answer(out)
        except Exception:
            return [("malformed_answer", out[:200])]
        fails = []
        for st, oc in stages:
            if oc[0] == 2:
                _, cls, fid, pline, msg = oc
                name = "panic_%s_%s_%s" % (STAGE.get(st, "s%d" % st), FILES.get(fid, "f%d" % fid), MSGS.get(msg, "m%d" % msg))
                if st >= 5:
                    self.info[name] = self.info.get(name, 0) + 1
                    self.info.setdefault("example " + name, short[:300])
                    continue
                if st == 0:
                    if msg == 1 and ends_inside_block_comment(text):
                        continue                        # the sanctioned panic
                    name = "tokenizer_panic_outside_unterminated_comment" if msg == 1 else name
                fails.append((name, "stage %s panicked (class %d, line %d of the source file) on: %r" % (STAGE.get(st), cls, pline, short)))
            elif oc[0] == 1 and st == 1:
                _, kind, hastok, tl, tc, tn = oc
                if kind < 0:
                    fails.append(("parse_error_unknown_kind", "unclassified parse error on: %r" % short))
                elif kind in (5, 6):
                    if hastok:
                        fails.append(("parse_error_token_inconsistent", "kind %d with a token on: %r" % (kind, short)))
                elif not hastok:
                    fails.append(("parse_error_without_token", "error kind %d carries no token on: %r" % (kind, short)))
                elif not token_in_text(text, tl, tc, tn, exact=(kind != 14)):
                    fails.append(("parse_error_token_not_in_input", "error kind %d names a token at %d:%d (len %d) that is not in the text: %r" % (kind, tl, tc, tn, short)))
        return fails or None

    def nontrivial(self, line, out):
        o = out.split()
        # parser reached (stage 0 ok) and it did not fail on the very first token
        return o[:2] == ["0", "0"] and not (o[2:5] == ["1", "1", "5"])

    def extra_checks(self, ctx):
        if self.info:
            ctx.setdefault("notes_extra", []).append(
                "outside the property (code generators run on a 10% sample, flags&2): " +
                "; ".join("%s x%s" % (k, v) if not k.startswith("example ") else "%s: %r" % (k, v) for k, v in sorted(self.info.items())))


SPEC = C14()
