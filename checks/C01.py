from vlib import Spec
import uperlib as U


def big_lengths(q):
    return [127, 128, 16383, 16384, 16385, 65535, 65536, 81925] if q else \
        [127, 128, 129, 16383, 16384, 16385, 32767, 32768, 32769, 49152, 65535, 65536, 65537, 81920, 131071, 131072, 131073]


class C01(Spec):
    prop = "C01"
    coq_targets = ["Props/C01.vo"]
    prop_module = "Props.C01"
    theorems = ['C01_roundtrip', 'C01_roundtrip_reference', 'C01_writer_is_reference', 'C01_reader_inverts_reference', 'C01_sequence', 'C01_sequence_any_writer', 'C01_utf8_roundtrip', 'C01_octet_padding', 'C01_refuted_count_16k', 'C01_refuted_bitstring_16k', 'C01_refuted_open_type_16k', 'C01_refuted_size_F10_1']
    builds = [("default", "dev"), ("default", "release")]
    timeout_per_chunk = 600
    xcheck_n = 60
    level_text = ("Gallina model of the UPER writer/reader (Scope state machine, presence-bit back-patching, open-type wrapping, "
                  "every write_*/read_* of rw/uper.rs over the L1 primitives) with round-trip theorems; tied to the crate by "
                  "differential execution on random types of the constant grid (harness instantiates the real UperWriter/UperReader "
                  "with hand-rolled constraint impls), judged by the round-trip oracle.")
    rule = ("random types (depth <= 3 quick / <= 5 thorough) over the constant grid gen/uper_grid.py, weighted towards "
            "OPTIONAL/DEFAULT/extension/CHOICE/list nesting; values inside the root and, for extensible constraints, outside it; "
            "histories of 1-5 (type, value) pairs written into one writer and read back from one reader; plus size sweeps "
            "{127,128,16383,16384,16385,32768,65535,65536,65537,131072} for strings, octet/bit strings and lists; SIZE upper bounds at and "
            "around 65536 combined with lower bounds 0/1/2 on short values, alone and twice in one writer. "
            "non-trivial = encode succeeded with at least 1 bit; distinct = distinct case line")
    assumptions_text = ["descriptor constants are consistent with the field list (as the compiler derives them)",
                        "String/Vec allocation, from_utf8 and trait dispatch of descriptor/*.rs modelled, confronted only through the tie"]

    def gen(self, rng, tier):
        q = tier == "quick"
        L = []
        n = 2500 if q else 60000
        maxd = 3 if q else 5
        for _ in range(n):
            k = rng.choice([1, 1, 1, 2, 3, 5])
            ints = [k]
            for _ in range(k):
                t = U.gen_ty(rng, rng.randrange(0, maxd + 1))
                v = U.gen_val(rng, t, rng.choice(["valid", "valid", "ext"]))
                ints += U.enc_ty(t) + U.enc_val(v)
            if len(ints) < 60000:
                L.append(U.line(1201, ints))
        # size sweeps
        for ln in big_lengths(q):
            for key in [(-1, -1, False), (-1, -1, True), (0, 65535, False), (1, 70000, False), (0, 3, True)]:
                if not U.in_size(ln, key) and not key[2]:
                    continue
                cands = [("oct", key), ("bits", key), ("str", U.CS_IA5, key), ("str", U.CS_UTF8, key), ("str", U.CS_NUM, key)]
                if ln <= 70000:
                    cands.append(("list", ("bool",), key))
                    cands.append(("list", ("int", 0, (True, 0, True, 7, False)), key))
                for t in cands:
                    if q and ln > 16385 and t[0] in ("str", "list") and key != (-1, -1, False):
                        continue
                    if q and ln > 65536 and not (t[0] == "oct" and key == (-1, -1, False)):
                        continue
                    if t[0] == "oct":
                        v = ("oct", [(7 * i + 3) % 256 for i in range(ln)])
                    elif t[0] == "bits":
                        nb = (ln + 7) // 8
                        bs = [(11 * i + 5) % 256 for i in range(nb)]
                        if ln % 8:
                            bs[-1] &= (0xFF << (8 - ln % 8)) & 0xFF
                        v = ("bits", bs, ln)
                    elif t[0] == "str":
                        v = ("str", [48 + (i % 10) for i in range(ln)])
                    else:
                        v = ("list", [("bool", i % 3 == 0) if t[1][0] == "bool" else ("int", i % 8) for i in range(ln)])
                    # followed by a second value to check exact consumption
                    ints = [2] + U.enc_ty(t) + U.enc_val(v) + U.enc_ty(("int", 0, (True, 0, True, 255, False))) + U.enc_val(("int", 0xA5))
                    L.append(U.line(1201, ints))
        # the 64K line of the length determinant: upper bounds at and around 65536 combined with a lower bound, short values
        for key in [(0, 65536, False), (1, 65536, False), (2, 65536, False), (0, 65537, False), (1, 65537, False),
                    (2, 65535, False), (1, 65535, False), (1, 65536, True), (2, 65536, True)]:
            for ln in sorted({max(2 * key[0], 1), 2 * key[0] + 1, 5, 11, 300}):
                if not U.in_size(ln, key):
                    continue
                for t in [("oct", key), ("bits", key), ("str", U.CS_IA5, key), ("list", ("bool",), key)]:
                    if t[0] == "oct":
                        v = ("oct", [(7 * i + 3) % 256 for i in range(ln)])
                    elif t[0] == "bits":
                        nb = (ln + 7) // 8
                        bs = [(11 * i + 5) % 256 for i in range(nb)]
                        if ln % 8:
                            bs[-1] &= (0xFF << (8 - ln % 8)) & 0xFF
                        v = ("bits", bs, ln)
                    elif t[0] == "str":
                        v = ("str", [97 + (i % 26) for i in range(ln)])
                    else:
                        v = ("list", [("bool", i % 3 == 0) for i in range(ln)])
                    # alone, and twice in one writer followed by a sentinel (the second value must start where the first ends)
                    L.append(U.line(1201, [1] + U.enc_ty(t) + U.enc_val(v)))
                    L.append(U.line(1201, [3] + (U.enc_ty(t) + U.enc_val(v)) * 2 +
                                    U.enc_ty(("int", 0, (True, 0, True, 255, False))) + U.enc_val(("int", 0xA5))))
        return L

    def canon(self, out):
        if out.startswith("3 ") or out.endswith(" 2 7") or out.endswith(" 2 3") or out == "2 7":
            return "UNBOUNDED"
        return out

    def parse_case(self, line):
        a = list(map(int, line.split()))
        return a

    def oracle(self, line, out, build):
        o = list(map(int, out.split()))
        if o[0] in (2, 3):
            return (self._cls(line, "encode_panics"), "encoder panicked/crashed: %s" % out[:40])
        if o[0] == 1:
            return None     # encoding failed with an error: C01 makes no claim (C06 judges rejections)
        bit_len, nb = o[1], o[2]
        i = 3 + nb
        vals = self._values(line)
        for j, want in enumerate(vals):
            if i >= len(o):
                return (self._cls(line, "decode_missing"), "no answer for value %d" % j)
            if o[i] != 0:
                return (self._cls(line, "decode_fails"), "decoding value %d of %d gave %s" % (j, len(vals), o[i:i + 2]))
            try:
                got, i = U.dec_val(o, i + 1)
            except Exception as e:
                return ("malformed_answer", str(e))
            if not U.veq(got, want):
                return (self._cls(line, "decode_differs"), "value %d decoded to %s, wrote %s" % (j, str(got)[:80], str(want)[:80]))
        if o[i:i + 2] != [0, 0]:
            return (self._cls(line, "bits_left_over"), "remaining bits after reading everything back: %s" % o[i:i + 2])
        return None

    def _values(self, line):
        import dectype
        a = list(map(int, line.split()))
        k = a[1]
        i = 2
        vals = []
        self._last_types = []
        for _ in range(k):
            t, i = dectype.dec_ty(a, i)
            v, i = U.dec_val(a, i)
            vals.append(v)
            self._last_types.append((t, v))
        return vals

    def _cls(self, line, what):
        import dectype
        # narrow classes for the known deviations (DESIGN section 11)
        self._values(line)
        for t, v in self._last_types:
            if self._big_open_type(t, v):
                return "open_type_16k_" + what
            if dectype.find(t, v, lambda tt, vv: tt[0] == "bits" and vv is not None and vv[2] >= 16384 and
                            not (0 <= tt[1][1] < 65536 and U.in_size(vv[2], tt[1]))):
                return "bitstring_16k_" + what
            if dectype.find(t, v, lambda tt, vv: tt[0] in ("list", "str") and vv is not None and len(vv[1]) >= 16384 and
                            (tt[0] == "list" or tt[1] != U.CS_UTF8) and
                            not (0 <= tt[2][1] < 65536 and U.in_size(len(vv[1]), tt[2]))):
                return "unfragmented_16k_" + what
        return what

    def _big_open_type(self, t, v):
        """an extension addition or extension alternative whose content holds >= ~16K octets"""
        import dectype
        hit = []

        def octets(tt, vv):
            if vv is None:
                return 0
            if tt[0] in ("oct",):
                return len(vv[1])
            if tt[0] == "str":
                return len(vv[1]) * (1 if tt[1] != U.CS_NUM else 0.5)
            if tt[0] == "bits":
                return vv[2] / 8
            if tt[0] == "list":
                return sum(octets(tt[1], x) for x in vv[1][:4]) * max(1, len(vv[1]) / 4) + len(vv[1]) / 8
            if tt[0] == "seq":
                return sum(octets(ft, x) for (_, _, ft), x in zip(tt[1], vv[1]))
            if tt[0] == "choice":
                return octets(tt[1][vv[1]], vv[2]) if vv[1] < len(tt[1]) else 0
            return 1

        def f(tt, vv, path):
            if not path or vv is None:
                return
            last = path[-1]
            open_type = (last[0] == "alt" and last[1] >= last[2][0]) or \
                        (last[0] == "field" and last[3][2] >= 0 and last[1] > last[3][2])
            if open_type and octets(tt, vv) >= 14000:
                hit.append(1)
        dectype.walk(t, v, f)
        return bool(hit)

    def nontrivial(self, line, out):
        o = out.split()
        return o[:1] == ["0"] and o[1] != "0"


SPEC = C01()
